import J5V.Compile.Strcase
/-!
# Lemmas about the strcase model

The central question (C17): `sourcewalk/entity.go` names the State / Event / EventType objects
`ToCamel(name ++ suffix)` but refers to them as `ToCamel(name) ++ ToCamel(suffix)`. The two routes
agree exactly when the entity name does not end in a capital letter.
-/
namespace J5V.Compile

/-- no ASCII white space anywhere (every BCL identifier satisfies this) -/
def NoSpace (s : Str) : Prop := ∀ c ∈ s, isSpace c = false

instance (s : Str) : Decidable (NoSpace s) := by unfold NoSpace; infer_instance

theorem trimLeft_noSpace (s : Str) (h : NoSpace s) : trimLeft s = s := by
  cases s with
  | nil => rfl
  | cons v rest =>
    have : isSpace v = false := h v (by simp)
    simp [trimLeft, this]

theorem noSpace_reverse (s : Str) (h : NoSpace s) : NoSpace s.reverse := by
  intro c hc; exact h c (by simpa using hc)

theorem trimSpace_noSpace (s : Str) (h : NoSpace s) : trimSpace s = s := by
  unfold trimSpace
  rw [trimLeft_noSpace s h, trimLeft_noSpace _ (noSpace_reverse s h), List.reverse_reverse]

theorem noSpace_append (a b : Str) (ha : NoSpace a) (hb : NoSpace b) : NoSpace (a ++ b) := by
  intro c hc
  rcases List.mem_append.mp hc with h | h
  · exact ha c h
  · exact hb c h

/-- loop state `(first, capNext, prevIsCap)` of `toCamelInitCase` after consuming a string -/
def camelEnd : Bool → Bool → Bool → Str → Bool × Bool × Bool
  | f, cn, pc, [] => (f, cn, pc)
  | _, _, _, v :: rest =>
    if isCap v || isLow v then camelEnd false false (isCap v) rest
    else if isNum v then camelEnd false true false rest
    else camelEnd false (isSep v) false rest

/-- one step of the loop state: `(capNext, prevIsCap)` after byte `v` -/
def camelStep (v : Nat) : Bool × Bool :=
  if isCap v || isLow v then (false, isCap v)
  else if isNum v then (true, false)
  else (isSep v, false)

theorem camelEnd_cons (f cn pc : Bool) (v : Nat) (rest : Str) :
    camelEnd f cn pc (v :: rest) = camelEnd false (camelStep v).1 (camelStep v).2 rest := by
  by_cases h1 : (isCap v || isLow v) = true <;> by_cases h2 : isNum v = true <;>
    simp [camelEnd, camelStep, h1, h2]

theorem camelGo_append (a b : Str) (f cn pc : Bool) :
    camelGo f cn pc (a ++ b) =
      camelGo f cn pc a ++
        camelGo (camelEnd f cn pc a).1 (camelEnd f cn pc a).2.1 (camelEnd f cn pc a).2.2 b := by
  induction a generalizing f cn pc with
  | nil => simp [camelGo, camelEnd]
  | cons v rest ih =>
    by_cases h1 : (isCap v || isLow v) = true <;> by_cases h2 : isNum v = true <;>
      simp [camelGo, camelEnd, h1, h2, ih]

/-- is the last byte a capital letter -/
def lastIsCap (s : Str) : Bool :=
  match s.getLast? with
  | some l => isCap l
  | none => false

theorem lastIsCap_cons_cons (v w : Nat) (r : Str) :
    lastIsCap (v :: w :: r) = lastIsCap (w :: r) := by
  simp [lastIsCap, List.getLast?_cons_cons]

theorem isCap_not_low (v : Nat) (h : isCap v = true) : isLow v = false := by
  unfold isCap at h; unfold isLow; simp at h ⊢; omega

theorem isCap_not_num (v : Nat) (h : isCap v = true) : isNum v = false := by
  unfold isCap at h; unfold isNum; simp at h ⊢; omega

theorem camelStep_snd (v : Nat) : (camelStep v).2 = isCap v := by
  unfold camelStep
  by_cases hc : isCap v = true
  · simp [hc]
  · have hc' : isCap v = false := by simpa using hc
    by_cases h1 : isLow v = true <;> by_cases h2 : isNum v = true <;> simp [hc', h1, h2]

theorem camelStep_fst_of_cap (v : Nat) (h : isCap v = true) : (camelStep v).1 = false := by
  simp [camelStep, h]

theorem camelEnd_first (s : Str) (f cn pc : Bool) (hs : s ≠ []) : (camelEnd f cn pc s).1 = false := by
  induction s generalizing f cn pc with
  | nil => exact absurd rfl hs
  | cons v rest ih =>
    rw [camelEnd_cons]
    cases rest with
    | nil => rfl
    | cons w r => exact ih _ _ _ (by simp)

theorem camelEnd_prevIsCap (s : Str) (f cn pc : Bool) (hs : s ≠ []) :
    (camelEnd f cn pc s).2.2 = lastIsCap s := by
  induction s generalizing f cn pc with
  | nil => exact absurd rfl hs
  | cons v rest ih =>
    rw [camelEnd_cons]
    cases rest with
    | nil => simp [camelEnd, lastIsCap, camelStep_snd]
    | cons w r => rw [lastIsCap_cons_cons]; exact ih _ _ _ (by simp)

/-- when `prevIsCap` is set, `capNext` is not (a capital is a letter) -/
theorem camelEnd_capNext_of_cap (s : Str) (f cn pc : Bool) (hs : s ≠ [])
    (h : lastIsCap s = true) : (camelEnd f cn pc s).2.1 = false := by
  induction s generalizing f cn pc with
  | nil => exact absurd rfl hs
  | cons v rest ih =>
    rw [camelEnd_cons]
    cases rest with
    | nil =>
      simp only [lastIsCap, List.getLast?_singleton] at h
      simp [camelEnd, camelStep_fst_of_cap v h]
    | cons w r => rw [lastIsCap_cons_cons] at h; exact ih _ _ _ (by simp) h

/-- A suffix that `toCamelInitCase` leaves alone once its leading capital has been emitted:
`State`, `Event`, `EventType`, `Keys`, `Data`, `Status`, … -/
def CapWord (suf : Str) : Prop :=
  match suf with
  | [] => False
  | c :: rest => isCap c = true ∧ camelGo false false true rest = rest ∧ NoSpace (c :: rest)

instance (suf : Str) : Decidable (CapWord suf) := by
  unfold CapWord; cases suf <;> infer_instance

/-- emitting a cap-word from a state whose `prevIsCap` is clear reproduces it (`first` only
occurs together with `capNext`: that is `ToCamel`, not `ToLowerCamel`) -/
theorem camelGo_capWord (suf : Str) (h : CapWord suf) (f cn : Bool) (hf : f = false ∨ cn = true) :
    camelGo f cn false suf = suf := by
  cases suf with
  | nil => exact h.elim
  | cons c rest =>
    obtain ⟨hc, hr, _⟩ := h
    have hl := isCap_not_low c hc
    rcases hf with hf | hf
    · subst hf; cases cn <;> simp [camelGo, hc, hl, hr]
    · subst hf; cases f <;> simp [camelGo, hc, hl, hr]

/-- …and from a state with `prevIsCap` set (and therefore `capNext` clear, not first) its first
byte is lower-cased -/
theorem camelGo_capWord_after_cap (c : Nat) (rest : Str) (hc : isCap c = true) :
    camelGo false false true (c :: rest) = (c + 32) :: camelGo false false true rest := by
  have hl := isCap_not_low c hc
  simp [camelGo, hc]

/-- **The two naming routes of `entity.go`.** For a name without white space and a cap-word
suffix, `ToCamel(name ++ suffix) = ToCamel(name) ++ suffix` holds exactly when the name does not
end in a capital letter. -/
theorem toCamel_append_iff (n suf : Str) (hn : NoSpace n) (hs : CapWord suf) :
    toCamel (n ++ suf) = toCamel n ++ suf ↔ lastIsCap n = false := by
  cases suf with
  | nil => exact hs.elim
  | cons c rest =>
    have hsn : NoSpace (c :: rest) := hs.2.2
    unfold toCamel toCamelInit
    rw [trimSpace_noSpace _ (noSpace_append _ _ hn hsn), trimSpace_noSpace _ hn, camelGo_append]
    rw [List.append_cancel_left_eq]
    by_cases hne : n = []
    · subst hne
      simp only [camelEnd, lastIsCap, List.getLast?_nil, iff_true]
      exact camelGo_capWord _ hs true true (Or.inr rfl)
    · rw [camelEnd_prevIsCap n _ _ _ hne]
      cases hl : lastIsCap n with
      | false =>
        simp only [iff_true]
        exact camelGo_capWord _ hs _ _ (Or.inl (camelEnd_first n _ _ _ hne))
      | true =>
        rw [camelEnd_first n _ _ _ hne, camelEnd_capNext_of_cap n _ _ _ hne hl,
          camelGo_capWord_after_cap c rest hs.1]
        simp

theorem capWord_State : CapWord b!"State" := by decide
theorem capWord_Event : CapWord b!"Event" := by decide
theorem capWord_EventType : CapWord b!"EventType" := by decide

/-- `ToCamel` of a cap-word is the word itself (`componentName` applies `ToCamel` to the suffix) -/
theorem toCamel_capWord (suf : Str) (h : CapWord suf) : toCamel suf = suf := by
  cases suf with
  | nil => exact h.elim
  | cons c rest =>
    unfold toCamel toCamelInit
    rw [trimSpace_noSpace _ h.2.2]
    exact camelGo_capWord _ h true true (Or.inr rfl)

end J5V.Compile
