import J5V.Compile.ConvertProofs
/-!
# The schema-level conversion never panics (core only)

`WfCtx` says the resolver only hands out file names `ensureImport` accepts (non-empty, containing
`/`) — true of every `TypeRef` the package loader builds. Under it, `buildFieldNode`,
`buildField`, `buildProperty` and the property loop reach no panic arm, for any property list.
-/
namespace J5V.Compile

/-- `ensureImport` panics on this path -/
def badImport (p : Str) : Bool := p = [] || !containsByte 47 p

theorem Eff.imp_panic (p : Str) : (Eff.imp p).panic = badImport p := rfl

/-- every file name the resolver returns is acceptable to `ensureImport` -/
def WfCtx (c : Ctx) : Prop := ∀ pkg s t, c.resolve pkg s = some t → badImport t.file = false

@[simp] theorem bad_j5Ext : badImport j5ExtImport = false := by decide
@[simp] theorem bad_bufValidate : badImport bufValidateImport = false := by decide
@[simp] theorem bad_j5List : badImport j5ListAnnotationsImport = false := by decide
@[simp] theorem bad_j5Date : badImport j5DateImport = false := by decide
@[simp] theorem bad_j5Decimal : badImport j5DecimalImport = false := by decide
@[simp] theorem bad_pbTimestamp : badImport pbTimestampImport = false := by decide
@[simp] theorem bad_j5Any : badImport j5AnyImport = false := by decide

@[simp] theorem Eff.add_panic (a b : Eff) : (Eff.add a b).panic = (a.panic || b.panic) := rfl
@[simp] theorem Eff.empty_panic : ({} : Eff).panic = false := rfl
@[simp] theorem Eff.err_panic : Eff.err.panic = false := rfl
@[simp] theorem Eff.use_panic (p : Str) : (Eff.use p).panic = false := rfl
@[simp] theorem j5Ext_panic : j5Ext.panic = false := by simp [j5Ext, Eff.imp_panic]
@[simp] theorem when_panic (b : Bool) (e : Eff) : (when b e).panic = (b && e.panic) := by
  cases b <;> simp [when]
@[simp] theorem listRulesEff_panic (lr : Bool) : (listRulesEff lr).panic = false := by
  simp [listRulesEff, Eff.imp_panic]
@[simp] theorem validateWithImport_panic (b : Bool) : (validateWithImport b).panic = false := by
  simp [validateWithImport, Eff.imp_panic]

theorem refField_panic (c : Ctx) (hc : WfCtx c) (pkg schema : Str) (wantEnum : Bool) :
    (refField c pkg schema wantEnum).1.panic = false := by
  unfold refField
  cases h : c.resolve pkg schema with
  | none => rfl
  | some t =>
    have := hc pkg schema t h
    simp only []
    split <;> simp [Eff.imp_panic, this]

theorem msgRefField_panic (c : Ctx) (hc : WfCtx c) (pkg schema ext : Str) (rules : Rules)
    (lr : Bool) : (msgRefField c pkg schema ext rules lr).eff.panic = false ∧
      (msgRefField c pkg schema ext rules lr).walk.panic = false := by
  unfold msgRefField
  have := refField_panic c hc pkg schema false
  cases h : refField c pkg schema false with
  | mk e o =>
    rw [h] at this
    cases o <;> simp_all

theorem enumFieldWith_panic (pre walk : Eff) (tn pfx : Str) (names : List Str) (rules : Rules)
    (lr : Option (List Str)) (h1 : pre.panic = false) (h2 : walk.panic = false) :
    (enumFieldWith pre walk tn pfx names rules lr).eff.panic = false ∧
      (enumFieldWith pre walk tn pfx names rules lr).walk.panic = false := by
  unfold enumFieldWith
  split
  · simp [h1, h2]
  · split <;> simp [h1, h2]

theorem scalarField_panic (f : Field) (b : BF)
    (h : scalarField f = some b) : b.eff.panic = false ∧ b.walk.panic = false := by
  cases f <;> simp only [scalarField, Option.some.injEq, reduceCtorEq] at h
  case integer fmt rules lr =>
    split at h <;> (simp only [Option.some.injEq] at h; subst h; simp)
  case float fmt rules lr =>
    split at h <;> (simp only [Option.some.injEq] at h; subst h; simp)
  all_goals (subst h; simp [Eff.imp_panic])

/-- for the scalar branches `buildField` is `scalarField` -/
theorem bField_scalar (c : Ctx) (np : List Str) (d : Str) (f : Field) (b : BF)
    (h : scalarField f = some b) : bField c np d f = b := by
  cases f <;> simp only [scalarField, reduceCtorEq] at h <;>
    (unfold bField; simp only [scalarField, Option.getD];
     first | (simp only [Option.some.injEq] at h; exact h) | skip)
  all_goals rw [h]

theorem finishProperty_panic (name : Str) (req opt : Bool) (number : Nat) (io : Bool) (pre : Eff)
    (entries : List MsgSkel) (r : FieldRes) (rep : Bool) :
    (finishProperty name req opt number io pre entries r rep).eff.panic = pre.panic := by
  cases opt <;> cases req <;> cases hpk : r.primaryKey <;>
    simp [finishProperty, hpk, Eff.imp_panic]

/-- the field `buildProperty` hands to `buildField`: the items of an array / map, else the schema -/
def builtField : Field → Field
  | .map items _ => items
  | .array items _ => items
  | f => f

/-- `buildProperty` panics exactly when `buildFieldNode` / `buildField` below it does -/
theorem bProperty_panic (c : Ctx) (np : List Str) (io : Bool) (n : Nat) (name : Str)
    (req opt : Bool) (schema : Field) :
    (bProperty c np io n (.mk name req opt schema)).eff.panic =
      (bField c np (toCamel name) (builtField schema)).eff.panic := by
  unfold bProperty
  cases schema <;> dsimp only [builtField] <;>
    (split <;> simp [finishProperty_panic])

mutual
theorem bField_no_panic (c : Ctx) (hc : WfCtx c) (np : List Str) (d : Str) :
    ∀ f : Field,
      (bField c np d f).eff.panic = false ∧ (bField c np d f).walk.panic = false
  | .objectRef pkg schema fl rules => by rw [bField]; exact msgRefField_panic c hc _ _ _ _ _
  | .oneofRef pkg schema rules lr => by rw [bField]; exact msgRefField_panic c hc _ _ _ _ _
  | .enumRef pkg schema rules lr => by
    rw [bField]
    have := refField_panic c hc pkg schema true
    cases h : refField c pkg schema true with
    | mk e o =>
      rw [h] at this
      cases o with
      | none => simp_all
      | some t =>
        simp only []
        cases t.kind with
        | enum pfx names => exact enumFieldWith_panic _ _ _ _ _ _ _ this rfl
        | message o => simp_all
  | .objectInl name props fl rules => by
    rw [bField]
    have ih := bProps_no_panic c hc (np ++ [if name = [] then d else name]) false 1 props
    simp [msgInlField, ih]
  | .oneofInl name props rules lr => by
    rw [bField]
    have ih := bProps_no_panic c hc (np ++ [if name = [] then d else name]) true 1 props
    simp [msgInlField, ih]
  | .enumInl e rules lr => by
    rw [bField]
    simp only [enumTKind]
    exact enumFieldWith_panic _ _ _ _ _ _ _ rfl rfl
  | .array items rules => by
    rw [bField]
    have ih := bField_no_panic c hc np d items
    simp [ih]
  | .map items rules => by
    rw [bField]
    have ih := bField_no_panic c hc np d items
    simp [ih]
  | .string rules lr => by
    rw [bField_scalar c np d (.string rules lr) _ rfl]; exact scalarField_panic (.string rules lr) _ rfl
  | .bool rules lr => by
    rw [bField_scalar c np d (.bool rules lr) _ rfl]; exact scalarField_panic (.bool rules lr) _ rfl
  | .bytes rules => by
    rw [bField_scalar c np d (.bytes rules) _ rfl]; exact scalarField_panic (.bytes rules) _ rfl
  | .date rules lr => by
    rw [bField_scalar c np d (.date rules lr) _ rfl]; exact scalarField_panic (.date rules lr) _ rfl
  | .decimal rules lr => by
    rw [bField_scalar c np d (.decimal rules lr) _ rfl]; exact scalarField_panic (.decimal rules lr) _ rfl
  | .timestamp rules => by
    rw [bField_scalar c np d (.timestamp rules) _ rfl]; exact scalarField_panic (.timestamp rules) _ rfl
  | .any => by
    rw [bField_scalar c np d (.any) _ rfl]; exact scalarField_panic (.any) _ rfl
  | .integer fmt rules lr => by
    cases h : scalarField (.integer fmt rules lr) with
    | none => simp only [scalarField] at h; split at h <;> simp at h
    | some b => rw [bField_scalar c np d _ b h]; exact scalarField_panic _ b h
  | .float fmt rules lr => by
    cases h : scalarField (.float fmt rules lr) with
    | none => simp only [scalarField] at h; split at h <;> simp at h
    | some b => rw [bField_scalar c np d _ b h]; exact scalarField_panic _ b h
  | .key fmt ek rules lr => by
    rw [bField_scalar c np d (.key fmt ek rules lr) _ rfl]; exact scalarField_panic (.key fmt ek rules lr) _ rfl

theorem bProperty_no_panic (c : Ctx) (hc : WfCtx c) (np : List Str) (io : Bool) (n : Nat) :
    ∀ p : Property, (bProperty c np io n p).eff.panic = false
  | .mk name req opt schema => by
    rw [bProperty_panic]
    cases schema with
    | map items rules => exact (bField_no_panic c hc np (toCamel name) items).1
    | array items rules => exact (bField_no_panic c hc np (toCamel name) items).1
    | string rules lr => exact (bField_no_panic c hc np (toCamel name) _).1
    | bool rules lr => exact (bField_no_panic c hc np (toCamel name) _).1
    | bytes rules => exact (bField_no_panic c hc np (toCamel name) _).1
    | date rules lr => exact (bField_no_panic c hc np (toCamel name) _).1
    | decimal rules lr => exact (bField_no_panic c hc np (toCamel name) _).1
    | timestamp rules => exact (bField_no_panic c hc np (toCamel name) _).1
    | any => exact (bField_no_panic c hc np (toCamel name) _).1
    | integer fmt rules lr => exact (bField_no_panic c hc np (toCamel name) _).1
    | float fmt rules lr => exact (bField_no_panic c hc np (toCamel name) _).1
    | key fmt ek rules lr => exact (bField_no_panic c hc np (toCamel name) _).1
    | objectRef pkg sc fl rules => exact (bField_no_panic c hc np (toCamel name) _).1
    | objectInl nm props fl rules => exact (bField_no_panic c hc np (toCamel name) _).1
    | oneofRef pkg sc rules lr => exact (bField_no_panic c hc np (toCamel name) _).1
    | oneofInl nm props rules lr => exact (bField_no_panic c hc np (toCamel name) _).1
    | enumRef pkg sc rules lr => exact (bField_no_panic c hc np (toCamel name) _).1
    | enumInl e rules lr => exact (bField_no_panic c hc np (toCamel name) _).1

theorem bProps_no_panic (c : Ctx) (hc : WfCtx c) (np : List Str) (io : Bool) (n : Nat) :
    ∀ ps : List Property, (bProps c np io n ps).eff.panic = false
  | [] => by simp [bProps_nil]
  | p :: ps => by
    have a := bProperty_no_panic c hc np io n p
    have b := bProps_no_panic c hc np io (n + 1) ps
    rw [bProps_cons]
    cases io <;> simp [a, b]
end

theorem lookup_mem {β : Type} (l : List (Str × β)) (k : Str) (v : β) (h : l.lookup k = some v) :
    (k, v) ∈ l := by
  induction l with
  | nil => simp at h
  | cons x xs ih =>
    obtain ⟨a, b⟩ := x
    simp only [List.lookup_cons] at h
    by_cases hk : k = a
    · subst hk; simp at h; subst h; simp
    · have : (k == a) = false := by simpa using hk
      rw [this] at h
      exact List.mem_cons_of_mem _ (ih h)

/-- every implicit import names a well-formed file -/
theorem implicitRef_wf (p sch : Str) (t : TypeRef) (h : implicitRef p sch = some t) :
    badImport t.file = false := by
  unfold implicitRef at h
  cases hl : implicitImports.lookup p with
  | none => simp [hl] at h
  | some ex =>
    rw [hl] at h
    have hmem := List.mem_of_find?_eq_some h
    have hall : ∀ pr ∈ implicitImports, ∀ x ∈ pr.2, badImport x.file = false := by decide
    exact hall (p, ex) (lookup_mem _ _ _ hl) t hmem

end J5V.Compile
