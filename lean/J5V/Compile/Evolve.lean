import J5V.Compile.Edit
import J5V.Compile.Link
/-!
# Evolve — compile(P) vs compile(e(P)) restricted to the elements of compile(P) (C13, core only)

`elements` is the element table of `harness/PROTOCOL-compile.md` §5 over a *linked* skeleton:
messages by full name, fields by message + name, enum values by enum + name, services and methods
by name, each with the attributes the property speaks about.
-/
namespace J5V.Compile
open J5V.Go

inductive ElemKey where
  | msg (full : Str)
  | field (msg name : Str)
  | enum (full : Str)
  | value (enum name : Str)
  | svc (full : Str)
  | method (svc name : Str)
  deriving Repr, DecidableEq

inductive ElemVal where
  | none
  | field (number : Nat) (type : PType) (repeated p3opt : Bool) (typeName jsonName : Str)
      (oneof : Option Nat)
  | value (number : Nat)
  | svc (opt : SvcOpt)
  | method (input output : Str) (http : Option HttpSkel) (mopt : MOpt)
  deriving Repr, DecidableEq

def enumElements (pfx : Str) (e : EnumSkel) : List (ElemKey × ElemVal) :=
  (.enum (qual pfx e.name), .none) ::
    e.values.map fun (n, k) => (ElemKey.value (qual pfx e.name) n, ElemVal.value k)

mutual
def msgElements (pfx : Str) : MsgSkel → List (ElemKey × ElemVal)
  | .mk name _ _ fields msgs enums =>
    let full := qual pfx name
    (ElemKey.msg full, ElemVal.none) ::
      fields.map (fun f => (ElemKey.field full f.name,
        ElemVal.field f.number f.type f.repeated f.p3opt f.typeName f.jsonName f.oneof)) ++
      msgsElements full msgs ++ enums.flatMap (enumElements full)
def msgsElements (pfx : Str) : List MsgSkel → List (ElemKey × ElemVal)
  | [] => []
  | m :: rest => msgElements pfx m ++ msgsElements pfx rest
end

def svcElements (pfx : Str) (s : SvcSkel) : List (ElemKey × ElemVal) :=
  (.svc (qual pfx s.name), .svc s.sopt) ::
    s.methods.map fun m => (ElemKey.method (qual pfx s.name) m.name,
      ElemVal.method m.input m.output m.http m.mopt)

def fileElements (f : FileSkel) : List (ElemKey × ElemVal) :=
  msgsElements f.pkg f.msgs ++ f.enums.flatMap (enumElements f.pkg) ++ f.svcs.flatMap (svcElements f.pkg)

/-- element table of a compiled package -/
def elements (fs : List FileSkel) : List (ElemKey × ElemVal) := fs.flatMap fileElements

/-- last write wins, as in the harness's Go map -/
def elemGet (m : List (ElemKey × ElemVal)) (k : ElemKey) : Option ElemVal :=
  (m.reverse.find? (·.1 = k)).map (·.2)

def dedupKeys : List ElemKey → List ElemKey
  | [] => []
  | k :: rest => if rest.contains k then dedupKeys rest else k :: dedupKeys rest

/-- number of elements of `before` that are missing or different in `now` -/
def changedCount (before now : List (ElemKey × ElemVal)) : Nat :=
  ((dedupKeys (before.map (·.1))).filter fun k => elemGet now k ≠ elemGet before k).length

/-- result of the `evolve` op: both compiles must succeed -/
def evolve (b : Bundle) (pkg : Str) (edits : List Edit) : Option (Outcome (Nat × List FileSkel)) :=
  match applyEdits pkg edits b with
  | none => none
  | some b' =>
    let r1 := compileLinked b pkg
    let r2 := compileLinked b' pkg
    some <|
      if r1.isPanic || r2.isPanic then .panic "compile"
      else match r1, r2 with
        | .ok f1, .ok f2 => .ok (changedCount (elements f1) (elements f2), f2)
        | _, _ => .err "compile"

end J5V.Compile
