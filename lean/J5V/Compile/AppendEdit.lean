import J5V.Compile.AppendFresh
import J5V.Compile.ExactProofs
import J5V.Compile.SymProofs
/-!
# Field and option appends at package level (C13) — core only

`Edit.apply` for any edit replaces one file of one package (`apply_edit_struct`); a package whose
file is replaced loads to files related by `R` when the resolvers agree on the old references and
the two versions of the file convert to `R`-related files (`replace_file_pkg`); the resolvers
agree when the lookups that the old references perform are not disturbed (`agree_of_replace`).
-/
namespace J5V.Compile
open J5V.Go

/-! ## `Edit.apply`, any edit -/

theorem apply_edit_struct (e : Edit) (b : Bundle) (pkg : Str) (b' : Bundle)
    (h : e.apply pkg b = some b') :
    ∃ p pre post f f', b.find pkg = some p ∧
      p.files = pre ++ [f] ++ post ∧ pre.length = e.file ∧ e.applyFile f = some f' ∧
      b'.find pkg = some { p with files := pre ++ [f'] ++ post } ∧
      (∀ n, n ≠ pkg → b.find n = b'.find n) ∧ b'.pkgs.length = b.pkgs.length := by
  unfold Edit.apply at h
  split at h
  · cases h
  · rename_i hany
    have hany : b.pkgs.any (fun x => decide (x.name = pkg)) = true := by
      cases hb : b.pkgs.any (fun x => decide (x.name = pkg)) with
      | true => rfl
      | false => simp [hb] at hany
    cases hm : b.pkgs.mapM (fun p =>
        if p.name = pkg then (setAt p.files e.file e.applyFile).map
          fun fs => { p with files := fs } else some p) with
    | none => simp [hm] at h
    | some ps =>
      simp only [hm, Option.map_some, Option.some.injEq] at h
      subst h
      have hname : ∀ p p', (if p.name = pkg then
          (setAt p.files e.file e.applyFile).map
            fun fs => ({ p with files := fs } : Pkg) else some p) = some p' → p'.name = p.name := by
        intro p p' hpp
        split at hpp
        · cases hsa : setAt p.files e.file e.applyFile with
          | none => simp [hsa] at hpp
          | some fs => simp only [hsa, Option.map_some, Option.some.injEq] at hpp; subst hpp; rfl
        · simp only [Option.some.injEq] at hpp; subst hpp; rfl
      have hfindEq := mapM_find _ hname b.pkgs ps hm
      -- the package itself
      obtain ⟨p0, hp0, hp0n⟩ := List.any_eq_true.mp hany
      cases hfp : b.pkgs.find? (·.name = pkg) with
      | none =>
        have := List.find?_eq_none.mp hfp p0 hp0
        exact absurd hp0n this
      | some p =>
        have hpn : p.name = pkg := by simpa using List.find?_some hfp
        have hfp' := hfindEq pkg
        rw [hfp] at hfp'
        simp only [Option.bind_some, hpn, if_true] at hfp'
        cases hsa : setAt p.files e.file e.applyFile with
        | none =>
          -- then the whole mapM fails
          exfalso
          rw [hsa] at hfp'
          simp only [Option.map_none] at hfp'
          have hmem : p ∈ b.pkgs := List.mem_of_find?_eq_some hfp
          have : ∀ (l : List Pkg) (ps : List Pkg), p ∈ l → l.mapM (fun p =>
              if p.name = pkg then (setAt p.files e.file e.applyFile).map
                fun fs => ({ p with files := fs } : Pkg) else some p) = some ps → False := by
            intro l
            induction l with
            | nil => intro _ hm'; cases hm'
            | cons q rest ih =>
              intro ps' hmq hmm
              simp only [List.mapM_cons, Option.pure_def, Option.bind_eq_bind] at hmm
              rcases List.mem_cons.mp hmq with rfl | hmq'
              · simp [hpn, hsa] at hmm
              · cases hq : (if q.name = pkg then
                    (setAt q.files e.file e.applyFile).map
                      fun fs => ({ q with files := fs } : Pkg) else some q) with
                | none => simp [hq] at hmm
                | some q' =>
                  cases hr : rest.mapM (fun p =>
                      if p.name = pkg then (setAt p.files e.file e.applyFile).map
                        fun fs => ({ p with files := fs } : Pkg) else some p) with
                  | none => simp [hq, hr] at hmm
                  | some rest' => exact ih rest' hmq' hr
          exact this b.pkgs ps hmem hm
        | some fs =>
          rw [hsa] at hfp'
          simp only [Option.map_some] at hfp'
          -- unpack setAt
          unfold setAt at hsa
          cases hget : p.files[e.file]? with
          | none => simp [hget] at hsa
          | some a =>
            simp only [hget] at hsa
            cases happ : e.applyFile a with
            | none => simp [happ] at hsa
            | some a' =>
              simp only [happ, Option.map_some, Option.some.injEq] at hsa
              subst hsa
              have hlt : e.file < p.files.length := by
                rcases Nat.lt_or_ge e.file p.files.length with h1 | h1
                · exact h1
                · rw [List.getElem?_eq_none h1] at hget; cases hget
              have hget' : p.files[e.file] = a := by
                rw [List.getElem?_eq_getElem hlt] at hget
                exact Option.some.inj hget
              refine ⟨p, p.files.take e.file, p.files.drop (e.file + 1), a, a', hfp, ?_, ?_, happ, ?_, ?_, ?_⟩
              · conv => lhs; rw [← List.take_append_drop e.file p.files]
                rw [List.append_assoc]
                congr 1
                rw [List.drop_eq_getElem_cons hlt, hget']
                rfl
              · simp [Nat.min_eq_left (Nat.le_of_lt hlt)]
              · show ps.find? (·.name = pkg) = _
                rw [hfp']
                have hset : p.files.set e.file a' =
                    p.files.take e.file ++ [a'] ++ p.files.drop (e.file + 1) := by
                  rw [List.set_eq_take_append_cons_drop]
                  simp [hlt]
                rw [hset, ← hpn]
              · intro n hn
                show b.pkgs.find? (·.name = n) = ps.find? (·.name = n)
                rw [hfindEq n]
                cases hfn : b.pkgs.find? (·.name = n) with
                | none => rfl
                | some q =>
                  have hqn : q.name = n := by simpa using List.find?_some hfn
                  have : q.name ≠ pkg := by rw [hqn]; exact hn
                  simp [this]
              · exact mapM_length _ _ _ hm


/-! ## a package one of whose files is replaced -/

theorem replace_file_pkg (R : FileSkel → FileSkel → Prop) (hR : ∀ f, R f f)
    (b b' : Bundle) (name : Str) (p p' : Pkg) (l l' : Loaded)
    (fuel fuel' : Nat) (chain chain' : List Str)
    (hf : b.find name = some p) (hf' : b'.find name = some p')
    (hl : loadPkg b (fuel + 1) chain name = .ok l)
    (hl' : loadPkg b' (fuel' + 1) chain' name = .ok l')
    (pre post : List SrcFile) (g g' : SrcFile)
    (hp : p.files = pre ++ [g] ++ post) (hp' : p'.files = pre ++ [g'] ++ post)
    (hagree : ∀ f ∈ p.files, AgreeFile l.resolver l'.resolver f)
    (hrel : convOk l'.resolver g' → ∀ f ∈ convOf l'.resolver g, ∃ f' ∈ convOf l'.resolver g', R f f') :
    ∀ f ∈ l.files, ∃ f' ∈ l'.files, R f f' := by
  obtain ⟨hfiles, _⟩ := loadPkg_ok_inv b fuel chain name p l hf hl
  obtain ⟨hfiles', hok'⟩ := loadPkg_ok_inv b' fuel' chain' name p' l' hf' hl'
  rw [hfiles, hp]
  rw [hfiles', hp']
  intro f hfm
  simp only [List.flatMap_append, List.flatMap_cons, List.flatMap_nil, List.append_nil,
    List.mem_append] at hfm ⊢
  have hmem : ∀ x, x ∈ pre ∨ x ∈ post → x ∈ p.files := by
    intro x hx
    rw [hp]
    rcases hx with h | h
    · simp [h]
    · simp [h]
  rcases hfm with (hfm | hfm) | hfm
  · obtain ⟨x, hx, hfx⟩ := List.mem_flatMap.mp hfm
    rw [convOf_congr _ _ x (hagree x (hmem x (Or.inl hx)))] at hfx
    exact ⟨f, Or.inl (Or.inl (List.mem_flatMap.mpr ⟨x, hx, hfx⟩)), hR f⟩
  · have hag := hagree g (by rw [hp]; simp)
    rw [convOf_congr _ _ _ hag] at hfm
    obtain ⟨f', hf'm, hr⟩ := hrel (hok' g' (by rw [hp']; simp)) f hfm
    exact ⟨f', Or.inl (Or.inr hf'm), hr⟩
  · obtain ⟨x, hx, hfx⟩ := List.mem_flatMap.mp hfm
    rw [convOf_congr _ _ x (hagree x (hmem x (Or.inr hx)))] at hfx
    exact ⟨f, Or.inr (List.mem_flatMap.mpr ⟨x, hx, hfx⟩), hR f⟩

/-! ## the resolvers agree when the lookups of the old references are not disturbed -/

theorem expand_ref_schema (im : ImportMap) (pkg schema q sch : Str)
    (h : im.expand pkg schema = some (.ref q sch)) : sch = schema := by
  unfold ImportMap.expand at h
  split at h
  · simp only [Option.some.injEq, Expanded.ref.injEq] at h; exact h.2.symm
  · split at h
    · cases h
    · split at h
      · cases h
      · split at h
        · cases h
        · simp only [Option.some.injEq, Expanded.ref.injEq] at h; exact h.2.symm

/-- `P` singles out the export keys whose lookup is the same before and after the replacement;
every old reference that finds an export entry has such a key -/
theorem agree_of_replace (b b' : Bundle) (name : Str) (p : Pkg) (fuel : Nat) (chain : List Str)
    (pre post : List SrcFile) (path : Str) (imports : List Import) (elems elems' : List Elem)
    (decl : Str) (hp : p.files = pre ++ [.j5s path imports elems decl] ++ post)
    (hf : b.find name = some p)
    (hf' : b'.find name = some { p with files := pre ++ [.j5s path imports elems' decl] ++ post })
    (hother : ∀ n, n ≠ name → b.find n = b'.find n)
    (l l' : Loaded) (hl : loadPkg b (fuel + 1) chain name = .ok l)
    (hl' : loadPkg b' (fuel + 1) chain name = .ok l')
    (P : Str → Prop)
    (hsum : ∀ s s', sourceSummary path imports elems = .ok s →
      sourceSummary path imports elems' = .ok s' →
      (∀ (X Y : List (Str × TypeRef)) k, P k →
        mapGet (X ++ s'.exports ++ Y) k = mapGet (X ++ s.exports ++ Y) k) ∧
      (∀ x ∈ s.depPkgs, x ∈ s'.depPkgs))
    (hP : ∀ f ∈ p.files, ∀ r ∈ srcFileRefs f, r.2 ∈ l.exports.map (·.1) → P r.2) :
    ∀ f ∈ p.files, AgreeFile l.resolver l'.resolver f := by
  obtain ⟨hs, hn, hex, hdeps, _⟩ := loadPkg_ok_struct b fuel chain name p l hf hl
  obtain ⟨hs', hn', hex', hdeps', _⟩ := loadPkg_ok_struct b' fuel chain name _ l' hf' hl'
  simp only [] at hs' hex' hdeps'
  obtain ⟨_, hall⟩ := summaries_ok p.files _ hs
  obtain ⟨_, hall'⟩ := summaries_ok _ _ hs'
  have hsm := fileSummary_j5s_ok _ _ _ _ _ (hall (.j5s path imports elems decl) (by rw [hp]; simp))
  have hsm' := fileSummary_j5s_ok _ _ _ _ _ (hall' (.j5s path imports elems' decl) (by simp))
  obtain ⟨hlookS, hdep⟩ := hsum _ _ hsm hsm'
  have hE : l.exports = ((pre.map sumOf).flatMap (·.exports) ++
      (sumOf (.j5s path imports elems decl)).exports) ++ (post.map sumOf).flatMap (·.exports) := by
    rw [hex, hp]; simp
  have hE' : l'.exports = ((pre.map sumOf).flatMap (·.exports) ++
      (sumOf (.j5s path imports elems' decl)).exports) ++ (post.map sumOf).flatMap (·.exports) := by
    rw [hex']; simp
  have hlook : ∀ k, P k → mapGet l'.exports k = mapGet l.exports k := by
    intro k hk
    rw [hE', hE]
    exact hlookS _ _ k hk
  have hmono : ∀ d ∈ depNamesOf name (p.files.map sumOf),
      d ∈ depNamesOf name ((pre ++ [SrcFile.j5s path imports elems' decl] ++ post).map sumOf) := by
    apply depNamesOf_mono
    intro x hx
    rw [hp] at hx
    simp only [List.map_append, List.map_cons, List.map_nil, List.flatMap_append, List.flatMap_cons,
      List.flatMap_nil, List.append_nil, List.mem_append] at hx ⊢
    rcases hx with (hx | hx) | hx
    · exact Or.inl (Or.inl hx)
    · exact Or.inl (Or.inr (hdep x hx))
    · exact Or.inr hx
  have hloadEq : ∀ d, loadOf b' fuel (chain ++ [name]) d = loadOf b fuel (chain ++ [name]) d := by
    intro d
    simp only [loadOf]
    rw [loadPkg_congr_chain b b' name hother fuel (chain ++ [name]) d (by simp)]
  have hdlook : ∀ q, q ∈ l.deps.map (·.1) → mapGet l'.deps q = mapGet l.deps q := by
    intro q hq
    rw [hdeps, List.map_map] at hq
    have hq0 : q ∈ depNamesOf name (p.files.map sumOf) := by simpa [Function.comp] using hq
    rw [hdeps', hdeps, mapGet_map_nodup _ _ (depNamesOf_nodup _ _) q (hmono q hq0),
      mapGet_map_nodup _ _ (depNamesOf_nodup _ _) q hq0, hloadEq]
  obtain ⟨_, hok⟩ := loadPkg_ok_inv b fuel chain name p l hf hl
  intro f hfm
  cases f with
  | proto pth msgs enums => trivial
  | j5s path2 imports2 elems2 decl2 =>
    intro im hj r hr
    obtain ⟨fs, hfs⟩ := hok _ hfm
    obtain ⟨im0, hj0, hrefs⟩ := convertFile_refs l.resolver path2 imports2 elems2 fs hfs
    have him : im0 = im := by rw [hj] at hj0; exact (Outcome.ok.inj hj0).symm
    subst him
    obtain ⟨i, hi, hri⟩ := List.mem_flatMap.mp hr
    obtain ⟨t, ht, _⟩ := hrefs i hi r hri
    simp only [resolveTypeNoImport] at ht ⊢
    cases hexp2 : im0.expand r.1 r.2 with
    | none => rfl
    | some e =>
      rw [hexp2] at ht
      cases e with
      | implicit t' => rfl
      | ref q sch =>
        simp only [Resolver.resolveType, Loaded.resolver, hn, hn'] at ht ⊢
        by_cases hq : q = name
        · simp only [hq, if_true] at ht ⊢
          have hsch := expand_ref_schema im0 r.1 r.2 q sch hexp2
          have hPk : P sch := by
            rw [hsch]
            apply hP _ hfm r hr
            rw [← hsch]
            exact mapGet_mem_keys _ _ _ ht
          rw [hlook sch hPk]
        · simp only [hq, if_false] at ht ⊢
          cases hd : mapGet l.deps q with
          | none => rw [hd] at ht; cases ht
          | some ex => rw [hdlook q (mapGet_mem_keys _ _ _ hd), hd]

/-! ## the files of a source file whose main-target items change -/

theorem target_sub_inj (t t' : Target) (k : Str) (h : t.sub = some k) (h' : t'.sub = some k) :
    t = t' := by
  have : t.sub = t'.sub := by rw [h, h']
  cases t <;> cases t' <;> first | rfl | (exact absurd this (by decide))

/-- the items of the sub-package files are untouched, the messages / enums of the main file are
related by `RM` / `RE`: the generated files correspond one to one -/
theorem convertFile_replace_main (res : Resolver) (path : Str) (imports : List Import)
    (elems elems' : List Elem) (fs fs' : List FileSkel)
    (h : convertFile res path imports elems = .ok fs)
    (h' : convertFile res path imports elems' = .ok fs')
    (RM : List MsgSkel → List MsgSkel → Prop) (RE : List EnumSkel → List EnumSkel → Prop)
    (hRM : ∀ x, RM x x) (hRE : ∀ x, RE x x)
    (hsub : ∀ t, t ≠ Target.main →
      (elems.flatMap (itemsOfElem (packageFromFilename (path ++ b!".proto")))).filter (·.target = t) =
      (elems'.flatMap (itemsOfElem (packageFromFilename (path ++ b!".proto")))).filter (·.target = t))
    (hmain : ∀ c : Ctx,
      RM (((elems.flatMap (itemsOfElem (packageFromFilename (path ++ b!".proto")))).filter
            (·.target = .main)).flatMap (itemMsgs c))
         (((elems'.flatMap (itemsOfElem (packageFromFilename (path ++ b!".proto")))).filter
            (·.target = .main)).flatMap (itemMsgs c)) ∧
      RE (((elems.flatMap (itemsOfElem (packageFromFilename (path ++ b!".proto")))).filter
            (·.target = .main)).flatMap (itemEnums c))
         (((elems'.flatMap (itemsOfElem (packageFromFilename (path ++ b!".proto")))).filter
            (·.target = .main)).flatMap (itemEnums c))) :
    ∀ f ∈ fs, ∃ f' ∈ fs', f'.name = f.name ∧ f'.pkg = f.pkg ∧ f.svcs = f'.svcs ∧
      RM f.msgs f'.msgs ∧ RE f.enums f'.enums := by
  obtain ⟨im, hj, hrest⟩ := convertFile_exact res path imports elems fs h
  obtain ⟨im', hj', hrest'⟩ := convertFile_exact res path imports elems' fs' h'
  have him : im' = im := by rw [hj] at hj'; exact (Outcome.ok.inj hj').symm
  subst him
  simp only [] at hrest hrest'
  obtain ⟨main, subs, hfs, hname, hpkg, hsvcs, hmsgs, henums, _, hsubs, _⟩ := hrest
  obtain ⟨main', subs', hfs', hname', hpkg', hsvcs', hmsgs', henums', _, hsubs', hall'⟩ := hrest'
  intro f hf
  rw [hfs] at hf
  rcases List.mem_cons.mp hf with rfl | hf
  · refine ⟨main', by rw [hfs']; simp, by rw [hname', hname], by rw [hpkg', hpkg], by rw [hsvcs, hsvcs'], ?_, ?_⟩
    · rw [hmsgs, hmsgs']; exact (hmain _).1
    · rw [henums, henums']; exact (hmain _).2
  · obtain ⟨t, k, htk, hex, hfn, hfp, hfm, hfe, hfsv⟩ := hsubs f hf
    have htm : t ≠ Target.main := by intro e; rw [e] at htk; cases htk
    have hex' : ∃ i ∈ elems'.flatMap (itemsOfElem (packageFromFilename (path ++ b!".proto"))), i.target = t := by
      obtain ⟨i, hi, hit⟩ := hex
      have : i ∈ (elems.flatMap (itemsOfElem (packageFromFilename (path ++ b!".proto")))).filter (·.target = t) := by
        simp [List.mem_filter, hi, hit]
      rw [hsub t htm] at this
      exact ⟨i, (List.mem_filter.mp this).1, hit⟩
    obtain ⟨f', hf', hf'p⟩ := hall' t k htk hex'
    obtain ⟨t', k', htk', _, hfn', hfp', hfm', hfe', hfsv'⟩ := hsubs' f' hf'
    have hk : k' = k := by
      rw [hfp'] at hf'p
      exact List.append_cancel_left hf'p
    subst hk
    have ht : t' = t := target_sub_inj t' t k' htk' htk
    subst ht
    refine ⟨f', by rw [hfs']; exact List.mem_cons_of_mem _ hf', by rw [hfn', hfn], by rw [hfp', hfp], ?_, ?_, ?_⟩
    · rw [hfsv, hfsv', hsub t' htm]
    · rw [hfm, hfm', hsub t' htm]; exact hRM _
    · rw [hfe, hfe']; exact hRE _

/-! ## relations between generated files under an edit inside a declaration -/

/-- a message grows: same name / kind / annotation, the fields a prefix, nested types kept -/
def MsgSkel.Le1 (m m' : MsgSkel) : Prop :=
  m'.name = m.name ∧ m'.kind = m.kind ∧ m'.psm = m.psm ∧ m.fields <+: m'.fields ∧
    (∀ x ∈ m.msgs, x ∈ m'.msgs) ∧ (∀ e ∈ m.enums, e ∈ m'.enums)

theorem MsgSkel.Le1.refl (m : MsgSkel) : m.Le1 m :=
  ⟨rfl, rfl, rfl, List.prefix_refl _, fun _ h => h, fun _ h => h⟩

/-- every message is found again, grown at most -/
def MsgsLe (a b : List MsgSkel) : Prop := ∀ m ∈ a, ∃ m' ∈ b, m.Le1 m'

/-- every enum is found again, its values a prefix -/
def EnumsLe (a b : List EnumSkel) : Prop :=
  ∀ e ∈ a, ∃ e' ∈ b, e'.name = e.name ∧ e.values <+: e'.values

theorem MsgsLe.refl (a : List MsgSkel) : MsgsLe a a := fun m h => ⟨m, h, MsgSkel.Le1.refl m⟩
theorem EnumsLe.refl (a : List EnumSkel) : EnumsLe a a :=
  fun e h => ⟨e, h, rfl, List.prefix_refl _⟩

/-- a generated file after a field / option append inside one of its declarations: same name and
package, the same services, every message and enum found again with the old fields / values as a
prefix (what the harness looks up by name: field numbers, types, labels, enum numbers) -/
def FileSkel.LeEdit (f f' : FileSkel) : Prop :=
  f'.name = f.name ∧ f'.pkg = f.pkg ∧ f.svcs = f'.svcs ∧ MsgsLe f.msgs f'.msgs ∧
    EnumsLe f.enums f'.enums

theorem FileSkel.LeEdit.refl (f : FileSkel) : f.LeEdit f :=
  ⟨rfl, rfl, rfl, MsgsLe.refl _, EnumsLe.refl _⟩

theorem convOf_rel (res : Resolver) (path : Str) (imports : List Import) (elems elems' : List Elem)
    (decl : Str) (R : FileSkel → FileSkel → Prop)
    (hconv : ∀ fs fs', convertFile res path imports elems = .ok fs →
      convertFile res path imports elems' = .ok fs' → ∀ f ∈ fs, ∃ f' ∈ fs', R f f') :
    convOk res (.j5s path imports elems' decl) →
      ∀ f ∈ convOf res (.j5s path imports elems decl),
        ∃ f' ∈ convOf res (.j5s path imports elems' decl), R f f' := by
  intro hok f hf
  obtain ⟨fs', hfs'⟩ := hok
  simp only [convOf] at hf ⊢
  cases hc : convertFile res path imports elems with
  | err t => simp [hc] at hf
  | panic w => simp [hc] at hf
  | ok fs =>
    simp only [hc] at hf
    simp only [hfs']
    exact hconv fs fs' hc hfs' f hf

/-! ## the summary of a file -/

theorem sourceSummary_ok_inv (path : Str) (imports : List Import) (elems : List Elem) (s : Summary')
    (h : sourceSummary path imports elems = .ok s) :
    ∃ im ex, j5Imports (packageFromFilename (path ++ b!".proto")) imports = .ok im ∧
      List.mapM (fun x : Str × Str => im.expand x.1 x.2)
        ((elems.flatMap (itemsOfElem (packageFromFilename (path ++ b!".proto")))).flatMap itemRefs) = some ex ∧
      s.exports = ((elems.flatMap (itemsOfElem (packageFromFilename (path ++ b!".proto")))).flatMap itemExports).map
        (fun x => (x.1, (⟨packageFromFilename (path ++ b!".proto"), x.1, path ++ b!".proto", x.2⟩ : TypeRef))) ∧
      s.depPkgs = ex.map (·.pkg) := by
  unfold sourceSummary at h
  cases hw : walkItems (elems.flatMap (itemsOfElem (packageFromFilename (path ++ b!".proto")))) with
  | err t => simp [hw] at h
  | panic w => simp [hw] at h
  | ok u =>
    simp only [hw] at h
    cases hj : j5Imports (packageFromFilename (path ++ b!".proto")) imports with
    | err t => simp [hj] at h
    | panic w => simp [hj] at h
    | ok im =>
      simp only [hj] at h
      cases hex : List.mapM (fun x : Str × Str => im.expand x.1 x.2)
          ((elems.flatMap (itemsOfElem (packageFromFilename (path ++ b!".proto")))).flatMap itemRefs) with
      | none => simp [hex] at h
      | some ex =>
        simp only [hex, Outcome.ok.injEq] at h
        subst h
        exact ⟨im, ex, rfl, hex, rfl, rfl⟩

theorem mapM_some_mem {α β : Type} (f : α → Option β) (l : List α) (ys : List β)
    (h : l.mapM f = some ys) (y : β) : y ∈ ys ↔ ∃ a ∈ l, f a = some y := by
  induction l generalizing ys with
  | nil =>
    simp only [List.mapM_nil, Option.pure_def, Option.some.injEq] at h
    subst h; simp
  | cons a rest ih =>
    simp only [List.mapM_cons, Option.pure_def, Option.bind_eq_bind] at h
    cases ha : f a with
    | none => simp [ha] at h
    | some y0 =>
      cases hr : rest.mapM f with
      | none => simp [ha, hr] at h
      | some ys0 =>
        simp only [ha, hr, Option.bind_some, Option.some.injEq] at h
        subst h
        simp only [List.mem_cons, ih ys0 hr]
        constructor
        · rintro (rfl | ⟨x, hx, hfx⟩)
          · exact ⟨a, Or.inl rfl, ha⟩
          · exact ⟨x, Or.inr hx, hfx⟩
        · rintro ⟨x, (rfl | hx), hfx⟩
          · rw [ha] at hfx; exact Or.inl (Option.some.inj hfx).symm
          · exact Or.inr ⟨x, hx, hfx⟩

/-- the exports of the new version are those of the old one with a block `N` inserted, and no
reference is lost: lookups of keys outside `N` are untouched, dependencies only grow -/
theorem summary_rel_insert (path : Str) (imports : List Import) (elems elems' : List Elem)
    (s s' : Summary') (hs : sourceSummary path imports elems = .ok s)
    (hs' : sourceSummary path imports elems' = .ok s')
    (A N C : List (Str × TKind))
    (hexpA : (elems.flatMap (itemsOfElem (packageFromFilename (path ++ b!".proto")))).flatMap itemExports = A ++ C)
    (hexpB : (elems'.flatMap (itemsOfElem (packageFromFilename (path ++ b!".proto")))).flatMap itemExports = A ++ N ++ C)
    (hrefs : ∀ r ∈ (elems.flatMap (itemsOfElem (packageFromFilename (path ++ b!".proto")))).flatMap itemRefs,
      r ∈ (elems'.flatMap (itemsOfElem (packageFromFilename (path ++ b!".proto")))).flatMap itemRefs) :
    (∀ (X Y : List (Str × TypeRef)) k, k ∉ N.map (·.1) →
      mapGet (X ++ s'.exports ++ Y) k = mapGet (X ++ s.exports ++ Y) k) ∧
    (∀ x ∈ s.depPkgs, x ∈ s'.depPkgs) := by
  obtain ⟨im, ex, hj, hex, hexp, hdep⟩ := sourceSummary_ok_inv path imports elems s hs
  obtain ⟨im', ex', hj', hex', hexp', hdep'⟩ := sourceSummary_ok_inv path imports elems' s' hs'
  have him : im' = im := by rw [hj] at hj'; exact (Outcome.ok.inj hj').symm
  subst him
  constructor
  · intro X Y k hk
    rw [hexp, hexp', hexpA, hexpB]
    simp only [List.map_append]
    have := mapGet_insert_fresh
      (X ++ A.map (fun x => (x.1, (⟨packageFromFilename (path ++ b!".proto"), x.1, path ++ b!".proto", x.2⟩ : TypeRef))))
      (N.map (fun x => (x.1, (⟨packageFromFilename (path ++ b!".proto"), x.1, path ++ b!".proto", x.2⟩ : TypeRef))))
      (C.map (fun x => (x.1, (⟨packageFromFilename (path ++ b!".proto"), x.1, path ++ b!".proto", x.2⟩ : TypeRef))) ++ Y)
      k (by simpa [List.map_map, Function.comp] using hk)
    simpa [List.append_assoc] using this
  · intro x hx
    rw [hdep] at hx
    rw [hdep']
    obtain ⟨y, hy, hyx⟩ := List.mem_map.mp hx
    obtain ⟨r, hr, hfr⟩ := (mapM_some_mem _ _ _ hex y).mp hy
    exact List.mem_map.mpr ⟨y, (mapM_some_mem _ _ _ hex' y).mpr ⟨r, hrefs r hr, hfr⟩, hyx⟩

/-! ## an edit at a top-level declaration -/

theorem setAt_some {α : Type} (l : List α) (i : Nat) (f : α → Option α) (l' : List α)
    (h : setAt l i f = some l') :
    ∃ a a', l = l.take i ++ [a] ++ l.drop (i + 1) ∧ f a = some a' ∧
      l' = l.take i ++ [a'] ++ l.drop (i + 1) ∧ (l.take i).length = i := by
  unfold setAt at h
  cases hget : l[i]? with
  | none => simp [hget] at h
  | some a =>
    simp only [hget] at h
    cases hfa : f a with
    | none => simp [hfa] at h
    | some a' =>
      simp only [hfa, Option.map_some, Option.some.injEq] at h
      subst h
      have hlt : i < l.length := by
        rcases Nat.lt_or_ge i l.length with h1 | h1
        · exact h1
        · rw [List.getElem?_eq_none h1] at hget; cases hget
      have hget' : l[i] = a := by
        rw [List.getElem?_eq_getElem hlt] at hget
        exact Option.some.inj hget
      refine ⟨a, a', ?_, hfa, ?_, ?_⟩
      · conv => lhs; rw [← List.take_append_drop i l]
        rw [List.append_assoc]
        congr 1
        rw [List.drop_eq_getElem_cons hlt, hget']
        rfl
      · rw [List.set_eq_take_append_cons_drop]
        simp [hlt]
      · simp [Nat.min_eq_left (Nat.le_of_lt hlt)]

/-- a declared object (`false`) or oneof (`true`) as a top-level element / as an item -/
def declElem : Bool → ObjDecl → Elem
  | true, o => .oneof o
  | false, o => .object o
def declItem : Bool → ObjDecl → Item
  | true, o => .oneof o
  | false, o => .object o

theorem itemsOfElem_decl (pkg : Str) (io : Bool) (o : ObjDecl) :
    itemsOfElem pkg (declElem io o) = [declItem io o] := by cases io <;> rfl

theorem declItem_target (io : Bool) (o : ObjDecl) : (declItem io o).target = .main := by
  cases io <;> rfl

/-- `appendField` with the path `[el i]`: the `i`-th element is an object or a oneof and gets the
property at the end of its own property list -/
theorem editElems_field_top (prop : Property) (i : Nat) (elems elems' : List Elem)
    (h : editElems (.field prop) [.el i] elems = some elems') :
    ∃ E1 E2 io n ps ne psm, elems = E1 ++ [declElem io (.mk n ps ne psm)] ++ E2 ∧
      elems' = E1 ++ [declElem io (.mk n (ps ++ [prop]) ne psm)] ++ E2 ∧ E1.length = i := by
  simp only [editElems] at h
  obtain ⟨a, a', h1, hf, h2, h3⟩ := setAt_some _ _ _ _ h
  cases a with
  | object o =>
    cases o with
    | mk n ps ne psm =>
      simp only [editElem, editDecl, editProps, Option.map_some, Option.some.injEq] at hf
      subst hf
      exact ⟨_, _, false, n, ps, ne, psm, h1, h2, h3⟩
  | oneof o =>
    cases o with
    | mk n ps ne psm =>
      simp only [editElem, editDecl, editProps, Option.map_some, Option.some.injEq] at hf
      subst hf
      exact ⟨_, _, true, n, ps, ne, psm, h1, h2, h3⟩
  | enum e => simp [editElem, editEnum] at hf
  | service sv => simp [editElem, editService] at hf
  | topic t => simp [editElem, editTopic] at hf
  | entity en => simp [editElem, editEntity] at hf

/-- `appendOption` with the path `[el i]`: the `i`-th element is an enum -/
theorem editElems_option_top (o : Str) (i : Nat) (elems elems' : List Elem)
    (h : editElems (.option o) [.el i] elems = some elems') :
    ∃ E1 E2 e, elems = E1 ++ [.enum e] ++ E2 ∧
      elems' = E1 ++ [.enum { e with opts := e.opts ++ [o] }] ++ E2 ∧ E1.length = i := by
  simp only [editElems] at h
  obtain ⟨a, a', h1, hf, h2, h3⟩ := setAt_some _ _ _ _ h
  cases a with
  | object ob => cases ob with | mk n ps ne psm => simp [editElem, editDecl, editProps] at hf
  | oneof ob => cases ob with | mk n ps ne psm => simp [editElem, editDecl, editProps] at hf
  | enum e =>
    simp only [editElem, editEnum, Option.map_some, Option.some.injEq] at hf
    subst hf
    exact ⟨_, _, e, h1, h2, h3⟩
  | service sv => simp [editElem, editService] at hf
  | topic t => simp [editElem, editTopic] at hf
  | entity en => simp [editElem, editEntity] at hf

/-! ## a field appended to a top-level object / oneof -/

theorem itemExports_decl (io : Bool) (n : Str) (ps : List Property) (ne : List Nested)
    (psm : Option Psm) :
    itemExports (declItem io (.mk n ps ne psm)) =
      (relName [] n, TKind.message io) :: exportsProps ([] ++ [n]) ps ++ exportsNested ([] ++ [n]) ne := by
  cases io <;> simp [declItem, itemExports, exportsDecl]

theorem itemRefs_decl (io : Bool) (n : Str) (ps : List Property) (ne : List Nested)
    (psm : Option Psm) :
    itemRefs (declItem io (.mk n ps ne psm)) = refsProps ps ++ refsNested ne := by
  cases io <;> simp [declItem, itemRefs, refsDecl]

theorem itemEnums_decl (c : Ctx) (io : Bool) (o : ObjDecl) : itemEnums c (declItem io o) = [] := by
  cases io
  · exact itemEnums_object c o
  · exact itemEnums_oneof c o

theorem itemMsgs_decl (c : Ctx) (io : Bool) (n : Str) (ps : List Property) (ne : List Nested)
    (psm : Option Psm) :
    itemMsgs c (declItem io (.mk n ps ne psm)) =
      (bProps c ([] ++ [n]) io 1 ([] ++ ps)).entries ++ [declMsg c [] io [] n ps ne psm] := by
  cases io <;>
    simp only [declItem, itemMsgs, convItem, List.flatMap_cons, List.flatMap_nil, List.append_nil] <;>
    rw [convDecl_msgs]

/-- the message of the declaration and its map entries, before and after the append -/
theorem itemMsgs_decl_append (c : Ctx) (io : Bool) (n : Str) (ps : List Property) (prop : Property)
    (ne : List Nested) (psm : Option Psm) :
    MsgsLe (itemMsgs c (declItem io (.mk n ps ne psm)))
      (itemMsgs c (declItem io (.mk n (ps ++ [prop]) ne psm))) := by
  intro m hm
  rw [itemMsgs_decl] at hm
  rw [itemMsgs_decl]
  rcases List.mem_append.mp hm with hm | hm
  · refine ⟨m, ?_, MsgSkel.Le1.refl m⟩
    apply List.mem_append_left
    simp only [List.nil_append] at hm ⊢
    rw [bProps_append_entries]
    exact List.mem_append_left _ hm
  · simp only [List.mem_singleton] at hm
    subst hm
    refine ⟨declMsg c [] io [] n (ps ++ [prop]) ne psm, by simp, ?_⟩
    simp only [declMsg, mkMsg, List.nil_append, bProps_append_flds, bProps_append_eff, Eff.add]
    refine ⟨rfl, rfl, rfl, List.prefix_append _ _, ?_, ?_⟩
    · intro x hx
      simp only [MsgSkel.msgs, List.mem_append] at hx ⊢
      rcases hx with hx | hx
      · exact Or.inl (Or.inl hx)
      · exact Or.inr hx
    · intro x hx
      simp only [MsgSkel.enums, List.mem_append] at hx ⊢
      rcases hx with hx | hx
      · exact Or.inl (Or.inl hx)
      · exact Or.inr hx

/-- names that the appended property adds to the package's export table: its inline types -/
def newFieldExportNames (n : Str) (prop : Property) : List Str :=
  (exportsProps ([] ++ [n]) [prop]).map (·.1)

/-- the generated files of the edited source file -/
theorem convertFile_append_field_top (res : Resolver) (path : Str) (imports : List Import)
    (E1 E2 : List Elem) (io : Bool) (n : Str) (ps : List Property) (prop : Property)
    (ne : List Nested) (psm : Option Psm) (fs fs' : List FileSkel)
    (h : convertFile res path imports (E1 ++ [declElem io (.mk n ps ne psm)] ++ E2) = .ok fs)
    (h' : convertFile res path imports (E1 ++ [declElem io (.mk n (ps ++ [prop]) ne psm)] ++ E2) = .ok fs') :
    ∀ f ∈ fs, ∃ f' ∈ fs', f.LeEdit f' := by
  apply convertFile_replace_main res path imports _ _ fs fs' h h' MsgsLe EnumsLe MsgsLe.refl EnumsLe.refl
  · intro t ht
    have hd : ∀ o, decide ((declItem io o).target = t) = false := by
      intro o; rw [declItem_target]; simpa using fun e => ht e.symm
    simp only [List.flatMap_append, List.flatMap_cons, List.flatMap_nil, List.append_nil,
      itemsOfElem_decl, List.filter_append, List.filter_cons, hd, List.filter_nil]
    simp
  · intro c
    have hd : ∀ o, decide ((declItem io o).target = Target.main) = true := by
      intro o; rw [declItem_target]; simp
    simp only [List.flatMap_append, List.flatMap_cons, List.flatMap_nil, List.append_nil,
      itemsOfElem_decl, List.filter_append, List.filter_cons, hd, List.filter_nil, if_true,
      itemEnums_decl]
    refine ⟨?_, EnumsLe.refl _⟩
    intro m hm
    simp only [List.mem_append] at hm ⊢
    rcases hm with (hm | hm) | hm
    · exact ⟨m, Or.inl (Or.inl hm), MsgSkel.Le1.refl m⟩
    · obtain ⟨m', hm', hle⟩ := itemMsgs_decl_append c io n ps prop ne psm m hm
      exact ⟨m', Or.inl (Or.inr hm'), hle⟩
    · exact ⟨m, Or.inr hm, MsgSkel.Le1.refl m⟩

/-- the summary of the edited source file -/
theorem summary_append_field_top (path : Str) (imports : List Import)
    (E1 E2 : List Elem) (io : Bool) (n : Str) (ps : List Property) (prop : Property)
    (ne : List Nested) (psm : Option Psm) (s s' : Summary')
    (hs : sourceSummary path imports (E1 ++ [declElem io (.mk n ps ne psm)] ++ E2) = .ok s)
    (hs' : sourceSummary path imports (E1 ++ [declElem io (.mk n (ps ++ [prop]) ne psm)] ++ E2) = .ok s') :
    (∀ (X Y : List (Str × TypeRef)) k, k ∉ newFieldExportNames n prop →
      mapGet (X ++ s'.exports ++ Y) k = mapGet (X ++ s.exports ++ Y) k) ∧
    (∀ x ∈ s.depPkgs, x ∈ s'.depPkgs) := by
  apply summary_rel_insert path imports _ _ s s' hs hs'
    ((E1.flatMap (itemsOfElem (packageFromFilename (path ++ b!".proto")))).flatMap itemExports ++
      ((relName [] n, TKind.message io) :: exportsProps ([] ++ [n]) ps))
    (exportsProps ([] ++ [n]) [prop])
    (exportsNested ([] ++ [n]) ne ++
      (E2.flatMap (itemsOfElem (packageFromFilename (path ++ b!".proto")))).flatMap itemExports)
  · simp only [List.flatMap_append, List.flatMap_cons, List.flatMap_nil, List.append_nil,
      itemsOfElem_decl, itemExports_decl, List.append_assoc, List.cons_append]
    simp
  · simp only [List.flatMap_append, List.flatMap_cons, List.flatMap_nil, List.append_nil,
      itemsOfElem_decl, itemExports_decl, exportsProps_append, List.append_assoc, List.cons_append]
    simp
  · intro r hr
    simp only [List.flatMap_append, List.flatMap_cons, List.flatMap_nil, List.append_nil,
      itemsOfElem_decl, itemRefs_decl, refsProps_append, List.mem_append] at hr ⊢
    rcases hr with (hr | hr | hr) | hr
    · exact Or.inl (Or.inl hr)
    · exact Or.inl (Or.inr (Or.inl (Or.inl hr)))
    · exact Or.inl (Or.inr (Or.inr hr))
    · exact Or.inr hr

/-! ## package level -/

/-- one file of the package gets new elements: if the lookups of the old references are not
disturbed (`P`, `hsum`, `hP`) and the file converts to `LeEdit`-related files, so does the package -/
theorem replace_elems_pkg (b b' : Bundle) (name : Str) (p : Pkg) (fuel : Nat) (chain : List Str)
    (pre post : List SrcFile) (path : Str) (imports : List Import) (elems elems' : List Elem)
    (decl : Str) (hp : p.files = pre ++ [.j5s path imports elems decl] ++ post)
    (hf : b.find name = some p)
    (hf' : b'.find name = some { p with files := pre ++ [.j5s path imports elems' decl] ++ post })
    (hother : ∀ n, n ≠ name → b.find n = b'.find n)
    (l l' : Loaded) (hl : loadPkg b (fuel + 1) chain name = .ok l)
    (hl' : loadPkg b' (fuel + 1) chain name = .ok l')
    (P : Str → Prop)
    (hsum : ∀ s s', sourceSummary path imports elems = .ok s →
      sourceSummary path imports elems' = .ok s' →
      (∀ (X Y : List (Str × TypeRef)) k, P k →
        mapGet (X ++ s'.exports ++ Y) k = mapGet (X ++ s.exports ++ Y) k) ∧
      (∀ x ∈ s.depPkgs, x ∈ s'.depPkgs))
    (hP : ∀ f ∈ p.files, ∀ r ∈ srcFileRefs f, r.2 ∈ l.exports.map (·.1) → P r.2)
    (hconv : ∀ res fs fs', convertFile res path imports elems = .ok fs →
      convertFile res path imports elems' = .ok fs' → ∀ f ∈ fs, ∃ f' ∈ fs', f.LeEdit f') :
    ∀ f ∈ l.files, ∃ f' ∈ l'.files, f.LeEdit f' :=
  replace_file_pkg FileSkel.LeEdit FileSkel.LeEdit.refl b b' name p _ l l' fuel fuel chain chain hf hf'
    hl hl' pre post _ _ hp rfl
    (agree_of_replace b b' name p fuel chain pre post path imports elems elems' decl hp hf hf' hother
      l l' hl hl' P hsum hP)
    (convOf_rel l'.resolver path imports elems elems' decl FileSkel.LeEdit (hconv l'.resolver))

/-- the same through `compilePkg` on both sides -/
theorem replace_elems_compile (b b' : Bundle) (pkg : Str) (p : Pkg)
    (pre post : List SrcFile) (path : Str) (imports : List Import) (elems elems' : List Elem)
    (decl : Str) (hp : p.files = pre ++ [.j5s path imports elems decl] ++ post)
    (hf : b.find pkg = some p)
    (hf' : b'.find pkg = some { p with files := pre ++ [.j5s path imports elems' decl] ++ post })
    (hother : ∀ n, n ≠ pkg → b.find n = b'.find n) (hlen : b'.pkgs.length = b.pkgs.length)
    (fs fs' : List FileSkel) (h : compilePkg b pkg = .ok fs) (h' : compilePkg b' pkg = .ok fs')
    (P : Str → Prop)
    (hsum : ∀ s s', sourceSummary path imports elems = .ok s →
      sourceSummary path imports elems' = .ok s' →
      (∀ (X Y : List (Str × TypeRef)) k, P k →
        mapGet (X ++ s'.exports ++ Y) k = mapGet (X ++ s.exports ++ Y) k) ∧
      (∀ x ∈ s.depPkgs, x ∈ s'.depPkgs))
    (hP : ∀ f ∈ p.files, ∀ r ∈ srcFileRefs f,
      r.2 ∈ (p.files.map sumOf).flatMap (fun s => s.exports.map (·.1)) → P r.2)
    (hconv : ∀ res fs fs', convertFile res path imports elems = .ok fs →
      convertFile res path imports elems' = .ok fs' → ∀ f ∈ fs, ∃ f' ∈ fs', f.LeEdit f') :
    ∀ f ∈ fs, ∃ f' ∈ fs', f.LeEdit f' := by
  unfold compilePkg at h h'
  rw [hlen] at h'
  cases hld : loadPkg b (b.pkgs.length + 1) [] pkg with
  | err t => simp [hld] at h
  | panic w => simp [hld] at h
  | ok l =>
    cases hld' : loadPkg b' (b.pkgs.length + 1) [] pkg with
    | err t => simp [hld'] at h'
    | panic w => simp [hld'] at h'
    | ok l' =>
      simp only [hld, Outcome.ok.injEq] at h
      simp only [hld', Outcome.ok.injEq] at h'
      subst h; subst h'
      obtain ⟨_, _, hex, _, _⟩ := loadPkg_ok_struct b _ [] pkg p l hf hld
      have hP' : ∀ f ∈ p.files, ∀ r ∈ srcFileRefs f, r.2 ∈ l.exports.map (·.1) → P r.2 := by
        intro f hfm r hr hmem
        apply hP f hfm r hr
        rw [hex, List.map_flatMap] at hmem
        exact hmem
      have := replace_elems_pkg b b' pkg p _ [] pre post path imports elems elems' decl hp hf hf'
        hother l l' hld hld' P hsum hP' hconv
      intro f hfm
      obtain ⟨f', hf'm, hle⟩ := this f ((sortFiles_perm_self l.files).mem_iff.mp hfm)
      exact ⟨f', (sortFiles_perm_self l'.files).mem_iff.mpr hf'm, hle⟩

/-! ## an option appended to a top-level enum -/

/-- the exports of the new version are those of the old one with the block `M` replaced by `M'`:
lookups of keys in neither block are untouched -/
theorem summary_rel_update (path : Str) (imports : List Import) (elems elems' : List Elem)
    (s s' : Summary') (hs : sourceSummary path imports elems = .ok s)
    (hs' : sourceSummary path imports elems' = .ok s')
    (A M M' C : List (Str × TKind))
    (hexpA : (elems.flatMap (itemsOfElem (packageFromFilename (path ++ b!".proto")))).flatMap itemExports = A ++ M ++ C)
    (hexpB : (elems'.flatMap (itemsOfElem (packageFromFilename (path ++ b!".proto")))).flatMap itemExports = A ++ M' ++ C)
    (hrefs : ∀ r ∈ (elems.flatMap (itemsOfElem (packageFromFilename (path ++ b!".proto")))).flatMap itemRefs,
      r ∈ (elems'.flatMap (itemsOfElem (packageFromFilename (path ++ b!".proto")))).flatMap itemRefs) :
    (∀ (X Y : List (Str × TypeRef)) k, (k ∉ M.map (·.1) ∧ k ∉ M'.map (·.1)) →
      mapGet (X ++ s'.exports ++ Y) k = mapGet (X ++ s.exports ++ Y) k) ∧
    (∀ x ∈ s.depPkgs, x ∈ s'.depPkgs) := by
  obtain ⟨im, ex, hj, hex, hexp, hdep⟩ := sourceSummary_ok_inv path imports elems s hs
  obtain ⟨im', ex', hj', hex', hexp', hdep'⟩ := sourceSummary_ok_inv path imports elems' s' hs'
  have him : im' = im := by rw [hj] at hj'; exact (Outcome.ok.inj hj').symm
  subst him
  constructor
  · intro X Y k hk
    rw [hexp, hexp', hexpA, hexpB]
    simp only [List.map_append]
    have h1 := mapGet_insert_fresh
      (X ++ A.map (fun x => (x.1, (⟨packageFromFilename (path ++ b!".proto"), x.1, path ++ b!".proto", x.2⟩ : TypeRef))))
      (M.map (fun x => (x.1, (⟨packageFromFilename (path ++ b!".proto"), x.1, path ++ b!".proto", x.2⟩ : TypeRef))))
      (C.map (fun x => (x.1, (⟨packageFromFilename (path ++ b!".proto"), x.1, path ++ b!".proto", x.2⟩ : TypeRef))) ++ Y)
      k (by simpa [List.map_map, Function.comp] using hk.1)
    have h2 := mapGet_insert_fresh
      (X ++ A.map (fun x => (x.1, (⟨packageFromFilename (path ++ b!".proto"), x.1, path ++ b!".proto", x.2⟩ : TypeRef))))
      (M'.map (fun x => (x.1, (⟨packageFromFilename (path ++ b!".proto"), x.1, path ++ b!".proto", x.2⟩ : TypeRef))))
      (C.map (fun x => (x.1, (⟨packageFromFilename (path ++ b!".proto"), x.1, path ++ b!".proto", x.2⟩ : TypeRef))) ++ Y)
      k (by simpa [List.map_map, Function.comp] using hk.2)
    have := h2.trans h1.symm
    simpa [List.append_assoc] using this
  · intro x hx
    rw [hdep] at hx
    rw [hdep']
    obtain ⟨y, hy, hyx⟩ := List.mem_map.mp hx
    obtain ⟨r, hr, hfr⟩ := (mapM_some_mem _ _ _ hex y).mp hy
    exact List.mem_map.mpr ⟨y, (mapM_some_mem _ _ _ hex' y).mpr ⟨r, hrefs r hr, hfr⟩, hyx⟩

theorem summary_append_option_top (path : Str) (imports : List Import)
    (E1 E2 : List Elem) (e : EnumDecl) (o : Str) (s s' : Summary')
    (hs : sourceSummary path imports (E1 ++ [.enum e] ++ E2) = .ok s)
    (hs' : sourceSummary path imports (E1 ++ [.enum { e with opts := e.opts ++ [o] }] ++ E2) = .ok s') :
    (∀ (X Y : List (Str × TypeRef)) k, k ≠ e.name →
      mapGet (X ++ s'.exports ++ Y) k = mapGet (X ++ s.exports ++ Y) k) ∧
    (∀ x ∈ s.depPkgs, x ∈ s'.depPkgs) := by
  have := summary_rel_update path imports _ _ s s' hs hs'
    ((E1.flatMap (itemsOfElem (packageFromFilename (path ++ b!".proto")))).flatMap itemExports)
    [(e.name, enumTKind e)] [(e.name, enumTKind { e with opts := e.opts ++ [o] })]
    ((E2.flatMap (itemsOfElem (packageFromFilename (path ++ b!".proto")))).flatMap itemExports)
    (by simp [List.flatMap_append, itemsOfElem, itemExports])
    (by simp [List.flatMap_append, itemsOfElem, itemExports])
    (by
      intro r hr
      simpa [List.flatMap_append, itemsOfElem, itemRefs] using hr)
  refine ⟨?_, this.2⟩
  intro X Y k hk
  exact this.1 X Y k (by simp [hk])

theorem convertFile_append_option_top (res : Resolver) (path : Str) (imports : List Import)
    (E1 E2 : List Elem) (e : EnumDecl) (o : Str) (fs fs' : List FileSkel)
    (h : convertFile res path imports (E1 ++ [.enum e] ++ E2) = .ok fs)
    (h' : convertFile res path imports (E1 ++ [.enum { e with opts := e.opts ++ [o] }] ++ E2) = .ok fs') :
    ∀ f ∈ fs, ∃ f' ∈ fs', f.LeEdit f' := by
  apply convertFile_replace_main res path imports _ _ fs fs' h h' MsgsLe EnumsLe MsgsLe.refl EnumsLe.refl
  · intro t ht
    have hd : ∀ e' : EnumDecl, decide ((Item.enum e').target = t) = false := by
      intro e'
      have : (Item.enum e').target = Target.main := rfl
      rw [this]; simpa using fun x => ht (Eq.symm x)
    simp only [List.flatMap_append, List.flatMap_cons, List.flatMap_nil, List.append_nil,
      itemsOfElem, List.filter_append, List.filter_cons, hd, List.filter_nil]
    simp
  · intro c
    have hd : ∀ e' : EnumDecl, decide ((Item.enum e').target = Target.main) = true := by
      intro e'; simp [Item.target]
    simp only [List.flatMap_append, List.flatMap_cons, List.flatMap_nil, List.append_nil,
      itemsOfElem, List.filter_append, List.filter_cons, hd, List.filter_nil, if_true,
      itemMsgs_enum, itemEnums_enum]
    refine ⟨MsgsLe.refl _, ?_⟩
    intro x hx
    simp only [List.mem_append, List.mem_singleton] at hx ⊢
    rcases hx with (hx | hx) | hx
    · exact ⟨x, Or.inl (Or.inl hx), rfl, List.prefix_refl _⟩
    · subst hx
      exact ⟨convEnum { e with opts := e.opts ++ [o] }, Or.inl (Or.inr rfl), rfl,
        enumValues_prefix_all (enumPrefix e) e.opts o⟩
    · exact ⟨x, Or.inr hx, rfl, List.prefix_refl _⟩

end J5V.Compile
