import J5V.Compile.Walk
/-!
# Entity — `sourcewalk/entity.go` (core only)

`entityNode.run` turns an entity declaration into lower-level schema elements and hands them to
the same file visitor: Keys, Data, Status, State, EventType (oneof with the events nested), Event,
the query service, the command services, the publish topic, one upsert topic per summary, and the
entity's nested schemas. `Item` is what the `FileVisitor` receives; `itemsOfElem` covers the other
root elements too (`FileNode.RangeRootElements`).
-/
namespace J5V.Compile

/-- what a `FileVisitor` is handed, in order -/
inductive Item where
  | object (o : ObjDecl)
  | oneof (o : ObjDecl)
  | enum (e : EnumDecl)
  | serviceFile (ss : List Service)
  | topicFile (ts : List Topic)
  /-- a `walkerErrorf` return: aborts the walk -/
  | abort

namespace Entity

/-- `ent.name` -/
def snakeName (e : Entity) : Str := toSnake e.name

/-- `componentName` -/
def componentName (e : Entity) (suffix : Str) : Str := toCamel e.name ++ toCamel suffix

/-- `fullName` -/
def fullName (pkg : Str) (e : Entity) : Str := pkg ++ b!"." ++ toCamel e.name

/-- `BaseUrlPath` default: package segments + snake(entity name), joined with `/` -/
def baseUrlPath (pkg : Str) (e : Entity) : Str :=
  if e.baseUrl = [] then joinWith b!"/" (splitOnByte 46 pkg ++ [toSnake e.name]) else e.baseUrl

def statusPrefix (e : Entity) : Str := toScreamingSnake e.name ++ b!"_STATUS_"

/-- `schemaRefField` -/
def refField (pkg schema : Str) : Field := .objectRef pkg schema false []

def innerRef (e : Entity) (suffix : Str) : Field := refField [] (componentName e suffix)

def keysObject (e : Entity) : ObjDecl :=
  .mk (componentName e b!"Keys") (e.keys.map (·.prop)) [] (some ⟨snakeName e, .keys⟩)

def dataObject (e : Entity) : ObjDecl :=
  .mk (componentName e b!"Data") e.data [] (some ⟨snakeName e, .data⟩)

def statusEnum (e : Entity) : EnumDecl :=
  { name := componentName e b!"Status", pfx := statusPrefix e, opts := e.statuses }

/-- `acceptState`: every default status filter must name a declared status -/
def filtersOk (e : Entity) : Bool :=
  match e.query with
  | none => true
  | some q => q.filters.all fun f => e.statuses.contains f

/-- `statusEnumField.ListRules.Filtering.DefaultFilters`: `findStatus` of every default status
filter = the value name the status enum gives the status (`enumBuilder.addValue`: the prefix
`<SCREAMING_SNAKE(entity)>_STATUS_` is added unless the name as written already carries it) -/
def defaultFilters (e : Entity) : List Str :=
  match e.query with
  | none => []
  | some q => q.filters.map fun f => enumFull (statusPrefix e) f

def stateObject (e : Entity) : ObjDecl :=
  .mk (componentName e b!"State")
    [ .mk b!"metadata" true false (refField b!"j5.state.v1" b!"StateMetadata"),
      .mk b!"keys" true false (.objectRef [] (componentName e b!"Keys") true []),
      .mk b!"data" true false (innerRef e b!"Data"),
      .mk b!"status" true false (.enumRef [] (componentName e b!"Status") [] (some (defaultFilters e))) ]
    [] (some ⟨snakeName e, .state⟩)

def eventTypeName (e : Entity) : Str := componentName e b!"EventType"

def eventOneof (e : Entity) : ObjDecl :=
  .mk (eventTypeName e)
    (e.events.map fun ev =>
      .mk (toLowerCamel ev.name) false false
        (.objectRef [] (eventTypeName e ++ b!"." ++ ev.name) false []))
    (e.events.map Nested.object) none

def eventObject (e : Entity) : ObjDecl :=
  .mk (componentName e b!"Event")
    [ .mk b!"metadata" true false (refField b!"j5.state.v1" b!"EventMetadata"),
      .mk b!"keys" true false (.objectRef [] (componentName e b!"Keys") true []),
      .mk b!"event" true false (.oneofRef [] (componentName e b!"EventType") [] true) ]
    [] (some ⟨snakeName e, .event⟩)

/-- is the key field a `key`-typed field, and is it the primary key -/
def keyInfo (k : EntityKeyDecl) : Option Bool :=
  match k.prop.schema with
  | .key _ ek _ _ => some ek.isPrimary
  | _ => none

/-- keys that become path parameters of Get / Events (`getKeys`) -/
def getKeys (e : Entity) : List Property :=
  e.keys.filterMap fun k =>
    match keyInfo k with
    | some true => some k.prop
    | some false => if k.shard then some k.prop else none
    | none => none

/-- keys that become path parameters of List (`listKeys`) -/
def listKeys (e : Entity) : List Property :=
  e.keys.filterMap fun k =>
    match keyInfo k with
    | some _ => if k.shard then some k.prop else none
    | none => none

def colonPath (ps : List Property) : List Str := ps.map fun p => b!":" ++ p.name

def pageReq : Property := .mk b!"page" false false (refField b!"j5.list.v1" b!"PageRequest")
def queryReq : Property := .mk b!"query" false false (refField b!"j5.list.v1" b!"QueryRequest")
def pageRes : Property := .mk b!"page" false false (refField b!"j5.list.v1" b!"PageResponse")

def eventsArray (e : Entity) : Property :=
  .mk b!"events" false false (.array (innerRef e b!"Event") [])

def getMethod (e : Entity) : Method :=
  let n := snakeName e
  { name := toCamel e.name ++ b!"Get", verb := .get, path := joinWith b!"/" (colonPath (getKeys e)),
    request := some (getKeys e),
    response := some ([.mk (toLowerCamel n) true false (innerRef e b!"State")] ++
      (match e.query with
       | some q => if q.eventsInGet then [eventsArray e] else []
       | none => [])),
    mopt := .get }

def listMethod (e : Entity) : Method :=
  let n := snakeName e
  { name := toCamel e.name ++ b!"List", verb := .get, path := joinWith b!"/" (colonPath (listKeys e)),
    request := some (listKeys e ++ [pageReq, queryReq]),
    response := some [.mk (toLowerCamel n) true false (.array (innerRef e b!"State") []), pageRes],
    mopt := .list }

def eventsMethod (e : Entity) : Method :=
  { name := toCamel e.name ++ b!"Events", verb := .get,
    path := joinWith b!"/" (colonPath (getKeys e) ++ [b!"events"]),
    request := some (getKeys e ++ [pageReq, queryReq]),
    response := some [eventsArray e, pageRes],
    mopt := .events }

def queryService (pkg : Str) (e : Entity) : Service :=
  { name := some (toCamel e.name ++ b!"Query"),
    basePath := some (b!"/" ++ baseUrlPath pkg e ++ b!"/q"),
    methods := [getMethod e, listMethod e, eventsMethod e],
    sopt := .query (snakeName e) }

def commandService (pkg : Str) (e : Entity) (s : Service) : Service :=
  { name := some (match s.name with
      | some n => if hasSuffix b!"Command" n then n else n ++ b!"Command"
      | none => toCamel e.name ++ b!"Command"),
    basePath := some (match s.basePath with
      | some bp => b!"/" ++ baseUrlPath pkg e ++ b!"/" ++ bp
      | none => b!"/" ++ baseUrlPath pkg e ++ b!"/c"),
    methods := s.methods,
    sopt := .command (snakeName e) }

def publishTopic (pkg : Str) (e : Entity) : Topic :=
  { name := toCamel e.name ++ b!"Publish",
    type := .event (fullName pkg e)
      { name := some (toCamel e.name ++ b!"Event"),
        props :=
          [ .mk b!"metadata" true false (refField b!"j5.state.v1" b!"EventPublishMetadata"),
            .mk b!"keys" true false (refField [] (componentName e b!"Keys")),
            .mk b!"event" true false (.oneofRef [] (componentName e b!"EventType") [] false),
            .mk b!"data" true false (innerRef e b!"Data"),
            .mk b!"status" true false (.enumRef [] (componentName e b!"Status") [] none) ] } }

def summaryTopicName (e : Entity) (s : Summary) : Str :=
  if s.name = [] then toCamel e.name ++ b!"Summary" else toCamel e.name ++ toCamel s.name

def summaryTopic (pkg : Str) (e : Entity) (s : Summary) : Topic :=
  { name := summaryTopicName e s,
    type := .upsert (fullName pkg e) { name := some (summaryTopicName e s), props := s.props } }

/-- `names[summary.Name]` check of `acceptSummaryTopics` -/
def summariesDistinct : List Summary → Bool
  | [] => true
  | s :: rest => !(rest.any (·.name = s.name)) && summariesDistinct rest

def nestedItem : Nested → Item
  | .object o => .object o
  | .oneof o => .oneof o
  | .enum en => .enum en

/-- `entityNode.run` -/
def expand (pkg : Str) (e : Entity) : List Item :=
  [ .object (keysObject e),
    .object (dataObject e),
    .enum (statusEnum e) ] ++
  (if filtersOk e then [Item.object (stateObject e)] else [Item.abort]) ++
  [ .oneof (eventOneof e),
    .object (eventObject e),
    .serviceFile [queryService pkg e],
    .serviceFile (e.commands.map (commandService pkg e)),
    .topicFile [publishTopic pkg e] ] ++
  (if summariesDistinct e.summaries then [Item.topicFile (e.summaries.map (summaryTopic pkg e))]
   else [Item.abort]) ++
  e.nested.map nestedItem

end Entity

/-- `FileNode.RangeRootElements` -/
def itemsOfElem (pkg : Str) : Elem → List Item
  | .object o => [.object o]
  | .oneof o => [.oneof o]
  | .enum e => [.enum e]
  | .service s => [.serviceFile [s]]
  | .topic t => [.topicFile [t]]
  | .entity e => Entity.expand pkg e

end J5V.Compile
