import J5V.Compile.File
/-!
# Package — `protobuild/packages.go` (core only)

`loadPackage` / `loadLocalPackage` / `resolveDependencies` / `includeIO` / `Package.ResolveType`
over a list-indexed bundle: packages and files are *lists* in the listing order of the file source
(`ListPackages`, `ListSourceFiles`), Go maps are association lists in write order (`mapGet`: the
last write wins). `PSet` is `PackageSet.Packages`, the cache shared by successive
`CompilePackage` calls.

External (non-local) packages: the harness runs with an empty dependency set, so only the
built-in protos of the Go registry can be loaded; they are listed in `builtinPkgs` with the
exports j5convert can ask for (the implicit imports). Anything else fails to load.
-/
namespace J5V.Compile
open J5V.Go

/-- summary of one source file of a local package (`sourceResolver.getFile`) -/
def fileSummary : SrcFile → Outcome Summary'
  | .j5s path imports elems decl =>
    -- `parseJ5s` (`fix: cf01603`): the declared package must be the one the path gives
    if decl ≠ packageFromFilename path then .err "package-mismatch"
    else sourceSummary path imports elems
  | .proto path msgs enums =>
    let pkg := packageFromFilename path
    .ok { path := path, pkg := pkg,
          exports :=
            msgs.map (fun n => (n, (⟨pkg, n, path, .message false⟩ : TypeRef))) ++
            enums.map (fun (n, vals) =>
              let pfx := match vals with
                | v :: _ => if hasSuffix b!"UNSPECIFIED" v then trimSuffix v b!"UNSPECIFIED" else []
                | [] => []
              (n, (⟨pkg, n, path, .enum pfx vals⟩ : TypeRef))),
          depPkgs := [] }

/-- `protobuild.Package` as far as later code reads it -/
structure Loaded where
  name : Str
  exports : List (Str × TypeRef)
  deps : List (Str × List (Str × TypeRef))     -- DirectDependencies: name ↦ that package's exports
  files : List FileSkel                        -- descriptors converted from j5s (`pkg.Files`)
  /-- everything below is only read by the link model: converted files of the (transitive)
  dependencies, and the hand-written `.proto` files of this package and its dependencies
  (path, package, messages, enums) -/
  depFiles : List FileSkel := []
  protos : List (Str × Str × List Str × List (Str × List Str)) := []

instance : Inhabited Loaded := ⟨⟨[], [], [], [], [], []⟩⟩

def protoFilesOf (files : List SrcFile) : List (Str × Str × List Str × List (Str × List Str)) :=
  files.filterMap fun f =>
    match f with
    | .proto path msgs enums => some (path, packageFromFilename path, msgs, enums)
    | .j5s _ _ _ _ => none

/-- packages of the Go registry that an empty dependency set can still provide -/
def builtinPkgs : List Str :=
  [b!"j5.state.v1", b!"j5.list.v1", b!"j5.messaging.v1", b!"j5.ext.v1", b!"j5.auth.v1",
   b!"j5.types.date.v1", b!"j5.types.decimal.v1", b!"j5.types.any.v1", b!"j5.client.v1",
   b!"j5.schema.v1", b!"j5.bcl.v1", b!"j5.source.v1", b!"j5.sourcedef.v1",
   b!"google.protobuf", b!"google.api", b!"buf.validate"]

def dedup : List Str → List Str
  | [] => []
  | a :: rest => if rest.contains a then dedup rest else a :: dedup rest

/-- all file summaries of a package, in listing order; stops at the first failure -/
def summaries : List SrcFile → Outcome (List Summary')
  | [] => .ok []
  | f :: rest =>
    match fileSummary f with
    | .err t => .err t
    | .panic w => .panic w
    | .ok s =>
      match summaries rest with
      | .ok ss => .ok (s :: ss)
      | o => o

/-- convert every j5s file of a package against its resolver, in listing order -/
def convertAll (res : Resolver) : List SrcFile → Outcome (List FileSkel)
  | [] => .ok []
  | .proto _ _ _ :: rest => convertAll res rest
  | .j5s path imports elems _ :: rest =>
    match convertFile res path imports elems with
    | .err t => .err t
    | .panic w => .panic w
    | .ok fs =>
      match convertAll res rest with
      | .ok more => .ok (fs ++ more)
      | o => o

def Bundle.find (b : Bundle) (name : Str) : Option Pkg := b.pkgs.find? (·.name = name)

/-- packages a local package depends on: the packages of all type references of its files
(`includeIO`), without itself (`resolveDependencies`), each once -/
def depNamesOf (name : Str) (sums : List Summary') : List Str :=
  (dedup (sums.flatMap (·.depPkgs))).filter (· ≠ name)

/-- the `TypeResolver` a package offers to `ConvertJ5File` -/
def mkResolver (name : Str) (sums : List Summary') (ls : List Loaded) : Resolver :=
  { pkgName := name, exports := sums.flatMap (·.exports),
    deps := ls.map fun l => (l.name, l.exports) }

def mkLoaded (name : Str) (pkg : Pkg) (sums : List Summary') (ls : List Loaded)
    (files : List FileSkel) : Loaded :=
  { name := name, exports := sums.flatMap (·.exports),
    deps := ls.map fun l => (l.name, l.exports), files := files,
    depFiles := ls.flatMap fun l => l.files ++ l.depFiles,
    protos := protoFilesOf pkg.files ++ ls.flatMap (·.protos) }

/-- `resolveDependencies`: load each dependency in turn, stop at the first failure -/
def seqLoad (load : Str → Outcome Loaded) : List Str → Outcome (List Loaded)
  | [] => .ok []
  | d :: ds =>
    match load d with
    | .err t => .err t
    | .panic w => .panic w
    | .ok l =>
      match seqLoad load ds with
      | .ok more => .ok (l :: more)
      | o => o

/-- `loadPackage` without the cache. `chain` is `resolveBaton.chain`; `fuel` bounds the depth
(`b.pkgs.length + 1` is never exhausted: every level adds a distinct package to the chain). -/
def loadPkg (b : Bundle) : Nat → List Str → Str → Outcome Loaded
  | 0, _, _ => .err "fuel"
  | fuel + 1, chain, name =>
    if chain.contains name then .err "circular" else
    match b.find name with
    | none =>
      if builtinPkgs.contains name then .ok { name := name, exports := [], deps := [], files := [] }
      else .err "no-package"
    | some pkg =>
      match summaries pkg.files with
      | .err t => .err t
      | .panic w => .panic w
      | .ok sums =>
        match seqLoad (fun d => loadPkg b fuel (chain ++ [name]) d) (depNamesOf name sums) with
        | .err t => .err t
        | .panic w => .panic w
        | .ok ls =>
          match convertAll (mkResolver name sums ls) pkg.files with
          | .err t => .err t
          | .panic w => .panic w
          | .ok files => .ok (mkLoaded name pkg sums ls files)

/-- insert a file into a list sorted by file name -/
def insFile (f : FileSkel) : List FileSkel → List FileSkel
  | [] => [f]
  | g :: rest => if strLt f.name g.name then f :: g :: rest else g :: insFile f rest

/-- file skeletons of `CompilePackage`, before linking, sorted by file name (`sort.Strings` on
the keys of `pkg.Files`) -/
def sortFiles (fs : List FileSkel) : List FileSkel :=
  fs.foldl (fun acc f => insFile f acc) []

/-- `CompilePackage` up to (not including) the link step, on a fresh `PackageSet` -/
def compilePkg (b : Bundle) (name : Str) : Outcome (List FileSkel) :=
  match loadPkg b (b.pkgs.length + 1) [] name with
  | .err t => .err t
  | .panic w => .panic w
  | .ok l => .ok (sortFiles l.files)

end J5V.Compile
