import J5V.Compile.AppendDecl
/-!
# What a converted file consists of (core only)

`ConvertJ5File` runs the steps of the walk over a `rootContext`. When it succeeds, no step
panicked or aborted, no error was recorded, and the result is a *function of the step list*:
the main file is the fold of the main-target steps over an empty file, each sub-package file is
the fold of the steps of that target over an empty file of the sub-package, and a sub-package file
exists exactly when some step targets it. Nothing else is in the output.
-/
namespace J5V.Compile
open J5V.Go

/-- steps that neither panic nor abort the walk -/
def StepsClean (steps : List Step) : Prop := ∀ s ∈ steps, s.eff.panic = false ∧ s.hard = false

theorem runSteps_ok_inv (steps : List Step) (r r' : Root) (h : runSteps steps r = .ok r') :
    StepsClean steps ∧ r' = steps.foldl Root.apply r := by
  induction steps generalizing r with
  | nil =>
    simp only [runSteps, Outcome.ok.injEq] at h
    subst h
    exact ⟨(by intro s hs; cases hs), rfl⟩
  | cons s rest ih =>
    rw [runSteps] at h
    split at h
    · cases h
    · split at h
      · cases h
      · rename_i hp hh
        obtain ⟨hc, he⟩ := ih _ h
        refine ⟨?_, by simpa using he⟩
        intro x hx
        rcases List.mem_cons.mp hx with rfl | hx
        · exact ⟨by simpa using hp, by simpa using hh⟩
        · exact hc x hx

theorem runSteps_clean (steps : List Step) (r : Root) (h : StepsClean steps) :
    runSteps steps r = .ok (steps.foldl Root.apply r) := by
  induction steps generalizing r with
  | nil => rfl
  | cons s rest ih =>
    have hs := h s (by simp)
    rw [runSteps]
    simp only [hs.1, hs.2, Bool.false_eq_true, if_false, List.foldl_cons]
    exact ih _ (fun x hx => h x (List.mem_cons_of_mem _ hx))

/-- the steps of one target -/
def stepsOf (t : Target) (steps : List Step) : List Step := steps.filter (·.target = t)

/-- a file under construction after the given steps (all of its own target) -/
def FileB.run (f : FileB) (steps : List Step) : FileB :=
  steps.foldl (fun f s => f.apply s.eff s.svcs) f

theorem FileB.run_nil (f : FileB) : f.run [] = f := rfl

theorem FileB.run_append (f : FileB) (a b : List Step) : f.run (a ++ b) = (f.run a).run b := by
  simp [FileB.run, List.foldl_append]

theorem FileB.run_name (f : FileB) (steps : List Step) : (f.run steps).name = f.name := by
  induction steps generalizing f with
  | nil => rfl
  | cons s rest ih => simp only [FileB.run, List.foldl_cons] at ih ⊢; rw [ih]; rfl

theorem FileB.run_pkg (f : FileB) (steps : List Step) : (f.run steps).pkg = f.pkg := by
  induction steps generalizing f with
  | nil => rfl
  | cons s rest ih => simp only [FileB.run, List.foldl_cons] at ih ⊢; rw [ih]; rfl

theorem FileB.run_msgs (f : FileB) (steps : List Step) :
    (f.run steps).msgs = f.msgs ++ steps.flatMap (·.eff.msgs) := by
  induction steps generalizing f with
  | nil => simp [FileB.run]
  | cons s rest ih =>
    simp only [FileB.run, List.foldl_cons, List.flatMap_cons] at ih ⊢
    rw [ih]; simp [FileB.apply]

theorem FileB.run_enums (f : FileB) (steps : List Step) :
    (f.run steps).enums = f.enums ++ steps.flatMap (·.eff.enums) := by
  induction steps generalizing f with
  | nil => simp [FileB.run]
  | cons s rest ih =>
    simp only [FileB.run, List.foldl_cons, List.flatMap_cons] at ih ⊢
    rw [ih]; simp [FileB.apply]

theorem FileB.run_svcs (f : FileB) (steps : List Step) :
    (f.run steps).svcs = f.svcs ++ steps.flatMap (·.svcs) := by
  induction steps generalizing f with
  | nil => simp [FileB.run]
  | cons s rest ih =>
    simp only [FileB.run, List.foldl_cons, List.flatMap_cons] at ih ⊢
    rw [ih]; simp [FileB.apply]

theorem FileB.run_uses (f : FileB) (steps : List Step) :
    (f.run steps).uses = f.uses ++ steps.flatMap (·.eff.uses) := by
  induction steps generalizing f with
  | nil => simp [FileB.run]
  | cons s rest ih =>
    simp only [FileB.run, List.foldl_cons, List.flatMap_cons] at ih ⊢
    rw [ih]; simp [FileB.apply]

theorem FileB.run_deps (f : FileB) (steps : List Step) :
    (f.run steps).deps = (steps.flatMap (·.eff.imports)).foldl (ensureImport f.name) f.deps := by
  induction steps generalizing f with
  | nil => simp [FileB.run]
  | cons s rest ih =>
    simp only [FileB.run, List.foldl_cons, List.flatMap_cons, List.foldl_append] at ih ⊢
    rw [ih]; simp [FileB.apply]

/-- an empty file of sub-package `k` -/
def subFresh (name pkg k : Str) : FileB :=
  { name := subPackageFileName name k, pkg := pkg ++ b!"." ++ k }

/-- the state of the `rootContext` after `steps`, starting from the empty main file -/
structure RootInv (name pkg : Str) (steps : List Step) (r : Root) : Prop where
  main : r.main = ({ name := name, pkg := pkg } : FileB).run (stepsOf .main steps)
  errs : r.errs = (steps.map (·.eff.errs)).sum
  keys : (r.subs.map (·.1)).Nodup
  sub : ∀ kf ∈ r.subs, ∃ t : Target, t.sub = some kf.1 ∧ stepsOf t steps ≠ [] ∧
    kf.2 = (subFresh name pkg kf.1).run (stepsOf t steps)
  all : ∀ (t : Target) (k : Str), t.sub = some k → stepsOf t steps ≠ [] → k ∈ r.subs.map (·.1)

theorem Target.sub_inj {t t' : Target} {k : Str} (h : t.sub = some k) (h' : t'.sub = some k) :
    t = t' := by
  cases t <;> cases t' <;> simp [Target.sub] at h h' <;> first | rfl | (subst h; exact absurd h' (by decide))

theorem Target.sub_main {t : Target} {k : Str} (h : t.sub = some k) : t ≠ .main := by
  intro e; subst e; cases h

theorem stepsOf_append (t : Target) (a b : List Step) :
    stepsOf t (a ++ b) = stepsOf t a ++ stepsOf t b := by simp [stepsOf]

theorem stepsOf_single_eq (t : Target) (s : Step) (h : s.target = t) : stepsOf t [s] = [s] := by
  simp [stepsOf, h]

theorem stepsOf_single_ne (t : Target) (s : Step) (h : s.target ≠ t) : stepsOf t [s] = [] := by
  simp [stepsOf, h]

theorem Root.apply_sub (r : Root) (s : Step) (k : Str) (hs : s.target.sub = some k) :
    r.apply s =
      { r with
        subs := (if r.subs.any (fun x => x.2.pkg = r.main.pkg ++ b!"." ++ k) then r.subs
          else r.subs ++ [(k, { name := subPackageFileName r.main.name k,
                                pkg := r.main.pkg ++ b!"." ++ k })]).map (fun kf =>
            if kf.2.pkg = r.main.pkg ++ b!"." ++ k then (kf.1, kf.2.apply s.eff s.svcs)
            else (kf.1, kf.2)),
        errs := r.errs + s.eff.errs } := by
  unfold Root.apply
  simp only [hs]

theorem rootInv_step (name pkg : Str) (steps : List Step) (r : Root) (s : Step)
    (h : RootInv name pkg steps r) : RootInv name pkg (steps ++ [s]) (r.apply s) := by
  have hpkg : r.main.pkg = pkg := by rw [h.main, FileB.run_pkg]
  have hname : r.main.name = name := by rw [h.main, FileB.run_name]
  cases hs : s.target.sub with
  | none =>
    have hmain : s.target = .main := by
      cases ht : s.target <;> simp [ht, Target.sub] at hs; rfl
    have hap : r.apply s = { r with main := r.main.apply s.eff s.svcs, errs := r.errs + s.eff.errs } := by
      simp [Root.apply, hs]
    rw [hap]
    refine ⟨?_, ?_, h.keys, ?_, ?_⟩
    · simp only [stepsOf_append, stepsOf_single_eq _ s hmain, FileB.run_append, ← h.main]
      rfl
    · simp [h.errs]
    · intro kf hkf
      obtain ⟨t, ht, hne, he⟩ := h.sub kf hkf
      have hst : s.target ≠ t := by rw [hmain]; exact (Target.sub_main ht).symm
      refine ⟨t, ht, ?_, ?_⟩
      · rw [stepsOf_append, stepsOf_single_ne _ s hst, List.append_nil]; exact hne
      · rw [stepsOf_append, stepsOf_single_ne _ s hst, List.append_nil]; exact he
    · intro t k ht hne
      have hst : s.target ≠ t := by rw [hmain]; exact (Target.sub_main ht).symm
      rw [stepsOf_append, stepsOf_single_ne _ s hst, List.append_nil] at hne
      exact h.all t k ht hne
  | some k =>
    have hsm : s.target ≠ .main := Target.sub_main hs
    -- a sub file's package identifies its key
    have hkey : ∀ kf ∈ r.subs, (kf.2.pkg = r.main.pkg ++ b!"." ++ k) ↔ kf.1 = k := by
      intro kf hkf
      obtain ⟨t, _, _, he⟩ := h.sub kf hkf
      rw [he, FileB.run_pkg, hpkg]
      simp only [subFresh]
      constructor
      · intro e
        exact List.append_cancel_left e
      · intro e; rw [e]
    by_cases hin : k ∈ r.subs.map (·.1)
    · -- the sub file exists: it is updated in place
      have hany : r.subs.any (fun x => x.2.pkg = r.main.pkg ++ b!"." ++ k) = true := by
        obtain ⟨kf, hkf, hk⟩ := List.mem_map.mp hin
        exact List.any_eq_true.mpr ⟨kf, hkf, by simpa using (hkey kf hkf).mpr hk⟩
      have hap : r.apply s =
          { r with
            subs := r.subs.map (fun kf =>
              if kf.2.pkg = r.main.pkg ++ b!"." ++ k then (kf.1, kf.2.apply s.eff s.svcs) else (kf.1, kf.2)),
            errs := r.errs + s.eff.errs } := by
        rw [Root.apply_sub r s k hs, if_pos hany]
      rw [hap]
      have hkeys' : (r.subs.map (fun kf : Str × FileB =>
            if kf.2.pkg = r.main.pkg ++ b!"." ++ k then (kf.1, kf.2.apply s.eff s.svcs) else (kf.1, kf.2))).map (·.1)
            = r.subs.map (·.1) := by
        rw [List.map_map]
        apply List.map_congr_left
        intro kf _
        simp only [Function.comp]
        split <;> rfl
      refine ⟨?_, ?_, ?_, ?_, ?_⟩
      · simp only [stepsOf_append, stepsOf_single_ne _ s hsm, List.append_nil]
        exact h.main
      · simp [h.errs]
      · simp only [hkeys']; exact h.keys
      · intro kf' hkf'
        obtain ⟨kf, hkf, rfl⟩ := List.mem_map.mp hkf'
        obtain ⟨t, ht, hne, he⟩ := h.sub kf hkf
        by_cases hk : kf.1 = k
        · have hp := (hkey kf hkf).mpr hk
          simp only [hp, if_true]
          have hst : s.target = t := Target.sub_inj hs (hk ▸ ht)
          refine ⟨t, ht, ?_, ?_⟩
          · rw [stepsOf_append, stepsOf_single_eq _ s hst]; simp
          · rw [stepsOf_append, stepsOf_single_eq _ s hst, FileB.run_append, ← he]; rfl
        · have hp : ¬ kf.2.pkg = r.main.pkg ++ b!"." ++ k := fun e => hk ((hkey kf hkf).mp e)
          simp only [hp, if_false]
          have hst : s.target ≠ t := by
            intro e; rw [← e, hs] at ht; exact hk (Option.some.inj ht).symm
          refine ⟨t, ht, ?_, ?_⟩
          · rw [stepsOf_append, stepsOf_single_ne _ s hst, List.append_nil]; exact hne
          · rw [stepsOf_append, stepsOf_single_ne _ s hst, List.append_nil]; exact he
      · intro t k' ht hne
        simp only [hkeys']
        by_cases hst : s.target = t
        · rw [← hst, hs] at ht
          rw [← Option.some.inj ht]; exact hin
        · rw [stepsOf_append, stepsOf_single_ne _ s hst, List.append_nil] at hne
          exact h.all t k' ht hne
    · -- first step of this target: the sub file is created
      have hany : r.subs.any (fun x => x.2.pkg = r.main.pkg ++ b!"." ++ k) = false := by
        rw [Bool.eq_false_iff]
        intro ha
        obtain ⟨kf, hkf, hp⟩ := List.any_eq_true.mp ha
        exact hin (List.mem_map.mpr ⟨kf, hkf, (hkey kf hkf).mp (by simpa using hp)⟩)
      have hold : ∀ kf ∈ r.subs, ¬ kf.2.pkg = r.main.pkg ++ b!"." ++ k := by
        intro kf hkf e
        exact hin (List.mem_map.mpr ⟨kf, hkf, (hkey kf hkf).mp e⟩)
      have hmap : r.subs.map (fun kf : Str × FileB =>
            if kf.2.pkg = r.main.pkg ++ b!"." ++ k then (kf.1, kf.2.apply s.eff s.svcs) else (kf.1, kf.2))
            = r.subs := by
        conv => rhs; rw [← List.map_id r.subs]
        apply List.map_congr_left
        intro kf hkf
        simp only [hold kf hkf, if_false, id]
      have hap : r.apply s =
          { r with
            subs := r.subs ++ [(k, (subFresh name pkg k).apply s.eff s.svcs)],
            errs := r.errs + s.eff.errs } := by
        rw [Root.apply_sub r s k hs, if_neg (by rw [hany]; exact Bool.false_ne_true), List.map_append, hmap]
        simp only [List.map_cons, List.map_nil, if_true, subFresh, hname, hpkg]
      rw [hap]
      have hnone : stepsOf s.target steps = [] := by
        by_cases he : stepsOf s.target steps = []
        · exact he
        · exact absurd (h.all s.target k hs he) hin
      refine ⟨?_, ?_, ?_, ?_, ?_⟩
      · simp only [stepsOf_append, stepsOf_single_ne _ s hsm, List.append_nil]
        exact h.main
      · simp [h.errs]
      · simp only [List.map_append, List.map_cons, List.map_nil]
        rw [List.nodup_append]
        exact ⟨h.keys, by simp, by intro a ha b hb; simp at hb; subst hb; intro e; subst e; exact hin ha⟩
      · intro kf hkf
        rcases List.mem_append.mp hkf with hkf | hkf
        · obtain ⟨t, ht, hne, he⟩ := h.sub kf hkf
          have hst : s.target ≠ t := by
            intro e; rw [← e, hs] at ht
            exact hin (List.mem_map.mpr ⟨kf, hkf, (Option.some.inj ht).symm⟩)
          refine ⟨t, ht, ?_, ?_⟩
          · rw [stepsOf_append, stepsOf_single_ne _ s hst, List.append_nil]; exact hne
          · rw [stepsOf_append, stepsOf_single_ne _ s hst, List.append_nil]; exact he
        · simp only [List.mem_singleton] at hkf
          subst hkf
          refine ⟨s.target, hs, ?_, ?_⟩
          · rw [stepsOf_append, stepsOf_single_eq _ s rfl]; simp
          · rw [stepsOf_append, stepsOf_single_eq _ s rfl, hnone]; rfl
      · intro t k' ht hne
        simp only [List.map_append, List.map_cons, List.map_nil, List.mem_append, List.mem_singleton]
        by_cases hst : s.target = t
        · rw [← hst, hs] at ht
          exact Or.inr (Option.some.inj ht).symm
        · rw [stepsOf_append, stepsOf_single_ne _ s hst, List.append_nil] at hne
          exact Or.inl (h.all t k' ht hne)

theorem rootInv_init (name pkg : Str) :
    RootInv name pkg [] { main := { name := name, pkg := pkg } } :=
  ⟨rfl, rfl, (by simp), (by intro kf hkf; cases hkf), (by intro t k _ hne; exact absurd rfl hne)⟩

theorem rootInv_foldl (name pkg : Str) (pre steps : List Step) (r : Root)
    (h : RootInv name pkg pre r) : RootInv name pkg (pre ++ steps) (steps.foldl Root.apply r) := by
  induction steps generalizing pre r with
  | nil => simpa using h
  | cons s rest ih =>
    have := ih (pre ++ [s]) (r.apply s) (rootInv_step name pkg pre r s h)
    simpa using this

/-- **the result of a walk is a function of its steps** -/
theorem rootInv_run (name pkg : Str) (steps : List Step) :
    RootInv name pkg steps (steps.foldl Root.apply { main := { name := name, pkg := pkg } }) := by
  simpa using rootInv_foldl name pkg [] steps _ (rootInv_init name pkg)

/-- the steps `ConvertJ5File` runs for a file -/
def fileSteps (c : Ctx) (pkg : Str) (elems : List Elem) : List Step :=
  (elems.flatMap (itemsOfElem pkg)).flatMap (convItem c)

/-- **`ConvertJ5File` succeeded**: the imports were accepted, no step panicked or aborted, no
error was recorded, and the generated files are exactly the files of the final `rootContext` -/
theorem convertFile_ok_inv (res : Resolver) (path : Str) (imports : List Import) (elems : List Elem)
    (fs : List FileSkel) (h : convertFile res path imports elems = .ok fs) :
    ∃ im, j5Imports (packageFromFilename (path ++ b!".proto")) imports = .ok im ∧
      let c : Ctx := { resolve := resolveTypeNoImport im res }
      let steps := fileSteps c (packageFromFilename (path ++ b!".proto")) elems
      let r := steps.foldl Root.apply
        { main := { name := path ++ b!".proto", pkg := packageFromFilename (path ++ b!".proto") } }
      StepsClean steps ∧ r.errs = 0 ∧ fs = r.files := by
  unfold convertFile at h
  simp only [] at h
  cases hj : j5Imports (packageFromFilename (path ++ b!".proto")) imports with
  | err t => simp [hj] at h
  | panic w => simp [hj] at h
  | ok im =>
    refine ⟨im, rfl, ?_⟩
    simp only [hj] at h
    cases hr : runSteps ((elems.flatMap (itemsOfElem (packageFromFilename (path ++ b!".proto")))).flatMap
        (convItem { resolve := resolveTypeNoImport im res }))
        { main := { name := path ++ b!".proto", pkg := packageFromFilename (path ++ b!".proto") } } with
    | err t => simp [hr] at h
    | panic w => simp [hr] at h
    | ok r1 =>
      simp only [hr] at h
      obtain ⟨hc, he⟩ := runSteps_ok_inv _ _ _ hr
      split at h
      · cases h
      · rename_i herr
        simp only [Outcome.ok.injEq] at h
        simp only [fileSteps]
        rw [← he]
        exact ⟨hc, by omega, h.symm⟩

/-- conversely: clean steps without recorded errors give the files of the fold -/
theorem convertFile_of_clean (res : Resolver) (path : Str) (imports : List Import)
    (elems : List Elem) (im : ImportMap)
    (hj : j5Imports (packageFromFilename (path ++ b!".proto")) imports = .ok im)
    (hc : StepsClean (fileSteps { resolve := resolveTypeNoImport im res }
      (packageFromFilename (path ++ b!".proto")) elems))
    (he : ((fileSteps { resolve := resolveTypeNoImport im res }
      (packageFromFilename (path ++ b!".proto")) elems).map (·.eff.errs)).sum = 0) :
    convertFile res path imports elems = .ok
      ((fileSteps { resolve := resolveTypeNoImport im res }
        (packageFromFilename (path ++ b!".proto")) elems).foldl Root.apply
        { main := { name := path ++ b!".proto", pkg := packageFromFilename (path ++ b!".proto") } }).files := by
  unfold convertFile
  simp only [hj]
  have hr := runSteps_clean _
    { main := { name := path ++ b!".proto", pkg := packageFromFilename (path ++ b!".proto") } } hc
  simp only [fileSteps] at hr hc he ⊢
  rw [hr]
  have hinv := rootInv_run (path ++ b!".proto") (packageFromFilename (path ++ b!".proto"))
    ((elems.flatMap (itemsOfElem (packageFromFilename (path ++ b!".proto")))).flatMap
      (convItem { resolve := resolveTypeNoImport im res }))
  simp only []
  rw [hinv.errs, he]
  rfl

end J5V.Compile
