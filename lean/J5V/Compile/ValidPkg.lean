import J5V.Compile.Valid
import J5V.Compile.CacheProofs
import J5V.Compile.NoPanicPkg
/-!
# Valid bundles are accepted by the converter (C07, core only)

`ValidBundle b r`: a decidable predicate on the *sources* of a bundle — every file's package
declaration matches its path, imports are well formed, every visited item is within the
supported language (`okItem`) with references checked against the export tables computed from
the sources (`resolverOf`), every dependency is a local or built-in package, and the package
dependency graph is acyclic (rank function `r`).
Then `CompilePackage` up to the link step succeeds for every package: `compilePkg_accepts`.
-/
namespace J5V.Compile
open J5V.Go

def pkgSums (p : Pkg) : List Summary' := p.files.map sumOf

/-- export table of a package, from its sources -/
def exportsOf (b : Bundle) (name : Str) : List (Str × TypeRef) :=
  match b.find name with
  | none => []
  | some p => (pkgSums p).flatMap (·.exports)

/-- the resolver a package offers to its files, from the sources -/
def resolverOf (b : Bundle) (p : Pkg) : Resolver :=
  { pkgName := p.name, exports := (pkgSums p).flatMap (·.exports),
    deps := (depNamesOf p.name (pkgSums p)).map fun d => (d, exportsOf b d) }

def okSrcFile (b : Bundle) (p : Pkg) : SrcFile → Bool
  | .proto _ _ _ => true
  | .j5s path imports elems decl =>
    decide (decl = packageFromFilename path) && okImports imports &&
      okElems (fileCtx (resolverOf b p) path imports) (packageFromFilename (path ++ b!".proto")) elems

def okPkg (b : Bundle) (p : Pkg) : Bool :=
  p.files.all (okSrcFile b p) &&
    (depNamesOf p.name (pkgSums p)).all fun d => (b.find d).isSome || builtinPkgs.contains d

/-- a bundle within the supported language -/
def ValidBundle (b : Bundle) (r : Str → Nat) : Prop :=
  rankOk b r = true ∧ (∀ n, r n < b.pkgs.length + 1) ∧ WfBundle b ∧
    ∀ p ∈ b.pkgs, b.find p.name = some p ∧ okPkg b p = true

/-! ## the summary walk -/

theorem mapM_some_of_forall {α β : Type} (f : α → Option β) (l : List α)
    (h : ∀ a ∈ l, (f a).isSome = true) : ∃ ys, l.mapM f = some ys := by
  induction l with
  | nil => exact ⟨[], rfl⟩
  | cons a rest ih =>
    obtain ⟨ys, hys⟩ := ih (fun x hx => h x (List.mem_cons_of_mem _ hx))
    cases ha : f a with
    | none => have := h a (by simp); rw [ha] at this; cases this
    | some y => exact ⟨y :: ys, by simp [List.mapM_cons, ha, hys]⟩

def pubNode (t : Topic) (msgs : List TopicMsg) : TopicNode :=
  { name := t.name, msgs := msgs, topicName := toSnake t.name, role := .publish }
def reqNode (t : Topic) (reqs : List TopicMsg) : TopicNode :=
  { name := t.name ++ b!"Request", msgs := reqs, topicName := toSnake t.name, role := .request, prepend := requestPrepend }
def repNode (t : Topic) (reps : List TopicMsg) : TopicNode :=
  { name := t.name ++ b!"Reply", msgs := reps, topicName := toSnake t.name, role := .reply, prepend := requestPrepend }

theorem itemWalk_ok (c : Ctx) (i : Item) (hw : WfItem i = true) (ho : okItem c i = true) :
    itemWalk i = .ok () := by
  cases i with
  | object o => rfl
  | oneof o => rfl
  | enum e => rfl
  | abort => simp [okItem] at ho
  | serviceFile ss =>
    simp only [WfItem, WfService, List.all_eq_true] at hw
    simp only [okItem, okService, List.all_eq_true, Bool.and_eq_true] at ho
    unfold itemWalk
    have h1 : ss.any (fun s => s.methods.any (·.request.isNone)) = false := by
      rw [Bool.eq_false_iff]
      intro h
      obtain ⟨s, hs, hm⟩ := List.any_eq_true.mp h
      obtain ⟨m, hmm, hr⟩ := List.any_eq_true.mp hm
      have := hw s hs m hmm
      cases hq : m.request <;> simp [hq] at this hr
    have h2 : ss.any (·.name.isNone) = false := by
      rw [Bool.eq_false_iff]
      intro h
      obtain ⟨s, hs, hn⟩ := List.any_eq_true.mp h
      have := (ho s hs).1
      cases hq : s.name <;> simp [hq] at this hn
    simp [h1, h2]
  | topicFile ts =>
    simp only [okItem, List.all_eq_true] at ho
    have hbad : ∀ (tn : TopicNode), okTopicNode c tn = true →
        (decide (tn.msgs.length ≠ 1) && tn.msgs.any (·.name.isNone)) = false := by
      intro tn htn
      simp only [okTopicNode, List.all_eq_true, Bool.and_eq_true] at htn
      rw [Bool.eq_false_iff]
      intro h
      simp only [Bool.and_eq_true, decide_eq_true_eq] at h
      obtain ⟨hl, hany⟩ := h
      obtain ⟨m, hm, hn⟩ := List.any_eq_true.mp hany
      have := (htn m hm).1
      unfold topicMethodName at this
      cases hq : m.name with
      | some x => simp [hq] at hn
      | none => simp [hq, hl] at this
    unfold itemWalk
    simp only []
    rw [if_neg]
    intro h
    obtain ⟨t, ht, hb⟩ := List.any_eq_true.mp h
    have hnodes := ho t ht
    cases htt : t.type with
    | publish msgs =>
      simp only [htt] at hb
      have := hbad (pubNode t msgs) (hnodes _ (by simp [topicNodes, htt, pubNode]))
      simp only [pubNode] at this
      have := this.symm.trans hb; cases this
    | reqres reqs reps =>
      simp only [htt, Bool.or_eq_true] at hb
      have h1 := hbad (reqNode t reqs) (hnodes _ (by simp [topicNodes, htt, reqNode]))
      have h2 := hbad (repNode t reps) (hnodes _ (by simp [topicNodes, htt, repNode]))
      simp only [reqNode, repNode] at h1 h2
      rcases hb with hb | hb
      · have := h1.symm.trans hb; cases this
      · have := h2.symm.trans hb; cases this
    | upsert en msg => simp [htt] at hb
    | event en msg => simp [htt] at hb

theorem walkItems_ok (c : Ctx) (items : List Item)
    (h : ∀ i ∈ items, WfItem i = true ∧ okItem c i = true) : walkItems items = .ok () := by
  induction items with
  | nil => rfl
  | cons i rest ih =>
    rw [walkItems, itemWalk_ok c i (h i (by simp)).1 (h i (by simp)).2]
    exact ih (fun x hx => h x (List.mem_cons_of_mem _ hx))

/-- **`SourceSummary` succeeds** on a file the converter accepts -/
theorem sourceSummary_accepts (res : Resolver) (path : Str) (imports : List Import) (elems : List Elem)
    (hres : ∀ im, WfCtx { resolve := resolveTypeNoImport im res })
    (himp : okImports imports = true)
    (hel : okElems (fileCtx res path imports) (packageFromFilename (path ++ b!".proto")) elems = true) :
    ∃ s, sourceSummary path imports elems = .ok s := by
  obtain ⟨fs, hfs⟩ := convertFile_accepts res path imports elems hres himp hel
  obtain ⟨im, hj, hrefs⟩ := convertFile_refs res path imports elems fs hfs
  simp only [okElems, List.all_eq_true, Bool.and_eq_true] at hel
  unfold sourceSummary
  simp only []
  rw [walkItems_ok _ _ hel]
  simp only [hj]
  have hall : ∀ r ∈ (elems.flatMap (itemsOfElem (packageFromFilename (path ++ b!".proto")))).flatMap itemRefs,
      (im.expand r.1 r.2).isSome = true := by
    intro r hr
    obtain ⟨i, hi, hri⟩ := List.mem_flatMap.mp hr
    obtain ⟨t, ht, _⟩ := hrefs i hi r hri
    simp only [resolveTypeNoImport] at ht
    cases he : im.expand r.1 r.2 with
    | none => simp [he] at ht
    | some e => rfl
  obtain ⟨ys, hys⟩ := mapM_some_of_forall (fun x : Str × Str => im.expand x.1 x.2) _ hall
  split
  · rename_i hnone
    exact absurd (hys.symm.trans hnone) (by simp)
  · exact ⟨_, rfl⟩

/-! ## loading -/

theorem sumOf_good (f : SrcFile) (h : WfFile f = true) : GoodExports (sumOf f).exports := by
  unfold sumOf
  cases hf : fileSummary f with
  | ok s => exact (fileSummary_good f h).2 s hf
  | err t => intro kt hkt; simp [default] at hkt
  | panic w => intro kt hkt; simp [default] at hkt

theorem pkgSums_good (b : Bundle) (hb : WfBundle b) (p : Pkg) (hp : p ∈ b.pkgs) :
    GoodExports ((pkgSums p).flatMap (·.exports)) := by
  intro kt hkt
  simp only [pkgSums, List.mem_flatMap, List.mem_map] at hkt
  obtain ⟨s, ⟨f, hf, rfl⟩, hk⟩ := hkt
  exact sumOf_good f (hb p hp f hf) kt hk

theorem exportsOf_good (b : Bundle) (hb : WfBundle b) (n : Str) : GoodExports (exportsOf b n) := by
  unfold exportsOf
  cases hf : b.find n with
  | none => intro kt hkt; cases hkt
  | some p => exact pkgSums_good b hb p (List.mem_of_find?_eq_some hf)

theorem resolverOf_wf (b : Bundle) (hb : WfBundle b) (p : Pkg) (hp : p ∈ b.pkgs) (im : ImportMap) :
    WfCtx { resolve := resolveTypeNoImport im (resolverOf b p) } := by
  apply wfCtx_of_exports
  · exact pkgSums_good b hb p hp
  · intro pe hpe
    simp only [resolverOf, List.mem_map] at hpe
    obtain ⟨d, _, rfl⟩ := hpe
    exact exportsOf_good b hb d

/-- every source file of a valid package has a summary -/
theorem fileSummary_accepts (b : Bundle) (hb : WfBundle b) (p : Pkg) (hp : p ∈ b.pkgs)
    (f : SrcFile) (hok : okSrcFile b p f = true) : fileSummary f = .ok (sumOf f) := by
  cases f with
  | proto path msgs enums => simp [sumOf, fileSummary]
  | j5s path imports elems decl =>
    simp only [okSrcFile, Bool.and_eq_true, decide_eq_true_eq] at hok
    obtain ⟨⟨hd, himp⟩, hel⟩ := hok
    obtain ⟨s, hs⟩ := sourceSummary_accepts (resolverOf b p) path imports elems
      (resolverOf_wf b hb p hp) himp hel
    have : fileSummary (.j5s path imports elems decl) = .ok s := by
      rw [fileSummary, if_neg (by simpa using hd), hs]
    simp [sumOf, this]

/-- **loading a package of a valid bundle succeeds**, with the export table the sources give -/
theorem load_accepts (b : Bundle) (r : Str → Nat) (hv : ValidBundle b r) :
    ∀ (f : Nat) (chain : List Str) (n : Str), r n < f → (∀ c ∈ chain, r n < r c) →
      ((b.find n).isSome = true ∨ builtinPkgs.contains n = true) →
      ∃ l, loadPkg b f chain n = .ok l ∧ l.name = n ∧ l.exports = exportsOf b n := by
  obtain ⟨hr, _, hb, hpk⟩ := hv
  intro f
  induction f with
  | zero => intro chain n h; omega
  | succ k ih =>
    intro chain n hf hc hloc
    rw [loadPkg]
    have hnc : chain.contains n = false := by
      cases h : chain.contains n with
      | false => rfl
      | true => have := hc n (by simpa using h); omega
    simp only [hnc, Bool.false_eq_true, if_false]
    cases hfind : b.find n with
    | none =>
      simp only [hfind, Option.isSome_none, Bool.false_eq_true, false_or] at hloc
      simp only [hloc, if_true]
      exact ⟨_, rfl, rfl, by simp [exportsOf, hfind]⟩
    | some pkg =>
      simp only []
      have hmem : pkg ∈ b.pkgs := List.mem_of_find?_eq_some hfind
      have hname : pkg.name = n := by simpa using List.find?_some hfind
      obtain ⟨_, hok⟩ := hpk pkg hmem
      simp only [okPkg, Bool.and_eq_true, List.all_eq_true, Bool.or_eq_true] at hok
      obtain ⟨hfiles, hdeps⟩ := hok
      have hs : summaries pkg.files = .ok (pkgSums pkg) :=
        summaries_of_all_ok pkg.files (fun f hf' => fileSummary_accepts b hb pkg hmem f (hfiles f hf'))
      simp only [hs]
      have hrank := rankOk_dep b r hr n pkg (pkgSums pkg) hfind hs
      have hload : ∀ d ∈ depNamesOf n (pkgSums pkg),
          loadPkg b k (chain ++ [n]) d = .ok (loadOf b k (chain ++ [n]) d) ∧
          (loadOf b k (chain ++ [n]) d).name = d ∧
          (loadOf b k (chain ++ [n]) d).exports = exportsOf b d := by
        intro d hd
        have hdr := hrank d hd
        obtain ⟨l, hl, h1, h2⟩ := ih (chain ++ [n]) d (by omega)
          (by
            intro c hcm
            rcases List.mem_append.mp hcm with h | h
            · have := hc c h; omega
            · simp only [List.mem_singleton] at h; subst h; exact hdr)
          (hdeps d (hname ▸ hd))
        have : loadOf b k (chain ++ [n]) d = l := by simp [loadOf, hl]
        rw [this]
        exact ⟨hl, h1, h2⟩
      rw [seqLoad_of_all_ok _ _ (loadOf b k (chain ++ [n])) (fun d hd => (hload d hd).1)]
      simp only []
      have hresolver : mkResolver n (pkgSums pkg) ((depNamesOf n (pkgSums pkg)).map (loadOf b k (chain ++ [n]))) =
          resolverOf b pkg := by
        simp only [mkResolver, resolverOf, hname, List.map_map]
        congr 1
        apply List.map_congr_left
        intro d hd
        simp only [Function.comp, (hload d hd).2.1, (hload d hd).2.2]
      rw [hresolver]
      have hconv : ∀ f ∈ pkg.files, convOk (resolverOf b pkg) f := by
        intro f hf'
        cases f with
        | proto path msgs enums => trivial
        | j5s path imports elems decl =>
          have hokf := hfiles _ hf'
          simp only [okSrcFile, Bool.and_eq_true, decide_eq_true_eq] at hokf
          exact convertFile_accepts (resolverOf b pkg) path imports elems (resolverOf_wf b hb pkg hmem)
            hokf.1.2 hokf.2
      rw [convertAll_of_all_ok _ _ hconv]
      exact ⟨_, rfl, rfl, by simp [mkLoaded, exportsOf, hfind]⟩

/-- **`CompilePackage` up to the link step accepts every package of a valid bundle** -/
theorem compilePkg_accepts (b : Bundle) (r : Str → Nat) (hv : ValidBundle b r) (p : Pkg)
    (hp : p ∈ b.pkgs) : ∃ fs, compilePkg b p.name = .ok fs := by
  obtain ⟨l, hl, _, _⟩ := load_accepts b r hv (b.pkgs.length + 1) [] p.name (hv.2.1 _)
    (by intro c hc; cases hc) (Or.inl (by rw [(hv.2.2.2 p hp).1]; rfl))
  exact ⟨sortFiles l.files, by simp [compilePkg, hl]⟩

end J5V.Compile
