import J5V.Compile.SourceDef
/-!
# Append edits on SourceDef (C13) — core only

`appendField`, `appendOption`, `appendDecl` of `harness/PROTOCOL-compile.md` ("edits"), with the
path semantics of the harness (`j5sgen/edit.go`): a path starts at a top-level element and walks
through properties (into their inline type, through array / map items), nested schemas, service
methods (request / response), topic messages and the parts of an entity. Every function is
structurally recursive on the path. `none` = the path does not name a container of the right
kind (`bad-op` on the wire).
-/
namespace J5V.Compile

inductive PStep where
  | el (i : Nat) | prop (j : Nat) | nest (k : Nat)
  | method (m : Nat) | req | res
  | msg (m : Nat) | reqm (m : Nat) | repm (m : Nat)
  | edata | estatus | event (k : Nat) | command (c : Nat) | summary (s : Nat)
  deriving Repr, DecidableEq, Inhabited

/-- what is appended at the end of the path -/
inductive Act where
  | field (p : Property)
  | option (o : Str)

inductive Edit where
  | appendField (file : Nat) (path : List PStep) (p : Property)
  | appendOption (file : Nat) (path : List PStep) (name : Str)
  | appendDecl (file : Nat) (e : Elem)

/-- the inline property list below a field (through array / map items), and how to put a new
list back -/
def inlineProps : Field → Option (List Property × (List Property → Field))
  | .objectInl n ps fl r => some (ps, fun ps' => .objectInl n ps' fl r)
  | .oneofInl n ps r lr => some (ps, fun ps' => .oneofInl n ps' r lr)
  | .array items r => (inlineProps items).map fun (ps, k) => (ps, fun ps' => .array (k ps') r)
  | .map items r => (inlineProps items).map fun (ps, k) => (ps, fun ps' => .map (k ps') r)
  | _ => none

/-- the inline enum below a field, with one more option -/
def inlineEnumAppend (o : Str) : Field → Option Field
  | .enumInl e r lr => some (.enumInl { e with opts := e.opts ++ [o] } r lr)
  | .array items r => (inlineEnumAppend o items).map (.array · r)
  | .map items r => (inlineEnumAppend o items).map (.map · r)
  | _ => none

def setAt {α : Type} (l : List α) (i : Nat) (f : α → Option α) : Option (List α) :=
  match l[i]? with
  | none => none
  | some a => (f a).map fun a' => l.set i a'

/-- cursor on a property list -/
def editProps (act : Act) : List PStep → List Property → Option (List Property)
  | [], props =>
    match act with
    | .field p => some (props ++ [p])
    | .option _ => none
  | .prop j :: rest, props =>
    setAt props j fun pr =>
      match pr with
      | .mk n r o f =>
        match inlineProps f with
        | some (ps, k) => (editProps act rest ps).map fun ps' => .mk n r o (k ps')
        | none =>
          match rest, act with
          | [], .option opt => (inlineEnumAppend opt f).map fun f' => .mk n r o f'
          | _, _ => none
  | _, _ => none

def editEnum (act : Act) (path : List PStep) (e : EnumDecl) : Option EnumDecl :=
  match path, act with
  | [], .option o => some { e with opts := e.opts ++ [o] }
  | _, _ => none

/-- cursor on a declared object / oneof -/
def editDecl (act : Act) : List PStep → ObjDecl → Option ObjDecl
  | [], .mk n ps ne psm => (editProps act [] ps).map fun ps' => .mk n ps' ne psm
  | .prop j :: rest, .mk n ps ne psm =>
    (editProps act (.prop j :: rest) ps).map fun ps' => .mk n ps' ne psm
  | .nest k :: rest, .mk n ps ne psm =>
    (setAt ne k fun x =>
      match x with
      | .object o => (editDecl act rest o).map .object
      | .oneof o => (editDecl act rest o).map .oneof
      | .enum e => (editEnum act rest e).map .enum).map fun ne' => .mk n ps ne' psm
  | _, _ => none

def editNested (act : Act) (path : List PStep) : Nested → Option Nested
  | .object o => (editDecl act path o).map .object
  | .oneof o => (editDecl act path o).map .oneof
  | .enum e => (editEnum act path e).map .enum

def editService (act : Act) : List PStep → Service → Option Service
  | .method m :: .req :: rest, s =>
    (setAt s.methods m fun mt =>
      match mt.request with
      | some r => (editProps act rest r).map fun r' => { mt with request := some r' }
      | none => none).map fun ms => { s with methods := ms }
  | .method m :: .res :: rest, s =>
    (setAt s.methods m fun mt =>
      match mt.response with
      | some r => (editProps act rest r).map fun r' => { mt with response := some r' }
      | none => none).map fun ms => { s with methods := ms }
  | _, _ => none

def editMsgs (act : Act) (m : Nat) (rest : List PStep) (msgs : List TopicMsg) : Option (List TopicMsg) :=
  setAt msgs m fun tm => (editProps act rest tm.props).map fun ps => { tm with props := ps }

def editTopic (act : Act) : List PStep → Topic → Option Topic
  | .msg m :: rest, t =>
    match t.type with
    | .publish msgs => (editMsgs act m rest msgs).map fun ms => { t with type := .publish ms }
    | .upsert en msg =>
      if m = 0 then (editMsgs act 0 rest [msg]).bind fun ms => ms.head?.map fun m' => { t with type := .upsert en m' }
      else none
    | .event en msg =>
      if m = 0 then (editMsgs act 0 rest [msg]).bind fun ms => ms.head?.map fun m' => { t with type := .event en m' }
      else none
    | .reqres _ _ => none
  | .reqm m :: rest, t =>
    match t.type with
    | .reqres reqs reps => (editMsgs act m rest reqs).map fun ms => { t with type := .reqres ms reps }
    | _ => none
  | .repm m :: rest, t =>
    match t.type with
    | .reqres reqs reps => (editMsgs act m rest reps).map fun ms => { t with type := .reqres reqs ms }
    | _ => none
  | _, _ => none

def editEntity (act : Act) : List PStep → Entity → Option Entity
  | .edata :: rest, e => (editProps act rest e.data).map fun d => { e with data := d }
  | [.estatus], e =>
    match act with
    | .option o => some { e with statuses := e.statuses ++ [o] }
    | .field _ => none
  | .event k :: rest, e => (setAt e.events k (editDecl act rest)).map fun ev => { e with events := ev }
  | .command c :: rest, e => (setAt e.commands c (editService act rest)).map fun cs => { e with commands := cs }
  | .summary s :: rest, e =>
    (setAt e.summaries s fun sm => (editProps act rest sm.props).map fun ps => { sm with props := ps }).map
      fun ss => { e with summaries := ss }
  | .nest k :: rest, e => (setAt e.nested k (editNested act rest)).map fun ne => { e with nested := ne }
  | _, _ => none

def editElem (act : Act) (path : List PStep) : Elem → Option Elem
  | .object o => (editDecl act path o).map .object
  | .oneof o => (editDecl act path o).map .oneof
  | .enum e => (editEnum act path e).map .enum
  | .service s => (editService act path s).map .service
  | .topic t => (editTopic act path t).map .topic
  | .entity e => (editEntity act path e).map .entity

def editElems (act : Act) (path : List PStep) (elems : List Elem) : Option (List Elem) :=
  match path with
  | .el i :: rest => setAt elems i (editElem act rest)
  | _ => none

/-- apply one edit to a source file -/
def Edit.applyFile (e : Edit) : SrcFile → Option SrcFile
  | .proto _ _ _ => none
  | .j5s path imports elems decl =>
    match e with
    | .appendDecl _ el => some (.j5s path imports (elems ++ [el]) decl)
    | .appendField _ p prop => (editElems (.field prop) p elems).map (.j5s path imports · decl)
    | .appendOption _ p o => (editElems (.option o) p elems).map (.j5s path imports · decl)

def Edit.file : Edit → Nat
  | .appendField f _ _ => f
  | .appendOption f _ _ => f
  | .appendDecl f _ => f

/-- apply one edit to package `pkg` of the bundle -/
def Edit.apply (e : Edit) (pkg : Str) (b : Bundle) : Option Bundle :=
  if !(b.pkgs.any (·.name = pkg)) then none else
  (b.pkgs.mapM fun p =>
    if p.name = pkg then (setAt p.files e.file e.applyFile).map fun fs => { p with files := fs }
    else some p).map fun ps => { pkgs := ps }

/-- apply a sequence of edits, left to right -/
def applyEdits (pkg : Str) : List Edit → Bundle → Option Bundle
  | [], b => some b
  | e :: es, b => (e.apply pkg b).bind (applyEdits pkg es)

end J5V.Compile
