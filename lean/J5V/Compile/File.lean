import J5V.Compile.Entity
/-!
# File — `ConvertJ5File` and `SourceSummary` (core only)

Mirrors `j5convert/j5convert.go` (`ConvertJ5File`), the file half of `j5convert/builders.go`
(`ensureImport` keeps the dependency list sorted and duplicate free; messages, enums and services
are appended in visit order), `j5convert/walker_context.go` (`subPackageFile`,
`subPackageFileName`) and `j5convert/summary_walk.go` (`SourceSummary`, `collectFileRefs`).
-/
namespace J5V.Compile
open J5V.Go

/-! ## byte-wise string order, `sort.Strings` -/

def strLt : Str → Str → Bool
  | [], [] => false
  | [], _ :: _ => true
  | _ :: _, [] => false
  | a :: as, b :: bs => if a < b then true else if b < a then false else strLt as bs

def insertSorted (p : Str) : List Str → List Str
  | [] => [p]
  | q :: rest => if strLt p q then p :: q :: rest else q :: insertSorted p rest

/-- `sort.Strings` (insertion sort; the result is what matters) -/
def sortStrings (l : List Str) : List Str := l.foldl (fun acc p => insertSorted p acc) []

/-- `fileContext.ensureImport` on the dependency list of file `own` (panics are in `Eff.imp`) -/
def ensureImport (own : Str) (deps : List Str) (p : Str) : List Str :=
  if p = own then deps
  else if deps.contains p then deps
  else sortStrings (deps ++ [p])

/-! ## files under construction -/

structure FileB where
  name : Str
  pkg : Str
  deps : List Str := []
  msgs : List MsgSkel := []
  enums : List EnumSkel := []
  svcs : List SvcSkel := []
  uses : List Str := []

def FileB.apply (f : FileB) (e : Eff) (svcs : List SvcSkel) : FileB :=
  { f with deps := e.imports.foldl (ensureImport f.name) f.deps,
           msgs := f.msgs ++ e.msgs, enums := f.enums ++ e.enums, svcs := f.svcs ++ svcs,
           uses := f.uses ++ e.uses }

def FileB.skel (f : FileB) : FileSkel :=
  { name := f.name, pkg := f.pkg, deps := f.deps, msgs := f.msgs, enums := f.enums, svcs := f.svcs,
    uses := f.uses }

/-- `subPackageFileName` -/
def subPackageFileName (sourceFilename sub : Str) : Str :=
  let (dir, base) := pathSplit sourceFilename
  let root := trimSuffix base b!".j5s.proto"
  pathJoin [dir, sub, root ++ b!".p.j5s.proto"]

/-- `rootContext`: the main file, the sub-package files in creation order, the error count -/
structure Root where
  main : FileB
  subs : List (Str × FileB) := []
  errs : Nat := 0

def Target.sub : Target → Option Str
  | .main => none
  | .service => some b!"service"
  | .topic => some b!"topic"

/-- `subPackageFile` (find or create) followed by the effects of one step -/
def Root.apply (r : Root) (s : Step) : Root :=
  match s.target.sub with
  | none => { r with main := r.main.apply s.eff s.svcs, errs := r.errs + s.eff.errs }
  | some sub =>
    let full := r.main.pkg ++ b!"." ++ sub
    let subs :=
      if r.subs.any (·.2.pkg = full) then r.subs
      else r.subs ++ [(sub, { name := subPackageFileName r.main.name sub, pkg := full })]
    { r with
      subs := subs.map fun (k, f) => if f.pkg = full then (k, f.apply s.eff s.svcs) else (k, f),
      errs := r.errs + s.eff.errs }

/-- run the steps of the walk: a panic inside a step wins over everything later; a walker error
aborts -/
def runSteps : List Step → Root → Outcome Root
  | [], r => .ok r
  | s :: rest, r =>
    if s.eff.panic then .panic "convert"
    else if s.hard then .err "walker"
    else runSteps rest (r.apply s)

def convItem (c : Ctx) : Item → List Step
  | .object o => [{ target := .main, eff := convDecl c [] false [] o }]
  | .oneof o => [{ target := .main, eff := convDecl c [] true [] o }]
  | .enum e => [{ target := .main, eff := { enums := [convEnum e] } }]
  | .serviceFile ss => convServiceFile c ss
  | .topicFile ts => convTopicFile c ts
  | .abort => [{ target := .main, hard := true }]

/-- `ConvertJ5File`: `path` is `SourceFile.Path` (`foo/v1/a.j5s`); package from the file name -/
def convertFile (res : Resolver) (path : Str) (imports : List Import) (elems : List Elem) :
    Outcome (List FileSkel) :=
  let name := path ++ b!".proto"
  let pkg := packageFromFilename name
  match j5Imports pkg imports with
  | .err t => .err t
  | .panic w => .panic w
  | .ok im =>
    let c : Ctx := { resolve := resolveTypeNoImport im res }
    let steps := (elems.flatMap (itemsOfElem pkg)).flatMap (convItem c)
    match runSteps steps { main := { name := name, pkg := pkg } } with
    | .err t => .err t
    | .panic w => .panic w
    | .ok r =>
      if r.errs > 0 then .err "convert"
      else .ok (r.main.skel :: r.subs.map (·.2.skel))

/-! ## `SourceSummary` -/

mutual
/-- references collected by the `Property` callback (`node.Field.Ref`, else `Items.Ref`),
including those inside inline types -/
def refsField : Field → List (Str × Str)
  | .objectRef pkg schema _ _ => [(pkg, schema)]
  | .oneofRef pkg schema _ _ => [(pkg, schema)]
  | .enumRef pkg schema _ _ => [(pkg, schema)]
  | .objectInl _ props _ _ => refsProps props
  | .oneofInl _ props _ _ => refsProps props
  | .array items _ => refsField items
  | .map items _ => refsField items
  | _ => []
def refsProperty : Property → List (Str × Str)
  | .mk _ _ _ f => refsField f
def refsProps : List Property → List (Str × Str)
  | [] => []
  | p :: ps => refsProperty p ++ refsProps ps
end

mutual
/-- exports added while visiting the inline types below a field (`np` = owner's `NestPath`) -/
def exportsField (np : List Str) (defName : Str) : Field → List (Str × TKind)
  | .objectInl name props _ _ =>
    let nm := if name = [] then defName else name
    (relName np nm, .message false) :: exportsProps (np ++ [nm]) props
  | .oneofInl name props _ _ =>
    let nm := if name = [] then defName else name
    (relName np nm, .message true) :: exportsProps (np ++ [nm]) props
  | .enumInl e _ _ =>
    let nm := if e.name = [] then defName else e.name
    [(relName np nm, enumTKind { e with name := nm })]
  | .array items _ => exportsField np defName items
  | .map items _ => exportsField np defName items
  | _ => []
def exportsProperty (np : List Str) : Property → List (Str × TKind)
  | .mk name _ _ f => exportsField np (toCamel name) f
def exportsProps (np : List Str) : List Property → List (Str × TKind)
  | [] => []
  | p :: ps => exportsProperty np p ++ exportsProps np ps
end

mutual
def exportsDecl (np : List Str) (isOneof : Bool) : ObjDecl → List (Str × TKind)
  | .mk name props nested _ =>
    (relName np name, .message isOneof) :: exportsProps (np ++ [name]) props
      ++ exportsNested (np ++ [name]) nested
def exportsNested (np : List Str) : List Nested → List (Str × TKind)
  | [] => []
  | .object o :: rest => exportsDecl np false o ++ exportsNested np rest
  | .oneof o :: rest => exportsDecl np true o ++ exportsNested np rest
  | .enum e :: rest => (relName np e.name, enumTKind e) :: exportsNested np rest
end

mutual
def refsDecl : ObjDecl → List (Str × Str)
  | .mk _ props nested _ => refsProps props ++ refsNested nested
def refsNested : List Nested → List (Str × Str)
  | [] => []
  | .object o :: rest => refsDecl o ++ refsNested rest
  | .oneof o :: rest => refsDecl o ++ refsNested rest
  | .enum _ :: rest => refsNested rest
end

/-- virtual objects a service contributes (request / response) -/
def serviceObjects (s : Service) : List (Str × List Property) :=
  s.methods.flatMap fun m =>
    (match m.request with | some r => [(m.name ++ b!"Request", r)] | none => []) ++
    (match m.response with | some r => [(m.name ++ b!"Response", r)] | none => [])

/-- virtual message objects of a topic: name, prepends ++ declared fields (names resolved as in
`acceptTopic`; messages without a resolvable name are dropped, the walk aborts there) -/
def topicObjects (t : Topic) : List (Str × List Property) :=
  (topicNodes t).flatMap fun tn =>
    tn.msgs.filterMap fun m =>
      (topicMethodName tn m).map fun n => (n ++ b!"Message", tn.prepend ++ m.props)

def virtualExports (objs : List (Str × List Property)) : List (Str × TKind) :=
  objs.flatMap fun (n, ps) => (n, TKind.message false) :: exportsProps [n] ps

def itemExports : Item → List (Str × TKind)
  | .object o => exportsDecl [] false o
  | .oneof o => exportsDecl [] true o
  | .enum e => [(e.name, enumTKind e)]
  | .serviceFile ss => virtualExports (ss.flatMap serviceObjects)
  | .topicFile ts => virtualExports (ts.flatMap topicObjects)
  | .abort => []

def itemRefs : Item → List (Str × Str)
  | .object o => refsDecl o
  | .oneof o => refsDecl o
  | .enum _ => []
  | .serviceFile ss => (ss.flatMap serviceObjects).flatMap fun (_, ps) => refsProps ps
  | .topicFile ts => (ts.flatMap topicObjects).flatMap fun (_, ps) => refsProps ps
  | .abort => []

/-- does the summary walk (a `DefaultVisitor` over the same `RangeRootElements`) hit a walker
error or a nil dereference: abort items, unnamed services, unnamed messages of a multi-message
topic, methods without request -/
def itemWalk : Item → Outcome Unit
  | .abort => .err "walker"
  | .serviceFile ss =>
    if ss.any (fun s => s.methods.any (·.request.isNone)) then .panic "nil-request"
    else if ss.any (·.name.isNone) then .err "walker" else .ok ()
  | .topicFile ts =>
    let bad (msgs : List TopicMsg) := msgs.length ≠ 1 && msgs.any (·.name.isNone)
    if ts.any (fun t => match t.type with
        | .publish msgs => bad msgs
        | .reqres reqs reps => bad reqs || bad reps
        | _ => false) then .err "walker" else .ok ()
  | _ => .ok ()

def walkItems : List Item → Outcome Unit
  | [] => .ok ()
  | i :: rest =>
    match itemWalk i with
    | .ok () => walkItems rest
    | o => o

/-- `FileSummary` as far as the compiler uses it -/
structure Summary' where
  path : Str
  pkg : Str
  exports : List (Str × TypeRef)     -- map-write order
  depPkgs : List Str                 -- `TypeDependencies[i].Package`, in order

/-- `SourceSummary` of a j5s file -/
def sourceSummary (path : Str) (imports : List Import) (elems : List Elem) : Outcome Summary' :=
  let file := path ++ b!".proto"
  let pkg := packageFromFilename file
  let items := elems.flatMap (itemsOfElem pkg)
  match walkItems items with
  | .err t => .err t
  | .panic w => .panic w
  | .ok () =>
    match j5Imports pkg imports with
    | .err t => .err t
    | .panic w => .panic w
    | .ok im =>
      let refs := items.flatMap itemRefs
      match refs.mapM fun (p, s) => im.expand p s with
      | none => .err "not-imported"
      | some expanded =>
        .ok { path := path, pkg := pkg,
              exports := (items.flatMap itemExports).map fun (n, k) => (n, ⟨pkg, n, file, k⟩),
              depPkgs := expanded.map (·.pkg) }

end J5V.Compile
