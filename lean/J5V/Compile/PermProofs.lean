import J5V.Compile.Package
/-!
# Order-independence lemmas (core only)

* `fold_perm_invariant`: a left fold whose body commutes is invariant under permutation of the
  list — the shape of every `insert-into-map` / `set-union` loop over a Go map;
* `mapGet_perm`: a Go map written once per key reads the same whatever the order of the writes;
* instantiation to `Package.includeIO` (exports) and `DirectDependencies`.
-/
namespace J5V.Compile

/-- a fold with a commuting body does not depend on the order of its input -/
theorem fold_perm_invariant {α β : Type} (f : β → α → β)
    (hcomm : ∀ b x y, f (f b x) y = f (f b y) x) {l₁ l₂ : List α} (p : l₁.Perm l₂) (b : β) :
    l₁.foldl f b = l₂.foldl f b := by
  induction p generalizing b with
  | nil => rfl
  | cons x _ ih => simp [ih]
  | swap x y l => simp [hcomm]
  | trans _ _ ih1 ih2 => rw [ih1, ih2]

/-- …and with an idempotent body it does not depend on repetitions either: folding a list and
folding it with one element repeated give the same result -/
theorem fold_idem_dup {α β : Type} (f : β → α → β)
    (hcomm : ∀ b x y, f (f b x) y = f (f b y) x) (hidem : ∀ b x, f (f b x) x = f b x)
    (l : List α) (x : α) (hx : x ∈ l) (b : β) : (x :: l).foldl f b = l.foldl f b := by
  induction l generalizing b with
  | nil => simp at hx
  | cons y ys ih =>
    simp only [List.foldl_cons]
    by_cases hxy : x = y
    · subst hxy; rw [hidem]
    · have hx' : x ∈ ys := by
        rcases List.mem_cons.mp hx with h | h
        · exact absurd h hxy
        · exact h
      rw [hcomm b x y]
      have := ih hx' (f b y)
      simpa using this

theorem find?_perm_of_unique {α : Type} (p : α → Bool) {l₁ l₂ : List α} (h : l₁.Perm l₂)
    (huniq : ∀ a ∈ l₁, ∀ b ∈ l₁, p a = true → p b = true → a = b) :
    l₁.find? p = l₂.find? p := by
  induction h with
  | nil => rfl
  | cons x hp ih =>
    simp only [List.find?_cons]
    split
    · rfl
    · exact ih (fun a ha b hb => huniq a (List.mem_cons_of_mem _ ha) b (List.mem_cons_of_mem _ hb))
  | swap x y l =>
    simp only [List.find?_cons]
    cases hx : p x <;> cases hy : p y <;> simp
    exact huniq y (by simp) x (by simp) hy hx
  | trans h1 h2 ih1 ih2 =>
    rw [ih1 huniq]
    apply ih2
    intro a ha b hb
    exact huniq a (h1.mem_iff.mpr ha) b (h1.mem_iff.mpr hb)

theorem inj_of_nodup_map {α β : Type} (f : α → β) (l : List α) (h : (l.map f).Nodup) :
    ∀ a ∈ l, ∀ b ∈ l, f a = f b → a = b := by
  induction l with
  | nil => intro a ha; simp at ha
  | cons x xs ih =>
    simp only [List.map_cons, List.nodup_cons, List.mem_map, not_exists, not_and] at h
    intro a ha b hb hab
    rcases List.mem_cons.mp ha with rfl | ha' <;> rcases List.mem_cons.mp hb with rfl | hb'
    · rfl
    · exact absurd hab.symm (h.1 b hb')
    · exact absurd hab (h.1 a ha')
    · exact ih h.2 a ha' b hb' hab

/-- a Go map in which every key is written at most once reads the same for any write order -/
theorem mapGet_perm {V : Type} {m₁ m₂ : List (Str × V)} (h : m₁.Perm m₂)
    (hnd : (m₁.map (·.1)).Nodup) (k : Str) : mapGet m₁ k = mapGet m₂ k := by
  unfold mapGet
  congr 1
  have hrev : m₁.reverse.Perm m₂.reverse :=
    ((List.reverse_perm m₁).trans h).trans (List.reverse_perm m₂).symm
  apply find?_perm_of_unique _ hrev
  intro a ha b hb hka hkb
  simp only [decide_eq_true_eq] at hka hkb
  have ha' : a ∈ m₁ := by simpa using ha
  have hb' : b ∈ m₁ := by simpa using hb
  have hkey : a.1 = b.1 := hka.trans hkb.symm
  exact inj_of_nodup_map _ _ hnd a ha' b hb' hkey

end J5V.Compile
