import J5V.Compile.ShapeProofs
import J5V.Compile.Entity
/-!
# HTTP paths of generated methods in explicit form (C17) — core only

`strings.Split(path, "/")` of a path that was joined from slash-free parts gives the parts back;
the rewrite `:name` → `{snake_name}` then acts part by part.
-/
namespace J5V.Compile
open J5V.Go J5V.Compile.Entity

theorem splitOnByte_nosep (c : Nat) (a : Str) (h : c ∉ a) : splitOnByte c a = [a] := by
  induction a with
  | nil => rfl
  | cons v rest ih =>
    have hv : v ≠ c := fun e => h (by simp [e])
    have hr : c ∉ rest := fun m => h (List.mem_cons_of_mem _ m)
    simp only [splitOnByte, hv, if_false, ih hr]

theorem splitOnByte_append_sep (c : Nat) (a rest : Str) (h : c ∉ a) :
    splitOnByte c (a ++ c :: rest) = a :: splitOnByte c rest := by
  induction a with
  | nil => simp [splitOnByte]
  | cons v a' ih =>
    have hv : v ≠ c := fun e => h (by simp [e])
    have hr : c ∉ a' := fun m => h (List.mem_cons_of_mem _ m)
    simp only [List.cons_append, splitOnByte, hv, if_false, ih hr]

theorem splitOnByte_joinWith (parts : List Str) (hne : parts ≠ []) (h : ∀ p ∈ parts, 47 ∉ p) :
    splitOnByte 47 (joinWith b!"/" parts) = parts := by
  induction parts with
  | nil => exact absurd rfl hne
  | cons a rest ih =>
    cases rest with
    | nil => simp only [joinWith]; exact splitOnByte_nosep 47 a (h a (by simp))
    | cons b rest' =>
      have hj : joinWith b!"/" (a :: b :: rest') = a ++ 47 :: joinWith b!"/" (b :: rest') := by
        simp [joinWith]
      rw [hj, splitOnByte_append_sep 47 a _ (h a (by simp)),
        ih (by simp) (fun p hp => h p (List.mem_cons_of_mem _ hp))]

theorem rewritePart_colon (nm : Str) : rewritePart (b!":" ++ nm) = b!"{" ++ toSnake nm ++ b!"}" := rfl

theorem rewritePart_plain (p : Str) (h : p.head? ≠ some 58) : rewritePart p = p := by
  cases p with
  | nil => rfl
  | cons v rest =>
    have hv : v ≠ 58 := fun e => h (by simp [e])
    unfold rewritePart
    split
    · rename_i nm heq
      cases heq
      exact absurd rfl hv
    · rfl

/-- **explicit form**: a resolved path that is the plain join of literal parts followed by `:key`
parts is emitted as the same literal parts followed by `{snake(key)}` parts -/
theorem rewritePath_explicit (req : List Property) (lits : List Str) (keys : List Property)
    (hl : ∀ p ∈ lits, 47 ∉ p ∧ p.head? ≠ some 58) (hk : ∀ k ∈ keys, 47 ∉ k.name)
    (hne : lits ≠ []) :
    (rewritePath req (joinWith b!"/" (lits ++ colonPath keys))).1 =
      joinWith b!"/" (lits ++ keys.map fun k => b!"{" ++ toSnake k.name ++ b!"}") := by
  have hsplit : splitOnByte 47 (joinWith b!"/" (lits ++ colonPath keys)) = lits ++ colonPath keys := by
    apply splitOnByte_joinWith
    · intro e; exact hne (List.append_eq_nil_iff.mp e).1
    · intro p hp
      rcases List.mem_append.mp hp with hp | hp
      · exact (hl p hp).1
      · obtain ⟨k, hkm, rfl⟩ := List.mem_map.mp hp
        intro hm
        have : (47 : Nat) ∈ (58 : Nat) :: k.name := hm
        rcases List.mem_cons.mp this with h1 | h1
        · exact absurd h1 (by decide)
        · exact hk k hkm h1
  show joinWith b!"/" ((splitOnByte 47 _).map rewritePart) = _
  rw [hsplit, List.map_append]
  congr 2
  · have : ∀ l : List Str, (∀ p ∈ l, p.head? ≠ some 58) → l.map rewritePart = l := by
      intro l hlp
      induction l with
      | nil => rfl
      | cons a r ih =>
        simp only [List.map_cons]
        rw [rewritePart_plain a (hlp a (by simp)), ih (fun p hp => hlp p (List.mem_cons_of_mem _ hp))]
    exact this lits (fun p hp => (hl p hp).2)
  · simp only [colonPath, List.map_map]
    apply List.map_congr_left
    intro k _
    rfl

/-- a path component that `path.Clean` keeps -/
def CleanPart (p : Str) : Prop := p ≠ [] ∧ p ≠ b!"." ∧ p ≠ b!".." ∧ 47 ∉ p

theorem cleanGo_clean (rooted : Bool) (stack cs : List Str) (h : ∀ c ∈ cs, CleanPart c) :
    cleanGo rooted stack cs = stack.reverse ++ cs := by
  induction cs generalizing stack with
  | nil => simp [cleanGo]
  | cons c cs ih =>
    obtain ⟨h1, h2, h3, _⟩ := h c (by simp)
    have step : cleanGo rooted stack (c :: cs) = cleanGo rooted (c :: stack) cs := by
      simp [cleanGo, h1, h2, h3]
    rw [step, ih _ (fun x hx => h x (List.mem_cons_of_mem _ hx))]
    simp

theorem joinWith_append (sep : Str) (a b : List Str) (ha : a ≠ []) (hb : b ≠ []) :
    joinWith sep (a ++ b) = joinWith sep a ++ sep ++ joinWith sep b := by
  induction a with
  | nil => exact absurd rfl ha
  | cons x rest ih =>
    cases rest with
    | nil =>
      cases b with
      | nil => exact absurd rfl hb
      | cons y b' => simp [joinWith]
    | cons y rest' =>
      have : joinWith sep (x :: y :: rest' ++ b) = x ++ sep ++ joinWith sep (y :: rest' ++ b) := by
        simp [joinWith]
      rw [this, ih (by simp)]
      simp [joinWith, List.append_assoc]

theorem pathClean_rooted (parts : List Str) (hne : parts ≠ []) (h : ∀ c ∈ parts, CleanPart c) :
    pathClean (b!"/" ++ joinWith b!"/" parts) = b!"/" ++ joinWith b!"/" parts := by
  have hp : b!"/" ++ joinWith b!"/" parts = 47 :: joinWith b!"/" parts := rfl
  have hsplit : splitOnByte 47 (47 :: joinWith b!"/" parts) = [] :: parts := by
    have := splitOnByte_append_sep 47 [] (joinWith b!"/" parts) (by simp)
    simp only [List.nil_append] at this
    rw [this, splitOnByte_joinWith parts hne (fun p hp => (h p hp).2.2.2)]
  rw [hp]
  unfold pathClean
  simp only [List.cons_ne_nil, if_false, List.head?_cons, if_true, hsplit]
  have step : cleanGo true [] ([] :: parts) = cleanGo true [] parts := by simp [cleanGo]
  simp only [decide_true, step, cleanGo_clean true [] parts h, List.reverse_nil, List.nil_append]
  simp

/-- `path.Join(base, rest)` of a rooted clean base and a clean (possibly empty) rest -/
theorem pathJoin_clean (a b : List Str) (ha : a ≠ []) (hca : ∀ c ∈ a, CleanPart c)
    (hcb : ∀ c ∈ b, CleanPart c) :
    pathJoin [b!"/" ++ joinWith b!"/" a, joinWith b!"/" b] = b!"/" ++ joinWith b!"/" (a ++ b) := by
  have hA : b!"/" ++ joinWith b!"/" a ≠ [] := by
    show 47 :: joinWith b!"/" a ≠ []
    simp
  cases b with
  | nil =>
    simp only [pathJoin, joinWith, List.filter_cons, hA, ne_eq, not_false_eq_true, decide_true,
      if_true, not_true_eq_false, decide_false, List.filter_nil, List.append_nil]
    exact pathClean_rooted a ha hca
  | cons y b' =>
    have hB : joinWith b!"/" (y :: b') ≠ [] := by
      have hy := (hcb y (by simp)).1
      cases b' with
      | nil => simpa [joinWith] using hy
      | cons z b'' => simp [joinWith, hy]
    simp only [pathJoin, List.filter_cons, hA, hB, ne_eq, not_false_eq_true, decide_true, if_true,
      List.filter_nil]
    have : joinWith b!"/" [b!"/" ++ joinWith b!"/" a, joinWith b!"/" (y :: b')] =
        b!"/" ++ joinWith b!"/" (a ++ y :: b') := by
      rw [joinWith_append b!"/" a (y :: b') ha (by simp)]
      simp [joinWith, List.append_assoc]
    rw [this]
    exact pathClean_rooted (a ++ y :: b') (by simp)
      (fun c hc => by
        rcases List.mem_append.mp hc with h | h
        · exact hca c h
        · exact hcb c h)

/-- the rewrite acts part by part on a path joined from slash-free parts -/
theorem rewritePath_parts (req : List Property) (parts : List Str) (hne : parts ≠ [])
    (h : ∀ p ∈ parts, 47 ∉ p) :
    (rewritePath req (joinWith b!"/" parts)).1 = joinWith b!"/" (parts.map rewritePart) := by
  show joinWith b!"/" ((splitOnByte 47 _).map rewritePart) = _
  rw [splitOnByte_joinWith parts hne h]

theorem map_rewritePart_plain (l : List Str) (h : ∀ p ∈ l, p.head? ≠ some 58) :
    l.map rewritePart = l := by
  induction l with
  | nil => rfl
  | cons a r ih =>
    simp only [List.map_cons]
    rw [rewritePart_plain a (h a (by simp)), ih (fun p hp => h p (List.mem_cons_of_mem _ hp))]

theorem map_rewritePart_colon (keys : List Property) :
    (colonPath keys).map rewritePart = keys.map fun k => b!"{" ++ toSnake k.name ++ b!"}" := by
  simp only [colonPath, List.map_map]
  apply List.map_congr_left
  intro k _
  rfl

theorem colonPath_clean (keys : List Property) (hk : ∀ k ∈ keys, 47 ∉ k.name) :
    ∀ c ∈ colonPath keys, CleanPart c := by
  intro c hc
  obtain ⟨k, hkm, rfl⟩ := List.mem_map.mp hc
  refine ⟨by simp, ?_, ?_, ?_⟩
  · intro e
    have : (58 : Nat) :: k.name = [46] := e
    simp at this
  · intro e
    have : (58 : Nat) :: k.name = [46, 46] := e
    simp at this
  · intro hm
    have : (47 : Nat) ∈ (58 : Nat) :: k.name := hm
    rcases List.mem_cons.mp this with h1 | h1
    · exact absurd h1 (by decide)
    · exact hk k hkm h1

theorem joinWith_nil_cons (l : List Str) (h : l ≠ []) :
    joinWith b!"/" ([] :: l) = b!"/" ++ joinWith b!"/" l := by
  cases l with
  | nil => exact absurd rfl h
  | cons a r => simp [joinWith]

theorem q_clean : CleanPart b!"q" ∧ (b!"q" : Str).head? ≠ some 58 := by
  refine ⟨⟨by decide, by decide, by decide, by decide⟩, by decide⟩

/-- **the HTTP path of a generated method in explicit form.** Base path `/<b1>/…/<bn>/q` over clean
literal parts, method path `:k1/…/:km/<tail>`: the emitted pattern is
`/<b1>/…/<bn>/q/{snake(k1)}/…/{snake(km)}/<tail>` -/
theorem methodPath_explicit (bparts : List Str) (base : Str) (hb : base = joinWith b!"/" bparts)
    (hbne : bparts ≠ []) (hbc : ∀ p ∈ bparts, CleanPart p ∧ p.head? ≠ some 58)
    (m : Method) (ks : List Property) (tail : List Str)
    (hm : m.path = joinWith b!"/" (colonPath ks ++ tail))
    (hk : ∀ k ∈ ks, 47 ∉ k.name) (ht : ∀ p ∈ tail, CleanPart p ∧ p.head? ≠ some 58) :
    (methodSkelOf (some (b!"/" ++ base ++ b!"/q")) m).http.map (·.path) =
      some (b!"/" ++ joinWith b!"/" (bparts ++ [b!"q"] ++
        (ks.map fun k => b!"{" ++ toSnake k.name ++ b!"}") ++ tail)) := by
  have hbp : b!"/" ++ base ++ b!"/q" = b!"/" ++ joinWith b!"/" (bparts ++ [b!"q"]) := by
    rw [hb, joinWith_append b!"/" bparts [b!"q"] hbne (by simp)]
    simp [joinWith, List.append_assoc]
  have hA : ∀ c ∈ bparts ++ [b!"q"], CleanPart c := by
    intro c hc
    rcases List.mem_append.mp hc with h | h
    · exact (hbc c h).1
    · simp only [List.mem_singleton] at h; subst h; exact q_clean.1
  have hB : ∀ c ∈ colonPath ks ++ tail, CleanPart c := by
    intro c hc
    rcases List.mem_append.mp hc with h | h
    · exact colonPath_clean ks hk c h
    · exact (ht c h).1
  have hres : resolvedPath (some (b!"/" ++ base ++ b!"/q")) m =
      joinWith b!"/" ([] :: (bparts ++ [b!"q"] ++ (colonPath ks ++ tail))) := by
    simp only [resolvedPath]
    rw [hbp, hm, pathJoin_clean _ _ (by simp) hA hB, joinWith_nil_cons _ (by simp)]
  simp only [methodSkelOf, Option.map_some, hres]
  rw [rewritePath_parts _ _ (by simp)]
  · simp only [List.map_cons, List.map_append, map_rewritePart_colon]
    rw [map_rewritePart_plain bparts (fun p hp => (hbc p hp).2),
      map_rewritePart_plain tail (fun p hp => (ht p hp).2)]
    have hq : rewritePart b!"q" = b!"q" := rfl
    have h0 : rewritePart ([] : Str) = [] := rfl
    simp only [hq, h0, List.map_nil]
    rw [joinWith_nil_cons _ (by simp)]
    simp [List.append_assoc]
  · intro p hp
    rcases List.mem_cons.mp hp with rfl | hp
    · simp
    · rcases List.mem_append.mp hp with h | h
      · exact (hA p h).2.2.2
      · exact (hB p h).2.2.2

theorem getKeys_mem (e : Entity) (p : Property) (h : p ∈ getKeys e) : ∃ k ∈ e.keys, p = k.prop := by
  obtain ⟨k, hk, hf⟩ := List.mem_filterMap.mp h
  refine ⟨k, hk, ?_⟩
  cases hi : keyInfo k with
  | none => simp [hi] at hf
  | some b =>
    cases b <;> simp only [hi] at hf
    · split at hf
      · exact (Option.some.inj hf).symm
      · cases hf
    · exact (Option.some.inj hf).symm

theorem listKeys_mem (e : Entity) (p : Property) (h : p ∈ listKeys e) : ∃ k ∈ e.keys, p = k.prop := by
  obtain ⟨k, hk, hf⟩ := List.mem_filterMap.mp h
  refine ⟨k, hk, ?_⟩
  cases hi : keyInfo k with
  | none => simp [hi] at hf
  | some b =>
    simp only [hi] at hf
    split at hf
    · exact (Option.some.inj hf).symm
    · cases hf

/-- **the three query routes in explicit form** -/
theorem query_paths (pkg : Str) (e : Entity) (bparts : List Str)
    (hb : baseUrlPath pkg e = joinWith b!"/" bparts) (hbne : bparts ≠ [])
    (hbc : ∀ p ∈ bparts, CleanPart p ∧ p.head? ≠ some 58)
    (hk : ∀ k ∈ e.keys, 47 ∉ k.prop.name) :
    (methodSkelOf (some (b!"/" ++ baseUrlPath pkg e ++ b!"/q")) (getMethod e)).http.map (·.path) =
      some (b!"/" ++ joinWith b!"/" (bparts ++ [b!"q"] ++
        ((getKeys e).map fun k => b!"{" ++ toSnake k.name ++ b!"}"))) ∧
    (methodSkelOf (some (b!"/" ++ baseUrlPath pkg e ++ b!"/q")) (listMethod e)).http.map (·.path) =
      some (b!"/" ++ joinWith b!"/" (bparts ++ [b!"q"] ++
        ((listKeys e).map fun k => b!"{" ++ toSnake k.name ++ b!"}"))) ∧
    (methodSkelOf (some (b!"/" ++ baseUrlPath pkg e ++ b!"/q")) (eventsMethod e)).http.map (·.path) =
      some (b!"/" ++ joinWith b!"/" (bparts ++ [b!"q"] ++
        ((getKeys e).map fun k => b!"{" ++ toSnake k.name ++ b!"}") ++ [b!"events"])) := by
  have hg : ∀ k ∈ getKeys e, 47 ∉ k.name := by
    intro k hkm
    obtain ⟨k0, hk0, rfl⟩ := getKeys_mem e k hkm
    exact hk k0 hk0
  have hl : ∀ k ∈ listKeys e, 47 ∉ k.name := by
    intro k hkm
    obtain ⟨k0, hk0, rfl⟩ := listKeys_mem e k hkm
    exact hk k0 hk0
  have hev : ∀ p ∈ [b!"events"], CleanPart p ∧ p.head? ≠ some 58 := by
    intro p hp
    simp only [List.mem_singleton] at hp
    subst hp
    exact ⟨⟨by decide, by decide, by decide, by decide⟩, by decide⟩
  refine ⟨?_, ?_, ?_⟩
  · have := methodPath_explicit bparts _ hb hbne hbc (getMethod e) (getKeys e) []
      (by simp [getMethod]) hg (by simp)
    simpa using this
  · have := methodPath_explicit bparts _ hb hbne hbc (listMethod e) (listKeys e) []
      (by simp [listMethod]) hl (by simp)
    simpa using this
  · exact methodPath_explicit bparts _ hb hbne hbc (eventsMethod e) (getKeys e) [b!"events"]
      (by simp [eventsMethod]) hg hev

end J5V.Compile
