import J5V.Compile.Str
/-!
# SourceDef — the AST after j5parse (core only)

Mirrors `sourcedef_j5pb.SourceFile` (`proto/j5build/j5/sourcedef/v1/file.proto`) and the schema
types it embeds (`proto/j5/j5/schema/v1/schema.proto`), restricted to what the compiler's
skeleton, its import set, its errors and its panics depend on. The shape is the one of
`harness/PROTOCOL-compile.md` §2, plus the few members that only the entity expansion
(`sourcewalk/entity.go`) produces: object PSM annotation, list rules, method / service options,
`event` topics.

Nested inductives (`List Property` inside `Field`, `List Nested` inside `ObjDecl`) are handled with
`mutual` blocks; functions over them are mutually structural.
-/
namespace J5V.Compile

/-- a literal of a `rules.<name> = <lit>` attribute -/
inductive Lit where
  | int (n : Nat)
  | str (s : Str)
  | bool (b : Bool)
  | neg (n : Nat)
  | strs (l : List Str)
  deriving Repr, DecidableEq, Inhabited

structure Rule where
  name : Str
  lit : Lit
  deriving Repr, DecidableEq, Inhabited

/-- empty list ⇔ the `Rules` message is absent -/
abbrev Rules := List Rule

inductive IntFmt where
  | int32 | int64 | uint32 | uint64
  deriving Repr, DecidableEq, Inhabited

inductive FloatFmt where
  | float32 | float64
  deriving Repr, DecidableEq, Inhabited

inductive KeyFmt where
  | none | informal | uuid | id62 | custom (pattern : Str)
  deriving Repr, DecidableEq, Inhabited

inductive EntKeyKind where
  | plain
  | primary (b : Bool)
  | foreign (pkg entity : Str)
  deriving Repr, DecidableEq, Inhabited

/-- `KeyField.entity` -/
inductive EntKey where
  | nokey
  | ek (kind : EntKeyKind) (tenant : Option Str)
  deriving Repr, DecidableEq, Inhabited

def EntKey.isPrimary : EntKey → Bool
  | .ek (.primary true) _ => true
  | _ => false

structure EnumDecl where
  name : Str
  pfx : Str          -- `[]` = not given
  opts : List Str    -- option names; `Enum.Option.number` is always 0 in parsed source
  deriving Repr, DecidableEq, Inhabited

mutual
/-- `schema_j5pb.Field` -/
inductive Field where
  | string (rules : Rules) (listRules : Bool)
  | bool (rules : Rules) (listRules : Bool)
  | bytes (rules : Rules)
  | date (rules : Rules) (listRules : Bool)
  | decimal (rules : Rules) (listRules : Bool)
  | timestamp (rules : Rules)
  | any
  | integer (fmt : IntFmt) (rules : Rules) (listRules : Bool)
  | float (fmt : FloatFmt) (rules : Rules) (listRules : Bool)
  | key (fmt : KeyFmt) (ek : EntKey) (rules : Rules) (listRules : Bool)
  | objectRef (pkg schema : Str) (flatten : Bool) (rules : Rules)
  | objectInl (name : Str) (props : List Property) (flatten : Bool) (rules : Rules)
  | oneofRef (pkg schema : Str) (rules : Rules) (listRules : Bool)
  | oneofInl (name : Str) (props : List Property) (rules : Rules) (listRules : Bool)
  /-- `listRules`: `none` = no `EnumRules` list constraint; `some fs` = present, with
  `filtering.default_filters = fs` (`[]` when there is no `filtering` or no default) -/
  | enumRef (pkg schema : Str) (rules : Rules) (listRules : Option (List Str))
  | enumInl (e : EnumDecl) (rules : Rules) (listRules : Option (List Str))
  | array (items : Field) (rules : Rules)
  | map (items : Field) (rules : Rules)
/-- `schema_j5pb.ObjectProperty` -/
inductive Property where
  | mk (name : Str) (required explicitlyOptional : Bool) (schema : Field)
end

instance : Inhabited Field := ⟨.any⟩
instance : Inhabited Property := ⟨.mk [] false false .any⟩

def Property.name : Property → Str | .mk n _ _ _ => n
def Property.required : Property → Bool | .mk _ r _ _ => r
def Property.explicitlyOptional : Property → Bool | .mk _ _ o _ => o
def Property.schema : Property → Field | .mk _ _ _ f => f

/-- `schema_j5pb.EntityPart` (only the members the compiler emits) -/
inductive EntityPart where
  | keys | state | event | data
  deriving Repr, DecidableEq, Inhabited

structure Psm where
  entity : Str
  part : EntityPart
  deriving Repr, DecidableEq, Inhabited

mutual
/-- `sourcedef_j5pb.Object` / `.Oneof`: the schema plus its explicitly nested schemas -/
inductive ObjDecl where
  | mk (name : Str) (props : List Property) (nested : List Nested) (psm : Option Psm)
/-- `sourcedef_j5pb.NestedSchema` -/
inductive Nested where
  | object (o : ObjDecl)
  | oneof (o : ObjDecl)
  | enum (e : EnumDecl)
end

instance : Inhabited ObjDecl := ⟨.mk [] [] [] none⟩

def ObjDecl.name : ObjDecl → Str | .mk n _ _ _ => n
def ObjDecl.props : ObjDecl → List Property | .mk _ p _ _ => p
def ObjDecl.nested : ObjDecl → List Nested | .mk _ _ n _ => n
def ObjDecl.psm : ObjDecl → Option Psm | .mk _ _ _ p => p

inductive Verb where
  | get | post | put | patch | delete
  | unspecified
  deriving Repr, DecidableEq, Inhabited

/-- `(j5.ext.v1.method).state_query` -/
inductive MOpt where
  | none | get | list | events
  deriving Repr, DecidableEq, Inhabited

/-- `(j5.ext.v1.service)` -/
inductive SOpt where
  | none
  | query (entity : Str)
  | command (entity : Str)
  deriving Repr, DecidableEq, Inhabited

/-- `sourcedef_j5pb.APIMethod`; `request = none` is the nil `Request` pointer -/
structure Method where
  name : Str
  verb : Verb
  path : Str
  request : Option (List Property)
  response : Option (List Property)
  mopt : MOpt := .none

/-- `sourcedef_j5pb.Service` -/
structure Service where
  name : Option Str
  basePath : Option Str
  methods : List Method
  sopt : SOpt := .none

/-- `sourcedef_j5pb.TopicMethod` -/
structure TopicMsg where
  name : Option Str
  props : List Property

/-- `sourcedef_j5pb.TopicType` -/
inductive TopicType where
  | publish (msgs : List TopicMsg)
  | reqres (reqs reps : List TopicMsg)
  | upsert (entityName : Str) (msg : TopicMsg)
  | event (entityName : Str) (msg : TopicMsg)

structure Topic where
  name : Str
  type : TopicType

structure EntityKeyDecl where
  prop : Property
  shard : Bool

structure Summary where
  name : Str       -- `[]` = default
  props : List Property

structure EntityQuery where
  eventsInGet : Bool
  filters : List Str

/-- `sourcedef_j5pb.Entity` -/
structure Entity where
  name : Str
  baseUrl : Str           -- `[]` = not given
  keys : List EntityKeyDecl
  data : List Property
  statuses : List Str
  events : List ObjDecl
  commands : List Service
  summaries : List Summary
  query : Option EntityQuery
  nested : List Nested

/-- `sourcedef_j5pb.RootElement` -/
inductive Elem where
  | object (o : ObjDecl)
  | oneof (o : ObjDecl)
  | enum (e : EnumDecl)
  | service (s : Service)
  | topic (t : Topic)
  | entity (e : Entity)

structure Import where
  path : Str
  alias : Str      -- `[]` = none
  deriving Repr, DecidableEq, Inhabited

/-- a source file of a local package -/
inductive SrcFile where
  /-- `.j5s` source: `path` e.g. `foo/v1/a.j5s`; `decl` is the name in the file's `package`
  declaration (`SourceFile.Package.Name`), which `parseJ5s` compares with the path -/
  | j5s (path : Str) (imports : List Import) (elems : List Elem) (decl : Str)
  /-- hand-written `.proto` of the package: only its top-level exports matter.
      `enums`: name and value names (first has number 0). -/
  | proto (path : Str) (msgs : List Str) (enums : List (Str × List Str))

def SrcFile.path : SrcFile → Str
  | .j5s p _ _ _ => p
  | .proto p _ _ => p

structure Pkg where
  name : Str
  files : List SrcFile

/-- packages in the listing order of the file source -/
structure Bundle where
  pkgs : List Pkg

end J5V.Compile
