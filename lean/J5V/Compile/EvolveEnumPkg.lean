import J5V.Compile.EvolveEnum
import J5V.Compile.EvolveDeepPkg
/-!
# An option appended to a top-level enum, package level, for REFERENCED enums too (C13) — core only

The export entry of the enum changes with the edit (an `EnumRef` carries the value names). Every
lookup in the new export table is equal to the old one or finds the same enum with more value names
(`UpOrEq`); conversion that succeeded is invariant under that (`convertFile_up`).
-/
namespace J5V.Compile
open J5V.Go

/-- the new lookup result is the old one, or the same enum reference with more value names -/
def UpOrEq (o n : Option TypeRef) : Prop :=
  o = n ∨ ∃ t pfx names names', o = some t ∧ t.kind = .enum pfx names ∧
    n = some { t with kind := .enum pfx names' } ∧ ∀ x ∈ names, x ∈ names'

theorem mapGet_update (L R : List (Str × TypeRef)) (k0 : Str) (t : TypeRef) (pfx : Str)
    (names names' : List Str) (hk : t.kind = .enum pfx names) (hsub : ∀ x ∈ names, x ∈ names') (k : Str) :
    UpOrEq (mapGet (L ++ [(k0, t)] ++ R) k)
      (mapGet (L ++ [(k0, { t with kind := .enum pfx names' })] ++ R) k) := by
  rw [mapGet_append, mapGet_append (L ++ [(k0, _)]) R]
  cases hR : mapGet R k with
  | some v => exact Or.inl rfl
  | none =>
    simp only []
    rw [mapGet_append, mapGet_append L [(k0, _)]]
    by_cases hkk : k0 = k
    · subst hkk
      right
      exact ⟨t, pfx, names, names', by simp [mapGet], hk, by simp [mapGet], hsub⟩
    · left
      simp [mapGet, hkk]

/-- two resolvers agree up to more enum names on the references of a source file -/
def AgreeUpFile (res res' : Resolver) : SrcFile → Prop
  | .proto _ _ _ => True
  | .j5s path imports elems _ =>
    ∀ im, j5Imports (packageFromFilename (path ++ b!".proto")) imports = .ok im →
      AgreeUp { resolve := resolveTypeNoImport im res } { resolve := resolveTypeNoImport im res' }
        (fileRefs (packageFromFilename (path ++ b!".proto")) elems)

theorem convOf_up (res res' : Resolver) (f : SrcFile) (hok : convOk res f)
    (h : AgreeUpFile res res' f) : convOf res' f = convOf res f := by
  cases f with
  | proto path msgs enums => rfl
  | j5s path imports elems decl =>
    obtain ⟨fs, hfs⟩ := hok
    simp only [convOf, hfs, convertFile_up res res' path imports elems fs hfs h]

theorem replace_file_pkg_up (R : FileSkel → FileSkel → Prop) (hR : ∀ f, R f f)
    (b b' : Bundle) (name : Str) (p p' : Pkg) (l l' : Loaded)
    (fuel fuel' : Nat) (chain chain' : List Str)
    (hf : b.find name = some p) (hf' : b'.find name = some p')
    (hl : loadPkg b (fuel + 1) chain name = .ok l)
    (hl' : loadPkg b' (fuel' + 1) chain' name = .ok l')
    (pre post : List SrcFile) (g g' : SrcFile)
    (hp : p.files = pre ++ [g] ++ post) (hp' : p'.files = pre ++ [g'] ++ post)
    (hagree : ∀ f ∈ p.files, AgreeUpFile l.resolver l'.resolver f)
    (hrel : convOk l'.resolver g' → ∀ f ∈ convOf l'.resolver g, ∃ f' ∈ convOf l'.resolver g', R f f') :
    ∀ f ∈ l.files, ∃ f' ∈ l'.files, R f f' := by
  obtain ⟨hfiles, hok⟩ := loadPkg_ok_inv b fuel chain name p l hf hl
  obtain ⟨hfiles', hok'⟩ := loadPkg_ok_inv b' fuel' chain' name p' l' hf' hl'
  rw [hfiles, hp]
  rw [hfiles', hp']
  intro f hfm
  simp only [List.flatMap_append, List.flatMap_cons, List.flatMap_nil, List.append_nil,
    List.mem_append] at hfm ⊢
  have hmem : ∀ x, x ∈ pre ∨ x ∈ post → x ∈ p.files := by
    intro x hx
    rw [hp]
    rcases hx with h | h
    · simp [h]
    · simp [h]
  rcases hfm with (hfm | hfm) | hfm
  · obtain ⟨x, hx, hfx⟩ := List.mem_flatMap.mp hfm
    have hxm := hmem x (Or.inl hx)
    rw [← convOf_up _ _ x (hok x hxm) (hagree x hxm)] at hfx
    exact ⟨f, Or.inl (Or.inl (List.mem_flatMap.mpr ⟨x, hx, hfx⟩)), hR f⟩
  · have hgm : g ∈ p.files := by rw [hp]; simp
    rw [← convOf_up _ _ g (hok g hgm) (hagree g hgm)] at hfm
    obtain ⟨f', hf'm, hr⟩ := hrel (hok' g' (by rw [hp']; simp)) f hfm
    exact ⟨f', Or.inl (Or.inr hf'm), hr⟩
  · obtain ⟨x, hx, hfx⟩ := List.mem_flatMap.mp hfm
    have hxm := hmem x (Or.inr hx)
    rw [← convOf_up _ _ x (hok x hxm) (hagree x hxm)] at hfx
    exact ⟨f, Or.inr (List.mem_flatMap.mpr ⟨x, hx, hfx⟩), hR f⟩

/-- every lookup in the new export block of the file is `UpOrEq` the old one, dependencies only grow:
the resolvers agree up to more enum names on every reference of every file of the package -/
theorem agreeUp_of_replace (b b' : Bundle) (name : Str) (p : Pkg) (fuel : Nat) (chain : List Str)
    (pre post : List SrcFile) (path : Str) (imports : List Import) (elems elems' : List Elem)
    (decl : Str) (hp : p.files = pre ++ [.j5s path imports elems decl] ++ post)
    (hf : b.find name = some p)
    (hf' : b'.find name = some { p with files := pre ++ [.j5s path imports elems' decl] ++ post })
    (hother : ∀ n, n ≠ name → b.find n = b'.find n)
    (l l' : Loaded) (hl : loadPkg b (fuel + 1) chain name = .ok l)
    (hl' : loadPkg b' (fuel + 1) chain name = .ok l')
    (hsum : ∀ s s', sourceSummary path imports elems = .ok s →
      sourceSummary path imports elems' = .ok s' →
      (∀ (X Y : List (Str × TypeRef)) k,
        UpOrEq (mapGet (X ++ s.exports ++ Y) k) (mapGet (X ++ s'.exports ++ Y) k)) ∧
      (∀ x ∈ s.depPkgs, x ∈ s'.depPkgs)) :
    ∀ f ∈ p.files, AgreeUpFile l.resolver l'.resolver f := by
  obtain ⟨hs, hn, hex, hdeps, _⟩ := loadPkg_ok_struct b fuel chain name p l hf hl
  obtain ⟨hs', hn', hex', hdeps', _⟩ := loadPkg_ok_struct b' fuel chain name _ l' hf' hl'
  simp only [] at hs' hex' hdeps'
  obtain ⟨_, hall⟩ := summaries_ok p.files _ hs
  obtain ⟨_, hall'⟩ := summaries_ok _ _ hs'
  have hsm := fileSummary_j5s_ok _ _ _ _ _ (hall (.j5s path imports elems decl) (by rw [hp]; simp))
  have hsm' := fileSummary_j5s_ok _ _ _ _ _ (hall' (.j5s path imports elems' decl) (by simp))
  obtain ⟨hlookS, hdep⟩ := hsum _ _ hsm hsm'
  have hE : l.exports = ((pre.map sumOf).flatMap (·.exports) ++
      (sumOf (.j5s path imports elems decl)).exports) ++ (post.map sumOf).flatMap (·.exports) := by
    rw [hex, hp]; simp
  have hE' : l'.exports = ((pre.map sumOf).flatMap (·.exports) ++
      (sumOf (.j5s path imports elems' decl)).exports) ++ (post.map sumOf).flatMap (·.exports) := by
    rw [hex']; simp
  have hlook : ∀ k, UpOrEq (mapGet l.exports k) (mapGet l'.exports k) := by
    intro k
    rw [hE', hE]
    exact hlookS _ _ k
  have hmono : ∀ d ∈ depNamesOf name (p.files.map sumOf),
      d ∈ depNamesOf name ((pre ++ [SrcFile.j5s path imports elems' decl] ++ post).map sumOf) := by
    apply depNamesOf_mono
    intro x hx
    rw [hp] at hx
    simp only [List.map_append, List.map_cons, List.map_nil, List.flatMap_append, List.flatMap_cons,
      List.flatMap_nil, List.append_nil, List.mem_append] at hx ⊢
    rcases hx with (hx | hx) | hx
    · exact Or.inl (Or.inl hx)
    · exact Or.inl (Or.inr (hdep x hx))
    · exact Or.inr hx
  have hloadEq : ∀ d, loadOf b' fuel (chain ++ [name]) d = loadOf b fuel (chain ++ [name]) d := by
    intro d
    simp only [loadOf]
    rw [loadPkg_congr_chain b b' name hother fuel (chain ++ [name]) d (by simp)]
  have hdlook : ∀ q, q ∈ l.deps.map (·.1) → mapGet l'.deps q = mapGet l.deps q := by
    intro q hq
    rw [hdeps, List.map_map] at hq
    have hq0 : q ∈ depNamesOf name (p.files.map sumOf) := by simpa [Function.comp] using hq
    rw [hdeps', hdeps, mapGet_map_nodup _ _ (depNamesOf_nodup _ _) q (hmono q hq0),
      mapGet_map_nodup _ _ (depNamesOf_nodup _ _) q hq0, hloadEq]
  obtain ⟨_, hok⟩ := loadPkg_ok_inv b fuel chain name p l hf hl
  intro f hfm
  cases f with
  | proto pth msgs enums => trivial
  | j5s path2 imports2 elems2 decl2 =>
    intro im hj r hr
    obtain ⟨fs, hfs⟩ := hok _ hfm
    obtain ⟨im0, hj0, hrefs⟩ := convertFile_refs l.resolver path2 imports2 elems2 fs hfs
    have him : im0 = im := by rw [hj] at hj0; exact (Outcome.ok.inj hj0).symm
    subst him
    obtain ⟨i, hi, hri⟩ := List.mem_flatMap.mp hr
    obtain ⟨t, ht, _⟩ := hrefs i hi r hri
    simp only [RefUp, resolveTypeNoImport] at ht ⊢
    cases hexp2 : im0.expand r.1 r.2 with
    | none => exact Or.inl rfl
    | some e =>
      rw [hexp2] at ht
      cases e with
      | implicit t' => exact Or.inl rfl
      | ref q sch =>
        simp only [Resolver.resolveType, Loaded.resolver, hn, hn'] at ht ⊢
        by_cases hq : q = name
        · simp only [hq, if_true] at ht ⊢
          exact hlook sch
        · simp only [hq, if_false] at ht ⊢
          cases hd : mapGet l.deps q with
          | none => rw [hd] at ht; cases ht
          | some ex =>
            rw [hdlook q (mapGet_mem_keys _ _ _ hd), hd]
            exact Or.inl rfl

/-- assembly up to `compilePkg` -/
theorem replace_elems_compile_up (R : FileSkel → FileSkel → Prop) (hR : ∀ f, R f f)
    (b b' : Bundle) (pkg : Str) (p : Pkg)
    (pre post : List SrcFile) (path : Str) (imports : List Import) (elems elems' : List Elem)
    (decl : Str) (hp : p.files = pre ++ [.j5s path imports elems decl] ++ post)
    (hf : b.find pkg = some p)
    (hf' : b'.find pkg = some { p with files := pre ++ [.j5s path imports elems' decl] ++ post })
    (hother : ∀ n, n ≠ pkg → b.find n = b'.find n) (hlen : b'.pkgs.length = b.pkgs.length)
    (fs fs' : List FileSkel) (h : compilePkg b pkg = .ok fs) (h' : compilePkg b' pkg = .ok fs')
    (hsum : ∀ s s', sourceSummary path imports elems = .ok s →
      sourceSummary path imports elems' = .ok s' →
      (∀ (X Y : List (Str × TypeRef)) k,
        UpOrEq (mapGet (X ++ s.exports ++ Y) k) (mapGet (X ++ s'.exports ++ Y) k)) ∧
      (∀ x ∈ s.depPkgs, x ∈ s'.depPkgs))
    (hconv : ∀ res fs fs', convertFile res path imports elems = .ok fs →
      convertFile res path imports elems' = .ok fs' → ∀ f ∈ fs, ∃ f' ∈ fs', R f f') :
    ∀ f ∈ fs, ∃ f' ∈ fs', R f f' := by
  unfold compilePkg at h h'
  rw [hlen] at h'
  cases hld : loadPkg b (b.pkgs.length + 1) [] pkg with
  | err t => simp [hld] at h
  | panic w => simp [hld] at h
  | ok l =>
    cases hld' : loadPkg b' (b.pkgs.length + 1) [] pkg with
    | err t => simp [hld'] at h'
    | panic w => simp [hld'] at h'
    | ok l' =>
      simp only [hld, Outcome.ok.injEq] at h
      simp only [hld', Outcome.ok.injEq] at h'
      subst h; subst h'
      have := replace_file_pkg_up R hR b b' pkg p _ l l' _ _ [] [] hf hf' hld hld' pre post _ _ hp rfl
        (agreeUp_of_replace b b' pkg p _ [] pre post path imports elems elems' decl hp hf hf' hother
          l l' hld hld' hsum)
        (convOf_rel l'.resolver path imports elems elems' decl R (hconv l'.resolver))
      intro f hfm
      obtain ⟨f', hf'm, hle⟩ := this f ((sortFiles_perm_self l.files).mem_iff.mp hfm)
      exact ⟨f', (sortFiles_perm_self l'.files).mem_iff.mpr hf'm, hle⟩

/-- the value names of an enum are kept by an appended option -/
theorem enumTKind_append (e : EnumDecl) (o : Str) :
    ∃ pfx names names', enumTKind e = .enum pfx names ∧
      enumTKind { e with opts := e.opts ++ [o] } = .enum pfx names' ∧ ∀ x ∈ names, x ∈ names' := by
  refine ⟨enumPrefix e, _, _, rfl, rfl, ?_⟩
  intro x hx
  have hp : enumPrefix { e with opts := e.opts ++ [o] } = enumPrefix e := rfl
  rw [hp]
  simp only [List.mem_cons, List.mem_map] at hx ⊢
  rcases hx with hx | ⟨y, hy, hyx⟩
  · exact Or.inl hx
  · exact Or.inr ⟨y, (enumValues_prefix_all (enumPrefix e) e.opts o).subset hy, hyx⟩

/-- the summary of the file before / after an option is appended to a top-level enum -/
theorem summary_append_option_up (path : Str) (imports : List Import)
    (E1 E2 : List Elem) (e : EnumDecl) (o : Str) (s s' : Summary')
    (hs : sourceSummary path imports (E1 ++ [.enum e] ++ E2) = .ok s)
    (hs' : sourceSummary path imports (E1 ++ [.enum { e with opts := e.opts ++ [o] }] ++ E2) = .ok s') :
    (∀ (X Y : List (Str × TypeRef)) k,
      UpOrEq (mapGet (X ++ s.exports ++ Y) k) (mapGet (X ++ s'.exports ++ Y) k)) ∧
    (∀ x ∈ s.depPkgs, x ∈ s'.depPkgs) := by
  obtain ⟨im, ex, hj, hex, hexp, hdep⟩ := sourceSummary_ok_inv path imports _ s hs
  obtain ⟨im', ex', hj', hex', hexp', hdep'⟩ := sourceSummary_ok_inv path imports _ s' hs'
  have him : im' = im := by rw [hj] at hj'; exact (Outcome.ok.inj hj').symm
  subst him
  obtain ⟨pfx, names, names', hk, hk', hsub⟩ := enumTKind_append e o
  constructor
  · intro X Y k
    rw [hexp, hexp']
    simp only [List.flatMap_append, List.flatMap_cons, List.flatMap_nil, List.append_nil, itemsOfElem,
      itemExports, List.map_append, List.map_cons, List.map_nil, hk, hk']
    have := mapGet_update
      (X ++ ((E1.flatMap (itemsOfElem (packageFromFilename (path ++ b!".proto")))).flatMap itemExports).map
        (fun x => (x.1, (⟨packageFromFilename (path ++ b!".proto"), x.1, path ++ b!".proto", x.2⟩ : TypeRef))))
      (((E2.flatMap (itemsOfElem (packageFromFilename (path ++ b!".proto")))).flatMap itemExports).map
        (fun x => (x.1, (⟨packageFromFilename (path ++ b!".proto"), x.1, path ++ b!".proto", x.2⟩ : TypeRef))) ++ Y)
      e.name ⟨packageFromFilename (path ++ b!".proto"), e.name, path ++ b!".proto", .enum pfx names⟩
      pfx names names' rfl hsub k
    simpa [List.append_assoc] using this
  · intro x hx
    rw [hdep] at hx
    rw [hdep']
    obtain ⟨y, hy, hyx⟩ := List.mem_map.mp hx
    obtain ⟨r, hr, hfr⟩ := (mapM_some_mem _ _ _ hex y).mp hy
    refine List.mem_map.mpr ⟨y, (mapM_some_mem _ _ _ hex' y).mpr ⟨r, ?_, hfr⟩, hyx⟩
    simpa [List.flatMap_append, itemsOfElem, itemRefs] using hr

end J5V.Compile
