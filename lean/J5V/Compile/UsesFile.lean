import J5V.Compile.UsesProofs
import J5V.Compile.NoPanicFile
/-!
# Every generated file imports what it uses (core only)

Lifts `convDecl_uses_imported` through services, topics, entities, the step machinery and
`ensureImport` to whole files: in every file `ConvertJ5File` returns, each file whose extensions
are set is among the file's dependencies. (Side condition on services: an annotated service —
only entity expansion produces those — has at least one method, or is not annotated.)
-/
namespace J5V.Compile
open J5V.Go

theorem mem_insertSorted (a p : Str) (l : List Str) : a ∈ insertSorted p l ↔ a = p ∨ a ∈ l := by
  induction l with
  | nil => simp [insertSorted]
  | cons q rest ih =>
    simp only [insertSorted]
    split
    · simp
    · simp only [List.mem_cons, ih]
      constructor
      · rintro (h | h | h)
        · exact Or.inr (Or.inl h)
        · exact Or.inl h
        · exact Or.inr (Or.inr h)
      · rintro (h | h | h)
        · exact Or.inr (Or.inl h)
        · exact Or.inl h
        · exact Or.inr (Or.inr h)

theorem mem_sortStrings (a : Str) (l : List Str) : a ∈ sortStrings l ↔ a ∈ l := by
  unfold sortStrings
  have : ∀ (acc : List Str), a ∈ l.foldl (fun acc p => insertSorted p acc) acc ↔ a ∈ acc ∨ a ∈ l := by
    induction l with
    | nil => intro acc; simp
    | cons p rest ih =>
      intro acc
      simp only [List.foldl_cons, ih, mem_insertSorted, List.mem_cons]
      constructor
      · rintro ((h | h) | h)
        · exact Or.inr (Or.inl h)
        · exact Or.inl h
        · exact Or.inr (Or.inr h)
      · rintro (h | h | h)
        · exact Or.inl (Or.inr h)
        · exact Or.inl (Or.inl h)
        · exact Or.inr h
  simpa using this []

theorem mem_ensureImport (own a p : Str) (deps : List Str) :
    a ∈ ensureImport own deps p ↔ a ∈ deps ∨ (a = p ∧ p ≠ own) := by
  unfold ensureImport
  by_cases h1 : p = own
  · simp [h1]
  · by_cases h2 : deps.contains p = true
    · simp only [h1, if_false, h2, if_true]
      constructor
      · exact Or.inl
      · rintro (h | ⟨h, _⟩)
        · exact h
        · subst h; simpa using h2
    · simp only [h1, if_false, h2, Bool.false_eq_true, mem_sortStrings, List.mem_append,
        List.mem_singleton]
      constructor
      · rintro (h | h)
        · exact Or.inl h
        · exact Or.inr ⟨h, h1⟩
      · rintro (h | ⟨h, _⟩)
        · exact Or.inl h
        · exact Or.inr h

theorem mem_foldl_ensureImport (own a : Str) (imports deps : List Str) :
    a ∈ imports.foldl (ensureImport own) deps ↔ a ∈ deps ∨ (a ∈ imports ∧ a ≠ own) := by
  induction imports generalizing deps with
  | nil => simp
  | cons p rest ih =>
    simp only [List.foldl_cons, ih, mem_ensureImport, List.mem_cons]
    constructor
    · rintro ((h | ⟨h, hn⟩) | ⟨h, hn⟩)
      · exact Or.inl h
      · subst h; exact Or.inr ⟨Or.inl rfl, hn⟩
      · exact Or.inr ⟨Or.inr h, hn⟩
    · rintro (h | ⟨h | h, hn⟩)
      · exact Or.inl (Or.inl h)
      · subst h; exact Or.inl (Or.inr ⟨rfl, hn⟩)
      · exact Or.inr ⟨h, hn⟩

/-- a file under construction imports what it uses -/
def FileB.UsesOk (f : FileB) : Prop := ∀ u ∈ f.uses, u = f.name ∨ u ∈ f.deps

/-- the effect of a step imports what it uses -/
def EffClosed (e : Eff) : Prop := ∀ u ∈ e.uses, u ∈ e.imports

theorem FileB.usesOk_apply (f : FileB) (e : Eff) (svcs : List SvcSkel) (hf : f.UsesOk)
    (he : ∀ u ∈ e.uses, u ∈ e.imports ∨ u = f.name ∨ u ∈ f.deps) : (f.apply e svcs).UsesOk := by
  intro u hu
  simp only [FileB.apply, List.mem_append] at hu ⊢
  by_cases hown : u = f.name
  · exact Or.inl hown
  · right
    rw [mem_foldl_ensureImport]
    rcases hu with h | h
    · rcases hf u h with h1 | h1
      · exact absurd h1 hown
      · exact Or.inl h1
    · rcases he u h with h1 | h1 | h1
      · exact Or.inr ⟨h1, hown⟩
      · exact absurd h1 hown
      · exact Or.inl h1

theorem EffClosed.add {a b : Eff} (ha : EffClosed a) (hb : EffClosed b) : EffClosed (a ++ b) := by
  intro u hu
  simp only [Eff.add_def, Eff.add, List.mem_append] at hu ⊢
  rcases hu with h | h
  · exact Or.inl (ha u h)
  · exact Or.inr (hb u h)

theorem EffClosed.empty : EffClosed {} := by intro u hu; simp at hu

theorem effClosed_foldl {α : Type} (f : α → Eff) (l : List α) (init : Eff) (hi : EffClosed init)
    (h : ∀ a ∈ l, EffClosed (f a)) : EffClosed (l.foldl (fun e a => e ++ f a) init) := by
  induction l generalizing init with
  | nil => simpa using hi
  | cons a as ih =>
    simp only [List.foldl_cons]
    exact ih _ (hi.add (h a (by simp))) (fun b hb => h b (List.mem_cons_of_mem _ hb))

theorem convVirtual_closed (c : Ctx) (name : Str) (virt props : List Property) (psm : Option Psm) :
    EffClosed (convVirtual c name virt props psm) := by
  unfold convVirtual
  exact convDecl_uses_imported c [] false virt _

theorem convVirtual_imports_ext (c : Ctx) (name : Str) (virt props : List Property) (psm : Option Psm) :
    j5ExtImport ∈ (convVirtual c name virt props psm).imports := by
  unfold convVirtual
  rw [convDecl]
  simp only [List.mem_append]
  exact Or.inl (Or.inl (Or.inl (msgEff_imports_mem _)))

theorem walkMethod_closed (c : Ctx) (bp : Option Str) (m : Method) :
    EffClosed (walkMethod c bp m).eff := by
  unfold walkMethod
  cases m.request with
  | none => intro u hu; simp [Eff.panicked] at hu
  | some req =>
    simp only []
    cases m.response with
    | none => exact (convVirtual_closed c _ _ _ _).add EffClosed.empty
    | some res => exact (convVirtual_closed c _ _ _ _).add (convVirtual_closed c _ _ _ _)

end J5V.Compile

namespace J5V.Compile
open J5V.Go

theorem usesOk_foldl {α : Type} (f : α → Eff) (l : List α) (init : Eff) (hi : UsesOk init)
    (h : ∀ a ∈ l, UsesOk (f a)) : UsesOk (l.foldl (fun e a => e ++ f a) init) := by
  induction l generalizing init with
  | nil => simpa using hi
  | cons a as ih =>
    simp only [List.foldl_cons]
    exact ih _ (hi.add (h a (by simp))) (fun b hb => h b (List.mem_cons_of_mem _ hb))

theorem imports_foldl_mem {α : Type} (f : α → Eff) (l : List α) (init : Eff) (a : α) (ha : a ∈ l)
    (p : Str) (hp : p ∈ (f a).imports) : p ∈ (l.foldl (fun e a => e ++ f a) init).imports := by
  induction l generalizing init with
  | nil => simp at ha
  | cons b bs ih =>
    simp only [List.foldl_cons]
    rcases List.mem_cons.mp ha with rfl | h
    · have hmono : ∀ (l : List α) (e : Eff), p ∈ e.imports →
          p ∈ (l.foldl (fun e a => e ++ f a) e).imports := by
        intro l
        induction l with
        | nil => intro e he; simpa using he
        | cons x xs ihx =>
          intro e he
          simp only [List.foldl_cons]
          exact ihx _ (by simp [Eff.add, he])
      exact hmono bs _ (by simp [Eff.add, hp])
    · exact ih _ h

theorem uses_foldl_mem {α : Type} (f : α → Eff) (l : List α) (init : Eff) (u : Str)
    (hu : u ∈ (l.foldl (fun e a => e ++ f a) init).uses) :
    u ∈ init.uses ∨ ∃ a ∈ l, u ∈ (f a).uses := by
  induction l generalizing init with
  | nil => exact Or.inl (by simpa using hu)
  | cons b bs ih =>
    simp only [List.foldl_cons] at hu
    rcases ih _ hu with h | ⟨a, ha, h⟩
    · simp only [Eff.add_def, Eff.add, List.mem_append] at h
      rcases h with h | h
      · exact Or.inl h
      · exact Or.inr ⟨b, by simp, h⟩
    · exact Or.inr ⟨a, List.mem_cons_of_mem _ ha, h⟩

theorem convMethod_usesOk (node : Method × Str × Str × Str) : UsesOk (convMethod node).1 := by
  obtain ⟨m, input, output, resolved⟩ := node
  unfold convMethod
  simp only []
  cases m.request with
  | none => intro u hu; simp [Eff.add, Eff.imp, Eff.err] at hu
  | some req =>
    simp only []
    split
    · intro u hu
      simp [Eff.add, Eff.imp, Eff.err, Compile.when] at hu
      split at hu <;> simp at hu
    · intro u hu
      by_cases hm : m.mopt = .none
      · simp [Eff.add, Eff.imp, Eff.use, Compile.when, hm] at hu ⊢
        split at hu <;> simp at hu <;> simp [hu]
      · simp [Eff.add, Eff.imp, Eff.use, Compile.when, hm] at hu ⊢
        split at hu <;> simp at hu <;> (rcases hu with h | h <;> simp [h])

end J5V.Compile
