import J5V.Compile.AstValue
/-!
# `ParseUint/ParseInt ∘ FormatUint = id` for the decimal model
-/
namespace J5V.Compile

/-- decimal digits, most significant first (specification of `fmtNat`) -/
def digitsSpec (n : Nat) : Str :=
  if h : n < 10 then [48 + n] else digitsSpec (n / 10) ++ [48 + n % 10]
termination_by n
decreasing_by omega

theorem fmtNatAux_eq (fuel n : Nat) (acc : Str) (h : n < fuel) :
    fmtNatAux fuel n acc = digitsSpec n ++ acc := by
  induction fuel generalizing n acc with
  | zero => omega
  | succ fuel ih =>
    rw [fmtNatAux, digitsSpec]
    by_cases h10 : n < 10
    · simp [h10]
    · simp only [h10, if_false, dite_false]
      rw [ih (n / 10) _ (by omega)]
      simp

theorem fmtNat_eq (n : Nat) : fmtNat n = digitsSpec n := by
  unfold fmtNat; rw [fmtNatAux_eq _ _ _ (by omega)]; simp

theorem digitsSpec_ne_nil (n : Nat) : digitsSpec n ≠ [] := by
  rw [digitsSpec]; split <;> simp

theorem pdStep_digit (a d : Nat) (hd : d < 10) : pdStep (some a) (48 + d) = some (a * 10 + d) := by
  simp [pdStep, isDigitB]; omega

theorem foldl_pdStep_digits (n a : Nat) :
    ∃ k, (digitsSpec n).foldl pdStep (some a) = some (a * 10 ^ k + n) := by
  induction n using Nat.strongRecOn generalizing a with
  | _ n ih =>
    rw [digitsSpec]
    by_cases h10 : n < 10
    · refine ⟨1, ?_⟩
      simp only [h10, dite_true, List.foldl_cons, List.foldl_nil]
      rw [pdStep_digit a n h10]
    · obtain ⟨k, hk⟩ := ih (n / 10) (by omega) a
      refine ⟨k + 1, ?_⟩
      simp only [h10, dite_false, List.foldl_append, hk, List.foldl_cons, List.foldl_nil]
      rw [pdStep_digit _ _ (by omega)]
      congr 1
      rw [Nat.pow_succ]
      have := Nat.div_add_mod n 10
      rw [Nat.add_mul, Nat.mul_assoc, Nat.add_assoc]
      congr 1
      omega

theorem parseDigits_fmtNat (n : Nat) : parseDigits (fmtNat n) = some n := by
  rw [fmtNat_eq]
  have hne := digitsSpec_ne_nil n
  obtain ⟨k, hk⟩ := foldl_pdStep_digits n 0
  cases hd : digitsSpec n with
  | nil => exact absurd hd hne
  | cons c t =>
    rw [hd] at hk
    simpa [parseDigits] using hk

theorem parseUint_fmtNat (n bits : Nat) (h : n < 2 ^ bits) : parseUint (fmtNat n) bits = some n := by
  simp [parseUint, parseDigits_fmtNat, h]

theorem parseUint_fmtNat_range (n bits : Nat) (h : ¬ n < 2 ^ bits) : parseUint (fmtNat n) bits = none := by
  simp [parseUint, parseDigits_fmtNat, h]

/-- the first byte of a decimal rendering is a digit -/
theorem digitsSpec_head (n : Nat) : ∃ c t, digitsSpec n = c :: t ∧ 48 ≤ c ∧ c ≤ 57 := by
  induction n using Nat.strongRecOn with
  | _ n ih =>
    rw [digitsSpec]
    by_cases h10 : n < 10
    · exact ⟨48 + n, [], by simp [h10], by omega, by omega⟩
    · obtain ⟨c, t, hc, h1, h2⟩ := ih (n / 10) (by omega)
      exact ⟨c, t ++ [48 + n % 10], by simp [h10, hc], h1, h2⟩

/-- on an unsigned decimal text `ParseInt` is `ParseUint` with one bit less -/
theorem parseInt_fmtNat (n bits : Nat) :
    parseInt (fmtNat n) bits = if n < 2 ^ (bits - 1) then some (n : Int) else none := by
  obtain ⟨c, t, hc, h1, h2⟩ := digitsSpec_head n
  have hp := parseDigits_fmtNat n
  rw [fmtNat_eq] at hp ⊢
  rw [hc] at hp ⊢
  have h43 : c ≠ 43 := by omega
  have h45 : c ≠ 45 := by omega
  simp [parseInt, h43, h45, hp]

end J5V.Compile
