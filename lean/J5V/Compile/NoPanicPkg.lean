import J5V.Compile.NoPanicFile
import J5V.Compile.Link
/-!
# `CompilePackage` never panics on well-formed bundles (core only)

Lifts `convertFile_no_panic` through `SourceSummary`, `loadPackage` (any fuel, any chain) and the
link step.
-/
namespace J5V.Compile
open J5V.Go

theorem mapGet_mem {V : Type} (m : List (Str × V)) (k : Str) (v : V) (h : mapGet m k = some v) :
    (k, v) ∈ m := by
  unfold mapGet at h
  cases hf : m.reverse.find? (·.1 = k) with
  | none => simp [hf] at h
  | some x =>
    rw [hf] at h
    simp only [Option.map_some, Option.some.injEq] at h
    have hm := List.mem_of_find?_eq_some hf
    have hk := List.find?_some hf
    simp only [decide_eq_true_eq] at hk
    obtain ⟨a, b⟩ := x
    simp only at hk h
    subst hk; subst h
    simpa using hm

/-- every `TypeRef` in an export table names a file `ensureImport` accepts -/
def GoodExports (ex : List (Str × TypeRef)) : Prop := ∀ kt ∈ ex, badImport kt.2.file = false

theorem wfCtx_of_exports (im : ImportMap) (r : Resolver) (hown : GoodExports r.exports)
    (hdeps : ∀ pe ∈ r.deps, GoodExports pe.2) :
    WfCtx { resolve := resolveTypeNoImport im r } := by
  intro pkg s t h
  simp only [resolveTypeNoImport] at h
  cases he : im.expand pkg s with
  | none => simp [he] at h
  | some e =>
    rw [he] at h
    cases e with
    | implicit t' =>
      simp only [Option.some.injEq] at h
      subst h
      simp only [ImportMap.expand] at he
      split at he
      · cases he
      · split at he
        · rename_i t2 ht2; cases he; exact implicitRef_wf _ _ _ ht2
        · split at he
          · cases he
          · split at he
            · rename_i t2 ht2; cases he; exact implicitRef_wf _ _ _ ht2
            · cases he
    | ref p sch =>
      simp only [Resolver.resolveType] at h
      split at h
      · exact hown _ (mapGet_mem _ _ _ h)
      · cases hd : mapGet r.deps p with
        | none => simp [hd] at h
        | some ex =>
          rw [hd] at h
          exact hdeps _ (mapGet_mem _ _ _ hd) _ (mapGet_mem _ _ _ h)

/-- a source file whose path has a directory part and whose elements are well formed -/
def WfFile : SrcFile → Bool
  | .j5s path _ elems _ => containsByte 47 path && WfElems elems
  | .proto path _ _ => containsByte 47 path

def WfBundle (b : Bundle) : Prop := ∀ p ∈ b.pkgs, ∀ f ∈ p.files, WfFile f = true

theorem badImport_append (path suf : Str) (h : containsByte 47 path = true) :
    badImport (path ++ suf) = false := by
  unfold badImport containsByte at *
  have hne : path ≠ [] := by intro hp; subst hp; simp at h
  have hm : (47 : Nat) ∈ path := by simpa using h
  have : (path ++ suf).contains 47 = true := by
    simp only [List.contains_eq_mem, List.mem_append, decide_eq_true_eq]
    exact Or.inl hm
  simp only [this, Bool.not_true, Bool.or_false, decide_eq_false_iff_not]
  simp [hne]

theorem badImport_of_contains (path : Str) (h : containsByte 47 path = true) :
    badImport path = false := by
  have := badImport_append path [] h
  simpa using this

theorem walkItems_no_panic (items : List Item) (h : ∀ i ∈ items, WfItem i = true) :
    (walkItems items).isPanic = false := by
  induction items with
  | nil => rfl
  | cons i rest ih =>
    have hi := h i (by simp)
    have hr := ih (fun j hj => h j (List.mem_cons_of_mem _ hj))
    unfold walkItems
    cases hw : itemWalk i with
    | ok u => simpa using hr
    | err t => rfl
    | panic w =>
      exfalso
      cases i with
      | serviceFile ss =>
        simp only [itemWalk] at hw
        split at hw
        · rename_i hany
          simp only [WfItem] at hi
          simp only [List.any_eq_true] at hany
          obtain ⟨s, hs, m, hm, hreq⟩ := hany
          have := (List.all_eq_true.mp ((List.all_eq_true.mp hi) s hs)) m hm
          simp_all
        · split at hw <;> cases hw
      | topicFile ts => simp only [itemWalk] at hw; split at hw <;> cases hw
      | object o => cases hw
      | oneof o => cases hw
      | enum e => cases hw
      | abort => cases hw

theorem j5Imports_no_panic (pkg : Str) (imports : List Import) :
    (j5Imports pkg imports).isPanic = false := by
  unfold j5Imports
  split
  · rfl
  · split <;> rfl

theorem fileSummary_good (f : SrcFile) (h : WfFile f = true) :
    (fileSummary f).isPanic = false ∧ ∀ s, fileSummary f = .ok s → GoodExports s.exports := by
  cases f with
  | proto path msgs enums =>
    simp only [WfFile] at h
    refine ⟨rfl, ?_⟩
    intro s hs
    simp only [fileSummary, Outcome.ok.injEq] at hs
    subst hs
    intro kt hkt
    simp only [List.mem_append, List.mem_map] at hkt
    rcases hkt with ⟨n, _, rfl⟩ | ⟨⟨n, vals⟩, _, rfl⟩ <;> exact badImport_of_contains _ h
  | j5s path imports elems decl =>
    simp only [WfFile, Bool.and_eq_true] at h
    by_cases hd : decl ≠ packageFromFilename path
    · rw [fileSummary, if_pos hd]
      exact ⟨rfl, fun s hs => by cases hs⟩
    rw [fileSummary, if_neg hd]
    have hitems : ∀ i ∈ elems.flatMap (itemsOfElem (packageFromFilename (path ++ b!".proto"))),
        WfItem i = true := by
      intro i hi
      obtain ⟨el, hel, hiel⟩ := List.mem_flatMap.mp hi
      exact itemsOfElem_wf _ el ((List.all_eq_true.mp h.2) el hel) i hiel
    have hw := walkItems_no_panic _ hitems
    have hj := j5Imports_no_panic (packageFromFilename (path ++ b!".proto")) imports
    simp only [sourceSummary]
    cases hwi : walkItems (elems.flatMap (itemsOfElem (packageFromFilename (path ++ b!".proto")))) with
    | panic w => rw [hwi] at hw; cases hw
    | err t => exact ⟨rfl, fun s hs => by cases hs⟩
    | ok u =>
      simp only []
      cases hji : j5Imports (packageFromFilename (path ++ b!".proto")) imports with
      | panic w => rw [hji] at hj; cases hj
      | err t => exact ⟨rfl, fun s hs => by cases hs⟩
      | ok im =>
        simp only []
        split
        · exact ⟨rfl, fun s hs => by cases hs⟩
        · refine ⟨rfl, ?_⟩
          intro s hs
          simp only [Outcome.ok.injEq] at hs
          subst hs
          intro kt hkt
          simp only [List.mem_map] at hkt
          obtain ⟨⟨n, k⟩, _, rfl⟩ := hkt
          exact badImport_append _ _ h.1

theorem summaries_good (files : List SrcFile) (h : ∀ f ∈ files, WfFile f = true) :
    (summaries files).isPanic = false ∧
      ∀ sums, summaries files = .ok sums → GoodExports (sums.flatMap (·.exports)) := by
  induction files with
  | nil =>
    refine ⟨rfl, ?_⟩
    intro sums hs
    simp only [summaries, Outcome.ok.injEq] at hs
    subst hs
    intro kt hkt; simp at hkt
  | cons f rest ih =>
    obtain ⟨hp, hg⟩ := fileSummary_good f (h f (by simp))
    obtain ⟨ihp, ihg⟩ := ih (fun g hg => h g (List.mem_cons_of_mem _ hg))
    unfold summaries
    cases hf : fileSummary f with
    | panic w => rw [hf] at hp; cases hp
    | err t => exact ⟨rfl, fun s hs => by cases hs⟩
    | ok s =>
      simp only []
      cases hr : summaries rest with
      | panic w => rw [hr] at ihp; cases ihp
      | err t => exact ⟨rfl, fun s hs => by cases hs⟩
      | ok ss =>
        refine ⟨rfl, ?_⟩
        intro sums hs
        simp only [Outcome.ok.injEq] at hs
        subst hs
        intro kt hkt
        simp only [List.flatMap_cons, List.mem_append] at hkt
        rcases hkt with hk | hk
        · exact hg s hf kt hk
        · exact ihg ss hr kt hk

theorem convertAll_no_panic (res : Resolver)
    (hres : ∀ im, WfCtx { resolve := resolveTypeNoImport im res })
    (files : List SrcFile) (h : ∀ f ∈ files, WfFile f = true) :
    (convertAll res files).isPanic = false := by
  induction files with
  | nil => rfl
  | cons f rest ih =>
    have ihr := ih (fun g hg => h g (List.mem_cons_of_mem _ hg))
    have hf := h f (by simp)
    cases f with
    | proto path msgs enums => simpa [convertAll] using ihr
    | j5s path imports elems decl =>
      simp only [WfFile, Bool.and_eq_true] at hf
      have hc := convertFile_no_panic res path imports elems hres hf.2
      unfold convertAll
      cases hcf : convertFile res path imports elems with
      | panic w => rw [hcf] at hc; cases hc
      | err t => rfl
      | ok fs =>
        simp only []
        cases hr : convertAll res rest with
        | panic w => rw [hr] at ihr; cases ihr
        | err t => rfl
        | ok more => rfl

/-- `loadPackage`: no panic, and a loaded package only exports well-formed file names -/
theorem loadPkg_good (b : Bundle) (hb : WfBundle b) :
    ∀ (fuel : Nat) (chain : List Str) (name : Str),
      (loadPkg b fuel chain name).isPanic = false ∧
        ∀ l, loadPkg b fuel chain name = .ok l → GoodExports l.exports := by
  intro fuel
  induction fuel with
  | zero => intro chain name; exact ⟨by simp [loadPkg, Outcome.isPanic], fun l hl => by simp [loadPkg] at hl⟩
  | succ fuel ih =>
    intro chain name
    rw [loadPkg]
    split
    · exact ⟨rfl, fun l hl => by cases hl⟩
    · cases hfind : b.find name with
      | none =>
        simp only []
        split
        · refine ⟨rfl, ?_⟩
          intro l hl
          simp only [Outcome.ok.injEq] at hl
          subst hl
          intro kt hkt; simp at hkt
        · exact ⟨rfl, fun l hl => by cases hl⟩
      | some pkg =>
        simp only []
        have hpkg : pkg ∈ b.pkgs := List.mem_of_find?_eq_some hfind
        have hfiles : ∀ f ∈ pkg.files, WfFile f = true := hb pkg hpkg
        obtain ⟨hsp, hsg⟩ := summaries_good pkg.files hfiles
        cases hs : summaries pkg.files with
        | panic w => rw [hs] at hsp; cases hsp
        | err t => exact ⟨rfl, fun l hl => by cases hl⟩
        | ok sums =>
          simp only []
          -- the dependency loop
          have hdeps : ∀ ds : List Str,
              (seqLoad (fun d => loadPkg b fuel (chain ++ [name]) d) ds).isPanic = false ∧
                ∀ ls, seqLoad (fun d => loadPkg b fuel (chain ++ [name]) d) ds = .ok ls →
                  ∀ l ∈ ls, GoodExports l.exports := by
            intro ds
            induction ds with
            | nil =>
              refine ⟨by simp [seqLoad, Outcome.isPanic], ?_⟩
              intro ls hls
              simp only [seqLoad, Outcome.ok.injEq] at hls
              subst hls
              intro l hl; simp at hl
            | cons d ds ihd =>
              obtain ⟨hp, hg⟩ := ih (chain ++ [name]) d
              rw [seqLoad]
              cases hl : loadPkg b fuel (chain ++ [name]) d with
              | panic w => rw [hl] at hp; cases hp
              | err t => exact ⟨rfl, fun ls hls => by cases hls⟩
              | ok l =>
                simp only []
                obtain ⟨ihp, ihg⟩ := ihd
                cases hr : seqLoad (fun d => loadPkg b fuel (chain ++ [name]) d) ds with
                | panic w => rw [hr] at ihp; cases ihp
                | err t => exact ⟨rfl, fun ls hls => by cases hls⟩
                | ok more =>
                  refine ⟨rfl, ?_⟩
                  intro ls hls
                  simp only [Outcome.ok.injEq] at hls
                  subst hls
                  intro l' hl'
                  rcases List.mem_cons.mp hl' with rfl | hm
                  · exact hg _ hl
                  · exact ihg more hr l' hm
          obtain ⟨hdp, hdg⟩ := hdeps (depNamesOf name sums)
          cases hld : seqLoad (fun d => loadPkg b fuel (chain ++ [name]) d) (depNamesOf name sums) with
          | panic w => rw [hld] at hdp; cases hdp
          | err t => exact ⟨rfl, fun l hl => by cases hl⟩
          | ok ls =>
            simp only []
            have hres : ∀ im, WfCtx { resolve := resolveTypeNoImport im (mkResolver name sums ls) } := by
              intro im
              apply wfCtx_of_exports
              · exact hsg sums hs
              · intro pe hpe
                obtain ⟨l, hl, rfl⟩ := List.mem_map.mp hpe
                exact hdg ls hld l hl
            have hca := convertAll_no_panic (mkResolver name sums ls) hres pkg.files hfiles
            cases hcv : convertAll (mkResolver name sums ls) pkg.files with
            | panic w => rw [hcv] at hca; cases hca
            | err t => exact ⟨rfl, fun l hl => by cases hl⟩
            | ok files =>
              refine ⟨rfl, ?_⟩
              intro l hl
              simp only [Outcome.ok.injEq] at hl
              subst hl
              exact hsg sums hs

theorem linkFiles_no_panic (others : List LFile) (files : List FileSkel) :
    (linkFiles others files).isPanic = false := by
  unfold linkFiles
  simp only []
  split
  · rfl
  · split
    · rfl
    · split <;> rfl

/-- **`CompilePackage` never panics** on a well-formed bundle, for any package name -/
theorem compileLinked_no_panic (b : Bundle) (hb : WfBundle b) (name : Str) :
    (compileLinked b name).isPanic = false := by
  unfold compileLinked
  obtain ⟨hp, _⟩ := loadPkg_good b hb (b.pkgs.length + 1) [] name
  cases hl : loadPkg b (b.pkgs.length + 1) [] name with
  | panic w => rw [hl] at hp; cases hp
  | err t => rfl
  | ok l => exact linkFiles_no_panic _ _

end J5V.Compile
