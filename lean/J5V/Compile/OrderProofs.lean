import J5V.Compile.PermProofs
/-!
# Byte-wise string order and the sorted file list (core only)

`strLt` is a strict total order; inserting two files with different names into a list commutes, so
`sortFiles` (a fold of insertions) does not depend on the order in which `pkg.Files` — a Go map —
is ranged over (`fold_perm_on`).
-/
namespace J5V.Compile

theorem strLt_irrefl (a : Str) : strLt a a = false := by
  induction a with
  | nil => rfl
  | cons x xs ih => simp [strLt, ih]

theorem strLt_trans (a b c : Str) (h1 : strLt a b = true) (h2 : strLt b c = true) :
    strLt a c = true := by
  induction a generalizing b c with
  | nil =>
    cases b with
    | nil => simp [strLt] at h1
    | cons y ys =>
      cases c with
      | nil => simp [strLt] at h2
      | cons z zs => simp [strLt]
  | cons x xs ih =>
    cases b with
    | nil => simp [strLt] at h1
    | cons y ys =>
      cases c with
      | nil => simp [strLt] at h2
      | cons z zs =>
        simp only [strLt] at h1 h2 ⊢
        by_cases hxy : x < y
        · by_cases hyz : y < z
          · have : x < z := by omega
            simp [this]
          · simp only [hyz, if_false] at h2
            by_cases hzy : z < y
            · simp [hzy] at h2
            · have : y = z := by omega
              subst this
              simp [hxy]
        · simp only [hxy, if_false] at h1
          by_cases hyx : y < x
          · simp [hyx] at h1
          · have hxy' : x = y := by omega
            subst hxy'
            simp only [hyx, if_false] at h1
            by_cases hxz : x < z
            · simp [hxz]
            · simp only [hxz, if_false] at h2 ⊢
              by_cases hzx : z < x
              · simp [hzx] at h2
              · simp only [hzx, if_false] at h2 ⊢
                exact ih ys zs h1 h2

theorem strLt_asymm (a b : Str) (h : strLt a b = true) : strLt b a = false := by
  cases hb : strLt b a with
  | false => rfl
  | true =>
    have := strLt_trans a b a h hb
    rw [strLt_irrefl] at this
    cases this

theorem strLt_total (a b : Str) (h : a ≠ b) : strLt a b = true ∨ strLt b a = true := by
  induction a generalizing b with
  | nil =>
    cases b with
    | nil => exact absurd rfl h
    | cons y ys => left; simp [strLt]
  | cons x xs ih =>
    cases b with
    | nil => right; simp [strLt]
    | cons y ys =>
      simp only [strLt]
      by_cases hxy : x < y
      · left; simp [hxy]
      · by_cases hyx : y < x
        · right; simp [hyx]
        · have hxy' : x = y := by omega
          subst hxy'
          have hne : xs ≠ ys := by intro e; subst e; exact h rfl
          simp only [Nat.lt_irrefl, if_false]
          exact ih ys hne

/-- inserting two files whose names are ordered commutes -/
theorem insFile_comm_lt (a b : FileSkel) (hab : strLt a.name b.name = true) (l : List FileSkel) :
    insFile a (insFile b l) = insFile b (insFile a l) := by
  have hba := strLt_asymm _ _ hab
  induction l with
  | nil => simp [insFile, hab, hba]
  | cons g rest ih =>
    by_cases hbg : strLt b.name g.name = true
    · have hag := strLt_trans _ _ _ hab hbg
      simp [insFile, hbg, hag, hab, hba]
    · by_cases hag : strLt a.name g.name = true
      · simp [insFile, hbg, hag, hba]
      · simp [insFile, hbg, hag, ih]

theorem insFile_comm (a b : FileSkel) (h : a.name ≠ b.name) (l : List FileSkel) :
    insFile a (insFile b l) = insFile b (insFile a l) := by
  rcases strLt_total _ _ h with hab | hba
  · exact insFile_comm_lt a b hab l
  · exact (insFile_comm_lt b a hba l).symm

/-- a fold whose body commutes on the elements of the list is permutation invariant -/
theorem fold_perm_on {α β : Type} (f : β → α → β) {l₁ l₂ : List α} (p : l₁.Perm l₂)
    (hc : ∀ x ∈ l₁, ∀ y ∈ l₁, ∀ b, f (f b x) y = f (f b y) x) (b : β) :
    l₁.foldl f b = l₂.foldl f b := by
  induction p generalizing b with
  | nil => rfl
  | cons x _ ih =>
    simp only [List.foldl_cons]
    exact ih (fun a ha c hc' => hc a (List.mem_cons_of_mem _ ha) c (List.mem_cons_of_mem _ hc')) _
  | swap x y l =>
    simp only [List.foldl_cons]
    rw [hc y (by simp) x (by simp)]
  | trans p1 _ ih1 ih2 =>
    rw [ih1 hc]
    exact ih2 (fun a ha c hc' => hc a (p1.mem_iff.mpr ha) c (p1.mem_iff.mpr hc')) _

/-- **the sorted file list does not depend on the order of its input** (distinct file names) -/
theorem sortFiles_perm {fs fs' : List FileSkel} (p : fs.Perm fs')
    (hnd : (fs.map (·.name)).Nodup) : sortFiles fs = sortFiles fs' := by
  unfold sortFiles
  apply fold_perm_on _ p
  intro x hx y hy acc
  by_cases hxy : x = y
  · subst hxy; rfl
  · have hne : x.name ≠ y.name := by
      intro hn
      exact hxy (inj_of_nodup_map _ _ hnd x hx y hy hn)
    exact insFile_comm y x (Ne.symm hne) acc

end J5V.Compile
