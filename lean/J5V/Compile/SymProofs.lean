import J5V.Compile.ExactProofs
import J5V.Compile.Link
import J5V.Compile.AppendFresh
namespace J5V.Compile
open J5V.Go

theorem joinWith_append_singleton (sep : Str) (l : List Str) (x : Str) (h : l ≠ []) :
    joinWith sep (l ++ [x]) = joinWith sep l ++ sep ++ x := by
  induction l with
  | nil => exact absurd rfl h
  | cons a rest ih =>
    cases rest with
    | nil => simp [joinWith]
    | cons b rest' =>
      have := ih (by simp)
      simp only [List.cons_append, joinWith] at this ⊢
      rw [this]
      simp [List.append_assoc]

/-- full name of the message at nesting path `np` in package `pkg` -/
def pathFull (pkg : Str) : List Str → Str
  | [] => pkg
  | a :: rest => pathFull (qual pkg a) rest

theorem pathFull_append (pkg : Str) (np : List Str) (a : Str) :
    pathFull pkg (np ++ [a]) = qual (pathFull pkg np) a := by
  induction np generalizing pkg with
  | nil => rfl
  | cons b rest ih => simp [pathFull, ih]

theorem qual_ne_nil (pfx name : Str) (h : pfx ≠ []) : qual pfx name ≠ [] := by
  simp [qual, h]

theorem pathFull_ne_nil (pkg : Str) (np : List Str) (h : pkg ≠ []) : pathFull pkg np ≠ [] := by
  induction np generalizing pkg with
  | nil => exact h
  | cons a rest ih => exact ih _ (qual_ne_nil pkg a h)

theorem joinWith_cons (sep a : Str) (l : List Str) (h : l ≠ []) :
    joinWith sep (a :: l) = a ++ sep ++ joinWith sep l := by
  cases l with
  | nil => exact absurd rfl h
  | cons b rest => rfl

theorem pathFull_relName (pkg : Str) (hp : pkg ≠ []) (np : List Str) (nm : Str) :
    qual (pathFull pkg np) nm = qual pkg (relName np nm) := by
  induction np generalizing pkg with
  | nil => simp [pathFull, relName, joinWith]
  | cons a rest ih =>
    have hq : qual pkg a ≠ [] := qual_ne_nil _ _ hp
    rw [pathFull, ih (qual pkg a) hq]
    simp only [qual, hp, hq, if_false, relName, List.cons_append]
    rw [joinWith_cons _ a (rest ++ [nm]) (by simp)]
    simp [List.append_assoc]



/-! ## every exported type is a symbol of the generated file -/

def kindSym : TKind → SymKind
  | .message _ => .msg
  | .enum _ _ => .enum

theorem mem_msgsSyms (pfx : Str) (msgs : List MsgSkel) (x : Str × SymKind) :
    x ∈ msgsSyms pfx msgs ↔ ∃ m ∈ msgs, x ∈ msgSyms pfx m := by
  induction msgs with
  | nil => simp [msgsSyms]
  | cons m rest ih =>
    rw [msgsSyms, List.mem_append, ih]
    constructor
    · rintro (h | ⟨m', hm', h⟩)
      · exact ⟨m, by simp, h⟩
      · exact ⟨m', List.mem_cons_of_mem _ hm', h⟩
    · rintro ⟨m', hm', h⟩
      rcases List.mem_cons.mp hm' with rfl | hm''
      · exact Or.inl h
      · exact Or.inr ⟨m', hm'', h⟩

/-- the symbols below a scope `F` contributed by nested messages and enums -/
def scopeSyms (F : Str) (msgs : List MsgSkel) (enums : List EnumSkel) : List (Str × SymKind) :=
  msgsSyms F msgs ++ enums.flatMap (enumSyms F)

theorem scopeSyms_mono (F : Str) (msgs msgs' : List MsgSkel) (enums enums' : List EnumSkel)
    (hm : ∀ m ∈ msgs, m ∈ msgs') (he : ∀ e ∈ enums, e ∈ enums') :
    ∀ x ∈ scopeSyms F msgs enums, x ∈ scopeSyms F msgs' enums' := by
  intro x hx
  simp only [scopeSyms, List.mem_append, mem_msgsSyms, List.mem_flatMap] at hx ⊢
  rcases hx with ⟨m, hm', h⟩ | ⟨e, he', h⟩
  · exact Or.inl ⟨m, hm m hm', h⟩
  · exact Or.inr ⟨e, he e he', h⟩

/-- symbols of a message: its own name, then everything in its scope -/
theorem msgSyms_self (pfx name : Str) (kind : MsgKind) (psm : Option Psm) (fields : List FieldSkel)
    (msgs : List MsgSkel) (enums : List EnumSkel) :
    (qual pfx name, SymKind.msg) ∈ msgSyms pfx (.mk name kind psm fields msgs enums) := by
  rw [msgSyms]; simp

theorem msgSyms_scope (pfx name : Str) (kind : MsgKind) (psm : Option Psm) (fields : List FieldSkel)
    (msgs : List MsgSkel) (enums : List EnumSkel) :
    ∀ x ∈ scopeSyms (qual pfx name) msgs enums, x ∈ msgSyms pfx (.mk name kind psm fields msgs enums) := by
  intro x hx
  rw [msgSyms]
  simp only [scopeSyms, List.mem_append] at hx
  simp only [List.mem_append]
  rcases hx with h | h
  · exact Or.inl (Or.inr h)
  · exact Or.inr h

/-- exports `ex` (names relative to the package) are symbols in scope `F` -/
def SymsIn (pkg F : Str) (msgs : List MsgSkel) (enums : List EnumSkel) (ex : List (Str × TKind)) : Prop :=
  ∀ x ∈ ex, (qual pkg x.1, kindSym x.2) ∈ scopeSyms F msgs enums

theorem SymsIn.mono {pkg F : Str} {msgs msgs' : List MsgSkel} {enums enums' : List EnumSkel}
    {ex : List (Str × TKind)} (h : SymsIn pkg F msgs enums ex)
    (hm : ∀ m ∈ msgs, m ∈ msgs') (he : ∀ e ∈ enums, e ∈ enums') : SymsIn pkg F msgs' enums' ex :=
  fun x hx => scopeSyms_mono F msgs msgs' enums enums' hm he _ (h x hx)

theorem SymsIn.append {pkg F : Str} {msgs : List MsgSkel} {enums : List EnumSkel}
    {a b : List (Str × TKind)} (ha : SymsIn pkg F msgs enums a) (hb : SymsIn pkg F msgs enums b) :
    SymsIn pkg F msgs enums (a ++ b) := by
  intro x hx
  rcases List.mem_append.mp hx with h | h
  · exact ha x h
  · exact hb x h

@[simp] theorem j5Ext_msgs : j5Ext.msgs = [] := by simp [j5Ext, Eff.imp, Eff.use]
@[simp] theorem j5Ext_enums : j5Ext.enums = [] := by simp [j5Ext, Eff.imp, Eff.use]
@[simp] theorem validateWithImport_msgs (b : Bool) : (validateWithImport b).msgs = [] := by
  cases b <;> simp [validateWithImport, Compile.when, Eff.imp, Eff.use]
@[simp] theorem validateWithImport_enums (b : Bool) : (validateWithImport b).enums = [] := by
  cases b <;> simp [validateWithImport, Compile.when, Eff.imp, Eff.use]
@[simp] theorem listRulesEff_msgs (b : Bool) : (listRulesEff b).msgs = [] := by
  cases b <;> simp [listRulesEff, Compile.when, Eff.imp, Eff.use]
@[simp] theorem listRulesEff_enums (b : Bool) : (listRulesEff b).enums = [] := by
  cases b <;> simp [listRulesEff, Compile.when, Eff.imp, Eff.use]

theorem enumFieldWith_walk_sub (pre : Eff) (tn pfx : Str) (names : List Str) (rules : Rules)
    (lr : Option (List Str)) :
    (∀ m ∈ pre.msgs, m ∈ (enumFieldWith pre pre tn pfx names rules lr).eff.msgs) ∧
    (∀ e ∈ pre.enums, e ∈ (enumFieldWith pre pre tn pfx names rules lr).eff.enums) ∧
    (enumFieldWith pre pre tn pfx names rules lr).walk = pre := by
  unfold enumFieldWith
  split
  · simp
  · split <;> simp

theorem enumFieldWith_walk (pre walk : Eff) (tn pfx : Str) (names : List Str) (rules : Rules)
    (lr : Option (List Str)) : (enumFieldWith pre walk tn pfx names rules lr).walk = walk := by
  unfold enumFieldWith
  split
  · rfl
  · split <;> rfl

/-- what `buildFieldNode` adds is kept by `buildField` -/
theorem bField_walk_sub (c : Ctx) (np : List Str) (d : Str) (f : Field) :
    (∀ m ∈ (bField c np d f).walk.msgs, m ∈ (bField c np d f).eff.msgs) ∧
    (∀ e ∈ (bField c np d f).walk.enums, e ∈ (bField c np d f).eff.enums) := by
  cases f with
  | objectRef pkg schema fl rules =>
    rw [bField]; unfold msgRefField
    cases refField c pkg schema false with
    | mk e o => cases o <;> simp
  | oneofRef pkg schema rules lr =>
    rw [bField]; unfold msgRefField
    cases refField c pkg schema false with
    | mk e o => cases o <;> simp
  | enumRef pkg schema rules lr =>
    rw [bField]
    cases refField c pkg schema true with
    | mk e o =>
      cases o with
      | none => simp
      | some t =>
        simp only []
        cases t.kind with
        | message o => simp
        | enum pfx names => simp [enumFieldWith_walk]
  | objectInl name props fl rules => rw [bField]; simp [msgInlField]
  | oneofInl name props rules lr => rw [bField]; simp [msgInlField]
  | enumInl e rules lr =>
    rw [bField]
    simp only [enumTKind]
    have := enumFieldWith_walk_sub { enums := [convEnum (if e.name = [] then { e with name := d } else e)] }
      (relName np (if e.name = [] then { e with name := d } else e).name) (enumPrefix (if e.name = [] then { e with name := d } else e))
      ((enumPrefix (if e.name = [] then { e with name := d } else e) ++ b!"UNSPECIFIED") ::
        (enumValues (enumPrefix (if e.name = [] then { e with name := d } else e)) (if e.name = [] then { e with name := d } else e).opts).map (·.1))
      rules lr
    rw [this.2.2]
    exact ⟨this.1, this.2.1⟩
  | array items rules => rw [bField]; simp
  | map items rules => rw [bField]; simp
  | string rules lr => rw [bField_scalar c np d (.string rules lr) _ rfl]; simp
  | bool rules lr => rw [bField_scalar c np d (.bool rules lr) _ rfl]; simp
  | bytes rules => rw [bField_scalar c np d (.bytes rules) _ rfl]; simp
  | date rules lr => rw [bField_scalar c np d (.date rules lr) _ rfl]; simp
  | decimal rules lr => rw [bField_scalar c np d (.decimal rules lr) _ rfl]; simp
  | timestamp rules => rw [bField_scalar c np d (.timestamp rules) _ rfl]; simp
  | any => rw [bField_scalar c np d .any _ rfl]; simp
  | integer fmt rules lr =>
    cases hs : scalarField (.integer fmt rules lr) with
    | none => simp only [scalarField] at hs; split at hs <;> simp at hs
    | some b =>
      rw [bField_scalar c np d _ b hs]
      simp only [scalarField] at hs
      split at hs <;> (simp only [Option.some.injEq] at hs; subst hs; simp)
  | float fmt rules lr =>
    cases hs : scalarField (.float fmt rules lr) with
    | none => simp only [scalarField] at hs; split at hs <;> simp at hs
    | some b =>
      rw [bField_scalar c np d _ b hs]
      simp only [scalarField] at hs
      split at hs <;> (simp only [Option.some.injEq] at hs; subst hs; simp)
  | key fmt ek rules lr => rw [bField_scalar c np d (.key fmt ek rules lr) _ rfl]; simp

theorem finishProperty_enums (name : Str) (req opt : Bool) (number : Nat) (io : Bool) (pre : Eff)
    (entries : List MsgSkel) (r : FieldRes) (rep : Bool) :
    (finishProperty name req opt number io pre entries r rep).eff.enums = pre.enums := by
  cases opt <;> cases req <;> cases hpk : r.primaryKey <;>
    simp [finishProperty, hpk, Eff.add, Eff.err, validateWithImport, Compile.when, Eff.imp, Eff.use]

/-- `buildProperty` keeps the nested types `buildField` produced -/
theorem bProperty_eff_sup (c : Ctx) (np : List Str) (io : Bool) (n : Nat) (name : Str)
    (req opt : Bool) (schema : Field) :
    (∀ m ∈ (bField c np (toCamel name) (builtField schema)).eff.msgs,
      m ∈ (bProperty c np io n (.mk name req opt schema)).eff.msgs) ∧
    (∀ e ∈ (bField c np (toCamel name) (builtField schema)).eff.enums,
      e ∈ (bProperty c np io n (.mk name req opt schema)).eff.enums) := by
  unfold bProperty
  cases schema <;> dsimp only [builtField] <;>
    (split
     · exact ⟨fun m hm => by simp [hm], fun e he => by simp [he]⟩
     · exact ⟨fun m hm => by simp [finishProperty_msgs, hm], fun e he => by simp [finishProperty_enums, he]⟩)

theorem exportsField_built (np : List Str) (d : Str) (schema : Field) :
    exportsField np d schema = exportsField np d (builtField schema) := by
  cases schema <;> simp [exportsField, builtField]

theorem mem_scope_of_msg (F : Str) (m : MsgSkel) (msgs : List MsgSkel) (enums : List EnumSkel)
    (hm : m ∈ msgs) (x : Str × SymKind) (hx : x ∈ msgSyms F m) : x ∈ scopeSyms F msgs enums := by
  simp only [scopeSyms, List.mem_append, mem_msgsSyms]
  exact Or.inl ⟨m, hm, hx⟩

theorem kindSym_enumTKind (e : EnumDecl) : kindSym (enumTKind e) = .enum := rfl

mutual
theorem bField_syms (c : Ctx) (pkg : Str) (hp : pkg ≠ []) (np : List Str) (d : Str) :
    ∀ f : Field, SymsIn pkg (pathFull pkg np) (bField c np d f).walk.msgs (bField c np d f).walk.enums
      (exportsField np d f)
  | .objectInl name props fl rules => by
    rw [bField]
    simp only [msgInlField, exportsField]
    intro x hx
    rcases List.mem_cons.mp hx with rfl | hx
    · apply mem_scope_of_msg _ _ _ _ (List.mem_singleton.mpr rfl)
      simp only [kindSym]
      rw [← pathFull_relName pkg hp]
      exact msgSyms_self _ _ _ _ _ _ _
    · have ih := bProps_syms c pkg hp (np ++ [if name = [] then d else name]) false 1 props x hx
      rw [pathFull_append] at ih
      apply mem_scope_of_msg _ _ _ _ (List.mem_singleton.mpr rfl)
      exact msgSyms_scope _ _ _ _ _ _ _ _ ih
  | .oneofInl name props rules lr => by
    rw [bField]
    simp only [msgInlField, exportsField]
    intro x hx
    rcases List.mem_cons.mp hx with rfl | hx
    · apply mem_scope_of_msg _ _ _ _ (List.mem_append_right _ (List.mem_singleton.mpr rfl))
      simp only [kindSym]
      rw [← pathFull_relName pkg hp]
      exact msgSyms_self _ _ _ _ _ _ _
    · have ih := bProps_syms c pkg hp (np ++ [if name = [] then d else name]) true 1 props x hx
      rw [pathFull_append] at ih
      apply mem_scope_of_msg _ _ _ _ (List.mem_append_right _ (List.mem_singleton.mpr rfl))
      exact msgSyms_scope _ _ _ _ _ _ _ _ ih
  | .enumInl e rules lr => by
    rw [bField]
    simp only [enumTKind, enumFieldWith_walk, exportsField]
    intro x hx
    simp only [List.mem_singleton] at hx
    subst hx
    simp only [scopeSyms, List.mem_append, List.flatMap_cons, List.flatMap_nil, List.append_nil]
    right
    simp only [enumSyms, kindSym_enumTKind]
    rw [← pathFull_relName pkg hp]
    by_cases hn : e.name = []
    · simp [hn, convEnum, kindSym]
    · simp [hn, convEnum, kindSym]
  | .array items rules => by
    rw [bField]
    simp only [exportsField]
    exact bField_syms c pkg hp np d items
  | .map items rules => by
    rw [bField]
    simp only [exportsField]
    exact bField_syms c pkg hp np d items
  | .objectRef pkg' schema fl rules => by intro x hx; simp [exportsField] at hx
  | .oneofRef pkg' schema rules lr => by intro x hx; simp [exportsField] at hx
  | .enumRef pkg' schema rules lr => by intro x hx; simp [exportsField] at hx
  | .string rules lr => by intro x hx; simp [exportsField] at hx
  | .bool rules lr => by intro x hx; simp [exportsField] at hx
  | .bytes rules => by intro x hx; simp [exportsField] at hx
  | .date rules lr => by intro x hx; simp [exportsField] at hx
  | .decimal rules lr => by intro x hx; simp [exportsField] at hx
  | .timestamp rules => by intro x hx; simp [exportsField] at hx
  | .any => by intro x hx; simp [exportsField] at hx
  | .integer fmt rules lr => by intro x hx; simp [exportsField] at hx
  | .float fmt rules lr => by intro x hx; simp [exportsField] at hx
  | .key fmt ek rules lr => by intro x hx; simp [exportsField] at hx

theorem bProperty_syms (c : Ctx) (pkg : Str) (hp : pkg ≠ []) (np : List Str) (io : Bool) (n : Nat) :
    ∀ p : Property, SymsIn pkg (pathFull pkg np) (bProperty c np io n p).eff.msgs
      (bProperty c np io n p).eff.enums (exportsProperty np p)
  | .mk name req opt schema => by
    simp only [exportsProperty]
    rw [exportsField_built]
    have hsup := bProperty_eff_sup c np io n name req opt schema
    have hwalk := bField_walk_sub c np (toCamel name) (builtField schema)
    have : SymsIn pkg (pathFull pkg np) (bField c np (toCamel name) (builtField schema)).walk.msgs
        (bField c np (toCamel name) (builtField schema)).walk.enums
        (exportsField np (toCamel name) (builtField schema)) := by
      cases schema with
      | map items rules => exact bField_syms c pkg hp np (toCamel name) items
      | array items rules => exact bField_syms c pkg hp np (toCamel name) items
      | string rules lr => exact bField_syms c pkg hp np (toCamel name) _
      | bool rules lr => exact bField_syms c pkg hp np (toCamel name) _
      | bytes rules => exact bField_syms c pkg hp np (toCamel name) _
      | date rules lr => exact bField_syms c pkg hp np (toCamel name) _
      | decimal rules lr => exact bField_syms c pkg hp np (toCamel name) _
      | timestamp rules => exact bField_syms c pkg hp np (toCamel name) _
      | any => exact bField_syms c pkg hp np (toCamel name) _
      | integer fmt rules lr => exact bField_syms c pkg hp np (toCamel name) _
      | float fmt rules lr => exact bField_syms c pkg hp np (toCamel name) _
      | key fmt ek rules lr => exact bField_syms c pkg hp np (toCamel name) _
      | objectRef pkg' sc fl rules => exact bField_syms c pkg hp np (toCamel name) _
      | objectInl nm props fl rules => exact bField_syms c pkg hp np (toCamel name) _
      | oneofRef pkg' sc rules lr => exact bField_syms c pkg hp np (toCamel name) _
      | oneofInl nm props rules lr => exact bField_syms c pkg hp np (toCamel name) _
      | enumRef pkg' sc rules lr => exact bField_syms c pkg hp np (toCamel name) _
      | enumInl e rules lr => exact bField_syms c pkg hp np (toCamel name) _
    exact this.mono (fun m hm => hsup.1 m (hwalk.1 m hm)) (fun e he => hsup.2 e (hwalk.2 e he))

theorem bProps_syms (c : Ctx) (pkg : Str) (hp : pkg ≠ []) (np : List Str) (io : Bool) (n : Nat) :
    ∀ ps : List Property, SymsIn pkg (pathFull pkg np) (bProps c np io n ps).eff.msgs
      (bProps c np io n ps).eff.enums (exportsProps np ps)
  | [] => by intro x hx; simp [exportsProps] at hx
  | p :: ps => by
    rw [bProps_cons]
    simp only [exportsProps]
    apply SymsIn.append
    · exact (bProperty_syms c pkg hp np io n p).mono
        (by intro m hm; cases io <;> simp [hm]) (by intro e he; cases io <;> simp [he])
    · exact (bProps_syms c pkg hp np io (n + 1) ps).mono
        (by intro m hm; cases io <;> simp [hm]) (by intro e he; cases io <;> simp [he])
end

theorem exportsProps_append (np : List Str) (a b : List Property) :
    exportsProps np (a ++ b) = exportsProps np a ++ exportsProps np b := by
  induction a with
  | nil => simp [exportsProps]
  | cons p ps ih => simp [exportsProps, ih]

mutual
theorem convDecl_syms (c : Ctx) (pkg : Str) (hp : pkg ≠ []) (np : List Str) (io : Bool)
    (virt : List Property) :
    ∀ o : ObjDecl, SymsIn pkg (pathFull pkg np) (convDecl c np io virt o).msgs
      (convDecl c np io virt o).enums (exportsDecl np io o)
  | .mk name props nested psm => by
    intro x hx
    rw [convDecl_msgs]
    apply mem_scope_of_msg _ _ _ _ (List.mem_append_right _ (List.mem_singleton.mpr rfl))
    simp only [exportsDecl, List.cons_append, List.mem_cons, List.mem_append] at hx
    simp only [declMsg, mkMsg]
    rcases hx with rfl | hx | hx
    · simp only [kindSym]
      rw [← pathFull_relName pkg hp]
      exact msgSyms_self _ _ _ _ _ _ _
    · have h1 := bProps_syms c pkg hp (np ++ [name]) io 1 (virt ++ props) x
        (by rw [exportsProps_append]; exact List.mem_append_right _ hx)
      rw [pathFull_append] at h1
      apply msgSyms_scope
      exact scopeSyms_mono _ _ _ _ _ (fun m hm => List.mem_append_left _ hm)
        (fun e he => List.mem_append_left _ he) _ h1
    · have h2 := convNested_syms c pkg hp (np ++ [name]) nested x hx
      rw [pathFull_append] at h2
      apply msgSyms_scope
      exact scopeSyms_mono _ _ _ _ _ (fun m hm => List.mem_append_right _ hm)
        (fun e he => List.mem_append_right _ he) _ h2
theorem convNested_syms (c : Ctx) (pkg : Str) (hp : pkg ≠ []) (np : List Str) :
    ∀ ns : List Nested, SymsIn pkg (pathFull pkg np) (convNested c np ns).msgs
      (convNested c np ns).enums (exportsNested np ns)
  | [] => by intro x hx; simp [exportsNested] at hx
  | .object o :: rest => by
    rw [convNested]
    simp only [exportsNested]
    apply SymsIn.append
    · exact (convDecl_syms c pkg hp np false [] o).mono (by intro m hm; simp [hm]) (by intro e he; simp [he])
    · exact (convNested_syms c pkg hp np rest).mono (by intro m hm; simp [hm]) (by intro e he; simp [he])
  | .oneof o :: rest => by
    rw [convNested]
    simp only [exportsNested]
    apply SymsIn.append
    · exact (convDecl_syms c pkg hp np true [] o).mono (by intro m hm; simp [hm]) (by intro e he; simp [he])
    · exact (convNested_syms c pkg hp np rest).mono (by intro m hm; simp [hm]) (by intro e he; simp [he])
  | .enum e :: rest => by
    rw [convNested]
    intro x hx
    simp only [exportsNested, List.mem_cons] at hx
    rcases hx with rfl | hx
    · simp only [scopeSyms, List.mem_append, Eff.enums_append, List.flatMap_append, List.flatMap_cons,
        List.flatMap_nil, List.append_nil]
      right; left
      simp only [enumSyms, kindSym_enumTKind, convEnum]
      rw [← pathFull_relName pkg hp]
      simp
    · exact (convNested_syms c pkg hp np rest).mono (by intro m hm; simp [hm]) (by intro e he; simp [he]) x hx
end

/-- exports of an item of the main file are symbols of what the item emits -/
theorem item_syms (c : Ctx) (pkg : Str) (hp : pkg ≠ []) (i : Item) (hi : i.target = .main) :
    SymsIn pkg pkg (itemMsgs c i) (itemEnums c i) (itemExports i) := by
  cases i with
  | object o =>
    have := convDecl_syms c pkg hp [] false [] o
    simpa [itemMsgs, itemEnums, convItem, itemExports, pathFull] using this
  | oneof o =>
    have := convDecl_syms c pkg hp [] true [] o
    simpa [itemMsgs, itemEnums, convItem, itemExports, pathFull] using this
  | enum e =>
    intro x hx
    simp only [itemExports, List.mem_singleton] at hx
    subst hx
    simp [scopeSyms, itemMsgs, itemEnums, convItem, enumSyms, convEnum, kindSym_enumTKind, msgsSyms]
  | abort => intro x hx; simp [itemExports] at hx
  | serviceFile ss => cases hi
  | topicFile ts => cases hi

/-- **every type a j5s file exports from its objects, oneofs and enums (at any nesting depth,
inline types included) is a message / enum symbol of the generated main file**, under the name
`<package>.<exported name>` -/
theorem convertFile_exports_syms (res : Resolver) (path : Str) (imports : List Import)
    (elems : List Elem) (fs : List FileSkel) (h : convertFile res path imports elems = .ok fs)
    (hpkg : packageFromFilename (path ++ b!".proto") ≠ []) :
    ∃ main subs, fs = main :: subs ∧ main.name = path ++ b!".proto" ∧
      main.pkg = packageFromFilename (path ++ b!".proto") ∧
      ∀ i ∈ elems.flatMap (itemsOfElem (packageFromFilename (path ++ b!".proto"))), i.target = .main →
        ∀ x ∈ itemExports i,
          (qual (packageFromFilename (path ++ b!".proto")) x.1, kindSym x.2) ∈ main.lfile.syms := by
  obtain ⟨im, hj, hex⟩ := convertFile_exact res path imports elems fs h
  simp only [] at hex
  obtain ⟨main, subs, hfs, hname, hpk, _, hmsgs, henums, _⟩ := hex
  refine ⟨main, subs, hfs, hname, hpk, ?_⟩
  intro i hi hit x hx
  have := item_syms { resolve := resolveTypeNoImport im res } _ hpkg i hit x hx
  simp only [FileSkel.lfile, hpk, List.mem_append]
  left
  have hmem : i ∈ (elems.flatMap (itemsOfElem (packageFromFilename (path ++ b!".proto")))).filter
      (·.target = .main) := List.mem_filter.mpr ⟨hi, by simpa using hit⟩
  have := scopeSyms_mono _ _ main.msgs _ main.enums
    (by intro m hm; rw [hmsgs]; exact List.mem_flatMap.mpr ⟨i, hmem, hm⟩)
    (by intro e he; rw [henums]; exact List.mem_flatMap.mpr ⟨i, hmem, he⟩) _ this
  simpa [scopeSyms, List.mem_append] using this

theorem sourceSummary_exports (path : Str) (imports : List Import) (elems : List Elem) (s : Summary')
    (h : sourceSummary path imports elems = .ok s) :
    s.exports = ((elems.flatMap (itemsOfElem (packageFromFilename (path ++ b!".proto")))).flatMap itemExports).map
      (fun x => (x.1, (⟨packageFromFilename (path ++ b!".proto"), x.1, path ++ b!".proto", x.2⟩ : TypeRef))) := by
  unfold sourceSummary at h
  simp only [] at h
  cases hw : walkItems (elems.flatMap (itemsOfElem (packageFromFilename (path ++ b!".proto")))) with
  | err t => simp [hw] at h
  | panic w => simp [hw] at h
  | ok u =>
    simp only [hw] at h
    cases hj : j5Imports (packageFromFilename (path ++ b!".proto")) imports with
    | err t => simp [hj] at h
    | panic w => simp [hj] at h
    | ok im =>
      simp only [hj] at h
      split at h
      · cases h
      · simp only [Outcome.ok.injEq] at h
        subst h
        rfl

/-- **declared types link**: in a package that loads, every object / oneof / enum a j5s file
declares (nested and inline types included) is (a) an entry of the package's export table under
its package-relative name, pointing at the generated main file, and (b) a message / enum symbol of
exactly that generated file -/
theorem declared_types_link (b : Bundle) (name : Str) (p : Pkg) (l : Loaded) (fuel : Nat)
    (chain : List Str) (hf : b.find name = some p) (hl : loadPkg b (fuel + 1) chain name = .ok l)
    (path : Str) (imports : List Import) (elems : List Elem) (decl : Str)
    (hmem : SrcFile.j5s path imports elems decl ∈ p.files)
    (hpkg : packageFromFilename (path ++ b!".proto") ≠ []) :
    ∃ g ∈ l.files, g.name = path ++ b!".proto" ∧
      ∀ i ∈ elems.flatMap (itemsOfElem (packageFromFilename (path ++ b!".proto"))), i.target = .main →
        ∀ x ∈ itemExports i,
          (x.1, (⟨packageFromFilename (path ++ b!".proto"), x.1, path ++ b!".proto", x.2⟩ : TypeRef)) ∈ l.exports ∧
          (qual (packageFromFilename (path ++ b!".proto")) x.1, kindSym x.2) ∈ g.lfile.syms := by
  obtain ⟨hfiles, hok⟩ := loadPkg_ok_inv b fuel chain name p l hf hl
  obtain ⟨hs, _, hex, _, _⟩ := loadPkg_ok_struct b fuel chain name p l hf hl
  obtain ⟨fs, hfs⟩ := hok _ hmem
  obtain ⟨main, subs, hfs', hname, _, hsyms⟩ := convertFile_exports_syms l.resolver path imports elems fs hfs hpkg
  obtain ⟨_, hall⟩ := summaries_ok p.files _ hs
  have hsum := fileSummary_j5s_ok _ _ _ _ _ (hall _ hmem)
  have hexp := sourceSummary_exports path imports elems _ hsum
  refine ⟨main, ?_, hname, ?_⟩
  · rw [hfiles]
    exact List.mem_flatMap.mpr ⟨_, hmem, by simp only [convOf, hfs, hfs']; exact List.mem_cons_self⟩
  · intro i hi hit x hx
    refine ⟨?_, hsyms i hi hit x hx⟩
    rw [hex]
    refine List.mem_flatMap.mpr ⟨sumOf (.j5s path imports elems decl), List.mem_map_of_mem hmem, ?_⟩
    rw [hexp]
    exact List.mem_map.mpr ⟨x, List.mem_flatMap.mpr ⟨i, hi, hx⟩, rfl⟩

end J5V.Compile
