import J5V.Compile.AppendDeclPkg
import J5V.Compile.RefsPkg
import J5V.Compile.PermPkgs
import J5V.Compile.Edit
/-!
# Appending a declaration whose names are fresh (C13, package level, core only)

`C13_append_decl_pkg` needs the resolvers before and after the edit to agree on the references of
the existing declarations. Here that is *derived*: if the names the new declaration exports are
not yet exported by the package, every reference of every existing file resolves as before —
local names look the same entry up in the longer export table, imported names the same entry in
the (possibly longer) dependency table, whose old entries are loaded identically because the
dependencies never read the edited package. Then the whole statement follows through
`Edit.apply`.
-/
namespace J5V.Compile
open J5V.Go

/-! ## what a successful load consists of -/

theorem loadPkg_ok_struct (b : Bundle) (fuel : Nat) (chain : List Str) (name : Str) (p : Pkg)
    (l : Loaded) (hf : b.find name = some p) (h : loadPkg b (fuel + 1) chain name = .ok l) :
    summaries p.files = .ok (p.files.map sumOf) ∧ l.name = name ∧
    l.exports = (p.files.map sumOf).flatMap (·.exports) ∧
    l.deps = (depNamesOf name (p.files.map sumOf)).map
      (fun d => (d, (loadOf b fuel (chain ++ [name]) d).exports)) ∧
    ∀ d ∈ depNamesOf name (p.files.map sumOf),
      loadPkg b fuel (chain ++ [name]) d = .ok (loadOf b fuel (chain ++ [name]) d) := by
  rw [loadPkg] at h
  split at h
  · cases h
  · simp only [hf] at h
    cases hs : summaries p.files with
    | err t => simp [hs] at h
    | panic w => simp [hs] at h
    | ok sums =>
      obtain ⟨hsums, _⟩ := summaries_ok p.files sums hs
      subst hsums
      simp only [hs] at h
      cases hl : seqLoad (fun d => loadPkg b fuel (chain ++ [name]) d)
          (depNamesOf name (p.files.map sumOf)) with
      | err t => simp [hl] at h
      | panic w => simp [hl] at h
      | ok ls =>
        simp only [hl] at h
        obtain ⟨hls, hall⟩ := seqLoad_ok _ _ ls hl
        cases hc : convertAll (mkResolver name (p.files.map sumOf) ls) p.files with
        | err t => simp [hc] at h
        | panic w => simp [hc] at h
        | ok files =>
          simp only [hc, Outcome.ok.injEq] at h
          subst h
          refine ⟨rfl, rfl, rfl, ?_, ?_⟩
          · simp only [mkLoaded, hls, List.map_map]
            apply List.map_congr_left
            intro d hd
            have := hall d hd
            simp only [Function.comp]
            have hn := loadPkg_name b fuel (chain ++ [name]) d _ this
            refine Prod.ext hn ?_
            simp [loadOf]
          · intro d hd
            have := hall d hd
            simp only [loadOf]
            exact this

/-- once `name` is on the chain the loader never looks `name` up: bundles that agree on every
other package load alike -/
theorem loadPkg_congr_chain (b b' : Bundle) (name : Str)
    (hfind : ∀ n, n ≠ name → b.find n = b'.find n) :
    ∀ (fuel : Nat) (chain : List Str) (d : Str), chain.contains name = true →
      loadPkg b fuel chain d = loadPkg b' fuel chain d := by
  intro fuel
  induction fuel with
  | zero => intro chain d _; simp [loadPkg]
  | succ fuel ih =>
    intro chain d hc
    rw [loadPkg, loadPkg]
    by_cases hcd : chain.contains d = true
    · simp only [hcd, if_true]
    · have hdn : d ≠ name := by intro e; subst e; exact hcd hc
      simp only [hcd, Bool.false_eq_true, if_false, hfind d hdn]
      have hfun : (fun x => loadPkg b fuel (chain ++ [d]) x) =
          (fun x => loadPkg b' fuel (chain ++ [d]) x) := by
        funext x
        exact ih (chain ++ [d]) x (by simpa using Or.inl (by simpa using hc))
      rw [hfun]

/-! ## Go maps -/

theorem mapGet_append {V : Type} (a b : List (Str × V)) (k : Str) :
    mapGet (a ++ b) k = match mapGet b k with | some v => some v | none => mapGet a k := by
  unfold mapGet
  rw [List.reverse_append, List.find?_append]
  cases hb : b.reverse.find? (·.1 = k) with
  | some x => simp
  | none => simp

theorem mapGet_none_of_not_mem {V : Type} (m : List (Str × V)) (k : Str)
    (h : k ∉ m.map (·.1)) : mapGet m k = none := by
  unfold mapGet
  cases hf : m.reverse.find? (·.1 = k) with
  | none => rfl
  | some x =>
    exfalso
    have hm := List.mem_of_find?_eq_some hf
    have hk := List.find?_some hf
    apply h
    simp only [List.mem_map]
    exact ⟨x, by simpa using hm, by simpa using hk⟩

/-- inserting entries with fresh keys in the middle of a map changes no other lookup -/
theorem mapGet_insert_fresh {V : Type} (a n c : List (Str × V)) (k : Str)
    (h : k ∉ n.map (·.1)) : mapGet (a ++ n ++ c) k = mapGet (a ++ c) k := by
  rw [mapGet_append, mapGet_append a c, mapGet_append a n, mapGet_none_of_not_mem n k h]

theorem mapGet_mem_keys {V : Type} (m : List (Str × V)) (k : Str) (v : V) (h : mapGet m k = some v) :
    k ∈ m.map (·.1) := by
  by_cases hk : k ∈ m.map (·.1)
  · exact hk
  · rw [mapGet_none_of_not_mem m k hk] at h; cases h

theorem mapGet_map_nodup {V : Type} (names : List Str) (g : Str → V) (hnd : names.Nodup) (k : Str)
    (hk : k ∈ names) : mapGet (names.map fun d => (d, g d)) k = some (g k) := by
  induction names with
  | nil => cases hk
  | cons a rest ih =>
    rw [List.nodup_cons] at hnd
    have : (a :: rest).map (fun d => (d, g d)) = [(a, g a)] ++ rest.map (fun d => (d, g d)) := rfl
    rw [this, mapGet_append]
    rcases List.mem_cons.mp hk with rfl | hk'
    · have hnone : mapGet (rest.map fun d => (d, g d)) k = none :=
        mapGet_none_of_not_mem _ _ (by simpa [List.map_map] using hnd.1)
      rw [hnone]
      simp [mapGet]
    · rw [ih hnd.2 hk']

/-! ## the summary of the edited file -/

theorem mapM_append_some {α β : Type} (f : α → Option β) (l1 l2 : List α) (ys : List β)
    (h : (l1 ++ l2).mapM f = some ys) :
    ∃ y1 y2, l1.mapM f = some y1 ∧ l2.mapM f = some y2 ∧ ys = y1 ++ y2 := by
  induction l1 generalizing ys with
  | nil => exact ⟨[], ys, rfl, by simpa using h, rfl⟩
  | cons a rest ih =>
    simp only [List.cons_append, List.mapM_cons] at h
    cases ha : f a with
    | none => simp [ha] at h
    | some y =>
      simp only [ha, Option.pure_def, Option.bind_eq_bind, Option.bind_some] at h
      cases hr : (rest ++ l2).mapM f with
      | none => simp [hr] at h
      | some ys' =>
        simp only [hr, Option.bind_some, Option.some.injEq] at h
        obtain ⟨y1, y2, h1, h2, h3⟩ := ih ys' hr
        refine ⟨y :: y1, y2, ?_, h2, ?_⟩
        · simp [List.mapM_cons, ha, h1]
        · rw [← h, h3]; rfl

/-- exports and dependencies of a file after a declaration is appended: the old ones, then those
of the new declaration -/
theorem sourceSummary_append (path : Str) (imports : List Import) (elems : List Elem) (el : Elem)
    (s s' : Summary') (h : sourceSummary path imports elems = .ok s)
    (h' : sourceSummary path imports (elems ++ [el]) = .ok s') :
    s'.exports = s.exports ++
      ((itemsOfElem (packageFromFilename (path ++ b!".proto")) el).flatMap itemExports).map
        (fun x => (x.1, (⟨packageFromFilename (path ++ b!".proto"), x.1, path ++ b!".proto", x.2⟩ : TypeRef))) ∧
    ∃ D, s'.depPkgs = s.depPkgs ++ D := by
  unfold sourceSummary at h h'
  simp only [List.flatMap_append, List.flatMap_cons, List.flatMap_nil, List.append_nil] at h h'
  cases hw : walkItems (elems.flatMap (itemsOfElem (packageFromFilename (path ++ b!".proto")))) with
  | err t => simp [hw] at h
  | panic w => simp [hw] at h
  | ok u =>
    cases hw' : walkItems (elems.flatMap (itemsOfElem (packageFromFilename (path ++ b!".proto"))) ++
        itemsOfElem (packageFromFilename (path ++ b!".proto")) el) with
    | err t => simp [hw'] at h'
    | panic w => simp [hw'] at h'
    | ok u' =>
      simp only [hw] at h
      simp only [hw'] at h'
      cases hj : j5Imports (packageFromFilename (path ++ b!".proto")) imports with
      | err t => simp [hj] at h
      | panic w => simp [hj] at h
      | ok im =>
        simp only [hj] at h h'
        cases hex : List.mapM (fun x : Str × Str => im.expand x.1 x.2)
            ((elems.flatMap (itemsOfElem (packageFromFilename (path ++ b!".proto")))).flatMap itemRefs) with
        | none => simp [hex] at h
        | some ex =>
          simp only [hex, Outcome.ok.injEq] at h
          subst h
          rw [List.mapM_append] at h'
          simp only [hex, Option.pure_def, Option.bind_eq_bind, Option.bind_some] at h'
          cases hex2 : List.mapM (fun x : Str × Str => im.expand x.1 x.2)
              ((itemsOfElem (packageFromFilename (path ++ b!".proto")) el).flatMap itemRefs) with
          | none => simp [hex2] at h'
          | some ex2 =>
            simp only [hex2, Option.bind_some, Outcome.ok.injEq] at h'
            subst h'
            exact ⟨by simp, ex2.map (·.pkg), by simp⟩

/-! ## freshness ⇒ the resolvers agree on the existing references -/

/-- names the appended declaration exports -/
def newExportNames (path : Str) (el : Elem) : List Str :=
  ((itemsOfElem (packageFromFilename (path ++ b!".proto")) el).flatMap itemExports).map (·.1)

theorem fileSummary_j5s_ok (path : Str) (imports : List Import) (elems : List Elem) (decl : Str)
    (s : Summary') (h : fileSummary (.j5s path imports elems decl) = .ok s) :
    sourceSummary path imports elems = .ok s := by
  rw [fileSummary] at h
  split at h
  · cases h
  · exact h

theorem depNamesOf_nodup (name : Str) (sums : List Summary') : (depNamesOf name sums).Nodup :=
  List.Pairwise.filter _ (dedup_nodup _)

theorem depNamesOf_mono (name : Str) (sums sums' : List Summary')
    (h : ∀ x ∈ sums.flatMap (·.depPkgs), x ∈ sums'.flatMap (·.depPkgs)) :
    ∀ d ∈ depNamesOf name sums, d ∈ depNamesOf name sums' := by
  intro d hd
  simp only [depNamesOf, List.mem_filter, mem_dedup] at hd ⊢
  exact ⟨h d hd.1, hd.2⟩

theorem agree_of_fresh (b b' : Bundle) (name : Str) (p : Pkg) (fuel : Nat) (chain : List Str)
    (pre post : List SrcFile) (path : Str) (imports : List Import) (elems : List Elem) (decl : Str)
    (el : Elem) (hp : p.files = pre ++ [.j5s path imports elems decl] ++ post)
    (hf : b.find name = some p)
    (hf' : b'.find name = some { p with files := pre ++ [.j5s path imports (elems ++ [el]) decl] ++ post })
    (hother : ∀ n, n ≠ name → b.find n = b'.find n)
    (l l' : Loaded) (hl : loadPkg b (fuel + 1) chain name = .ok l)
    (hl' : loadPkg b' (fuel + 1) chain name = .ok l')
    (hfresh : ∀ n ∈ newExportNames path el, n ∉ l.exports.map (·.1)) :
    ∀ f ∈ p.files, AgreeFile l.resolver l'.resolver f := by
  obtain ⟨hs, hn, hex, hdeps, _⟩ := loadPkg_ok_struct b fuel chain name p l hf hl
  obtain ⟨hs', hn', hex', hdeps', _⟩ := loadPkg_ok_struct b' fuel chain name _ l' hf' hl'
  simp only [] at hs' hex' hdeps'
  -- the two summaries of the edited file
  obtain ⟨_, hall⟩ := summaries_ok p.files _ hs
  obtain ⟨_, hall'⟩ := summaries_ok _ _ hs'
  have hsum := fileSummary_j5s_ok _ _ _ _ _ (hall (.j5s path imports elems decl) (by rw [hp]; simp))
  have hsum' := fileSummary_j5s_ok _ _ _ _ _ (hall' (.j5s path imports (elems ++ [el]) decl) (by simp))
  obtain ⟨hexp, D, hdep⟩ := sourceSummary_append path imports elems el _ _ hsum hsum'
  -- export tables
  have hE : l.exports = ((pre.map sumOf).flatMap (·.exports) ++
      (sumOf (.j5s path imports elems decl)).exports) ++ (post.map sumOf).flatMap (·.exports) := by
    rw [hex, hp]; simp
  have hE' : l'.exports = ((pre.map sumOf).flatMap (·.exports) ++
      (sumOf (.j5s path imports elems decl)).exports) ++
      ((itemsOfElem (packageFromFilename (path ++ b!".proto")) el).flatMap itemExports).map
        (fun x => (x.1, (⟨packageFromFilename (path ++ b!".proto"), x.1, path ++ b!".proto", x.2⟩ : TypeRef))) ++
      (post.map sumOf).flatMap (·.exports) := by
    rw [hex']; simp [hexp]
  have hlook : ∀ k, k ∈ l.exports.map (·.1) → mapGet l'.exports k = mapGet l.exports k := by
    intro k hk
    rw [hE', hE]
    apply mapGet_insert_fresh
    intro hmem
    simp only [List.map_map] at hmem
    exact hfresh k (by simpa [newExportNames, Function.comp] using hmem) hk
  -- dependency tables
  have hmono : ∀ d ∈ depNamesOf name (p.files.map sumOf),
      d ∈ depNamesOf name ((pre ++ [SrcFile.j5s path imports (elems ++ [el]) decl] ++ post).map sumOf) := by
    apply depNamesOf_mono
    intro x hx
    rw [hp] at hx
    simp only [List.map_append, List.map_cons, List.map_nil, List.flatMap_append, List.flatMap_cons,
      List.flatMap_nil, List.append_nil, List.mem_append] at hx ⊢
    rcases hx with (hx | hx) | hx
    · exact Or.inl (Or.inl hx)
    · exact Or.inl (Or.inr (by rw [hdep]; exact List.mem_append_left _ hx))
    · exact Or.inr hx
  have hloadEq : ∀ d, loadOf b' fuel (chain ++ [name]) d = loadOf b fuel (chain ++ [name]) d := by
    intro d
    simp only [loadOf]
    rw [loadPkg_congr_chain b b' name hother fuel (chain ++ [name]) d (by simp)]
  have hdlook : ∀ q, q ∈ l.deps.map (·.1) → mapGet l'.deps q = mapGet l.deps q := by
    intro q hq
    rw [hdeps, List.map_map] at hq
    have hq0 : q ∈ depNamesOf name (p.files.map sumOf) := by simpa [Function.comp] using hq
    rw [hdeps', hdeps, mapGet_map_nodup _ _ (depNamesOf_nodup _ _) q (hmono q hq0),
      mapGet_map_nodup _ _ (depNamesOf_nodup _ _) q hq0, hloadEq]
  -- every existing file converted against the old resolver
  obtain ⟨_, hok⟩ := loadPkg_ok_inv b fuel chain name p l hf hl
  intro f hfm
  cases f with
  | proto pth msgs enums => trivial
  | j5s path2 imports2 elems2 decl2 =>
    intro im hj r hr
    obtain ⟨fs, hfs⟩ := hok _ hfm
    obtain ⟨im0, hj0, hrefs⟩ := convertFile_refs l.resolver path2 imports2 elems2 fs hfs
    have him : im0 = im := by rw [hj] at hj0; exact (Outcome.ok.inj hj0).symm
    subst him
    obtain ⟨i, hi, hri⟩ := List.mem_flatMap.mp hr
    obtain ⟨t, ht, _⟩ := hrefs i hi r hri
    -- the old lookup succeeds; follow it
    simp only [resolveTypeNoImport] at ht ⊢
    cases hexp2 : im0.expand r.1 r.2 with
    | none => rfl
    | some e =>
      rw [hexp2] at ht
      cases e with
      | implicit t' => rfl
      | ref q sch =>
        simp only [Resolver.resolveType, Loaded.resolver, hn, hn'] at ht ⊢
        by_cases hq : q = name
        · simp only [hq, if_true] at ht ⊢
          rw [hlook sch (mapGet_mem_keys _ _ _ ht)]
        · simp only [hq, if_false] at ht ⊢
          cases hd : mapGet l.deps q with
          | none => rw [hd] at ht; cases ht
          | some ex => rw [hdlook q (mapGet_mem_keys _ _ _ hd), hd]

/-- **appending a declaration with fresh names, package level**: nothing that the existing
declarations of the package produced changes or moves -/
theorem append_decl_fresh (b b' : Bundle) (name : Str) (p : Pkg) (fuel : Nat) (chain : List Str)
    (pre post : List SrcFile) (path : Str) (imports : List Import) (elems : List Elem) (decl : Str)
    (el : Elem) (hp : p.files = pre ++ [.j5s path imports elems decl] ++ post)
    (hf : b.find name = some p)
    (hf' : b'.find name = some { p with files := pre ++ [.j5s path imports (elems ++ [el]) decl] ++ post })
    (hother : ∀ n, n ≠ name → b.find n = b'.find n)
    (l l' : Loaded) (hl : loadPkg b (fuel + 1) chain name = .ok l)
    (hl' : loadPkg b' (fuel + 1) chain name = .ok l')
    (hfresh : ∀ n ∈ newExportNames path el, n ∉ l.exports.map (·.1)) :
    ∀ f ∈ l.files, ∃ f' ∈ l'.files, f.Le f' :=
  append_decl_pkg b b' name p _ l l' fuel fuel chain chain hf hf' hl hl' pre post path imports elems
    decl el hp rfl
    (agree_of_fresh b b' name p fuel chain pre post path imports elems decl el hp hf hf' hother l l'
      hl hl' hfresh)

/-! ## through `Edit.apply` -/

theorem mapM_find (f : Pkg → Option Pkg) (hname : ∀ p p', f p = some p' → p'.name = p.name)
    (l l' : List Pkg) (h : l.mapM f = some l') (n : Str) :
    l'.find? (·.name = n) = (l.find? (·.name = n)).bind f := by
  induction l generalizing l' with
  | nil =>
    simp only [List.mapM_nil, Option.pure_def, Option.some.injEq] at h
    subst h; rfl
  | cons p rest ih =>
    simp only [List.mapM_cons, Option.pure_def, Option.bind_eq_bind] at h
    cases hp : f p with
    | none => simp [hp] at h
    | some p' =>
      cases hr : rest.mapM f with
      | none => simp [hp, hr] at h
      | some rest' =>
        simp only [hp, hr, Option.bind_some, Option.some.injEq] at h
        subst h
        have hn := hname p p' hp
        simp only [List.find?_cons, hn]
        by_cases hpn : p.name = n
        · simp [hpn, hp]
        · simp only [hpn, decide_false]
          exact ih rest' hr

theorem mapM_length {α β : Type} (f : α → Option β) (l : List α) (l' : List β)
    (h : l.mapM f = some l') : l'.length = l.length := by
  induction l generalizing l' with
  | nil => simp only [List.mapM_nil, Option.pure_def, Option.some.injEq] at h; subst h; rfl
  | cons a rest ih =>
    simp only [List.mapM_cons, Option.pure_def, Option.bind_eq_bind] at h
    cases ha : f a with
    | none => simp [ha] at h
    | some y =>
      cases hr : rest.mapM f with
      | none => simp [ha, hr] at h
      | some ys =>
        simp only [ha, hr, Option.bind_some, Option.some.injEq] at h
        subst h
        simp [ih ys hr]

/-- what `appendDecl` does to the bundle: the `fi`-th file of the package gets the declaration at
its end; every other package is untouched -/
theorem apply_appendDecl (b : Bundle) (pkg : Str) (fi : Nat) (el : Elem) (b' : Bundle)
    (h : (Edit.appendDecl fi el).apply pkg b = some b') :
    ∃ p pre post path imports elems decl, b.find pkg = some p ∧
      p.files = pre ++ [.j5s path imports elems decl] ++ post ∧ pre.length = fi ∧
      b'.find pkg = some { p with files := pre ++ [.j5s path imports (elems ++ [el]) decl] ++ post } ∧
      (∀ n, n ≠ pkg → b.find n = b'.find n) ∧ b'.pkgs.length = b.pkgs.length := by
  unfold Edit.apply at h
  split at h
  · cases h
  · rename_i hany
    have hany : b.pkgs.any (fun x => decide (x.name = pkg)) = true := by
      cases hb : b.pkgs.any (fun x => decide (x.name = pkg)) with
      | true => rfl
      | false => simp [hb] at hany
    cases hm : b.pkgs.mapM (fun p =>
        if p.name = pkg then (setAt p.files (Edit.appendDecl fi el).file (Edit.appendDecl fi el).applyFile).map
          fun fs => { p with files := fs } else some p) with
    | none => simp [hm] at h
    | some ps =>
      simp only [hm, Option.map_some, Option.some.injEq] at h
      subst h
      have hname : ∀ p p', (if p.name = pkg then
          (setAt p.files (Edit.appendDecl fi el).file (Edit.appendDecl fi el).applyFile).map
            fun fs => ({ p with files := fs } : Pkg) else some p) = some p' → p'.name = p.name := by
        intro p p' hpp
        split at hpp
        · cases hsa : setAt p.files (Edit.appendDecl fi el).file (Edit.appendDecl fi el).applyFile with
          | none => simp [hsa] at hpp
          | some fs => simp only [hsa, Option.map_some, Option.some.injEq] at hpp; subst hpp; rfl
        · simp only [Option.some.injEq] at hpp; subst hpp; rfl
      have hfindEq := mapM_find _ hname b.pkgs ps hm
      -- the package itself
      obtain ⟨p0, hp0, hp0n⟩ := List.any_eq_true.mp hany
      cases hfp : b.pkgs.find? (·.name = pkg) with
      | none =>
        have := List.find?_eq_none.mp hfp p0 hp0
        exact absurd hp0n this
      | some p =>
        have hpn : p.name = pkg := by simpa using List.find?_some hfp
        have hfp' := hfindEq pkg
        rw [hfp] at hfp'
        simp only [Option.bind_some, hpn, if_true] at hfp'
        cases hsa : setAt p.files (Edit.appendDecl fi el).file (Edit.appendDecl fi el).applyFile with
        | none =>
          -- then the whole mapM fails
          exfalso
          rw [hsa] at hfp'
          simp only [Option.map_none] at hfp'
          have hmem : p ∈ b.pkgs := List.mem_of_find?_eq_some hfp
          have : ∀ (l : List Pkg) (ps : List Pkg), p ∈ l → l.mapM (fun p =>
              if p.name = pkg then (setAt p.files (Edit.appendDecl fi el).file (Edit.appendDecl fi el).applyFile).map
                fun fs => ({ p with files := fs } : Pkg) else some p) = some ps → False := by
            intro l
            induction l with
            | nil => intro _ hm'; cases hm'
            | cons q rest ih =>
              intro ps' hmq hmm
              simp only [List.mapM_cons, Option.pure_def, Option.bind_eq_bind] at hmm
              rcases List.mem_cons.mp hmq with rfl | hmq'
              · simp [hpn, hsa] at hmm
              · cases hq : (if q.name = pkg then
                    (setAt q.files (Edit.appendDecl fi el).file (Edit.appendDecl fi el).applyFile).map
                      fun fs => ({ q with files := fs } : Pkg) else some q) with
                | none => simp [hq] at hmm
                | some q' =>
                  cases hr : rest.mapM (fun p =>
                      if p.name = pkg then (setAt p.files (Edit.appendDecl fi el).file (Edit.appendDecl fi el).applyFile).map
                        fun fs => ({ p with files := fs } : Pkg) else some p) with
                  | none => simp [hq, hr] at hmm
                  | some rest' => exact ih rest' hmq' hr
          exact this b.pkgs ps hmem hm
        | some fs =>
          rw [hsa] at hfp'
          simp only [Option.map_some] at hfp'
          -- unpack setAt
          unfold setAt at hsa
          simp only [Edit.file] at hsa
          cases hget : p.files[fi]? with
          | none => simp [hget] at hsa
          | some a =>
            simp only [hget] at hsa
            cases a with
            | proto pth msgs enums => simp [Edit.applyFile] at hsa
            | j5s path imports elems decl =>
              simp only [Edit.applyFile, Option.map_some, Option.some.injEq] at hsa
              subst hsa
              have hlt : fi < p.files.length := by
                rcases Nat.lt_or_ge fi p.files.length with h1 | h1
                · exact h1
                · rw [List.getElem?_eq_none h1] at hget; cases hget
              have hget' : p.files[fi] = .j5s path imports elems decl := by
                rw [List.getElem?_eq_getElem hlt] at hget
                exact Option.some.inj hget
              refine ⟨p, p.files.take fi, p.files.drop (fi + 1), path, imports, elems, decl, hfp, ?_, ?_, ?_, ?_, ?_⟩
              · conv => lhs; rw [← List.take_append_drop fi p.files]
                rw [List.append_assoc]
                congr 1
                rw [List.drop_eq_getElem_cons hlt, hget']
                rfl
              · simp [Nat.min_eq_left (Nat.le_of_lt hlt)]
              · show ps.find? (·.name = pkg) = _
                rw [hfp']
                have hset : p.files.set fi (SrcFile.j5s path imports (elems ++ [el]) decl) =
                    p.files.take fi ++ [SrcFile.j5s path imports (elems ++ [el]) decl] ++ p.files.drop (fi + 1) := by
                  rw [List.set_eq_take_append_cons_drop]
                  simp [hlt]
                rw [hset, ← hpn]
              · intro n hn
                show b.pkgs.find? (·.name = n) = ps.find? (·.name = n)
                rw [hfindEq n]
                cases hfn : b.pkgs.find? (·.name = n) with
                | none => rfl
                | some q =>
                  have hqn : q.name = n := by simpa using List.find?_some hfn
                  have : q.name ≠ pkg := by rw [hqn]; exact hn
                  simp [this]
              · exact mapM_length _ _ _ hm

end J5V.Compile
