import J5V.Compile.PackageSet
import J5V.Compile.PermFiles
/-!
# The package cache is transparent (C14: call order, fresh vs reused `PackageSet`) — core only

For a bundle whose package dependency graph is acyclic (a rank function decreasing along
dependencies — every valid bundle has one), `loadPackage` with the cache (`loadPkgS`) returns
exactly what the cache-free `loadPkg` returns, whatever was loaded before; hence every
`CompilePackage` call in any sequence on one `PackageSet` gives the result a fresh set gives.
-/
namespace J5V.Compile
open J5V.Go

/-- `r` decreases along the dependencies of every package of the bundle -/
def rankOk (b : Bundle) (r : Str → Nat) : Bool :=
  b.pkgs.all fun p =>
    match summaries p.files with
    | .ok sums => (depNamesOf p.name sums).all fun d => decide (r d < r p.name)
    | _ => true

theorem rankOk_dep (b : Bundle) (r : Str → Nat) (h : rankOk b r = true) (n : Str) (p : Pkg)
    (sums : List Summary') (hf : b.find n = some p) (hs : summaries p.files = .ok sums) :
    ∀ d ∈ depNamesOf n sums, r d < r n := by
  have hp : p ∈ b.pkgs := List.mem_of_find?_eq_some hf
  have hn : p.name = n := by
    have := List.find?_some hf
    simpa using this
  have := (List.all_eq_true.mp h) p hp
  simp only [hs] at this
  intro d hd
  rw [← hn] at hd ⊢
  simpa using (List.all_eq_true.mp this) d hd

theorem seqLoad_congr_mem (load load' : Str → Outcome Loaded) (ds : List Str)
    (h : ∀ d ∈ ds, load d = load' d) : seqLoad load ds = seqLoad load' ds := by
  induction ds with
  | nil => rfl
  | cons d rest ih =>
    rw [seqLoad, seqLoad, h d (by simp), ih (fun x hx => h x (List.mem_cons_of_mem _ hx))]

/-- **fuel and chain do not matter** once the fuel exceeds the rank and every package on the
chain has a higher rank (i.e. is an ancestor) -/
theorem loadPkg_indep (b : Bundle) (r : Str → Nat) (hr : rankOk b r = true) :
    ∀ (f f' : Nat) (chain chain' : List Str) (n : Str), r n < f → r n < f' →
      (∀ c ∈ chain, r n < r c) → (∀ c ∈ chain', r n < r c) →
      loadPkg b f chain n = loadPkg b f' chain' n := by
  intro f
  induction f with
  | zero => intro f' chain chain' n h; omega
  | succ k ih =>
    intro f' chain chain' n hf hf' hc hc'
    cases f' with
    | zero => omega
    | succ k' =>
      rw [loadPkg, loadPkg]
      have hnc : chain.contains n = false := by
        cases h : chain.contains n with
        | false => rfl
        | true => have := hc n (by simpa using h); omega
      have hnc' : chain'.contains n = false := by
        cases h : chain'.contains n with
        | false => rfl
        | true => have := hc' n (by simpa using h); omega
      simp only [hnc, hnc', Bool.false_eq_true, if_false]
      cases hfind : b.find n with
      | none => rfl
      | some pkg =>
        simp only []
        cases hs : summaries pkg.files with
        | err t => rfl
        | panic w => rfl
        | ok sums =>
          simp only []
          have hdeps := rankOk_dep b r hr n pkg sums hfind hs
          have : seqLoad (fun d => loadPkg b k (chain ++ [n]) d) (depNamesOf n sums) =
              seqLoad (fun d => loadPkg b k' (chain' ++ [n]) d) (depNamesOf n sums) := by
            apply seqLoad_congr_mem
            intro d hd
            have hdr := hdeps d hd
            apply ih k' (chain ++ [n]) (chain' ++ [n]) d (by omega) (by omega)
            · intro c hcm
              rcases List.mem_append.mp hcm with h | h
              · have := hc c h; omega
              · simp only [List.mem_singleton] at h; subst h; exact hdr
            · intro c hcm
              rcases List.mem_append.mp hcm with h | h
              · have := hc' c h; omega
              · simp only [List.mem_singleton] at h; subst h; exact hdr
          rw [this]

/-- every cache entry is what the cache-free loader returns, for any admissible fuel / chain -/
def CacheInv (b : Bundle) (r : Str → Nat) (ps : PSet) : Prop :=
  ∀ nl ∈ ps, ∀ (f : Nat) (chain : List Str), r nl.1 < f → (∀ c ∈ chain, r nl.1 < r c) →
    loadPkg b f chain nl.1 = .ok nl.2

theorem PSet.get_mem (ps : PSet) (n : Str) (l : Loaded) (h : ps.get n = some l) : (n, l) ∈ ps := by
  unfold PSet.get at h
  cases hf : ps.find? (·.1 = n) with
  | none => simp [hf] at h
  | some x =>
    rw [hf] at h
    simp only [Option.map_some, Option.some.injEq] at h
    have hm := List.mem_of_find?_eq_some hf
    have hk := List.find?_some hf
    simp only [decide_eq_true_eq] at hk
    obtain ⟨a, c⟩ := x
    simp only at hk h
    subst hk; subst h
    exact hm

theorem cacheInv_append (b : Bundle) (r : Str → Nat) (ps : PSet) (n : Str) (l : Loaded)
    (h : CacheInv b r ps)
    (hn : ∀ (f : Nat) (chain : List Str), r n < f → (∀ c ∈ chain, r n < r c) →
      loadPkg b f chain n = .ok l) : CacheInv b r (ps ++ [(n, l)]) := by
  intro nl hnl
  rcases List.mem_append.mp hnl with h1 | h1
  · exact h nl h1
  · simp only [List.mem_singleton] at h1
    subst h1
    exact hn

/-- the dependency loop with the cache agrees with the one without, and keeps the invariant -/
theorem seqLoadS_agree (b : Bundle) (r : Str → Nat)
    (loadS : Str → PSet → PSet × Outcome Loaded) (load : Str → Outcome Loaded) (ds : List Str)
    (hstep : ∀ d ∈ ds, ∀ ps, CacheInv b r ps →
      (loadS d ps).2 = load d ∧ CacheInv b r (loadS d ps).1) :
    ∀ ps, CacheInv b r ps →
      (seqLoadS loadS ds ps).2 = seqLoad load ds ∧ CacheInv b r (seqLoadS loadS ds ps).1 := by
  induction ds with
  | nil => intro ps h; exact ⟨rfl, h⟩
  | cons d rest ih =>
    intro ps h
    obtain ⟨h1, h2⟩ := hstep d (by simp) ps h
    rw [seqLoadS, seqLoad, ← h1]
    cases hl : loadS d ps with
    | mk ps1 o =>
      rw [hl] at h2
      cases o with
      | err t => exact ⟨rfl, h2⟩
      | panic w => exact ⟨rfl, h2⟩
      | ok l =>
        simp only []
        obtain ⟨h3, h4⟩ := ih (fun x hx => hstep x (List.mem_cons_of_mem _ hx)) ps1 h2
        rw [← h3]
        cases hr : seqLoadS loadS rest ps1 with
        | mk ps2 o2 =>
          rw [hr] at h4
          cases o2 <;> exact ⟨rfl, h4⟩

/-- **the cache is transparent**: with a consistent cache, `loadPackage` returns what the
cache-free loader returns and leaves a consistent cache -/
theorem loadPkgS_agree (b : Bundle) (r : Str → Nat) (hr : rankOk b r = true) :
    ∀ (f : Nat) (chain : List Str) (n : Str) (ps : PSet), CacheInv b r ps → r n < f →
      (∀ c ∈ chain, r n < r c) →
      (loadPkgS b f chain n ps).2 = loadPkg b f chain n ∧
        CacheInv b r (loadPkgS b f chain n ps).1 := by
  intro f
  induction f with
  | zero => intro chain n ps _ h; omega
  | succ k ih =>
    intro chain n ps hinv hf hc
    have hnc : chain.contains n = false := by
      cases h : chain.contains n with
      | false => rfl
      | true => have := hc n (by simpa using h); omega
    rw [loadPkgS]
    simp only [hnc, Bool.false_eq_true, if_false]
    cases hget : ps.get n with
    | some l =>
      simp only []
      refine ⟨?_, hinv⟩
      exact (hinv (n, l) (PSet.get_mem ps n l hget) (k + 1) chain hf hc).symm
    | none =>
      simp only []
      rw [loadPkg]
      simp only [hnc, Bool.false_eq_true, if_false]
      cases hfind : b.find n with
      | none =>
        simp only []
        by_cases hb : builtinPkgs.contains n = true
        · simp only [hb, if_true]
          refine ⟨trivial, cacheInv_append b r ps n _ hinv ?_⟩
          intro f' chain' hf' hc'
          cases f' with
          | zero => omega
          | succ k' =>
            have hnc' : chain'.contains n = false := by
              cases h : chain'.contains n with
              | false => rfl
              | true => have := hc' n (by simpa using h); omega
            rw [loadPkg]
            simp only [hnc', Bool.false_eq_true, if_false, hfind, hb, if_true]
        · simp only [hb, Bool.false_eq_true, if_false]
          exact ⟨trivial, hinv⟩
      | some pkg =>
        simp only []
        cases hs : summaries pkg.files with
        | err t => exact ⟨rfl, hinv⟩
        | panic w => exact ⟨rfl, hinv⟩
        | ok sums =>
          simp only []
          have hdeps := rankOk_dep b r hr n pkg sums hfind hs
          obtain ⟨ha, hb⟩ := seqLoadS_agree b r
            (fun d ps => loadPkgS b k (chain ++ [n]) d ps) (fun d => loadPkg b k (chain ++ [n]) d)
            (depNamesOf n sums)
            (by
              intro d hd ps' hinv'
              have hdr := hdeps d hd
              apply ih (chain ++ [n]) d ps' hinv' (by omega)
              intro c hcm
              rcases List.mem_append.mp hcm with h | h
              · have := hc c h; omega
              · simp only [List.mem_singleton] at h; subst h; exact hdr)
            ps hinv
          rw [← ha]
          cases hsl : seqLoadS (fun d ps => loadPkgS b k (chain ++ [n]) d ps) (depNamesOf n sums) ps with
          | mk ps1 o =>
            rw [hsl] at hb ha
            cases o with
            | err t => exact ⟨rfl, hb⟩
            | panic w => exact ⟨rfl, hb⟩
            | ok ls =>
              simp only []
              cases hcv : convertAll (mkResolver n sums ls) pkg.files with
              | err t => exact ⟨rfl, hb⟩
              | panic w => exact ⟨rfl, hb⟩
              | ok files =>
                simp only []
                refine ⟨trivial, cacheInv_append b r ps1 n _ hb ?_⟩
                intro f' chain' hf' hc'
                rw [loadPkg_indep b r hr f' (k + 1) chain' chain n hf' hf hc' hc, loadPkg]
                simp only [hnc, Bool.false_eq_true, if_false, hfind, hs, ← ha, hcv]

/-- `CompilePackage` on a consistent cache = `CompilePackage` on a fresh `PackageSet` -/
theorem compileOn_agree (b : Bundle) (r : Str → Nat) (hr : rankOk b r = true)
    (hF : ∀ n, r n < b.pkgs.length + 1) (ps : PSet) (hinv : CacheInv b r ps) (n : Str) :
    (compileOn b ps n).2 = compileLinked b n ∧ CacheInv b r (compileOn b ps n).1 := by
  obtain ⟨h1, h2⟩ := loadPkgS_agree b r hr (b.pkgs.length + 1) [] n ps hinv (hF n)
    (fun c hc => by simp at hc)
  unfold compileOn compileLinked
  rw [← h1]
  cases hl : loadPkgS b (b.pkgs.length + 1) [] n ps with
  | mk ps' o =>
    rw [hl] at h2
    cases o <;> exact ⟨rfl, h2⟩

/-- **any sequence of `CompilePackage` calls**, on one reused `PackageSet` or on fresh ones, gives
for every call the result of compiling that package alone on a fresh set -/
theorem compileCalls_agree (b : Bundle) (r : Str → Nat) (hr : rankOk b r = true)
    (hF : ∀ n, r n < b.pkgs.length + 1) (reuse : Bool) :
    ∀ (calls : List Str) (ps : PSet), CacheInv b r ps →
      compileCalls b reuse calls ps = calls.map fun n => (n, compileLinked b n) := by
  intro calls
  induction calls with
  | nil => intro ps _; rfl
  | cons n rest ih =>
    intro ps hinv
    have hempty : CacheInv b r [] := by intro nl h; simp at h
    have hstart : CacheInv b r (if reuse then ps else []) := by
      cases reuse
      · exact hempty
      · exact hinv
    obtain ⟨h1, h2⟩ := compileOn_agree b r hr hF _ hstart n
    rw [compileCalls]
    cases hc : compileOn b (if reuse = true then ps else []) n with
    | mk ps' o =>
      rw [hc] at h1 h2
      simp only [List.map_cons]
      rw [ih ps' h2, ← h1]

end J5V.Compile
