import J5V.Compile.NoPanic
import J5V.Compile.Walk
import J5V.Compile.File
/-!
# Where the imports of a conversion come from (core only)

The converse of `UsesProofs`: every `ensureImport` call the conversion makes names either one of
the eleven import constants of `j5convert/imports.go` or the file of a type the context resolves
(`resolveType` → `ensureImport(typeRef.File)`). Nothing else is ever imported — for every field
kind, rules, nesting depth, declared objects / oneofs with nested schemas. This is the first half
of the link bridge "imports found": the files a generated file depends on exist in the link
universe as soon as the built-ins and the files of resolvable types do.
-/
namespace J5V.Compile

/-- the files the converter imports without asking the resolver (`j5convert/imports.go`) -/
def constImports : List Str :=
  [bufValidateImport, j5ExtImport, j5DateImport, j5DecimalImport, j5ListAnnotationsImport,
   pbTimestampImport, j5AnyImport, googleApiHttpBodyImport, googleApiAnnotationsImport,
   googleProtoEmptyImport, messagingAnnotationsImport]

/-- a file name is a legitimate import in context `c`: a constant, or the file of a type that a
reference `(pkg, schema)` allowed by `R` (e.g. "occurs in the source") resolves to -/
def ImpSrc (c : Ctx) (R : Str → Str → Prop) (i : Str) : Prop :=
  i ∈ constImports ∨ ∃ pkg schema t, R pkg schema ∧ c.resolve pkg schema = some t ∧ t.file = i

/-- every import of the effect is a constant or the file of a type the context resolves -/
def ImpFrom (c : Ctx) (R : Str → Str → Prop) (e : Eff) : Prop := ∀ i ∈ e.imports, ImpSrc c R i

theorem ImpFrom.empty (c : Ctx) (R : Str → Str → Prop) : ImpFrom c R {} := by intro u hu; simp at hu

theorem ImpFrom.add {c : Ctx} {R : Str → Str → Prop} {a b : Eff} (ha : ImpFrom c R a) (hb : ImpFrom c R b) : ImpFrom c R (a ++ b) := by
  intro u hu
  simp only [Eff.add_def, Eff.add, List.mem_append] at hu
  rcases hu with h | h
  · exact ha u h
  · exact hb u h

theorem ImpFrom.imp (c : Ctx) (R : Str → Str → Prop) (p : Str) (hp : p ∈ constImports) : ImpFrom c R (Eff.imp p) := by
  intro u hu
  simp only [Eff.imp, List.mem_singleton] at hu
  subst hu
  exact Or.inl hp

theorem ImpFrom.impRes (c : Ctx) (R : Str → Str → Prop) (pkg schema : Str) (t : TypeRef) (hR : R pkg schema)
    (h : c.resolve pkg schema = some t) : ImpFrom c R (Eff.imp t.file) := by
  intro u hu
  simp only [Eff.imp, List.mem_singleton] at hu
  subst hu
  exact Or.inr ⟨pkg, schema, t, hR, h, rfl⟩

theorem ImpFrom.err (c : Ctx) (R : Str → Str → Prop) : ImpFrom c R Eff.err := by intro u hu; simp [Eff.err] at hu
theorem ImpFrom.use (c : Ctx) (R : Str → Str → Prop) (p : Str) : ImpFrom c R (Eff.use p) := by intro u hu; simp [Eff.use] at hu
theorem ImpFrom.j5Ext (c : Ctx) (R : Str → Str → Prop) : ImpFrom c R j5Ext :=
  ImpFrom.add (ImpFrom.imp c R _ (by decide)) (ImpFrom.use c R _)
theorem ImpFrom.when (c : Ctx) (R : Str → Str → Prop) (b : Bool) {e : Eff} (h : ImpFrom c R e) : ImpFrom c R (when b e) := by
  cases b <;> simp [Compile.when, h, ImpFrom.empty]
theorem ImpFrom.listRules (c : Ctx) (R : Str → Str → Prop) (lr : Bool) : ImpFrom c R (listRulesEff lr) :=
  ImpFrom.when c R _ (ImpFrom.add (ImpFrom.imp c R _ (by decide)) (ImpFrom.use c R _))
theorem ImpFrom.validate (c : Ctx) (R : Str → Str → Prop) (b : Bool) : ImpFrom c R (validateWithImport b) :=
  ImpFrom.when c R _ (ImpFrom.add (ImpFrom.imp c R _ (by decide)) (ImpFrom.use c R _))

theorem refField_impFrom (c : Ctx) (R : Str → Str → Prop) (pkg schema : Str) (we : Bool)
    (hR : R pkg schema) : ImpFrom c R (refField c pkg schema we).1 := by
  unfold refField
  cases h : c.resolve pkg schema with
  | none => exact ImpFrom.empty c R
  | some t => simp only []; split <;> exact ImpFrom.impRes c R pkg schema t hR h

theorem msgRefField_impFrom (c : Ctx) (R : Str → Str → Prop) (pkg schema ext : Str) (rules : Rules) (lr : Bool)
    (hR : R pkg schema) :
    ImpFrom c R (msgRefField c pkg schema ext rules lr).eff ∧ ImpFrom c R (msgRefField c pkg schema ext rules lr).walk := by
  unfold msgRefField
  have := refField_impFrom c R pkg schema false hR
  cases h : refField c pkg schema false with
  | mk e o =>
    rw [h] at this
    cases o with
    | none => exact ⟨this, ImpFrom.empty c R⟩
    | some t =>
      exact ⟨((this.add (ImpFrom.j5Ext c R)).add (ImpFrom.validate c R _)).add (ImpFrom.listRules c R _), ImpFrom.empty c R⟩

theorem enumFieldWith_impFrom (c : Ctx) (R : Str → Str → Prop) (pre walk : Eff) (tn pfx : Str) (names : List Str) (rules : Rules)
    (lr : Option (List Str)) (h1 : ImpFrom c R pre) (h2 : ImpFrom c R walk) :
    ImpFrom c R (enumFieldWith pre walk tn pfx names rules lr).eff ∧
      ImpFrom c R (enumFieldWith pre walk tn pfx names rules lr).walk := by
  unfold enumFieldWith
  split
  · exact ⟨h1.add (ImpFrom.j5Ext c R), h2⟩
  split
  · exact ⟨(h1.add (ImpFrom.j5Ext c R)).add (ImpFrom.validate c R _), h2⟩
  · exact ⟨((h1.add (ImpFrom.j5Ext c R)).add (ImpFrom.validate c R _)).add (ImpFrom.listRules c R _), h2⟩

theorem scalarField_impFrom (c : Ctx) (R : Str → Str → Prop) (f : Field) (b : BF) (h : scalarField f = some b) :
    ImpFrom c R b.eff ∧ ImpFrom c R b.walk := by
  cases f <;> simp only [scalarField, Option.some.injEq, reduceCtorEq] at h
  case string rules lr =>
    subst h; exact ⟨((ImpFrom.j5Ext c R).add (ImpFrom.validate c R _)).add (ImpFrom.listRules c R _), ImpFrom.empty c R⟩
  case bool rules lr =>
    subst h; exact ⟨((ImpFrom.j5Ext c R).add (ImpFrom.validate c R _)).add (ImpFrom.listRules c R _), ImpFrom.empty c R⟩
  case bytes rules =>
    subst h; exact ⟨(ImpFrom.j5Ext c R).add (ImpFrom.validate c R _), ImpFrom.empty c R⟩
  case date rules lr =>
    subst h
    exact ⟨((ImpFrom.imp c R _ (by decide)).add (ImpFrom.when c R _ (ImpFrom.j5Ext c R))).add (ImpFrom.listRules c R _), ImpFrom.empty c R⟩
  case decimal rules lr =>
    subst h
    exact ⟨((ImpFrom.imp c R _ (by decide)).add (ImpFrom.when c R _ (ImpFrom.j5Ext c R))).add (ImpFrom.listRules c R _), ImpFrom.empty c R⟩
  case timestamp rules =>
    subst h; exact ⟨((ImpFrom.imp c R _ (by decide)).add (ImpFrom.j5Ext c R)).add (ImpFrom.validate c R _), ImpFrom.empty c R⟩
  case any =>
    subst h; exact ⟨(ImpFrom.imp c R _ (by decide)).add (ImpFrom.use c R _), ImpFrom.empty c R⟩
  case integer fmt rules lr =>
    split at h <;> (simp only [Option.some.injEq] at h; subst h)
    · exact ⟨ImpFrom.j5Ext c R, ImpFrom.empty c R⟩
    · exact ⟨((ImpFrom.j5Ext c R).add (ImpFrom.validate c R _)).add (ImpFrom.listRules c R _), ImpFrom.empty c R⟩
  case float fmt rules lr =>
    split at h <;> (simp only [Option.some.injEq] at h; subst h)
    · exact ⟨ImpFrom.empty c R, ImpFrom.empty c R⟩
    · exact ⟨(ImpFrom.j5Ext c R).add (ImpFrom.listRules c R _), ImpFrom.empty c R⟩
  case key fmt ek rules lr =>
    subst h
    exact ⟨(((ImpFrom.imp c R _ (by decide)).add (ImpFrom.j5Ext c R)).add (ImpFrom.listRules c R _)).add (ImpFrom.validate c R _),
      ImpFrom.empty c R⟩

theorem msgEff_impSrc (c : Ctx) (R : Str → Str → Prop) (psm : Option Psm) : ∀ i ∈ (msgEff psm).imports, ImpSrc c R i := by
  intro i hi
  have : i = j5ExtImport := by
    cases psm <;> simpa [msgEff, Compile.when, Eff.add, Eff.imp, Eff.use] using hi
  subst this
  exact Or.inl (by decide)

/-- the effect of an inline message: its own `msgEff` plus the effects of its properties -/
theorem inlineEff_impFrom (c : Ctx) (R : Str → Str → Prop) (msgs : List MsgSkel) (inner : Eff) (h : ImpFrom c R inner) :
    ImpFrom c R
      { msgs := msgs, imports := (msgEff none).imports ++ inner.imports, errs := inner.errs,
        panic := inner.panic, uses := (msgEff none).uses ++ inner.uses } := by
  intro u hu
  simp only [List.mem_append] at hu
  rcases hu with h1 | h1
  · exact msgEff_impSrc c R none u h1
  · exact h u h1

theorem finishProperty_impFrom (c : Ctx) (R : Str → Str → Prop) (name : Str) (req opt : Bool) (number : Nat) (io : Bool) (pre : Eff)
    (entries : List MsgSkel) (r : FieldRes) (rep : Bool) (h : ImpFrom c R pre) :
    ImpFrom c R (finishProperty name req opt number io pre entries r rep).eff := by
  unfold finishProperty
  simp only []
  have hreq : ImpFrom c R (if (req || r.primaryKey) = true then
      validateWithImport true ++ Eff.imp j5ExtImport else {}) := by
    split
    · exact (ImpFrom.validate c R _).add (ImpFrom.imp c R _ (by decide))
    · exact ImpFrom.empty c R
  split
  · exact (h.add hreq).add (ImpFrom.err c R)
  · exact h.add hreq

/-- `buildProperty` for a schema that is neither a map nor an array -/
theorem bProperty_impFrom_default (c : Ctx) (R : Str → Str → Prop) (np : List Str) (io : Bool) (n : Nat) (name : Str)
    (req opt : Bool) (f : Field) (h : ImpFrom c R (bField c np (toCamel name) f).eff)
    (hm : ∀ (i : Field) (r : Rules), f = .map i r → False)
    (ha : ∀ (i : Field) (r : Rules), f = .array i r → False) :
    ImpFrom c R (bProperty c np io n (.mk name req opt f)).eff := by
  rw [bProperty]
  · cases hr : (bField c np (toCamel name) f).res with
    | none => exact h.add (ImpFrom.err c R)
    | some r => exact finishProperty_impFrom c R _ _ _ _ _ _ _ _ _ h
  · exact hm
  · exact ha

mutual
theorem bField_impFrom (c : Ctx) (R : Str → Str → Prop) (np : List Str) (d : Str) :
    ∀ f : Field, (∀ r ∈ refsField f, R r.1 r.2) →
      ImpFrom c R (bField c np d f).eff ∧ ImpFrom c R (bField c np d f).walk
  | .objectRef pkg schema fl rules => by
    intro hR; rw [bField]; exact msgRefField_impFrom c R _ _ _ _ _ (hR (pkg, schema) (by simp [refsField]))
  | .oneofRef pkg schema rules lr => by
    intro hR; rw [bField]; exact msgRefField_impFrom c R _ _ _ _ _ (hR (pkg, schema) (by simp [refsField]))
  | .enumRef pkg schema rules lr => by
    intro hR
    rw [bField]
    have := refField_impFrom c R pkg schema true (hR (pkg, schema) (by simp [refsField]))
    cases h : refField c pkg schema true with
    | mk e o =>
      rw [h] at this
      cases o with
      | none => exact ⟨this, ImpFrom.empty c R⟩
      | some t =>
        simp only []
        cases t.kind with
        | enum pfx names => exact enumFieldWith_impFrom c R _ _ _ _ _ _ _ this (ImpFrom.empty c R)
        | message o => exact ⟨this, ImpFrom.empty c R⟩
  | .objectInl name props fl rules => by
    intro hR
    rw [bField]
    have ih := bProps_impFrom c R (np ++ [if name = [] then d else name]) false 1 props
      (by simpa [refsField] using hR)
    have he := inlineEff_impFrom c R
      [mkMsg (if name = [] then d else name) false none
        (bProps c (np ++ [if name = [] then d else name]) false 1 props).flds
        (bProps c (np ++ [if name = [] then d else name]) false 1 props).eff.msgs
        (bProps c (np ++ [if name = [] then d else name]) false 1 props).eff.enums] _ ih
    exact ⟨((he.add (ImpFrom.j5Ext c R)).add (ImpFrom.validate c R _)).add (ImpFrom.listRules c R _), he⟩
  | .oneofInl name props rules lr => by
    intro hR
    rw [bField]
    have ih := bProps_impFrom c R (np ++ [if name = [] then d else name]) true 1 props
      (by simpa [refsField] using hR)
    have he := inlineEff_impFrom c R
      ((bProps c (np ++ [if name = [] then d else name]) true 1 props).entries ++
        [mkMsg (if name = [] then d else name) true none
          (bProps c (np ++ [if name = [] then d else name]) true 1 props).flds
          (bProps c (np ++ [if name = [] then d else name]) true 1 props).eff.msgs
          (bProps c (np ++ [if name = [] then d else name]) true 1 props).eff.enums]) _ ih
    exact ⟨((he.add (ImpFrom.j5Ext c R)).add (ImpFrom.validate c R _)).add (ImpFrom.listRules c R _), he⟩
  | .enumInl e rules lr => by
    intro _
    rw [bField]
    simp only [enumTKind]
    exact enumFieldWith_impFrom c R _ _ _ _ _ _ _ (by intro u hu; simp at hu) (by intro u hu; simp at hu)
  | .array items rules => by
    intro hR
    rw [bField]
    have ih := bField_impFrom c R np d items (by simpa [refsField] using hR)
    exact ⟨ih.2, ih.2⟩
  | .map items rules => by
    intro hR
    rw [bField]
    have ih := bField_impFrom c R np d items (by simpa [refsField] using hR)
    exact ⟨ih.2, ih.2⟩
  | .string rules lr => by
    intro _
    rw [bField_scalar c np d (.string rules lr) _ rfl]; exact scalarField_impFrom c R (.string rules lr) _ rfl
  | .bool rules lr => by
    intro _
    rw [bField_scalar c np d (.bool rules lr) _ rfl]; exact scalarField_impFrom c R (.bool rules lr) _ rfl
  | .bytes rules => by
    intro _
    rw [bField_scalar c np d (.bytes rules) _ rfl]; exact scalarField_impFrom c R (.bytes rules) _ rfl
  | .date rules lr => by
    intro _
    rw [bField_scalar c np d (.date rules lr) _ rfl]; exact scalarField_impFrom c R (.date rules lr) _ rfl
  | .decimal rules lr => by
    intro _
    rw [bField_scalar c np d (.decimal rules lr) _ rfl]; exact scalarField_impFrom c R (.decimal rules lr) _ rfl
  | .timestamp rules => by
    intro _
    rw [bField_scalar c np d (.timestamp rules) _ rfl]; exact scalarField_impFrom c R (.timestamp rules) _ rfl
  | .any => by
    intro _
    rw [bField_scalar c np d .any _ rfl]; exact scalarField_impFrom c R .any _ rfl
  | .integer fmt rules lr => by
    intro _
    cases h : scalarField (.integer fmt rules lr) with
    | none => simp only [scalarField] at h; split at h <;> simp at h
    | some b => rw [bField_scalar c np d _ b h]; exact scalarField_impFrom c R _ b h
  | .float fmt rules lr => by
    intro _
    cases h : scalarField (.float fmt rules lr) with
    | none => simp only [scalarField] at h; split at h <;> simp at h
    | some b => rw [bField_scalar c np d _ b h]; exact scalarField_impFrom c R _ b h
  | .key fmt ek rules lr => by
    intro _
    rw [bField_scalar c np d (.key fmt ek rules lr) _ rfl]
    exact scalarField_impFrom c R (.key fmt ek rules lr) _ rfl

theorem bProperty_impFrom (c : Ctx) (R : Str → Str → Prop) (np : List Str) (io : Bool) (n : Nat) :
    ∀ p : Property, (∀ r ∈ refsProperty p, R r.1 r.2) → ImpFrom c R (bProperty c np io n p).eff
  | .mk name req opt schema => by
    intro hR
    simp only [refsProperty] at hR
    cases schema with
    | map items rules =>
      have ih := bField_impFrom c R np (toCamel name) items (by simpa [refsField] using hR)
      rw [bProperty]
      cases hr : (bField c np (toCamel name) items).res with
      | none => exact ih.1.add (ImpFrom.err c R)
      | some r =>
        exact finishProperty_impFrom c R _ _ _ _ _ _ _ _ _ ((ih.1.add (ImpFrom.j5Ext c R)).add (ImpFrom.validate c R _))
    | array items rules =>
      have ih := bField_impFrom c R np (toCamel name) items (by simpa [refsField] using hR)
      rw [bProperty]
      cases hr : (bField c np (toCamel name) items).res with
      | none => exact ih.1.add (ImpFrom.err c R)
      | some r =>
        exact finishProperty_impFrom c R _ _ _ _ _ _ _ _ _ ((ih.1.add (ImpFrom.j5Ext c R)).add (ImpFrom.validate c R _))
    | string rules lr => exact bProperty_impFrom_default c R np io n name req opt _ (bField_impFrom c R np _ _ hR).1 (by intro i r h; cases h) (by intro i r h; cases h)
    | bool rules lr => exact bProperty_impFrom_default c R np io n name req opt _ (bField_impFrom c R np _ _ hR).1 (by intro i r h; cases h) (by intro i r h; cases h)
    | bytes rules => exact bProperty_impFrom_default c R np io n name req opt _ (bField_impFrom c R np _ _ hR).1 (by intro i r h; cases h) (by intro i r h; cases h)
    | date rules lr => exact bProperty_impFrom_default c R np io n name req opt _ (bField_impFrom c R np _ _ hR).1 (by intro i r h; cases h) (by intro i r h; cases h)
    | decimal rules lr => exact bProperty_impFrom_default c R np io n name req opt _ (bField_impFrom c R np _ _ hR).1 (by intro i r h; cases h) (by intro i r h; cases h)
    | timestamp rules => exact bProperty_impFrom_default c R np io n name req opt _ (bField_impFrom c R np _ _ hR).1 (by intro i r h; cases h) (by intro i r h; cases h)
    | any => exact bProperty_impFrom_default c R np io n name req opt _ (bField_impFrom c R np _ _ hR).1 (by intro i r h; cases h) (by intro i r h; cases h)
    | integer fmt rules lr => exact bProperty_impFrom_default c R np io n name req opt _ (bField_impFrom c R np _ _ hR).1 (by intro i r h; cases h) (by intro i r h; cases h)
    | float fmt rules lr => exact bProperty_impFrom_default c R np io n name req opt _ (bField_impFrom c R np _ _ hR).1 (by intro i r h; cases h) (by intro i r h; cases h)
    | key fmt ek rules lr => exact bProperty_impFrom_default c R np io n name req opt _ (bField_impFrom c R np _ _ hR).1 (by intro i r h; cases h) (by intro i r h; cases h)
    | objectRef pkg sc fl rules => exact bProperty_impFrom_default c R np io n name req opt _ (bField_impFrom c R np _ _ hR).1 (by intro i r h; cases h) (by intro i r h; cases h)
    | objectInl nm props fl rules => exact bProperty_impFrom_default c R np io n name req opt _ (bField_impFrom c R np _ _ hR).1 (by intro i r h; cases h) (by intro i r h; cases h)
    | oneofRef pkg sc rules lr => exact bProperty_impFrom_default c R np io n name req opt _ (bField_impFrom c R np _ _ hR).1 (by intro i r h; cases h) (by intro i r h; cases h)
    | oneofInl nm props rules lr => exact bProperty_impFrom_default c R np io n name req opt _ (bField_impFrom c R np _ _ hR).1 (by intro i r h; cases h) (by intro i r h; cases h)
    | enumRef pkg sc rules lr => exact bProperty_impFrom_default c R np io n name req opt _ (bField_impFrom c R np _ _ hR).1 (by intro i r h; cases h) (by intro i r h; cases h)
    | enumInl e rules lr => exact bProperty_impFrom_default c R np io n name req opt _ (bField_impFrom c R np _ _ hR).1 (by intro i r h; cases h) (by intro i r h; cases h)

theorem bProps_impFrom (c : Ctx) (R : Str → Str → Prop) (np : List Str) (io : Bool) (n : Nat) :
    ∀ ps : List Property, (∀ r ∈ refsProps ps, R r.1 r.2) → ImpFrom c R (bProps c np io n ps).eff
  | [] => by intro _; rw [bProps_nil]; exact ImpFrom.empty c R
  | p :: ps => by
    intro hR
    simp only [refsProps, List.mem_append] at hR
    have a := bProperty_impFrom c R np io n p (fun r hr => hR r (Or.inl hr))
    have b := bProps_impFrom c R np io (n + 1) ps (fun r hr => hR r (Or.inr hr))
    rw [bProps_cons]
    cases io
    · simp only [Bool.false_eq_true, if_false]
      refine ImpFrom.add ?_ b
      intro u hu
      exact a u hu
    · simp only [if_true]
      exact a.add b
end

mutual
/-- **a declared object / oneof imports only constants and files of resolvable types**, at any depth -/
theorem convDecl_impFrom (c : Ctx) (R : Str → Str → Prop) (np : List Str) (io : Bool) (virt : List Property) :
    ∀ o : ObjDecl, (∀ r ∈ refsProps virt ++ refsDecl o, R r.1 r.2) → ImpFrom c R (convDecl c np io virt o)
  | .mk name props nested psm => by
    intro hR u hu
    simp only [refsDecl, List.mem_append] at hR
    rw [convDecl] at hu
    simp only [List.mem_append] at hu
    have hv := bProps_impFrom c R (np ++ [name]) io 1 virt (fun r hr => hR r (Or.inl hr))
    have hp := bProps_impFrom c R (np ++ [name]) io (1 + virt.length) props
      (fun r hr => hR r (Or.inr (Or.inl hr)))
    rcases hu with ((hu | hu) | hu) | hu
    · split at hu <;> exact msgEff_impSrc c R _ u hu
    · exact hv u hu
    · exact hp u hu
    · exact convNested_impFrom c R (np ++ [name]) nested (fun r hr => hR r (Or.inr (Or.inr hr))) u hu
theorem convNested_impFrom (c : Ctx) (R : Str → Str → Prop) (np : List Str) :
    ∀ ns : List Nested, (∀ r ∈ refsNested ns, R r.1 r.2) → ImpFrom c R (convNested c np ns)
  | [] => by intro _ u hu; simp [convNested] at hu
  | .object o :: rest => by
    intro hR
    simp only [refsNested, List.mem_append] at hR
    rw [convNested]
    exact (convDecl_impFrom c R np false [] o (by
      intro r hr; simp only [refsProps, List.nil_append] at hr; exact hR r (Or.inl hr))).add
      (convNested_impFrom c R np rest (fun r hr => hR r (Or.inr hr)))
  | .oneof o :: rest => by
    intro hR
    simp only [refsNested, List.mem_append] at hR
    rw [convNested]
    exact (convDecl_impFrom c R np true [] o (by
      intro r hr; simp only [refsProps, List.nil_append] at hr; exact hR r (Or.inl hr))).add
      (convNested_impFrom c R np rest (fun r hr => hR r (Or.inr hr)))
  | .enum e :: rest => by
    intro hR
    simp only [refsNested] at hR
    rw [convNested]
    exact ImpFrom.add (by intro u hu; simp at hu) (convNested_impFrom c R np rest hR)
end

end J5V.Compile
