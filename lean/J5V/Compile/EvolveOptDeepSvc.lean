import J5V.Compile.EvolveOptDeepPkg
import J5V.Compile.EvolveDeepSvc
/-!
# An option appended to an inline enum below a request / response / topic message (C13) — core only
-/
namespace J5V.Compile
open J5V.Go

/-- `convertFile_replace_items` where the relation may use that no old step recorded an error and
is only asked for the conversion context of the file -/
theorem convertFile_replace_items_c (res : Resolver) (path : Str) (imports : List Import)
    (elems elems' : List Elem) (fs fs' : List FileSkel)
    (h : convertFile res path imports elems = .ok fs)
    (h' : convertFile res path imports elems' = .ok fs')
    (RM : List MsgSkel → List MsgSkel → Prop) (RE : List EnumSkel → List EnumSkel → Prop)
    (hex : ∀ t, (∃ i ∈ elems.flatMap (itemsOfElem (packageFromFilename (path ++ b!".proto"))), i.target = t) →
      ∃ i ∈ elems'.flatMap (itemsOfElem (packageFromFilename (path ++ b!".proto"))), i.target = t)
    (hrel : ∀ (c : Ctx),
      (∀ s ∈ fileSteps c (packageFromFilename (path ++ b!".proto")) elems, s.eff.errs = 0) → ∀ (t : Target),
      RM (((elems.flatMap (itemsOfElem (packageFromFilename (path ++ b!".proto")))).filter
            (·.target = t)).flatMap (itemMsgs c))
         (((elems'.flatMap (itemsOfElem (packageFromFilename (path ++ b!".proto")))).filter
            (·.target = t)).flatMap (itemMsgs c)) ∧
      RE (((elems.flatMap (itemsOfElem (packageFromFilename (path ++ b!".proto")))).filter
            (·.target = t)).flatMap (itemEnums c))
         (((elems'.flatMap (itemsOfElem (packageFromFilename (path ++ b!".proto")))).filter
            (·.target = t)).flatMap (itemEnums c)) ∧
      ((elems.flatMap (itemsOfElem (packageFromFilename (path ++ b!".proto")))).filter
            (·.target = t)).flatMap (itemSvcs c) =
      ((elems'.flatMap (itemsOfElem (packageFromFilename (path ++ b!".proto")))).filter
            (·.target = t)).flatMap (itemSvcs c))
    (hRE : RE [] []) :
    ∀ f ∈ fs, ∃ f' ∈ fs', f'.name = f.name ∧ f'.pkg = f.pkg ∧ f.svcs = f'.svcs ∧
      RM f.msgs f'.msgs ∧ RE f.enums f'.enums := by
  obtain ⟨im, hj, hrest⟩ := convertFile_exact res path imports elems fs h
  obtain ⟨im', hj', hrest'⟩ := convertFile_exact res path imports elems' fs' h'
  have him : im' = im := by rw [hj] at hj'; exact (Outcome.ok.inj hj').symm
  subst him
  obtain ⟨im2, hj2, hinv⟩ := convertFile_ok_inv res path imports elems fs h
  have him2 : im2 = im' := by rw [hj] at hj2; exact (Outcome.ok.inj hj2).symm
  subst him2
  simp only [] at hrest hrest' hinv
  obtain ⟨_, herrs, _⟩ := hinv
  have hsum := (rootInv_run (path ++ b!".proto") (packageFromFilename (path ++ b!".proto"))
    (fileSteps { resolve := resolveTypeNoImport im2 res }
      (packageFromFilename (path ++ b!".proto")) elems)).errs
  rw [hsum] at herrs
  have hsteps : ∀ s ∈ fileSteps { resolve := resolveTypeNoImport im2 res }
      (packageFromFilename (path ++ b!".proto")) elems, s.eff.errs = 0 :=
    fun s hs => sum_eq_zero_mem herrs _ (List.mem_map_of_mem hs)
  obtain ⟨main, subs, hfs, hname, hpkg, hsvcs, hmsgs, henums, _, hsubs, _⟩ := hrest
  obtain ⟨main', subs', hfs', hname', hpkg', hsvcs', hmsgs', henums', _, hsubs', hall'⟩ := hrest'
  intro f hf
  rw [hfs] at hf
  rcases List.mem_cons.mp hf with rfl | hf
  · refine ⟨main', by rw [hfs']; simp, by rw [hname', hname], by rw [hpkg', hpkg], by rw [hsvcs, hsvcs'], ?_, ?_⟩
    · rw [hmsgs, hmsgs']; exact (hrel _ hsteps .main).1
    · rw [henums, henums']; exact (hrel _ hsteps .main).2.1
  · obtain ⟨t, k, htk, hext, hfn, hfp, hfm, hfe, hfsv⟩ := hsubs f hf
    obtain ⟨f', hf', hf'p⟩ := hall' t k htk (hex t hext)
    obtain ⟨t', k', htk', _, hfn', hfp', hfm', hfe', hfsv'⟩ := hsubs' f' hf'
    have hk : k' = k := by
      rw [hfp'] at hf'p
      exact List.append_cancel_left hf'p
    subst hk
    have ht : t' = t := target_sub_inj t' t k' htk' htk
    subst ht
    refine ⟨f', by rw [hfs']; exact List.mem_cons_of_mem _ hf', by rw [hfn', hfn], by rw [hfp', hfp], ?_, ?_, ?_⟩
    · rw [hfsv, hfsv']; exact (hrel _ hsteps t').2.2
    · rw [hfm, hfm']; exact (hrel _ hsteps t').1
    · rw [hfe, hfe']; exact hRE

/-- one element that expands to one item is replaced; the relation between the two items may use that
the old item's steps recorded no error -/
theorem convertFile_single_item_c (res : Resolver) (path : Str) (imports : List Import)
    (E1 E2 : List Elem) (x x' : Elem) (it it' : Item)
    (hx : itemsOfElem (packageFromFilename (path ++ b!".proto")) x = [it])
    (hx' : itemsOfElem (packageFromFilename (path ++ b!".proto")) x' = [it'])
    (htg : it'.target = it.target)
    (hm : ∀ c, (∀ s ∈ convItem c it, s.eff.errs = 0) → MsgsLeDeep (itemMsgs c it) (itemMsgs c it'))
    (he : ∀ c, itemEnums c it = itemEnums c it')
    (hs : ∀ c, itemSvcs c it = itemSvcs c it')
    (fs fs' : List FileSkel)
    (h : convertFile res path imports (E1 ++ [x] ++ E2) = .ok fs)
    (h' : convertFile res path imports (E1 ++ [x'] ++ E2) = .ok fs') :
    ∀ f ∈ fs, ∃ f' ∈ fs', f.LeDeep f' := by
  apply convertFile_replace_items_c res path imports _ _ fs fs' h h' MsgsLeDeep EnumsLe
  · intro t ⟨i, hi, hit⟩
    simp only [List.flatMap_append, List.flatMap_cons, List.flatMap_nil, List.append_nil, hx, hx',
      List.mem_append, List.mem_singleton] at hi ⊢
    rcases hi with (hi | hi) | hi
    · exact ⟨i, Or.inl (Or.inl hi), hit⟩
    · subst hi; exact ⟨it', Or.inl (Or.inr rfl), by rw [htg]; exact hit⟩
    · exact ⟨i, Or.inr hi, hit⟩
  · intro c hsteps t
    have hit : ∀ s ∈ convItem c it, s.eff.errs = 0 := by
      intro s hs'
      apply hsteps s
      simp only [fileSteps, List.flatMap_append, List.flatMap_cons, List.flatMap_nil, List.append_nil, hx,
        List.mem_append]
      exact Or.inl (Or.inr hs')
    simp only [List.flatMap_append, List.flatMap_cons, List.flatMap_nil, List.append_nil, hx, hx']
    exact items_rel_single_deep c t _ _ it it' htg (hm c hit) (he c) (hs c)
  · exact EnumsLe.refl _

/-- the summary when one item's export list changes in one enum entry -/
theorem summary_single_item_up (path : Str) (imports : List Import) (E1 E2 : List Elem) (x x' : Elem)
    (it it' : Item)
    (hx : itemsOfElem (packageFromFilename (path ++ b!".proto")) x = [it])
    (hx' : itemsOfElem (packageFromFilename (path ++ b!".proto")) x' = [it'])
    (hexp : ExpUpd (itemExports it) (itemExports it')) (hr : itemRefs it' = itemRefs it)
    (s s' : Summary') (hs : sourceSummary path imports (E1 ++ [x] ++ E2) = .ok s)
    (hs' : sourceSummary path imports (E1 ++ [x'] ++ E2) = .ok s') :
    (∀ (X Y : List (Str × TypeRef)) k,
      UpOrEq (mapGet (X ++ s.exports ++ Y) k) (mapGet (X ++ s'.exports ++ Y) k)) ∧
    (∀ d ∈ s.depPkgs, d ∈ s'.depPkgs) := by
  obtain ⟨im, ex, hj, hex, hexp0, hdep⟩ := sourceSummary_ok_inv path imports _ s hs
  obtain ⟨im', ex', hj', hex', hexp', hdep'⟩ := sourceSummary_ok_inv path imports _ s' hs'
  have him : im' = im := by rw [hj] at hj'; exact (Outcome.ok.inj hj').symm
  subst him
  obtain ⟨A, C, k0, pfx, names, names', hA, hB, hsub⟩ := hexp
  constructor
  · intro X Y k
    rw [hexp0, hexp']
    simp only [List.flatMap_append, List.flatMap_cons, List.flatMap_nil, List.append_nil, hx, hx',
      hA, hB, List.map_append, List.map_cons, List.map_nil]
    have := mapGet_update
      (X ++ (((E1.flatMap (itemsOfElem (packageFromFilename (path ++ b!".proto")))).flatMap itemExports).map
        (fun x => (x.1, (⟨packageFromFilename (path ++ b!".proto"), x.1, path ++ b!".proto", x.2⟩ : TypeRef))) ++
        A.map (fun x => (x.1, (⟨packageFromFilename (path ++ b!".proto"), x.1, path ++ b!".proto", x.2⟩ : TypeRef)))))
      (C.map (fun x => (x.1, (⟨packageFromFilename (path ++ b!".proto"), x.1, path ++ b!".proto", x.2⟩ : TypeRef))) ++
        (((E2.flatMap (itemsOfElem (packageFromFilename (path ++ b!".proto")))).flatMap itemExports).map
        (fun x => (x.1, (⟨packageFromFilename (path ++ b!".proto"), x.1, path ++ b!".proto", x.2⟩ : TypeRef))) ++ Y))
      k0 ⟨packageFromFilename (path ++ b!".proto"), k0, path ++ b!".proto", .enum pfx names⟩
      pfx names names' rfl hsub k
    simpa [List.append_assoc] using this
  · intro d hd
    rw [hdep] at hd
    rw [hdep']
    obtain ⟨y, hy, hyx⟩ := List.mem_map.mp hd
    obtain ⟨r, hr', hfr⟩ := (mapM_some_mem _ _ _ hex y).mp hy
    refine List.mem_map.mpr ⟨y, (mapM_some_mem _ _ _ hex' y).mpr ⟨r, ?_, hfr⟩, hyx⟩
    simpa [List.flatMap_append, hx, hx', hr] using hr'

/-! ## below a request / response -/

theorem declMsgE (c : Ctx) (np : List Str) (io : Bool) (virt : List Property) (n : Str)
    (ps ps' : List Property) (ne : List Nested) (psm : Option Psm)
    (h : PRsLeE (bProps c (np ++ [n]) io 1 (virt ++ ps)) (bProps c (np ++ [n]) io 1 (virt ++ ps'))) :
    (declMsg c np io virt n ps ne psm).LeDeep (declMsg c np io virt n ps' ne psm) := by
  simp only [declMsg]
  exact mkMsgE n io psm _ _ _ _ _ _ h (MsgsLeDeep.refl _) (EnumsLe.refl _)

theorem convVirtual_errs_props (c : Ctx) (name : Str) (virt props : List Property)
    (h : (convVirtual c name virt props none).errs = 0) :
    (bProps c [name] false (1 + virt.length) props).eff.errs = 0 := by
  unfold convVirtual at h
  rw [convDecl_errs] at h
  have := (bProps_errs_split c ([] ++ [name]) false 1 virt props (by omega)).2
  simpa using this

theorem walkMethod_errs_parts (c : Ctx) (bp : Option Str) (m : Method)
    (h : (walkMethod c bp m).eff.errs = 0) :
    (∀ req, m.request = some req → (convVirtual c (m.name ++ b!"Request") [] req none).errs = 0) ∧
    (∀ req res, m.request = some req → m.response = some res →
      (convVirtual c (m.name ++ b!"Response") [] res none).errs = 0) := by
  unfold walkMethod at h
  constructor
  · intro req hr
    simp only [hr] at h
    cases hs : m.response with
    | none => simp only [hs, Eff.add_def, Eff.add_errs] at h; omega
    | some res => simp only [hs, Eff.add_def, Eff.add_errs] at h; omega
  · intro req res hr hs
    simp only [hr, hs, Eff.add_def, Eff.add_errs] at h
    omega

theorem methodMsgs_replE (c : Ctx) (bp : Option Str) (rq : Bool) (mt mt' : Method) (r r' : List Property)
    (h : MethodRepl rq mt mt' r r') (he : (walkMethod c bp mt).eff.errs = 0)
    (hle : ∀ np io n, (bProps c np io n r).eff.errs = 0 → PRsLeE (bProps c np io n r) (bProps c np io n r')) :
    MsgsLeDeep (methodMsgs c mt) (methodMsgs c mt') := by
  obtain ⟨he1, he2⟩ := walkMethod_errs_parts c bp mt he
  have hd : ∀ n, (convVirtual c n [] r none).errs = 0 →
      (declMsg c [] false [] n r [] none).LeDeep (declMsg c [] false [] n r' [] none) := by
    intro n hn
    apply declMsgE
    have := hle [n] false 1 (by simpa using convVirtual_errs_props c n [] r hn)
    simpa using this
  cases rq with
  | true =>
    obtain ⟨h1, rfl⟩ := h
    intro m hm
    simp only [methodMsgs, h1, List.mem_append, List.mem_singleton] at hm ⊢
    rcases hm with hm | hm
    · subst hm
      exact ⟨_, Or.inl rfl, hd _ (he1 r h1)⟩
    · refine ⟨m, Or.inr ?_, MsgSkel.LeDeep.refl m⟩
      cases hrs : mt.response with
      | none => simp [hrs] at hm
      | some q => simpa [hrs] using hm
  | false =>
    obtain ⟨h1, rfl⟩ := h
    intro m hm
    cases hq : mt.request with
    | none => simp [methodMsgs, hq] at hm
    | some q =>
      simp only [methodMsgs, hq, h1, List.mem_append, List.mem_singleton] at hm ⊢
      rcases hm with hm | hm
      · exact ⟨m, Or.inl hm, MsgSkel.LeDeep.refl m⟩
      · subst hm
        exact ⟨_, Or.inr rfl, hd _ (he2 q r hq h1)⟩

theorem serviceItem_msgs_deepE (c : Ctx) (sv : Service) (M1 M2 : List Method) (mt mt' : Method) (rq : Bool)
    (r r' : List Property) (hm : sv.methods = M1 ++ [mt] ++ M2)
    (hx : MethodRepl rq mt mt' r r')
    (he : ∀ s ∈ convItem c (.serviceFile [sv]), s.eff.errs = 0)
    (hle : ∀ np io n, (bProps c np io n r).eff.errs = 0 → PRsLeE (bProps c np io n r) (bProps c np io n r')) :
    MsgsLeDeep (itemMsgs c (.serviceFile [sv]))
      (itemMsgs c (.serviceFile [{ sv with methods := M1 ++ [mt'] ++ M2 }])) := by
  have hsv : (convService c sv).eff.errs = 0 := by
    apply he
    simp [convItem, convServiceFile]
  have hw := convService_errs_walk c sv hsv mt (by rw [hm]; simp)
  rw [itemMsgs_serviceFile, itemMsgs_serviceFile]
  simp only [List.flatMap_cons, List.flatMap_nil, List.append_nil, hm, List.flatMap_append]
  exact MsgsLeDeep_append3 _ _ _ _ (methodMsgs_replE c sv.basePath rq mt mt' r r' hx hw hle)

theorem serviceItem_exports_up (sv : Service) (M1 M2 : List Method) (mt mt' : Method) (rq : Bool)
    (r r' : List Property) (hm : sv.methods = M1 ++ [mt] ++ M2)
    (hx : MethodRepl rq mt mt' r r')
    (hexp : ExpUpd (exportsProps [methodObjName rq mt] r) (exportsProps [methodObjName rq mt] r'))
    (hrefs : refsProps r' = refsProps r) :
    ExpUpd (itemExports (.serviceFile [sv]))
      (itemExports (.serviceFile [{ sv with methods := M1 ++ [mt'] ++ M2 }])) ∧
    itemRefs (.serviceFile [{ sv with methods := M1 ++ [mt'] ++ M2 }]) = itemRefs (.serviceFile [sv]) := by
  obtain ⟨X, Y, hX, hX'⟩ := methodObjs_repl rq mt mt' r r' hx
  have hobj : [sv].flatMap serviceObjects =
      (M1.flatMap methodObjs ++ X) ++ [(methodObjName rq mt, r)] ++ (Y ++ M2.flatMap methodObjs) := by
    simp [serviceObjects_eq, hm, hX, List.flatMap_append]
  have hobj' : [({ sv with methods := M1 ++ [mt'] ++ M2 } : Service)].flatMap serviceObjects =
      (M1.flatMap methodObjs ++ X) ++ [(methodObjName rq mt, r')] ++ (Y ++ M2.flatMap methodObjs) := by
    simp [serviceObjects_eq, hX', List.flatMap_append]
  constructor
  · simp only [itemExports]
    rw [hobj, hobj']
    have := hexp.wrap (virtualExports (M1.flatMap methodObjs ++ X) ++ [(methodObjName rq mt, TKind.message false)])
      (virtualExports (Y ++ M2.flatMap methodObjs))
    simpa [virtualExports, List.flatMap_append] using this
  · simp only [itemRefs]
    rw [hobj, hobj']
    simp [List.flatMap_append, hrefs]

/-! ## below a topic message -/

theorem topicMsgs_replE (c : Ctx) (tn tn' : TopicNode) (T1 T2 : List TopicMsg) (tm : TopicMsg)
    (ps' : List Property) (h : NodeRepl tn tn' T1 T2 tm ps')
    (he : ∀ s ∈ acceptTopic c tn, s.eff.errs = 0)
    (hle : ∀ np io n, (bProps c np io n tm.props).eff.errs = 0 →
      PRsLeE (bProps c np io n tm.props) (bProps c np io n ps')) :
    MsgsLeDeep (topicMsgs c tn) (topicMsgs c tn') := by
  have hn := topicMethodName_repl tn tn' T1 T2 tm ps' h
  obtain ⟨h1, rfl⟩ := h
  simp only [topicMsgs, h1, List.filterMap_append, List.filterMap_cons, List.filterMap_nil, hn,
    topicMethodName_msg_repl]
  apply MsgsLeDeep_append3
  cases hnm : topicMethodName tn tm with
  | none => exact MsgsLeDeep.refl _
  | some n =>
    intro x hx
    simp only [Option.map_some, List.mem_singleton] at hx
    subst hx
    refine ⟨declMsg c [] false tn.prepend (n ++ b!"Message") ps' [] none, by simp, ?_⟩
    apply declMsgE
    have hstep : (convVirtual c (n ++ b!"Message") tn.prepend tm.props none).errs = 0 := by
      have := he { target := .topic, eff := convVirtual c (n ++ b!"Message") tn.prepend tm.props }
        (by
          unfold acceptTopic
          apply List.mem_append_left
          exact List.mem_map.mpr ⟨tm, by rw [h1]; simp, by simp [hnm]⟩)
      exact this
    have hp := convVirtual_errs_props c _ tn.prepend tm.props hstep
    exact PRsLeE_append_left c _ false 1 tn.prepend tm.props ps' (hle _ false _ (by simpa using hp))

theorem topicItem_msgs_deepE (c : Ctx) (t t' : Topic) (N1 N2 : List TopicNode) (tn tn' : TopicNode)
    (T1 T2 : List TopicMsg) (tm : TopicMsg) (ps' : List Property)
    (h1 : topicNodes t = N1 ++ [tn] ++ N2) (h2 : topicNodes t' = N1 ++ [tn'] ++ N2)
    (hx : NodeRepl tn tn' T1 T2 tm ps')
    (he : ∀ s ∈ convItem c (.topicFile [t]), s.eff.errs = 0)
    (hle : ∀ np io n, (bProps c np io n tm.props).eff.errs = 0 →
      PRsLeE (bProps c np io n tm.props) (bProps c np io n ps')) :
    MsgsLeDeep (itemMsgs c (.topicFile [t])) (itemMsgs c (.topicFile [t'])) := by
  have hacc : ∀ s ∈ acceptTopic c tn, s.eff.errs = 0 := by
    intro s hs
    apply he
    simp only [convItem, convTopicFile, convTopic, List.mem_cons, List.flatMap_cons, List.flatMap_nil,
      List.append_nil, List.mem_flatMap]
    exact Or.inr ⟨tn, by rw [h1]; simp, hs⟩
  rw [itemMsgs_topicFile, itemMsgs_topicFile]
  simp only [List.flatMap_cons, List.flatMap_nil, List.append_nil, h1, h2, List.flatMap_append]
  exact MsgsLeDeep_append3 _ _ _ _ (topicMsgs_replE c tn tn' T1 T2 tm ps' hx hacc hle)

theorem topicItem_exports_up (t t' : Topic) (N1 N2 : List TopicNode) (tn tn' : TopicNode)
    (T1 T2 : List TopicMsg) (tm : TopicMsg) (ps' : List Property)
    (h1 : topicNodes t = N1 ++ [tn] ++ N2) (h2 : topicNodes t' = N1 ++ [tn'] ++ N2)
    (hx : NodeRepl tn tn' T1 T2 tm ps')
    (hexp : ExpUpd (exportsProps [topicObjName tn tm] tm.props) (exportsProps [topicObjName tn tm] ps'))
    (hrefs : refsProps ps' = refsProps tm.props) :
    (itemExports (.topicFile [t']) = itemExports (.topicFile [t]) ∨
      ExpUpd (itemExports (.topicFile [t])) (itemExports (.topicFile [t']))) ∧
    itemRefs (.topicFile [t']) = itemRefs (.topicFile [t]) := by
  have hobj : [t].flatMap topicObjects = N1.flatMap nodeObjs ++ nodeObjs tn ++ N2.flatMap nodeObjs := by
    simp [topicObjects_eq, h1, List.flatMap_append]
  have hobj' : [t'].flatMap topicObjects = N1.flatMap nodeObjs ++ nodeObjs tn' ++ N2.flatMap nodeObjs := by
    simp [topicObjects_eq, h2, List.flatMap_append]
  rcases nodeObjs_repl tn tn' T1 T2 tm ps' hx with heq | ⟨X, Y, hX, hX'⟩
  · constructor
    · left; simp only [itemExports, hobj, hobj', heq]
    · simp only [itemRefs, hobj, hobj', heq]
  · constructor
    · right
      simp only [itemExports]
      rw [hobj, hobj', hX, hX']
      have := hexp.wrap (virtualExports (N1.flatMap nodeObjs ++ X) ++
          ((topicObjName tn tm, TKind.message false) :: exportsProps [topicObjName tn tm] tn.prepend))
        (virtualExports (Y ++ N2.flatMap nodeObjs))
      simpa [virtualExports, List.flatMap_append, exportsProps_append] using this
    · simp only [itemRefs]
      rw [hobj, hobj', hX, hX']
      simp [List.flatMap_append, refsProps_append, hrefs]

/-- the summary when one item keeps its export list and references -/
theorem summary_single_item_same (path : Str) (imports : List Import) (E1 E2 : List Elem) (x x' : Elem)
    (it it' : Item)
    (hx : itemsOfElem (packageFromFilename (path ++ b!".proto")) x = [it])
    (hx' : itemsOfElem (packageFromFilename (path ++ b!".proto")) x' = [it'])
    (hexp : itemExports it' = itemExports it) (hr : itemRefs it' = itemRefs it)
    (s s' : Summary') (hs : sourceSummary path imports (E1 ++ [x] ++ E2) = .ok s)
    (hs' : sourceSummary path imports (E1 ++ [x'] ++ E2) = .ok s') :
    (∀ (X Y : List (Str × TypeRef)) k,
      UpOrEq (mapGet (X ++ s.exports ++ Y) k) (mapGet (X ++ s'.exports ++ Y) k)) ∧
    (∀ d ∈ s.depPkgs, d ∈ s'.depPkgs) := by
  obtain ⟨im, ex, hj, hex, hexp0, hdep⟩ := sourceSummary_ok_inv path imports _ s hs
  obtain ⟨im', ex', hj', hex', hexp', hdep'⟩ := sourceSummary_ok_inv path imports _ s' hs'
  have him : im' = im := by rw [hj] at hj'; exact (Outcome.ok.inj hj').symm
  subst him
  constructor
  · intro X Y k
    left
    rw [hexp0, hexp']
    simp only [List.flatMap_append, List.flatMap_cons, List.flatMap_nil, List.append_nil, hx, hx', hexp]
  · intro d hd
    rw [hdep] at hd
    rw [hdep']
    obtain ⟨y, hy, hyx⟩ := List.mem_map.mp hd
    obtain ⟨r, hr', hfr⟩ := (mapM_some_mem _ _ _ hex y).mp hy
    refine List.mem_map.mpr ⟨y, (mapM_some_mem _ _ _ hex' y).mpr ⟨r, ?_, hfr⟩, hyx⟩
    simpa [List.flatMap_append, hx, hx', hr] using hr'

end J5V.Compile
