import J5V.Json.Tree
/-!
# The tokenizer model: every `Token()` call consumes input, fuel is never exhausted
-/
namespace J5V.Json

theorem skipWs_length (inp : Bytes) : (skipWs inp).length ≤ inp.length := by
  induction inp with
  | nil => simp [skipWs]
  | cons c t ih =>
    unfold skipWs
    split
    · simp only [List.length_cons]; omega
    · simp

theorem spanDigits_eq (s : Bytes) : s = (spanDigits s).1 ++ (spanDigits s).2 := by
  induction s with
  | nil => simp [spanDigits]
  | cons c t ih =>
    unfold spanDigits
    split
    · simp only [List.cons_append]; congr 1
    · simp

theorem stripPrefix_eq : ∀ (p s r : Bytes), stripPrefix p s = some r → s = p ++ r
  | [], s, r, h => by simp [stripPrefix] at h; simp [h]
  | _ :: _, [], r, h => by simp [stripPrefix] at h
  | a :: ps, c :: cs, r, h => by
    simp only [stripPrefix] at h
    split at h
    · next hac => subst hac; rw [stripPrefix_eq ps cs r h]; rfl
    · cases h

theorem hex4_eq (s : Bytes) (n : Nat) (r : Bytes) (h : hex4 s = some (n, r)) :
    s = s.take 4 ++ r ∧ (s.take 4).length = 4 := by
  unfold hex4 at h
  split at h
  · next a b c d rest =>
    split at h
    · simp only [Option.some.injEq, Prod.mk.injEq] at h
      obtain ⟨_, rfl⟩ := h
      simp
    · cases h
  · cases h

theorem getu4_eq (s : Bytes) (n : Nat) (r : Bytes) (h : getu4 s = some (n, r)) :
    s = s.take 6 ++ r ∧ (s.take 6).length = 6 := by
  unfold getu4 at h
  split at h
  · next rest =>
    obtain ⟨h1, h2⟩ := hex4_eq rest n r h
    constructor
    · simp only [List.take_succ_cons, List.cons_append]
      congr 2
    · simp only [List.take_succ_cons, List.length_cons]
      omega
  · cases h

theorem readUnicode_eq (rest2 d raw r : Bytes) (h : readUnicode rest2 = some (d, raw, r)) :
    rest2 = raw ++ r := by
  unfold readUnicode at h
  cases hh4 : hex4 rest2 with
  | none => simp [hh4] at h
  | some x =>
    obtain ⟨rr, rest3⟩ := x
    obtain ⟨e4, _⟩ := hex4_eq rest2 rr rest3 hh4
    simp only [hh4] at h
    split at h
    · next dec rest4 hpair =>
      have hg : ∃ rr1, getu4 rest3 = some (rr1, rest4) := by
        split at hpair
        · cases hg' : getu4 rest3 with
          | none => simp [hg'] at hpair
          | some y =>
            obtain ⟨rr1, r4⟩ := y
            simp only [hg'] at hpair
            split at hpair
            · simp only [Option.some.injEq, Prod.mk.injEq] at hpair
              exact ⟨rr1, by rw [hpair.2]⟩
            · cases hpair
        · cases hpair
      obtain ⟨rr1, hg'⟩ := hg
      obtain ⟨e6, _⟩ := getu4_eq rest3 rr1 rest4 hg'
      simp only [Option.some.injEq, Prod.mk.injEq] at h
      obtain ⟨_, rfl, rfl⟩ := h
      rw [List.append_assoc, ← e6, ← e4]
    · simp only [Option.some.injEq, Prod.mk.injEq] at h
      obtain ⟨_, rfl, rfl⟩ := h
      exact e4

theorem stringStep_done (s rest : Bytes) (h : stringStep s = .done rest) : s = 0x22 :: rest := by
  unfold stringStep at h
  cases s with
  | nil => cases h
  | cons c t =>
    simp only [] at h
    split at h
    · next hc => cases h; rw [hc]
    · split at h
      · cases t with
        | nil => cases h
        | cons e t2 =>
          simp only [] at h
          split at h
          · cases h
          · split at h
            · split at h <;> cases h
            · cases h
      · split at h
        · cases h
        · split at h
          · cases h
          · split at h <;> cases h

theorem stringStep_chunk (s d raw rest : Bytes) (h : stringStep s = .chunk d raw rest) :
    s = raw ++ rest ∧ raw ≠ [] := by
  unfold stringStep at h
  cases s with
  | nil => cases h
  | cons c t =>
    simp only [] at h
    split at h
    · cases h
    · split at h
      · cases t with
        | nil => cases h
        | cons e t2 =>
          simp only [] at h
          split at h
          · cases h; exact ⟨rfl, by simp⟩
          · split at h
            · split at h
              · next d' raw' r' hu =>
                cases h
                have := readUnicode_eq t2 _ _ _ hu
                exact ⟨by rw [this]; rfl, by simp⟩
              · cases h
            · cases h
      · split at h
        · cases h
        · split at h
          · cases h; exact ⟨rfl, by simp⟩
          · split at h
            · cases h; exact ⟨rfl, by simp⟩
            · next hne =>
              cases h
              refine ⟨(List.take_append_drop _ _).symm, ?_⟩
              intro hnil
              -- `decodeRune` of a non-empty input never has size 0
              have : (decodeRune (c :: t)).2 ≠ 0 := by
                unfold decodeRune
                simp only []
                repeat' split
                all_goals simp
              cases hn : (decodeRune (c :: t)).2 with
              | zero => exact this hn
              | succ n => rw [hn] at hnil; simp at hnil

/-- the raw literal `readString` returns is exactly the input it consumed -/
theorem readString_eq : ∀ (F : Nat) (s d raw r : Bytes), readString F s = some (d, raw, r) →
    s = raw ++ r ∧ raw ≠ [] := by
  intro F
  induction F with
  | zero => intro s d raw r h; simp [readString] at h
  | succ F ih =>
    intro s d raw r h
    simp only [readString] at h
    cases hs : stringStep s with
    | fail => simp [hs] at h
    | done rest =>
      simp only [hs, Option.some.injEq, Prod.mk.injEq] at h
      obtain ⟨_, rfl, rfl⟩ := h
      exact ⟨stringStep_done s rest hs, by simp⟩
    | chunk d0 raw0 rest =>
      simp only [hs] at h
      cases hr : readString F rest with
      | none => simp [hr] at h
      | some x =>
        obtain ⟨d', raw', r'⟩ := x
        simp only [hr, Option.some.injEq, Prod.mk.injEq] at h
        obtain ⟨_, rfl, rfl⟩ := h
        obtain ⟨h1, h2⟩ := stringStep_chunk s d0 raw0 rest hs
        obtain ⟨h3, _⟩ := ih rest d' raw' r' hr
        exact ⟨by rw [h1, h3, List.append_assoc], by simp [h2]⟩

/-! ## numbers and literals -/

theorem scanSign_eq (s : Bytes) : s = (scanSign s).1 ++ (scanSign s).2 := by
  unfold scanSign; split <;> simp

theorem scanInt_eq (s a r : Bytes) (h : scanInt s = some (a, r)) : s = a ++ r ∧ a ≠ [] := by
  unfold scanInt at h
  cases s with
  | nil => cases h
  | cons c t =>
    simp only [] at h
    split at h
    · cases h; exact ⟨rfl, by simp⟩
    · split at h
      · cases h
        exact ⟨by rw [List.cons_append, ← spanDigits_eq], by simp⟩
      · cases h

theorem scanFrac_eq (s a r : Bytes) (h : scanFrac s = some (a, r)) : s = a ++ r := by
  unfold scanFrac at h
  split at h
  · next r2 =>
    simp only [] at h
    split at h
    · cases h
    · cases h; rw [List.cons_append, ← spanDigits_eq]
  · cases h; rfl

theorem scanExpSign_eq (s : Bytes) : s = (scanExpSign s).1 ++ (scanExpSign s).2 := by
  unfold scanExpSign; split <;> simp

theorem scanExp_eq (s a r : Bytes) (h : scanExp s = some (a, r)) : s = a ++ r := by
  unfold scanExp at h
  split at h
  · cases h; rfl
  · next e r3 =>
    split at h
    · simp only [] at h
      split at h
      · cases h
      · cases h
        rw [List.cons_append, List.append_assoc, ← spanDigits_eq, ← scanExpSign_eq]
    · cases h; rfl

theorem scanNumber_eq (s t r : Bytes) (h : scanNumber s = some (t, r)) : s = t ++ r ∧ t ≠ [] := by
  unfold scanNumber at h
  simp only [] at h
  cases hi : scanInt (scanSign s).2 with
  | none => simp [hi] at h
  | some x =>
    obtain ⟨ip, a1⟩ := x
    simp only [hi] at h
    cases hf : scanFrac a1 with
    | none => simp [hf] at h
    | some y =>
      obtain ⟨fp, a2⟩ := y
      simp only [hf] at h
      cases he : scanExp a2 with
      | none => simp [he] at h
      | some z =>
        obtain ⟨ep, a3⟩ := z
        simp only [he, Option.some.injEq, Prod.mk.injEq] at h
        obtain ⟨rfl, rfl⟩ := h
        obtain ⟨e1, hne⟩ := scanInt_eq _ _ _ hi
        have e2 := scanFrac_eq _ _ _ hf
        have e3 := scanExp_eq _ _ _ he
        refine ⟨?_, ?_⟩
        · conv => lhs; rw [scanSign_eq s, e1, e2, e3]
          simp [List.append_assoc]
        · intro hnil
          simp only [List.append_eq_nil_iff] at hnil
          exact hne hnil.1.1.2

/-- a scalar token consumes at least one byte -/
theorem scanScalar_length (s : Bytes) (t : Tok) (r : Bytes) (h : scanScalar s = some (t, r)) :
    r.length < s.length := by
  unfold scanScalar at h
  cases s with
  | nil => cases h
  | cons c rest =>
    simp only [] at h
    split at h
    · cases hr : readString (rest.length + 1) rest with
      | none => simp [hr] at h
      | some x =>
        obtain ⟨d, raw, r'⟩ := x
        simp only [hr, Option.some.injEq, Prod.mk.injEq] at h
        obtain ⟨_, rfl⟩ := h
        obtain ⟨e, _⟩ := readString_eq _ _ _ _ _ hr
        rw [e]; simp only [List.length_cons, List.length_append]; omega
    · have lit : ∀ (p : Bytes) (tk : Tok),
          (stripPrefix p rest).map (fun r => (tk, r)) = some (t, r) → r.length < (c :: rest).length := by
        intro p tk hh
        cases hp : stripPrefix p rest with
        | none => simp [hp] at hh
        | some r' =>
          simp only [hp, Option.map_some, Option.some.injEq, Prod.mk.injEq] at hh
          obtain ⟨_, rfl⟩ := hh
          rw [stripPrefix_eq p rest r' hp]
          simp only [List.length_cons, List.length_append]; omega
      split at h
      · exact lit _ _ h
      · split at h
        · exact lit _ _ h
        · split at h
          · exact lit _ _ h
          · split at h
            · cases hn : scanNumber (c :: rest) with
              | none => simp [hn] at h
              | some x =>
                obtain ⟨tx, r'⟩ := x
                simp only [hn, Option.map_some, Option.some.injEq, Prod.mk.injEq] at h
                obtain ⟨_, rfl⟩ := h
                obtain ⟨e, hne⟩ := scanNumber_eq _ _ _ hn
                rw [e]
                cases tx with
                | nil => exact absurd rfl hne
                | cons a b => simp only [List.length_cons, List.length_append]; omega
            · cases h

/-! ## fuel -/

/-- every step that continues hands on a strictly shorter input -/
theorem tokStep_length (st : TS) (stack : List TS) (inp : Bytes) :
    (∀ t st' stack' rest, tokStep st stack inp = .emit t st' stack' rest → rest.length < inp.length) ∧
    (∀ st' stack' rest, tokStep st stack inp = .skip st' stack' rest → rest.length < inp.length) := by
  have hws := skipWs_length inp
  unfold tokStep
  cases hsk : skipWs inp with
  | nil => simp
  | cons c rest =>
    rw [hsk] at hws
    simp only [List.length_cons] at hws
    have hsc : ∀ t r, scanScalar (c :: rest) = some (t, r) → r.length < inp.length := by
      intro t r h
      have := scanScalar_length _ _ _ h
      simp only [List.length_cons] at this; omega
    simp only []
    constructor
    · intro t st' stack' r h
      repeat' split at h
      all_goals first
        | (cases h; omega)
        | (cases h; exact hsc _ _ (by assumption))
        | (cases h)
    · intro st' stack' r h
      repeat' split at h
      all_goals first
        | (cases h; omega)
        | (cases h)

/-- with more fuel than input bytes the result does not depend on the fuel and never contains the
exhaustion marker -/
theorem tokLoop_fuel : ∀ (f f' : Nat) (st : TS) (stack : List TS) (inp : Bytes),
    inp.length < f → inp.length < f' →
    tokLoop f st stack inp = tokLoop f' st stack inp ∧ Item.fuel ∉ tokLoop f st stack inp := by
  intro f
  induction f with
  | zero => intro f' st stack inp h; omega
  | succ f ih =>
    intro f' st stack inp h h'
    cases f' with
    | zero => omega
    | succ f' =>
      have hlen := tokStep_length st stack inp
      simp only [tokLoop]
      cases hs : tokStep st stack inp with
      | eof => simp
      | bad c => simp
      | emit t st' stack' rest =>
        have := hlen.1 t st' stack' rest hs
        obtain ⟨h1, h2⟩ := ih f' st' stack' rest (by omega) (by omega)
        simp only []
        exact ⟨by rw [h1], by simp [h2]⟩
      | skip st' stack' rest =>
        have := hlen.2 st' stack' rest hs
        exact ih f' st' stack' rest (by omega) (by omega)

/-- **the tokenizer never runs out of fuel**: `Item.fuel` does not occur in `tokenize bs` -/
theorem tokenize_no_fuel (bs : Bytes) : Item.fuel ∉ tokenize bs :=
  (tokLoop_fuel (bs.length + 1) (bs.length + 1) .top [] bs (by omega) (by omega)).2

end J5V.Json
