import J5V.Json.Tree
/-!
# The tokenizer model: every `Token()` call consumes input, fuel is never exhausted
-/
namespace J5V.Json

theorem skipWs_length (inp : Bytes) : (skipWs inp).length ≤ inp.length := by
  induction inp with
  | nil => simp [skipWs]
  | cons c t ih =>
    unfold skipWs
    split
    · simp only [List.length_cons]; omega
    · simp

theorem spanDigits_eq (s : Bytes) : s = (spanDigits s).1 ++ (spanDigits s).2 := by
  induction s with
  | nil => simp [spanDigits]
  | cons c t ih =>
    unfold spanDigits
    split
    · simp only [List.cons_append]; congr 1
    · simp

theorem stripPrefix_eq : ∀ (p s r : Bytes), stripPrefix p s = some r → s = p ++ r
  | [], s, r, h => by simp [stripPrefix] at h; simp [h]
  | _ :: _, [], r, h => by simp [stripPrefix] at h
  | a :: ps, c :: cs, r, h => by
    simp only [stripPrefix] at h
    split at h
    · next hac => subst hac; rw [stripPrefix_eq ps cs r h]; rfl
    · cases h

theorem hex4_eq (s : Bytes) (n : Nat) (r : Bytes) (h : hex4 s = some (n, r)) :
    s = s.take 4 ++ r ∧ (s.take 4).length = 4 := by
  unfold hex4 at h
  split at h
  · next a b c d rest =>
    split at h
    · simp only [Option.some.injEq, Prod.mk.injEq] at h
      obtain ⟨_, rfl⟩ := h
      simp
    · cases h
  · cases h

theorem getu4_eq (s : Bytes) (n : Nat) (r : Bytes) (h : getu4 s = some (n, r)) :
    s = s.take 6 ++ r ∧ (s.take 6).length = 6 := by
  unfold getu4 at h
  split at h
  · next rest =>
    obtain ⟨h1, h2⟩ := hex4_eq rest n r h
    constructor
    · simp only [List.take_succ_cons, List.cons_append]
      congr 2
    · simp only [List.take_succ_cons, List.length_cons]
      omega
  · cases h

/-- the raw literal `readString` returns is exactly the input it consumed -/
theorem readString_eq : ∀ (F : Nat) (s d raw r : Bytes), readString F s = some (d, raw, r) →
    s = raw ++ r ∧ raw ≠ [] := by
  intro F
  induction F with
  | zero => intro s d raw r h; simp [readString] at h
  | succ F ih =>
    intro s d raw r h
    cases s with
    | nil => simp [readString] at h
    | cons c rest =>
      simp only [readString] at h
      split at h
      · -- closing quote
        simp only [Option.some.injEq, Prod.mk.injEq] at h
        obtain ⟨_, rfl, rfl⟩ := h
        simp
      · split at h
        · -- backslash
          cases rest with
          | nil => simp at h
          | cons e rest2 =>
            simp only [] at h
            have simple : ∀ (out : UInt8),
                (match readString F rest2 with
                  | some (d, raw, r) => some (out :: d, c :: e :: raw, r)
                  | none => none) = some (d, raw, r) → c :: e :: rest2 = raw ++ r ∧ raw ≠ [] := by
              intro out hh
              cases hr : readString F rest2 with
              | none => simp [hr] at hh
              | some x =>
                obtain ⟨d', raw', r'⟩ := x
                simp only [hr, Option.some.injEq, Prod.mk.injEq] at hh
                obtain ⟨_, rfl, rfl⟩ := hh
                obtain ⟨h1, _⟩ := ih rest2 d' raw' r' hr
                exact ⟨by rw [h1]; rfl, by simp⟩
            repeat' (split at h; exact simple _ h)
            split at h
            · -- \u
              cases hh4 : hex4 rest2 with
              | none => simp [hh4] at h
              | some x =>
                obtain ⟨rr, rest3⟩ := x
                obtain ⟨e4, l4⟩ := hex4_eq rest2 rr rest3 hh4
                simp only [hh4] at h
                split at h
                · next dec rest4 hpair =>
                  -- valid surrogate pair: `getu4 rest3` consumed six bytes
                  have hg : ∃ rr1, getu4 rest3 = some (rr1, rest4) := by
                    split at hpair
                    · cases hg' : getu4 rest3 with
                      | none => simp [hg'] at hpair
                      | some y =>
                        obtain ⟨rr1, r4⟩ := y
                        simp only [hg'] at hpair
                        split at hpair
                        · simp only [Option.some.injEq, Prod.mk.injEq] at hpair
                          exact ⟨rr1, by rw [hpair.2]⟩
                        · cases hpair
                    · cases hpair
                  obtain ⟨rr1, hg'⟩ := hg
                  obtain ⟨e6, _⟩ := getu4_eq rest3 rr1 rest4 hg'
                  cases hr : readString F rest4 with
                  | none => simp [hr] at h
                  | some x =>
                    obtain ⟨d', raw', r'⟩ := x
                    simp only [hr, Option.some.injEq, Prod.mk.injEq] at h
                    obtain ⟨_, rfl, rfl⟩ := h
                    obtain ⟨h1, _⟩ := ih rest4 d' raw' r' hr
                    refine ⟨?_, by simp⟩
                    simp only [List.cons_append, List.append_assoc]
                    congr 2
                    rw [← h1, ← e6, ← e4]
                · cases hr : readString F rest3 with
                  | none => simp [hr] at h
                  | some x =>
                    obtain ⟨d', raw', r'⟩ := x
                    simp only [hr, Option.some.injEq, Prod.mk.injEq] at h
                    obtain ⟨_, rfl, rfl⟩ := h
                    obtain ⟨h1, _⟩ := ih rest3 d' raw' r' hr
                    refine ⟨?_, by simp⟩
                    simp only [List.cons_append, List.append_assoc]
                    congr 2
                    rw [← h1, ← e4]
            · cases h
        · split at h
          · cases h
          · split at h
            · -- plain ASCII
              cases hr : readString F rest with
              | none => simp [hr] at h
              | some x =>
                obtain ⟨d', raw', r'⟩ := x
                simp only [hr, Option.some.injEq, Prod.mk.injEq] at h
                obtain ⟨_, rfl, rfl⟩ := h
                obtain ⟨h1, _⟩ := ih rest d' raw' r' hr
                exact ⟨by rw [h1]; rfl, by simp⟩
            · split at h
              · -- invalid UTF-8 byte
                cases hr : readString F rest with
                | none => simp [hr] at h
                | some x =>
                  obtain ⟨d', raw', r'⟩ := x
                  simp only [hr, Option.some.injEq, Prod.mk.injEq] at h
                  obtain ⟨_, rfl, rfl⟩ := h
                  obtain ⟨h1, _⟩ := ih rest d' raw' r' hr
                  exact ⟨by rw [h1]; rfl, by simp⟩
              · -- multi-byte rune
                cases hr : readString F ((c :: rest).drop (decodeRune (c :: rest)).2) with
                | none => simp [hr] at h
                | some x =>
                  obtain ⟨d', raw', r'⟩ := x
                  simp only [hr, Option.some.injEq, Prod.mk.injEq] at h
                  obtain ⟨_, rfl, rfl⟩ := h
                  obtain ⟨h1, h2⟩ := ih _ d' raw' r' hr
                  refine ⟨?_, ?_⟩
                  · rw [List.append_assoc, ← h1, List.take_append_drop]
                  · intro hnil
                    have := List.append_eq_nil_iff.mp hnil
                    exact h2 this.2

end J5V.Json
