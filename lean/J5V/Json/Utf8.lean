/-!
# Bytes and UTF-8 (mirror of Go's `unicode/utf8` `DecodeRune` / `EncodeRune`)

Go strings are byte sequences; the model uses `List UInt8` everywhere (`Bytes`).
Runes are `Nat`.
-/
namespace J5V.Json

abbrev Bytes := List UInt8

/-- `utf8.RuneError` = U+FFFD -/
def runeError : Nat := 0xFFFD

/-- ASCII bytes of a Lean string literal (used for constants only). -/
def ascii (s : String) : Bytes := s.toList.map fun c => UInt8.ofNat c.toNat

/-- size and accept range of the second byte for a leading byte `≥ 0x80`
(`first[]` / `acceptRanges[]` tables of `unicode/utf8`); `none` = invalid leader (`xx`). -/
def leadInfo (p0 : Nat) : Option (Nat × Nat × Nat) :=
  if 0xC2 ≤ p0 ∧ p0 ≤ 0xDF then some (2, 0x80, 0xBF)
  else if p0 = 0xE0 then some (3, 0xA0, 0xBF)
  else if (0xE1 ≤ p0 ∧ p0 ≤ 0xEC) ∨ p0 = 0xEE ∨ p0 = 0xEF then some (3, 0x80, 0xBF)
  else if p0 = 0xED then some (3, 0x80, 0x9F)
  else if p0 = 0xF0 then some (4, 0x90, 0xBF)
  else if 0xF1 ≤ p0 ∧ p0 ≤ 0xF3 then some (4, 0x80, 0xBF)
  else if p0 = 0xF4 then some (4, 0x80, 0x8F)
  else none

def isCont (b : Nat) : Bool := 0x80 ≤ b && b ≤ 0xBF

/-- `utf8.DecodeRune(p)` = `(rune, size)`; `(RuneError, 0)` on empty input, `(RuneError, 1)` on any
invalid encoding. -/
def decodeRune (p : Bytes) : Nat × Nat :=
  match p with
  | [] => (runeError, 0)
  | c0 :: t =>
    let p0 := c0.toNat
    if p0 < 0x80 then (p0, 1) else
    match leadInfo p0 with
    | none => (runeError, 1)
    | some (sz, lo, hi) =>
      match t with
      | [] => (runeError, 1)
      | c1 :: t1 =>
        let b1 := c1.toNat
        if b1 < lo ∨ hi < b1 then (runeError, 1)
        else if sz = 2 then ((p0 % 32) * 64 + b1 % 64, 2)
        else match t1 with
          | [] => (runeError, 1)
          | c2 :: t2 =>
            let b2 := c2.toNat
            if !isCont b2 then (runeError, 1)
            else if sz = 3 then ((p0 % 16) * 4096 + (b1 % 64) * 64 + b2 % 64, 3)
            else match t2 with
              | [] => (runeError, 1)
              | c3 :: _ =>
                let b3 := c3.toNat
                if !isCont b3 then (runeError, 1)
                else ((p0 % 8) * 262144 + (b1 % 64) * 4096 + (b2 % 64) * 64 + b3 % 64, 4)

/-- `utf8.EncodeRune` (as appended bytes). Surrogates and out-of-range values encode U+FFFD. -/
def encodeRune (r : Nat) : Bytes :=
  if r < 0x80 then [UInt8.ofNat r]
  else if r < 0x800 then [UInt8.ofNat (0xC0 + r / 64), UInt8.ofNat (0x80 + r % 64)]
  else if (0xD800 ≤ r ∧ r ≤ 0xDFFF) ∨ 0x10FFFF < r then [0xEF, 0xBF, 0xBD]
  else if r < 0x10000 then
    [UInt8.ofNat (0xE0 + r / 4096), UInt8.ofNat (0x80 + r / 64 % 64), UInt8.ofNat (0x80 + r % 64)]
  else
    [UInt8.ofNat (0xF0 + r / 262144), UInt8.ofNat (0x80 + r / 4096 % 64),
     UInt8.ofNat (0x80 + r / 64 % 64), UInt8.ofNat (0x80 + r % 64)]

/-- `utf8.ValidString` -/
def validUtf8 : Nat → Bytes → Bool
  | 0, s => s.isEmpty
  | _, [] => true
  | fuel + 1, s =>
    let (r, n) := decodeRune s
    if r = runeError ∧ n = 1 then false else validUtf8 fuel (s.drop n)

def isValidUtf8 (s : Bytes) : Bool := validUtf8 s.length s

end J5V.Json
