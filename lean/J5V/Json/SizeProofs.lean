import J5V.Json.Tree
/-!
# The tree the JSON reader builds is no larger than its input (C06)

`(tokenize bs).length ≤ bs.length + 2` and `(readDoc bs).size ≤ 5 * (tokenize bs).length + 1`:
the number of nodes the decoder walks is linear in the number of input bytes. The bounds hold
whatever happens to the fuel of the tree builder (they do not need fuel sufficiency).
-/
namespace J5V.Json

theorem tokLoop_length : ∀ (f : Nat) (st : TS) (stack : List TS) (inp : Bytes),
    (tokLoop f st stack inp).length ≤ f + 1 := by
  intro f
  induction f with
  | zero => intro st stack inp; simp [tokLoop]
  | succ f ih =>
    intro st stack inp
    simp only [tokLoop]
    cases tokStep st stack inp with
    | eof => simp
    | bad c => simp
    | emit t st' stack' rest =>
      simp only [List.length_cons]
      have := ih st' stack' rest
      omega
    | skip st' stack' rest =>
      simp only []
      have := ih st' stack' rest
      omega

theorem tokenize_length (bs : Bytes) : (tokenize bs).length ≤ bs.length + 2 := by
  unfold tokenize
  exact tokLoop_length _ _ _ _

/-- the four bounds, for one fuel -/
structure BuildBound (f : Nat) : Prop where
  v : ∀ its, (buildValue f its).1.size + 5 * (buildValue f its).2.length ≤ 5 * its.length + 1
  vs : ∀ t rest, 1 ≤ f →
    (buildValue f (.tok t :: rest)).1.size + 5 * (buildValue f (.tok t :: rest)).2.length + 1 ≤
      5 * (rest.length + 1)
  m : ∀ its, (buildMembers f its).1.size + 5 * (buildMembers f its).2.length ≤ 5 * its.length + 1
  e : ∀ its, (buildElems f its).1.size + 5 * (buildElems f its).2.length ≤ 5 * its.length + 3

theorem buildBound_all : ∀ f, BuildBound f := by
  intro f
  induction f with
  | zero =>
    refine ⟨?_, ?_, ?_, ?_⟩
    · intro its; simp [buildValue, PTree.size]; omega
    · intro t rest h; omega
    · intro its; simp [buildMembers, PMembers.size]; omega
    · intro its; simp [buildElems, PElems.size]; omega
  | succ f ih =>
    have hvs : ∀ t rest,
        (buildValue (f + 1) (.tok t :: rest)).1.size +
          5 * (buildValue (f + 1) (.tok t :: rest)).2.length + 1 ≤ 5 * (rest.length + 1) := by
      intro t rest
      cases t with
      | lb =>
        simp only [buildValue, PTree.size]
        have := ih.m rest
        omega
      | lk =>
        simp only [buildValue, PTree.size]
        have := ih.e rest
        omega
      | _ => simp [buildValue, PTree.size] <;> omega
    refine ⟨?_, fun t rest _ => hvs t rest, ?_, ?_⟩
    · intro its
      cases its with
      | nil => simp [buildValue, PTree.size]
      | cons it rest =>
        cases it with
        | tok t =>
          have := hvs t rest
          simp only [List.length_cons]
          omega
        | bad c => simp [buildValue, PTree.size]
        | fuel => simp [buildValue, PTree.size]
    · intro its
      cases its with
      | nil => simp [buildMembers, PMembers.size]
      | cons it rest =>
        cases it with
        | bad c => cases c <;> simp [buildMembers, PMembers.size]
        | fuel => simp [buildMembers, PMembers.size]
        | tok t =>
          cases t with
          | rb => simp [buildMembers, PMembers.size]; omega
          | str k kraw =>
            simp only [buildMembers, PMembers.size, List.length_cons]
            have h1 := ih.v rest
            have h2 := ih.m (buildValue f rest).2
            omega
          | _ => simp [buildMembers, PMembers.size]
    · intro its
      cases its with
      | nil => simp [buildElems, PElems.size]
      | cons it rest =>
        cases it with
        | bad c => cases c <;> simp [buildElems, PElems.size]
        | fuel => simp [buildElems, PElems.size]
        | tok t =>
          by_cases hf : f = 0
          · subst hf
            cases t <;> simp [buildElems, buildValue, PElems.size, PTree.size] <;> omega
          · have h1 := ih.vs t rest (by omega)
            have h2 := ih.e (buildValue f (.tok t :: rest)).2
            cases t <;> simp only [buildElems, PElems.size, List.length_cons, List.length_nil] <;> omega

/-- the tree of a document has at most five nodes per token, the tokens at most one per byte -/
theorem readDoc_size (bs : Bytes) : (readDoc bs).size ≤ 5 * bs.length + 11 := by
  unfold readDoc
  have h1 := (buildBound_all ((tokenize bs).length + 1)).v (tokenize bs)
  have h2 := tokenize_length bs
  simp only [] at h1 ⊢
  omega

mutual
theorem depth_le_size (t : PTree) : t.depth ≤ t.size := by
  cases t <;> simp only [PTree.depth, PTree.size] <;> try omega
  case obj ms => have := mdepth_le_size ms; omega
  case arr xs => have := edepth_le_size xs; omega
termination_by sizeOf t
theorem mdepth_le_size (ms : PMembers) : ms.depth ≤ ms.size := by
  cases ms with
  | nil t => simp [PMembers.depth]
  | cons k kr v rest =>
    simp only [PMembers.depth, PMembers.size]
    have := depth_le_size v
    have := mdepth_le_size rest
    omega
termination_by sizeOf ms
theorem edepth_le_size (xs : PElems) : xs.depth ≤ xs.size := by
  cases xs with
  | nil t => simp [PElems.depth]
  | cons v rest =>
    simp only [PElems.depth, PElems.size]
    have := depth_le_size v
    have := edepth_le_size rest
    omega
termination_by sizeOf xs
end

end J5V.Json
