import J5V.Json.TokenProofs
import J5V.Json.EscapeProofs
/-!
# The reader inverts the renderer: `readDoc (render t) = t` for the trees the encoder produces
-/
namespace J5V.Json
open J5V.Go

/-! ## fuel-free view of the tokenizer -/

/-- `tokLoop` with enough fuel -/
def toksOf (st : TS) (stack : List TS) (inp : Bytes) : List Item :=
  tokLoop (inp.length + 1) st stack inp

theorem toksOf_step (st : TS) (stack : List TS) (inp : Bytes) :
    toksOf st stack inp =
      match tokStep st stack inp with
      | .eof => []
      | .bad closer => [.bad closer]
      | .emit t st' stack' rest => .tok t :: toksOf st' stack' rest
      | .skip st' stack' rest => toksOf st' stack' rest := by
  have hlen := tokStep_length st stack inp
  have hL : toksOf st stack inp =
      match tokStep st stack inp with
      | .eof => []
      | .bad closer => [.bad closer]
      | .emit t st' stack' rest => .tok t :: tokLoop inp.length st' stack' rest
      | .skip st' stack' rest => tokLoop inp.length st' stack' rest := by
    unfold toksOf; rw [tokLoop]
    cases tokStep st stack inp <;> rfl
  rw [hL]
  cases hs : tokStep st stack inp with
  | eof => rfl
  | bad c => rfl
  | emit t st' stack' rest =>
    have := hlen.1 t st' stack' rest hs
    simp only [toksOf]
    rw [(tokLoop_fuel inp.length (rest.length + 1) st' stack' rest (by omega) (by omega)).1]
  | skip st' stack' rest =>
    have := hlen.2 st' stack' rest hs
    simp only [toksOf]
    rw [(tokLoop_fuel inp.length (rest.length + 1) st' stack' rest (by omega) (by omega)).1]

theorem tokenize_eq (bs : Bytes) : tokenize bs = toksOf .top [] bs := rfl

theorem skipWs_nonspace (c : UInt8) (rest : Bytes) (h : isSpace c = false) :
    skipWs (c :: rest) = c :: rest := by
  simp [skipWs, h]

/-! ## what the encoder writes -/

/-- the literal reads back as `s` (what `appendString s = .ok raw` guarantees) -/
def LitOk (s raw : Bytes) : Prop :=
  ∃ body, raw = 0x22 :: (body ++ [0x22]) ∧
    ∀ (rest : Bytes) (F : Nat), body.length < F →
      readString F (body ++ 0x22 :: rest) = some (s, body ++ [0x22], rest)

theorem LitOk_of_appendString (s raw : Bytes) (h : appendString s = .ok raw) : LitOk s raw :=
  appendString_reads s raw h

/-- what may follow a value in rendered output: nothing, or `,` `}` `]` -/
def AfterValue : Bytes → Prop
  | [] => True
  | c :: _ => c = 0x2C ∨ c = 0x7D ∨ c = 0x5D

/-- the text is a number literal the scanner reads back, whatever follows -/
def NumOk (t : Bytes) : Prop :=
  (∃ c r, t = c :: r ∧ (c = 0x2D ∨ isDigit c = true)) ∧
  ∀ rest, AfterValue rest → scanNumber (t ++ rest) = some (t, rest)

mutual
/-- trees the encoder produces (no `raw` chunk): closed containers, literals that read back -/
def PTree.Enc : PTree → Prop
  | .str s raw => LitOk s raw
  | .num t => NumOk t
  | .bool _ => True
  | .null => True
  | .obj ms => ms.Enc
  | .arr xs => xs.Enc
  | .bad => False
  | .raw _ => False
def PMembers.Enc : PMembers → Prop
  | .nil t => t = .closed
  | .cons k kraw v rest => LitOk k kraw ∧ v.Enc ∧ rest.Enc
def PElems.Enc : PElems → Prop
  | .nil t => t = .closed
  | .cons v rest => v.Enc ∧ rest.Enc
end

mutual
def PTree.toks : PTree → List Tok
  | .str s raw => [.str s raw]
  | .num t => [.num t]
  | .bool true => [.tru]
  | .bool false => [.fls]
  | .null => [.null]
  | .obj ms => .lb :: ms.toks
  | .arr xs => .lk :: xs.toks
  | .bad => []
  | .raw _ => []
def PMembers.toks : PMembers → List Tok
  | .nil _ => [.rb]
  | .cons k kraw v rest => .str k kraw :: (v.toks ++ rest.toks)
def PElems.toks : PElems → List Tok
  | .nil _ => [.rk]
  | .cons v rest => v.toks ++ rest.toks
end

end J5V.Json

namespace J5V.Json
open J5V.Go

/-! ## single steps on rendered output -/

theorem valueAllowed_not_key (st : TS) (h : valueAllowed st = true) :
    ¬ (st = .objStart ∨ st = .objKey) := by
  cases st <;> simp [valueAllowed] at h ⊢

theorem tokStep_lbrace (st : TS) (stack : List TS) (rest : Bytes) (h : valueAllowed st = true) :
    tokStep st stack (0x7B :: rest) = .emit .lb .objStart (st :: stack) rest := by
  simp [tokStep, skipWs, isSpace, h]

theorem tokStep_lbrack (st : TS) (stack : List TS) (rest : Bytes) (h : valueAllowed st = true) :
    tokStep st stack (0x5B :: rest) = .emit .lk .arrStart (st :: stack) rest := by
  simp [tokStep, skipWs, isSpace, h]

theorem tokStep_rbrace (st s : TS) (stack : List TS) (rest : Bytes)
    (h : st = .objStart ∨ st = .objComma) :
    tokStep st (s :: stack) (0x7D :: rest) = .emit .rb (valueEnd s) stack rest := by
  simp [tokStep, skipWs, isSpace, h]

theorem tokStep_rbrack (st s : TS) (stack : List TS) (rest : Bytes)
    (h : st = .arrStart ∨ st = .arrComma) :
    tokStep st (s :: stack) (0x5D :: rest) = .emit .rk (valueEnd s) stack rest := by
  simp [tokStep, skipWs, isSpace, h]

theorem tokStep_colon (stack : List TS) (rest : Bytes) :
    tokStep .objColon stack (0x3A :: rest) = .skip .objValue stack rest := by
  simp [tokStep, skipWs, isSpace]

theorem tokStep_comma_obj (stack : List TS) (rest : Bytes) :
    tokStep .objComma stack (0x2C :: rest) = .skip .objKey stack rest := by
  simp [tokStep, skipWs, isSpace]

theorem tokStep_comma_arr (stack : List TS) (rest : Bytes) :
    tokStep .arrComma stack (0x2C :: rest) = .skip .arrValue stack rest := by
  simp [tokStep, skipWs, isSpace]

theorem scanScalar_lit (s raw rest : Bytes) (h : LitOk s raw) :
    scanScalar (raw ++ rest) = some (.str s raw, rest) := by
  obtain ⟨body, rfl, hr⟩ := h
  simp only [List.cons_append, List.append_assoc, List.nil_append, scanScalar, if_true]
  rw [hr rest _ (by simp only [List.length_append, List.length_cons]; omega)]

theorem tokStep_key (st : TS) (stack : List TS) (k kraw rest : Bytes) (h : LitOk k kraw)
    (hst : st = .objStart ∨ st = .objKey) :
    tokStep st stack (kraw ++ rest) = .emit (.str k kraw) .objColon stack rest := by
  have hs := scanScalar_lit k kraw rest h
  obtain ⟨body, rfl, _⟩ := h
  simp only [List.cons_append, List.append_assoc, List.nil_append] at hs ⊢
  simp only [tokStep, skipWs, isSpace]
  simp [hst, hs]

theorem tokStep_str (st : TS) (stack : List TS) (s raw rest : Bytes) (h : LitOk s raw)
    (hst : valueAllowed st = true) :
    tokStep st stack (raw ++ rest) = .emit (.str s raw) (valueEnd st) stack rest := by
  have hs := scanScalar_lit s raw rest h
  have hnk := valueAllowed_not_key st hst
  obtain ⟨body, rfl, _⟩ := h
  simp only [List.cons_append, List.append_assoc, List.nil_append] at hs ⊢
  simp only [tokStep, skipWs, isSpace]
  simp [hnk, hst, hs]

theorem isDigit_props (c : UInt8) (h : c = 0x2D ∨ isDigit c = true) :
    isSpace c = false ∧ c ≠ 0x5B ∧ c ≠ 0x5D ∧ c ≠ 0x7B ∧ c ≠ 0x7D ∧ c ≠ 0x3A ∧ c ≠ 0x2C ∧ c ≠ 0x22 ∧
      c ≠ 0x74 ∧ c ≠ 0x66 ∧ c ≠ 0x6E := by
  rcases h with rfl | h
  · decide
  · simp only [isDigit, Bool.and_eq_true, decide_eq_true_eq] at h
    refine ⟨?_, ?_, ?_, ?_, ?_, ?_, ?_, ?_, ?_, ?_, ?_⟩
    · simp only [isSpace, Bool.or_eq_false_iff, decide_eq_false_iff_not]
      refine ⟨⟨⟨?_, ?_⟩, ?_⟩, ?_⟩ <;> (intro e; subst e; simp at h)
    all_goals (intro e; subst e; simp at h)

theorem tokStep_num (st : TS) (stack : List TS) (t rest : Bytes) (h : NumOk t) (hr : AfterValue rest)
    (hst : valueAllowed st = true) :
    tokStep st stack (t ++ rest) = .emit (.num t) (valueEnd st) stack rest := by
  obtain ⟨⟨c, r, rfl, hc⟩, hscan⟩ := h
  have hp := isDigit_props c hc
  have hsn := hscan rest hr
  simp only [List.cons_append] at hsn ⊢
  have hss : scanScalar (c :: (r ++ rest)) = some (.num (c :: r), rest) := by
    simp only [scanScalar, hp.2.2.2.2.2.2.2.1, hp.2.2.2.2.2.2.2.2.1, hp.2.2.2.2.2.2.2.2.2.1,
      hp.2.2.2.2.2.2.2.2.2.2, if_false]
    have : (c = 0x2D ∨ isDigit c = true) := hc
    simp [this, hsn]
  simp only [tokStep, skipWs, hp.1]
  simp [hp.2.1, hp.2.2.1, hp.2.2.2.1, hp.2.2.2.2.1, hp.2.2.2.2.2.1, hp.2.2.2.2.2.2.1,
    hp.2.2.2.2.2.2.2.1, hst, hss]

theorem tokStep_true (st : TS) (stack : List TS) (rest : Bytes) (hst : valueAllowed st = true) :
    tokStep st stack (ascii "true" ++ rest) = .emit .tru (valueEnd st) stack rest := by
  have : ascii "true" = [0x74, 0x72, 0x75, 0x65] := by decide
  rw [this]
  simp [tokStep, skipWs, isSpace, hst, scanScalar, stripPrefix]

theorem tokStep_false (st : TS) (stack : List TS) (rest : Bytes) (hst : valueAllowed st = true) :
    tokStep st stack (ascii "false" ++ rest) = .emit .fls (valueEnd st) stack rest := by
  have : ascii "false" = [0x66, 0x61, 0x6C, 0x73, 0x65] := by decide
  rw [this]
  simp [tokStep, skipWs, isSpace, hst, scanScalar, stripPrefix]

theorem tokStep_null (st : TS) (stack : List TS) (rest : Bytes) (hst : valueAllowed st = true) :
    tokStep st stack (ascii "null" ++ rest) = .emit .null (valueEnd st) stack rest := by
  have : ascii "null" = [0x6E, 0x75, 0x6C, 0x6C] := by decide
  rw [this]
  simp [tokStep, skipWs, isSpace, hst, scanScalar, stripPrefix]

end J5V.Json

namespace J5V.Json
open J5V.Go

/-! ## tokenizing rendered trees -/

theorem afterValue_members (ms : PMembers) (rest : Bytes) : AfterValue (ms.render false ++ rest) := by
  cases ms with
  | nil t => simp [PMembers.render, AfterValue]
  | cons k kraw v r => simp [PMembers.render, AfterValue]

theorem afterValue_elems (xs : PElems) (rest : Bytes) : AfterValue (xs.render false ++ rest) := by
  cases xs with
  | nil t => simp [PElems.render, AfterValue]
  | cons v r => simp [PElems.render, AfterValue]

mutual
theorem toks_value (t : PTree) (h : t.Enc) (st : TS) (stack : List TS) (rest : Bytes)
    (hst : valueAllowed st = true) (hr : AfterValue rest) :
    toksOf st stack (t.render ++ rest) = t.toks.map Item.tok ++ toksOf (valueEnd st) stack rest := by
  cases t with
  | str s raw =>
    simp only [PTree.Enc] at h
    rw [toksOf_step]
    simp only [PTree.render, tokStep_str st stack s raw rest h hst, PTree.toks, List.map_cons,
      List.map_nil, List.cons_append, List.nil_append]
  | num x =>
    simp only [PTree.Enc] at h
    rw [toksOf_step]
    simp only [PTree.render, tokStep_num st stack x rest h hr hst, PTree.toks, List.map_cons,
      List.map_nil, List.cons_append, List.nil_append]
  | bool b =>
    rw [toksOf_step]
    cases b
    · simp only [PTree.render, tokStep_false st stack rest hst, PTree.toks, List.map_cons,
        List.map_nil, List.cons_append, List.nil_append]
    · simp only [PTree.render, tokStep_true st stack rest hst, PTree.toks, List.map_cons,
        List.map_nil, List.cons_append, List.nil_append]
  | null =>
    rw [toksOf_step]
    simp only [PTree.render, tokStep_null st stack rest hst, PTree.toks, List.map_cons,
      List.map_nil, List.cons_append, List.nil_append]
  | obj ms =>
    simp only [PTree.Enc] at h
    rw [toksOf_step]
    simp only [PTree.render, List.cons_append, tokStep_lbrace st stack _ hst, PTree.toks,
      List.map_cons]
    have := toks_members ms h true st stack rest
    simp only [if_true] at this
    rw [this]
  | arr xs =>
    simp only [PTree.Enc] at h
    rw [toksOf_step]
    simp only [PTree.render, List.cons_append, tokStep_lbrack st stack _ hst, PTree.toks,
      List.map_cons]
    have := toks_elems xs h true st stack rest
    simp only [if_true] at this
    rw [this]
  | bad => simp [PTree.Enc] at h
  | raw bs => simp [PTree.Enc] at h
termination_by sizeOf t

theorem toks_members (ms : PMembers) (h : ms.Enc) (first : Bool) (s0 : TS) (stack : List TS)
    (rest : Bytes) :
    toksOf (if first then .objStart else .objComma) (s0 :: stack) (ms.render first ++ rest) =
      ms.toks.map Item.tok ++ toksOf (valueEnd s0) stack rest := by
  cases ms with
  | nil t =>
    rw [toksOf_step]
    have hst : (if first then TS.objStart else TS.objComma) = .objStart ∨
        (if first then TS.objStart else TS.objComma) = .objComma := by cases first <;> simp
    simp only [PMembers.render, List.cons_append, List.nil_append,
      tokStep_rbrace _ s0 stack rest hst, PMembers.toks, List.map_cons, List.map_nil]
  | cons k kraw v r =>
    simp only [PMembers.Enc] at h
    obtain ⟨hk, hv, hrm⟩ := h
    have hval := toks_value v hv .objValue (s0 :: stack) (r.render false ++ rest) rfl
      (afterValue_members r rest)
    have hrest := toks_members r hrm false s0 stack rest
    simp only [Bool.false_eq_true, if_false] at hrest
    simp only [valueEnd] at hval
    cases first with
    | true =>
      simp only [if_true, PMembers.render, List.nil_append, List.append_assoc, List.cons_append]
      rw [toksOf_step, tokStep_key .objStart _ k kraw _ hk (Or.inl rfl)]
      simp only []
      rw [toksOf_step, tokStep_colon]
      simp only []
      rw [hval, hrest]
      simp [PMembers.toks]
    | false =>
      simp only [Bool.false_eq_true, if_false, PMembers.render, List.append_assoc, List.cons_append,
        List.nil_append]
      rw [toksOf_step, tokStep_comma_obj]
      simp only []
      rw [toksOf_step, tokStep_key .objKey _ k kraw _ hk (Or.inr rfl)]
      simp only []
      rw [toksOf_step, tokStep_colon]
      simp only []
      rw [hval, hrest]
      simp [PMembers.toks]
termination_by sizeOf ms

theorem toks_elems (xs : PElems) (h : xs.Enc) (first : Bool) (s0 : TS) (stack : List TS)
    (rest : Bytes) :
    toksOf (if first then .arrStart else .arrComma) (s0 :: stack) (xs.render first ++ rest) =
      xs.toks.map Item.tok ++ toksOf (valueEnd s0) stack rest := by
  cases xs with
  | nil t =>
    rw [toksOf_step]
    have hst : (if first then TS.arrStart else TS.arrComma) = .arrStart ∨
        (if first then TS.arrStart else TS.arrComma) = .arrComma := by cases first <;> simp
    simp only [PElems.render, List.cons_append, List.nil_append,
      tokStep_rbrack _ s0 stack rest hst, PElems.toks, List.map_cons, List.map_nil]
  | cons v r =>
    simp only [PElems.Enc] at h
    obtain ⟨hv, hrm⟩ := h
    have hrest := toks_elems r hrm false s0 stack rest
    simp only [Bool.false_eq_true, if_false] at hrest
    cases first with
    | true =>
      have hval := toks_value v hv .arrStart (s0 :: stack) (r.render false ++ rest) rfl
        (afterValue_elems r rest)
      simp only [valueEnd] at hval
      simp only [if_true, PElems.render, List.nil_append, List.append_assoc]
      rw [hval, hrest]
      simp [PElems.toks]
    | false =>
      have hval := toks_value v hv .arrValue (s0 :: stack) (r.render false ++ rest) rfl
        (afterValue_elems r rest)
      simp only [valueEnd] at hval
      simp only [Bool.false_eq_true, if_false, PElems.render, List.append_assoc, List.cons_append,
        List.nil_append]
      rw [toksOf_step, tokStep_comma_arr]
      simp only []
      rw [hval, hrest]
      simp [PElems.toks]
termination_by sizeOf xs
end

end J5V.Json

namespace J5V.Json
open J5V.Go

/-! ## building the tree from the tokens -/

/-- the first token of a value is never a closer -/
theorem toks_head (t : PTree) (h : t.Enc) :
    ∃ tk tl, t.toks = tk :: tl ∧ tk ≠ .rb ∧ tk ≠ .rk := by
  cases t with
  | str s raw => exact ⟨_, _, rfl, by simp, by simp⟩
  | num x => exact ⟨_, _, rfl, by simp, by simp⟩
  | bool b => cases b <;> exact ⟨_, _, rfl, by simp, by simp⟩
  | null => exact ⟨_, _, rfl, by simp, by simp⟩
  | obj ms => exact ⟨_, _, rfl, by simp, by simp⟩
  | arr xs => exact ⟨_, _, rfl, by simp, by simp⟩
  | bad => simp [PTree.Enc] at h
  | raw bs => simp [PTree.Enc] at h

theorem elems_toks_pos (xs : PElems) : 1 ≤ xs.toks.length := by
  cases xs with
  | nil t => simp [PElems.toks]
  | cons v r =>
    simp only [PElems.toks, List.length_append]
    have := elems_toks_pos r
    omega

mutual
theorem build_value (t : PTree) (h : t.Enc) (f : Nat) (rest : List Item) (hf : t.toks.length ≤ f) :
    buildValue f (t.toks.map Item.tok ++ rest) = (t, rest) := by
  cases t with
  | str s raw =>
    obtain ⟨f', rfl⟩ : ∃ f', f = f' + 1 := ⟨f - 1, by simp [PTree.toks] at hf; omega⟩
    simp [PTree.toks, buildValue]
  | num x =>
    obtain ⟨f', rfl⟩ : ∃ f', f = f' + 1 := ⟨f - 1, by simp [PTree.toks] at hf; omega⟩
    simp [PTree.toks, buildValue]
  | bool b =>
    obtain ⟨f', rfl⟩ : ∃ f', f = f' + 1 := ⟨f - 1, by cases b <;> simp [PTree.toks] at hf <;> omega⟩
    cases b <;> simp [PTree.toks, buildValue]
  | null =>
    obtain ⟨f', rfl⟩ : ∃ f', f = f' + 1 := ⟨f - 1, by simp [PTree.toks] at hf; omega⟩
    simp [PTree.toks, buildValue]
  | obj ms =>
    simp only [PTree.Enc] at h
    simp only [PTree.toks, List.length_cons] at hf
    obtain ⟨f', rfl⟩ : ∃ f', f = f' + 1 := ⟨f - 1, by omega⟩
    have := build_members ms h f' rest (by omega)
    simp [PTree.toks, buildValue, this]
  | arr xs =>
    simp only [PTree.Enc] at h
    simp only [PTree.toks, List.length_cons] at hf
    obtain ⟨f', rfl⟩ : ∃ f', f = f' + 1 := ⟨f - 1, by omega⟩
    have := build_elems xs h f' rest (by omega)
    simp [PTree.toks, buildValue, this]
  | bad => simp [PTree.Enc] at h
  | raw bs => simp [PTree.Enc] at h
termination_by sizeOf t

theorem build_members (ms : PMembers) (h : ms.Enc) (f : Nat) (rest : List Item)
    (hf : ms.toks.length ≤ f) :
    buildMembers f (ms.toks.map Item.tok ++ rest) = (ms, rest) := by
  cases ms with
  | nil t =>
    simp only [PMembers.Enc] at h; subst h
    obtain ⟨f', rfl⟩ : ∃ f', f = f' + 1 := ⟨f - 1, by simp [PMembers.toks] at hf; omega⟩
    simp [PMembers.toks, buildMembers]
  | cons k kraw v r =>
    simp only [PMembers.Enc] at h
    obtain ⟨_, hv, hr⟩ := h
    simp only [PMembers.toks, List.length_cons, List.length_append] at hf
    obtain ⟨f', rfl⟩ : ∃ f', f = f' + 1 := ⟨f - 1, by omega⟩
    have h1 := build_value v hv f' (r.toks.map Item.tok ++ rest) (by omega)
    have h2 := build_members r hr f' rest (by omega)
    simp only [PMembers.toks, List.map_cons, List.map_append, List.cons_append, List.append_assoc,
      buildMembers, h1, h2]
termination_by sizeOf ms

theorem build_elems (xs : PElems) (h : xs.Enc) (f : Nat) (rest : List Item)
    (hf : xs.toks.length ≤ f) :
    buildElems f (xs.toks.map Item.tok ++ rest) = (xs, rest) := by
  cases xs with
  | nil t =>
    simp only [PElems.Enc] at h; subst h
    obtain ⟨f', rfl⟩ : ∃ f', f = f' + 1 := ⟨f - 1, by simp [PElems.toks] at hf; omega⟩
    simp [PElems.toks, buildElems]
  | cons v r =>
    simp only [PElems.Enc] at h
    obtain ⟨hv, hr⟩ := h
    simp only [PElems.toks, List.length_append] at hf
    obtain ⟨tk, tl, htk, hn1, hn2⟩ := toks_head v hv
    have hpos := elems_toks_pos r
    have hvpos : 1 ≤ v.toks.length := by rw [htk]; simp
    obtain ⟨f', rfl⟩ : ∃ f', f = f' + 1 := ⟨f - 1, by omega⟩
    have h1 := build_value v hv f' (r.toks.map Item.tok ++ rest) (by omega)
    have h2 := build_elems r hr f' rest (by omega)
    simp only [PElems.toks, List.map_append, List.append_assoc]
    rw [htk] at h1 ⊢
    simp only [List.map_cons, List.cons_append] at h1 ⊢
    cases tk <;> simp only [buildElems, h1, h2] <;> first | rfl | exact absurd rfl hn1 | exact absurd rfl hn2
termination_by sizeOf xs
end

/-- **the reader inverts the renderer** on everything the encoder writes -/
theorem readDoc_render (t : PTree) (h : t.Enc) : readDoc t.render = t := by
  unfold readDoc
  have htok : tokenize t.render = t.toks.map Item.tok := by
    rw [tokenize_eq]
    have := toks_value t h .top [] [] rfl trivial
    simp only [List.append_nil] at this
    rw [this, toksOf_step]
    simp [tokStep, skipWs]
  rw [htok]
  have := build_value t h ((t.toks.map Item.tok).length + 1) [] (by simp)
  simp only [List.append_nil] at this
  simp only [this]

end J5V.Json

namespace J5V.Json
open J5V.Go

/-! ## a JSON number literal is read back whatever (legal) follows it -/

/-- head of the remaining input cannot continue a number -/
def NumEnd : Bytes → Prop
  | [] => True
  | c :: _ => isDigit c = false ∧ c ≠ 0x2E ∧ c ≠ 0x65 ∧ c ≠ 0x45 ∧ c ≠ 0x2B ∧ c ≠ 0x2D

theorem numEnd_of_afterValue (rest : Bytes) (h : AfterValue rest) : NumEnd rest := by
  cases rest with
  | nil => trivial
  | cons c r =>
    simp only [AfterValue] at h
    rcases h with rfl | rfl | rfl <;> simp [NumEnd, isDigit]

theorem spanDigits_ext (s rest : Bytes) (h : NumEnd rest) :
    spanDigits (s ++ rest) = ((spanDigits s).1, (spanDigits s).2 ++ rest) := by
  induction s with
  | nil =>
    cases rest with
    | nil => rfl
    | cons c r => simp only [NumEnd] at h; simp [spanDigits, h.1]
  | cons c t ih =>
    simp only [List.cons_append, spanDigits]
    split
    · rw [ih]
    · rfl

theorem scanInt_ext (s a r rest : Bytes) (h : scanInt s = some (a, r)) (hr : NumEnd rest) :
    scanInt (s ++ rest) = some (a, r ++ rest) := by
  cases s with
  | nil => simp [scanInt] at h
  | cons c t =>
    simp only [scanInt, List.cons_append] at h ⊢
    split
    · next hc => simp only [hc, if_true] at h; cases h; rw [hc]
    · next hc =>
      simp only [hc, if_false] at h
      split
      · next hd =>
        simp only [hd, if_true] at h; cases h
        rw [spanDigits_ext t rest hr]
      · next hd => simp [hd] at h

theorem scanFrac_ext (s a r rest : Bytes) (h : scanFrac s = some (a, r)) (hr : NumEnd rest) :
    scanFrac (s ++ rest) = some (a, r ++ rest) := by
  cases s with
  | nil =>
    simp only [scanFrac] at h; cases h
    cases rest with
    | nil => rfl
    | cons c r' =>
      simp only [NumEnd] at hr
      simp only [List.nil_append]
      unfold scanFrac
      split
      · next heq => simp at heq; exact absurd heq.1 hr.2.1
      · rfl
  | cons c t =>
    by_cases hc : c = 0x2E
    · subst hc
      simp only [scanFrac, List.cons_append] at h ⊢
      rw [spanDigits_ext t rest hr]
      simp only []
      split at h
      · cases h
      · next hne => cases h; simp [hne]
    · have e1 : scanFrac (c :: t) = some ([], c :: t) := by
        unfold scanFrac; split
        · next heq => simp at heq; exact absurd heq.1 hc
        · rfl
      have e2 : scanFrac (c :: (t ++ rest)) = some ([], c :: (t ++ rest)) := by
        unfold scanFrac; split
        · next heq => simp at heq; exact absurd heq.1 hc
        · rfl
      rw [e1] at h; cases h
      simp only [List.cons_append, e2]

theorem scanExpSign_ext (s rest : Bytes) (hr : NumEnd rest) :
    scanExpSign (s ++ rest) = ((scanExpSign s).1, (scanExpSign s).2 ++ rest) := by
  cases s with
  | nil =>
    cases rest with
    | nil => rfl
    | cons c r =>
      simp only [NumEnd] at hr
      simp only [List.nil_append]
      unfold scanExpSign
      split
      · next heq => simp at heq; exact absurd heq.1 hr.2.2.2.2.1
      · next heq => simp at heq; exact absurd heq.1 hr.2.2.2.2.2
      · rfl
  | cons c t =>
    simp only [List.cons_append]
    unfold scanExpSign
    split
    · next heq => simp at heq; obtain ⟨rfl, rfl⟩ := heq; rfl
    · next heq => simp at heq; obtain ⟨rfl, rfl⟩ := heq; rfl
    · next h1 h2 =>
      split
      · next heq => simp at heq; exact (h1 _ (by rw [heq.1])).elim
      · next heq => simp at heq; exact (h2 _ (by rw [heq.1])).elim
      · rfl

theorem scanExp_ext (s a r rest : Bytes) (h : scanExp s = some (a, r)) (hr : NumEnd rest) :
    scanExp (s ++ rest) = some (a, r ++ rest) := by
  cases s with
  | nil =>
    simp only [scanExp] at h; cases h
    cases rest with
    | nil => rfl
    | cons c r' =>
      simp only [NumEnd] at hr
      simp only [List.nil_append, scanExp]
      rw [if_neg (by intro e; rcases e with e | e; exact hr.2.2.1 e; exact hr.2.2.2.1 e)]
  | cons e r3 =>
    simp only [scanExp, List.cons_append] at h ⊢
    split
    · next he =>
      simp only [he, if_true] at h
      rw [scanExpSign_ext r3 rest hr]
      simp only []
      rw [spanDigits_ext _ rest hr]
      simp only []
      split at h
      · cases h
      · next hne => cases h; simp [hne]
    · next he => simp only [he, if_false] at h; cases h; rfl

theorem scanSign_ext (c : UInt8) (t rest : Bytes) :
    scanSign (c :: t ++ rest) = ((scanSign (c :: t)).1, (scanSign (c :: t)).2 ++ rest) := by
  simp only [List.cons_append]
  unfold scanSign
  split
  · next heq =>
    simp at heq; obtain ⟨rfl, rfl⟩ := heq
    rfl
  · next h1 =>
    split
    · next heq => simp at heq; exact (h1 _ (by rw [heq.1])).elim
    · rfl

/-- a text that is exactly one JSON number is scanned back, whatever value terminator follows -/
theorem numOk_of_scan (t : Bytes) (h : ∃ x, scanNumber t = some (x, [])) : NumOk t := by
  obtain ⟨x, hx⟩ := h
  obtain ⟨ht, hne⟩ := scanNumber_eq t x [] hx
  simp only [List.append_nil] at ht
  subst ht
  cases t with
  | nil => exact absurd rfl hne
  | cons c r =>
    constructor
    · -- the first byte is `-` or a digit
      refine ⟨c, r, rfl, ?_⟩
      by_cases hc : c = 0x2D
      · exact Or.inl hc
      · right
        unfold scanNumber at hx
        have hs : scanSign (c :: r) = ([], c :: r) := by
          unfold scanSign; split
          · next heq => simp at heq; exact absurd heq.1 hc
          · rfl
        rw [hs] at hx
        simp only [] at hx
        cases hi : scanInt (c :: r) with
        | none => simp [hi] at hx
        | some y =>
          unfold scanInt at hi
          by_cases h0 : c = 0x30
          · subst h0; decide
          · by_cases hd : isDigit c = true
            · exact hd
            · simp [h0, hd] at hi
    · intro rest hrest
      have hr := numEnd_of_afterValue rest hrest
      unfold scanNumber at hx ⊢
      rw [scanSign_ext c r rest]
      simp only [] at hx ⊢
      cases hi : scanInt (scanSign (c :: r)).2 with
      | none => simp [hi] at hx
      | some y =>
        obtain ⟨ip, a1⟩ := y
        simp only [hi] at hx
        rw [scanInt_ext _ ip a1 rest hi hr]
        simp only []
        cases hf : scanFrac a1 with
        | none => simp [hf] at hx
        | some z =>
          obtain ⟨fp, a2⟩ := z
          simp only [hf] at hx
          rw [scanFrac_ext _ fp a2 rest hf hr]
          simp only []
          cases he : scanExp a2 with
          | none => simp [he] at hx
          | some w =>
            obtain ⟨ep, a3⟩ := w
            simp only [he, Option.some.injEq, Prod.mk.injEq] at hx
            obtain ⟨hx1, hx2⟩ := hx
            subst hx2
            rw [scanExp_ext _ ep [] rest he hr]
            simp only [List.nil_append, hx1]

end J5V.Json
