import J5V.Json.Escape
/-!
# The string escaper writes JSON string literals that denote the input (C08_escape_valid, C01)
-/
namespace J5V.Json
open J5V.Go

theorem leadInfo_some (p0 sz lo hi : Nat) (h : leadInfo p0 = some (sz, lo, hi)) :
    (sz = 2 ∧ 0xC2 ≤ p0 ∧ p0 ≤ 0xDF ∧ lo = 0x80 ∧ hi = 0xBF) ∨
    (sz = 3 ∧ p0 = 0xE0 ∧ lo = 0xA0 ∧ hi = 0xBF) ∨
    (sz = 3 ∧ 0xE1 ≤ p0 ∧ p0 ≤ 0xEF ∧ 0x80 ≤ lo ∧ hi ≤ 0xBF) ∨
    (sz = 4 ∧ p0 = 0xF0 ∧ lo = 0x90 ∧ hi = 0xBF) ∨
    (sz = 4 ∧ 0xF1 ≤ p0 ∧ p0 ≤ 0xF4 ∧ 0x80 ≤ lo ∧ hi ≤ 0xBF) := by
  unfold leadInfo at h
  repeat' split at h
  all_goals first | (simp at h; omega) | (simp at h)

/-- the shapes `DecodeRune` can return on a non-empty input -/
theorem decodeRune_cases (c : UInt8) (t : Bytes) :
    (c.toNat < 0x80 ∧ decodeRune (c :: t) = (c.toNat, 1)) ∨
    (0x80 ≤ c.toNat ∧ decodeRune (c :: t) = (runeError, 1)) ∨
    (0x80 ≤ c.toNat ∧ ∃ r n, decodeRune (c :: t) = (r, n) ∧ 2 ≤ n ∧ n ≤ (c :: t).length ∧ 0x80 ≤ r ∧
      ∀ X, decodeRune ((c :: t).take n ++ X) = (r, n)) := by
  by_cases h80 : c.toNat < 0x80
  · left; exact ⟨h80, by simp [decodeRune, h80]⟩
  · right
    have hge : 0x80 ≤ c.toNat := by omega
    cases hl : leadInfo c.toNat with
    | none => left; exact ⟨hge, by simp [decodeRune, h80, hl]⟩
    | some info =>
      obtain ⟨sz, lo, hi⟩ := info
      have hinfo := leadInfo_some _ _ _ _ hl
      cases t with
      | nil => left; exact ⟨hge, by simp [decodeRune, h80, hl]⟩
      | cons c1 t1 =>
        by_cases hb1 : c1.toNat < lo ∨ hi < c1.toNat
        · left; exact ⟨hge, by simp [decodeRune, h80, hl, hb1]⟩
        · by_cases hs2 : sz = 2
          · right
            refine ⟨hge, c.toNat % 32 * 64 + c1.toNat % 64, 2, by simp [decodeRune, h80, hl, hb1, hs2], by omega, by simp, ?_, ?_⟩
            · have := c1.toNat_lt; omega
            · intro X; simp [decodeRune, h80, hl, hb1, hs2]
          · cases t1 with
            | nil => left; exact ⟨hge, by simp [decodeRune, h80, hl, hb1, hs2]⟩
            | cons c2 t2 =>
              by_cases hc2 : isCont c2.toNat = true
              · by_cases hs3 : sz = 3
                · right
                  refine ⟨hge, c.toNat % 16 * 4096 + c1.toNat % 64 * 64 + c2.toNat % 64, 3, by simp [decodeRune, h80, hl, hb1, hs2, hc2, hs3], by omega, by simp, ?_, ?_⟩
                  · have := c1.toNat_lt; omega
                  · intro X; simp [decodeRune, h80, hl, hb1, hs2, hc2, hs3]
                · cases t2 with
                  | nil => left; exact ⟨hge, by simp [decodeRune, h80, hl, hb1, hs2, hc2, hs3]⟩
                  | cons c3 t3 =>
                    by_cases hc3 : isCont c3.toNat = true
                    · right
                      refine ⟨hge, c.toNat % 8 * 262144 + c1.toNat % 64 * 4096 + c2.toNat % 64 * 64 + c3.toNat % 64, 4, by simp [decodeRune, h80, hl, hb1, hs2, hc2, hs3, hc3], by omega, by simp, ?_, ?_⟩
                      · have := c1.toNat_lt; omega
                      · intro X; simp [decodeRune, h80, hl, hb1, hs2, hc2, hs3, hc3]
                    · left; exact ⟨hge, by simp [decodeRune, h80, hl, hb1, hs2, hc2, hs3, hc3]⟩
              · left; exact ⟨hge, by simp [decodeRune, h80, hl, hb1, hs2, hc2]⟩

theorem hexVal_hexLower : ∀ d, d < 16 → hexVal (hexLower d) = some d := by decide

theorem uint8_eq_of_toNat (c : UInt8) (n : Nat) (hn : n < 256) (h : c.toNat = n) : c = UInt8.ofNat n := by
  apply UInt8.toNat_inj.mp
  rw [UInt8.toNat_ofNat']; omega

theorem readString_chunk (F : Nat) (s d raw rest : Bytes) (h : stringStep s = .chunk d raw rest) :
    readString (F + 1) s =
      match readString F rest with
      | some (d', raw', r) => some (d ++ d', raw ++ raw', r)
      | none => none := by
  simp only [readString, h]
  cases readString F rest <;> rfl

/-- reading back one escape sequence -/
theorem stringStep_escapeRune (c : UInt8) (hc : needsEscape c.toNat = true) (X : Bytes) :
    stringStep (escapeRune c.toNat ++ X) = .chunk [c] (escapeRune c.toNat) X := by
  have hlt := c.toNat_lt
  unfold escapeRune
  by_cases h1 : c.toNat = 0x22
  · have hc' := uint8_eq_of_toNat c _ (by omega) h1
    subst hc'; simp [stringStep, simpleEscape]
  by_cases h2 : c.toNat = 0x5C
  · have hc' := uint8_eq_of_toNat c _ (by omega) h2
    subst hc'; simp [stringStep, simpleEscape]
  by_cases h3 : c.toNat = 8
  · have hc' := uint8_eq_of_toNat c _ (by omega) h3
    subst hc'; simp [stringStep, simpleEscape]
  by_cases h4 : c.toNat = 12
  · have hc' := uint8_eq_of_toNat c _ (by omega) h4
    subst hc'; simp [stringStep, simpleEscape]
  by_cases h5 : c.toNat = 10
  · have hc' := uint8_eq_of_toNat c _ (by omega) h5
    subst hc'; simp [stringStep, simpleEscape]
  by_cases h6 : c.toNat = 13
  · have hc' := uint8_eq_of_toNat c _ (by omega) h6
    subst hc'; simp [stringStep, simpleEscape]
  by_cases h7 : c.toNat = 9
  · have hc' := uint8_eq_of_toNat c _ (by omega) h7
    subst hc'; simp [stringStep, simpleEscape]
  · have h20 : c.toNat < 0x20 := by
      simp only [needsEscape, Bool.or_eq_true, decide_eq_true_eq] at hc
      omega
    rw [if_neg h1, if_neg h2, if_neg h3, if_neg h4, if_neg h5, if_neg h6, if_neg h7]
    have hh1 := hexVal_hexLower (c.toNat / 16) (by omega)
    have hh2 := hexVal_hexLower (c.toNat % 16) (by omega)
    have h0 : hexVal 0x30 = some 0 := by decide
    have e : c.toNat / 16 * 16 + c.toNat % 16 = c.toNat := by omega
    have henc : encodeRune c.toNat = [c] := by
      unfold encodeRune
      rw [if_pos (by omega)]
      simp
    have hse : simpleEscape 0x75 = none := by decide
    simp only [List.cons_append, List.nil_append, stringStep, hse]
    simp [readUnicode, hex4, h0, hh1, hh2, isHighSurr, isSurrogate, e]
    rw [if_neg (by omega), if_neg (by omega), henc]

theorem stringStep_quote (rest : Bytes) : stringStep (0x22 :: rest) = .done rest := by
  simp [stringStep]

theorem readString_quote (F : Nat) (rest : Bytes) :
    readString (F + 1) (0x22 :: rest) = some ([], [0x22], rest) := by
  simp [readString, stringStep_quote]

/-- an ASCII byte that needs no escape is copied -/
theorem stringStep_plain (c : UInt8) (h80 : c.toNat < 0x80) (hne : needsEscape c.toNat = false)
    (X : Bytes) : stringStep (c :: X) = .chunk [c] [c] X := by
  simp only [needsEscape, Bool.or_eq_false_iff, decide_eq_false_iff_not] at hne
  have h1 : c ≠ 0x22 := by intro e; subst e; simp at hne
  have h2 : c ≠ 0x5C := by intro e; subst e; simp at hne
  have h3 : ¬ c.toNat < 0x20 := hne.1.1
  simp only [stringStep, h1, h2, h3, h80, if_false, if_true]

/-- a valid multi-byte rune is copied -/
theorem stringStep_multi (c : UInt8) (t : Bytes) (hge : 0x80 ≤ c.toNat) (r n : Nat)
    (hn2 : 2 ≤ n) (hnl : n ≤ (c :: t).length)
    (hpre : ∀ X, decodeRune ((c :: t).take n ++ X) = (r, n)) (X : Bytes) :
    stringStep ((c :: t).take n ++ X) = .chunk ((c :: t).take n) ((c :: t).take n) X := by
  obtain ⟨n', rfl⟩ : ∃ n', n = n' + 1 := ⟨n - 1, by omega⟩
  have htake : (c :: t).take (n' + 1) = c :: t.take n' := rfl
  have hlen : ((c :: t).take (n' + 1)).length = n' + 1 := by
    rw [List.length_take]; omega
  have h1 : c ≠ 0x22 := by intro e; subst e; simp at hge
  have h2 : c ≠ 0x5C := by intro e; subst e; simp at hge
  have hp := hpre X
  rw [htake] at hp ⊢
  simp only [List.cons_append] at hp ⊢
  have h3 : ¬ c.toNat < 0x20 := by omega
  have h4 : ¬ c.toNat < 0x80 := by omega
  have h5 : ¬ (r = runeError ∧ n' + 1 = 1) := by omega
  have hdrop : (c :: (t.take n' ++ X)).drop (n' + 1) = X := by
    simp only [List.drop_succ_cons]
    rw [List.drop_left' (by rw [htake] at hlen; simpa using hlen)]
  have htk : (c :: (t.take n' ++ X)).take (n' + 1) = c :: t.take n' := by
    simp only [List.take_succ_cons]
    rw [List.take_left' (by rw [htake] at hlen; simpa using hlen)]
  simp only [stringStep, h1, h2, h3, h4, if_false, hp, h5, hdrop, htk]

/-- **the escaper's output, followed by the closing quote, reads back as the input** -/
theorem readString_escapeLoop : ∀ (fuel : Nat) (s body rest : Bytes) (F : Nat),
    escapeLoop fuel s = .ok body → body.length < F →
    readString F (body ++ 0x22 :: rest) = some (s, body ++ [0x22], rest) := by
  intro fuel
  induction fuel with
  | zero =>
    intro s body rest F h hF
    cases s with
    | nil =>
      simp only [escapeLoop] at h; cases h
      obtain ⟨F', rfl⟩ : ∃ F', F = F' + 1 := ⟨F - 1, by omega⟩
      exact readString_quote F' rest
    | cons c t => simp [escapeLoop] at h
  | succ fuel ih =>
    intro s body rest F h hF
    cases s with
    | nil =>
      simp only [escapeLoop] at h; cases h
      obtain ⟨F', rfl⟩ : ∃ F', F = F' + 1 := ⟨F - 1, by omega⟩
      exact readString_quote F' rest
    | cons c t =>
      obtain ⟨F', rfl⟩ : ∃ F', F = F' + 1 := ⟨F - 1, by omega⟩
      simp only [escapeLoop] at h
      rcases decodeRune_cases c t with ⟨h80, hd⟩ | ⟨hge, hd⟩ | ⟨hge, r, n, hd, hn2, hnl, hr80, hpre⟩
      · -- ASCII
        have hif : ¬ ((decodeRune (c :: t)).1 = runeError ∧ (decodeRune (c :: t)).2 = 1) := by
          rw [hd]; unfold runeError; simp only []; omega
        rw [if_neg hif, hd] at h
        simp only [List.drop_succ_cons, List.drop_zero] at h
        cases hrec : escapeLoop fuel t with
        | err e => simp [hrec] at h
        | panic w => simp [hrec] at h
        | ok body' =>
          simp only [hrec] at h
          by_cases hesc : needsEscape c.toNat = true
          · simp only [hesc, if_true] at h; cases h
            have hlen : body'.length < F' := by
              simp only [List.length_append] at hF
              have : 2 ≤ (escapeRune c.toNat).length := by
                unfold escapeRune; (repeat' split) <;> simp
              omega
            rw [List.append_assoc, readString_chunk F' _ _ _ _ (stringStep_escapeRune c hesc _),
              ih t body' rest F' hrec hlen]
            simp
          · have hesc' : needsEscape c.toNat = false := by simpa using hesc
            simp only [hesc', Bool.false_eq_true, if_false, List.take_succ_cons, List.take_zero] at h
            cases h
            have hlen : body'.length < F' := by simp at hF; omega
            simp only [List.cons_append, List.nil_append]
            rw [readString_chunk F' _ _ _ _ (stringStep_plain c h80 hesc' _),
              ih t body' rest F' hrec hlen]
            simp
      · -- invalid UTF-8: the escaper fails
        rw [hd] at h; simp at h
      · -- valid multi-byte rune
        have hif : ¬ ((decodeRune (c :: t)).1 = runeError ∧ (decodeRune (c :: t)).2 = 1) := by
          rw [hd]; simp only []; omega
        rw [if_neg hif, hd] at h
        simp only [] at h
        cases hrec : escapeLoop fuel ((c :: t).drop n) with
        | err e => simp [hrec] at h
        | panic w => simp [hrec] at h
        | ok body' =>
          simp only [hrec] at h
          have hesc' : needsEscape r = false := by
            simp only [needsEscape, Bool.or_eq_false_iff, decide_eq_false_iff_not]
            omega
          simp only [hesc', Bool.false_eq_true, if_false] at h
          cases h
          have hlen : body'.length < F' := by
            simp only [List.length_append, List.length_take] at hF
            omega
          rw [List.append_assoc, readString_chunk F' _ _ _ _ (stringStep_multi c t hge r n hn2 hnl hpre _),
            ih _ body' rest F' hrec hlen]
          simp only [List.append_assoc]
          rw [← List.append_assoc, List.take_append_drop]


/-- the escaper never runs out of fuel, and fails exactly on invalid UTF-8 -/
theorem escapeLoop_total : ∀ (fuel : Nat) (s : Bytes), s.length ≤ fuel →
    (∀ w, escapeLoop fuel s ≠ .panic w) ∧
    (validUtf8 fuel s = true → ∃ body, escapeLoop fuel s = .ok body) ∧
    (validUtf8 fuel s = false → ∃ e, escapeLoop fuel s = .err e) := by
  intro fuel
  induction fuel with
  | zero =>
    intro s hs
    have : s = [] := List.eq_nil_of_length_eq_zero (by omega)
    subst this
    simp [escapeLoop, validUtf8]
  | succ fuel ih =>
    intro s hs
    cases s with
    | nil => simp [escapeLoop, validUtf8]
    | cons c t =>
      simp only [escapeLoop, validUtf8]
      rcases decodeRune_cases c t with ⟨h80, hd⟩ | ⟨hge, hd⟩ | ⟨hge, r, n, hd, hn2, hnl, hr80, hpre⟩
      · have hif : ¬ ((decodeRune (c :: t)).1 = runeError ∧ (decodeRune (c :: t)).2 = 1) := by
          rw [hd]; unfold runeError; simp only []; omega
        rw [if_neg hif, hd]
        simp only [List.drop_succ_cons, List.drop_zero]
        have hrec := ih t (by simp only [List.length_cons] at hs; omega)
        have hif' : ¬ (c.toNat = runeError ∧ True) := by unfold runeError; omega
        simp only [hif', if_false]
        cases hr : escapeLoop fuel t with
        | ok b =>
          refine ⟨?_, ?_, ?_⟩
          · intro w; by_cases hq : needsEscape c.toNat = true <;> simp [hq]
          · intro _; by_cases hq : needsEscape c.toNat = true <;> simp [hq]
          · intro hv; obtain ⟨e, he⟩ := hrec.2.2 hv; rw [hr] at he; cases he
        | err e =>
          refine ⟨by simp, ?_, by intro _; exact ⟨_, rfl⟩⟩
          intro hv; obtain ⟨b, hb⟩ := hrec.2.1 hv; rw [hr] at hb; cases hb
        | panic w => exact absurd hr (hrec.1 w)
      · rw [hd]; simp [runeError]
      · have hif : ¬ ((decodeRune (c :: t)).1 = runeError ∧ (decodeRune (c :: t)).2 = 1) := by
          rw [hd]; simp only []; omega
        rw [if_neg hif, hd]
        simp only []
        have hlen : ((c :: t).drop n).length ≤ fuel := by
          rw [List.length_drop]; simp at hs ⊢; omega
        have hrec := ih _ hlen
        have hif' : ¬ (r = runeError ∧ n = 1) := by omega
        simp only [hif', if_false]
        cases hr : escapeLoop fuel ((c :: t).drop n) with
        | ok b =>
          refine ⟨?_, ?_, ?_⟩
          · intro w; by_cases hq : needsEscape r = true <;> simp [hq]
          · intro _; by_cases hq : needsEscape r = true <;> simp [hq]
          · intro hv; obtain ⟨e, he⟩ := hrec.2.2 hv; rw [hr] at he; cases he
        | err e =>
          refine ⟨by simp, ?_, by intro _; exact ⟨_, rfl⟩⟩
          intro hv; obtain ⟨b, hb⟩ := hrec.2.1 hv; rw [hr] at hb; cases hb
        | panic w => exact absurd hr (hrec.1 w)

/-- `appendString` never panics; it succeeds exactly on valid UTF-8 -/
theorem appendString_total (s : Bytes) :
    (∀ w, appendString s ≠ .panic w) ∧
    (isValidUtf8 s = true → ∃ lit, appendString s = .ok lit) ∧
    (isValidUtf8 s = false → ∃ e, appendString s = .err e) := by
  have h := escapeLoop_total s.length s (Nat.le_refl _)
  unfold appendString isValidUtf8
  refine ⟨?_, ?_, ?_⟩
  · intro w
    cases hr : escapeLoop s.length s with
    | ok b => simp
    | err e => simp
    | panic w' => exact absurd hr (h.1 w')
  · intro hv; obtain ⟨b, hb⟩ := h.2.1 hv; rw [hb]; exact ⟨_, rfl⟩
  · intro hv; obtain ⟨e, he⟩ := h.2.2 hv; rw [he]; exact ⟨_, rfl⟩

/-- **C08_escape_valid**: whatever `appendString` writes is `"` body `"` where the body, read by
the JSON string reader (scanner + unquote), denotes exactly the input bytes and ends at the
closing quote. -/
theorem appendString_reads (s lit : Bytes) (h : appendString s = .ok lit) :
    ∃ body, lit = 0x22 :: (body ++ [0x22]) ∧
      ∀ (rest : Bytes) (F : Nat), body.length < F →
        readString F (body ++ 0x22 :: rest) = some (s, body ++ [0x22], rest) := by
  unfold appendString at h
  cases hr : escapeLoop s.length s with
  | ok body =>
    simp only [hr] at h; cases h
    exact ⟨body, rfl, fun rest F hF => readString_escapeLoop _ s body rest F hr hF⟩
  | err e => simp [hr] at h
  | panic w => simp [hr] at h

end J5V.Json
