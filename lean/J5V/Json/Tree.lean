import J5V.Json.Token
/-!
# Partial JSON trees

`build (tokenize bytes)` groups the token stream delivered by `Decoder.Token()` into a tree, up
to the first failing `Token()` call. The tree records exactly what a streaming client that uses
`Token()`, `More()` and `Decode(&raw)` can observe, in the order it observes it:

* `PTree.bad` — the `Token()` call that should deliver (the first token of) this value fails
  (syntax error or `io.EOF`);
* the terminator of a member / element list:
  `closed`   — `More()` is false and the next `Token()` delivers the matching closer;
  `errAfter` — `More()` is false (next byte is `]`/`}` in the wrong place, or EOF) and the next
               `Token()` fails: a client leaves its `for dec.More()` loop normally, runs whatever
               it does after the loop, and fails when it asks for the closer;
  `errIn`    — `More()` is true and the next `Token()` fails: the client fails inside the loop.

Nothing after the first failure is represented (a streaming client never gets there).

The same type is the output of the encoder model (`render`); `PTree.raw` (bytes inserted
verbatim, used for the value of an `Any`) is produced only by the encoder, never by `build`.
-/
namespace J5V.Json

inductive Term where
  | closed | errAfter | errIn
  deriving Repr, DecidableEq, Inhabited

mutual
inductive PTree where
  | str (s raw : Bytes)
  | num (text : Bytes)
  | bool (b : Bool)
  | null
  | obj (ms : PMembers)
  | arr (xs : PElems)
  | bad
  | raw (bs : Bytes)
inductive PMembers where
  | nil (t : Term)
  | cons (k kraw : Bytes) (v : PTree) (rest : PMembers)
inductive PElems where
  | nil (t : Term)
  | cons (v : PTree) (rest : PElems)
end

instance : Inhabited PTree := ⟨.bad⟩

mutual
/-- the value starting at the head of the item list -/
def buildValue : Nat → List Item → PTree × List Item
  | 0, its => (.bad, its)
  | _ + 1, [] => (.bad, [])
  | f + 1, .tok t :: rest =>
    match t with
    | .str s raw => (.str s raw, rest)
    | .num x => (.num x, rest)
    | .tru => (.bool true, rest)
    | .fls => (.bool false, rest)
    | .null => (.null, rest)
    | .lb => let r := buildMembers f rest; (.obj r.1, r.2)
    | .lk => let r := buildElems f rest; (.arr r.1, r.2)
    | .rb => (.bad, [])
    | .rk => (.bad, [])
  | _ + 1, _ :: _ => (.bad, [])
/-- members of an object whose `{` has been consumed -/
def buildMembers : Nat → List Item → PMembers × List Item
  | 0, its => (.nil .errIn, its)
  | _ + 1, [] => (.nil .errAfter, [])
  | f + 1, it :: rest =>
    match it with
    | .bad true => (.nil .errAfter, [])
    | .tok .rb => (.nil .closed, rest)
    | .tok (.str k kraw) =>
      let v := buildValue f rest
      let ms := buildMembers f v.2
      (.cons k kraw v.1 ms.1, ms.2)
    | _ => (.nil .errIn, [])
/-- elements of an array whose `[` has been consumed -/
def buildElems : Nat → List Item → PElems × List Item
  | 0, its => (.nil .errIn, its)
  | _ + 1, [] => (.nil .errAfter, [])
  | f + 1, it :: rest =>
    match it with
    | .bad true => (.nil .errAfter, [])
    | .bad false => (.nil .errIn, [])
    | .fuel => (.nil .errIn, [])
    | .tok .rk => (.nil .closed, rest)
    | .tok .rb => (.nil .errAfter, [])
    | .tok _ =>
      let v := buildValue f (it :: rest)
      let xs := buildElems f v.2
      (.cons v.1 xs.1, xs.2)
end

/-- the tree of the first top-level value of a document (anything after it is never read). -/
def readDoc (bs : Bytes) : PTree :=
  let its := tokenize bs
  (buildValue (its.length + 1) its).1

mutual
/-- bytes of a tree as the encoder writes them: no whitespace, strings by their raw literal. -/
def PTree.render : PTree → Bytes
  | .str _ raw => raw
  | .num t => t
  | .bool true => ascii "true"
  | .bool false => ascii "false"
  | .null => ascii "null"
  | .obj ms => 0x7B :: ms.render true
  | .arr xs => 0x5B :: xs.render true
  | .bad => []
  | .raw bs => bs
def PMembers.render : PMembers → Bool → Bytes
  | .nil _, _ => [0x7D]
  | .cons _ kraw v rest, first =>
    (if first then [] else [0x2C]) ++ kraw ++ [0x3A] ++ v.render ++ rest.render false
def PElems.render : PElems → Bool → Bytes
  | .nil _, _ => [0x5D]
  | .cons v rest, first => (if first then [] else [0x2C]) ++ v.render ++ rest.render false
end

mutual
/-- no failure anywhere, every container closed (and no `raw` chunk) -/
def PTree.complete : PTree → Bool
  | .obj ms => ms.complete
  | .arr xs => xs.complete
  | .bad => false
  | .raw _ => false
  | _ => true
def PMembers.complete : PMembers → Bool
  | .nil t => t == .closed
  | .cons _ _ v rest => v.complete && rest.complete
def PElems.complete : PElems → Bool
  | .nil t => t == .closed
  | .cons v rest => v.complete && rest.complete
end

mutual
def PTree.depth : PTree → Nat
  | .obj ms => ms.depth + 1
  | .arr xs => xs.depth + 1
  | _ => 0
def PMembers.depth : PMembers → Nat
  | .nil _ => 0
  | .cons _ _ v rest => max v.depth rest.depth
def PElems.depth : PElems → Nat
  | .nil _ => 0
  | .cons v rest => max v.depth rest.depth
end

mutual
/-- number of nodes (for the step bound of C06) -/
def PTree.size : PTree → Nat
  | .obj ms => ms.size + 1
  | .arr xs => xs.size + 1
  | _ => 1
def PMembers.size : PMembers → Nat
  | .nil _ => 1
  | .cons _ _ v rest => v.size + rest.size + 1
def PElems.size : PElems → Nat
  | .nil _ => 1
  | .cons v rest => v.size + rest.size + 1
end

/-- `popValueAsBytes`: `Decoder.Decode(&json.RawMessage{})` followed by `json.Compact`.
`Decode` re-scans the value with the full scanner, which accepts exactly the complete values
and additionally enforces `maxNestingDepth = 10000`. -/
def popValueAsBytes (t : PTree) : Option Bytes :=
  if t.complete && t.depth ≤ 10000 then some t.render else none

end J5V.Json
