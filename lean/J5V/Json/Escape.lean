import J5V.Go.Outcome
import J5V.Json.Utf8
/-!
# JSON string escaping (mirror of `/repo/internal/codec/stdlib.copy.go` `appendString`) and
string-literal reading (mirror of `encoding/json` scanner `stateInString*` + `unquoteBytes`)
-/
namespace J5V.Json
open J5V.Go

/-- lower-case hex digit (`strconv.AppendUint(_, _, 16)`) -/
def hexLower (n : Nat) : UInt8 :=
  if n < 10 then UInt8.ofNat (48 + n) else UInt8.ofNat (87 + n)

/-- the escape sequence `appendString` writes for a rune `r < ' '`, `"` or `\`.
For the `\u` arm: `"0000"[1+(bits.Len32(r)-1)/4:]` followed by the hex digits of `r` is always
four hex digits for `r < 0x20`. -/
def escapeRune (r : Nat) : Bytes :=
  if r = 0x22 then [0x5C, 0x22]
  else if r = 0x5C then [0x5C, 0x5C]
  else if r = 8 then [0x5C, 0x62]
  else if r = 12 then [0x5C, 0x66]
  else if r = 10 then [0x5C, 0x6E]
  else if r = 13 then [0x5C, 0x72]
  else if r = 9 then [0x5C, 0x74]
  else [0x5C, 0x75, 0x30, 0x30, hexLower (r / 16), hexLower (r % 16)]

def needsEscape (r : Nat) : Bool := r < 0x20 || r = 0x22 || r = 0x5C

/-- body of `appendString` (without the surrounding quotes), rune by rune. The Go code copies
runs of runes that need no escaping in one go (`indexNeedEscapeInString`); the bytes produced are
the same. `fuel` bounds the number of runes; `.panic` on exhaustion is proved unreachable. -/
def escapeLoop : Nat → Bytes → Outcome Bytes
  | _, [] => .ok []
  | 0, _ :: _ => .panic "fuel"
  | fuel + 1, s@(_ :: _) =>
    let rn := decodeRune s
    if rn.1 = runeError ∧ rn.2 = 1 then .err "invalid UTF-8"
    else match escapeLoop fuel (s.drop rn.2) with
      | .ok rest =>
        if needsEscape rn.1 then .ok (escapeRune rn.1 ++ rest) else .ok (s.take rn.2 ++ rest)
      | .err e => .err e
      | .panic w => .panic w

/-- `appendString(nil, in)` -/
def appendString (s : Bytes) : Outcome Bytes :=
  match escapeLoop s.length s with
  | .ok body => .ok (0x22 :: (body ++ [0x22]))
  | .err e => .err e
  | .panic w => .panic w

/-! ## reading a string literal -/

def hexVal (c : UInt8) : Option Nat :=
  let n := c.toNat
  if 48 ≤ n ∧ n ≤ 57 then some (n - 48)
  else if 97 ≤ n ∧ n ≤ 102 then some (n - 87)
  else if 65 ≤ n ∧ n ≤ 70 then some (n - 55)
  else none

/-- four hex digits -/
def hex4 : Bytes → Option (Nat × Bytes)
  | a :: b :: c :: d :: rest =>
    match hexVal a, hexVal b, hexVal c, hexVal d with
    | some x, some y, some z, some w => some (x * 4096 + y * 256 + z * 16 + w, rest)
    | _, _, _, _ => none
  | _ => none

/-- `getu4`: `\uXXXX` at the head -/
def getu4 : Bytes → Option (Nat × Bytes)
  | 0x5C :: 0x75 :: rest => hex4 rest
  | _ => none

def isHighSurr (r : Nat) : Bool := 0xD800 ≤ r && r < 0xDC00
def isLowSurr (r : Nat) : Bool := 0xDC00 ≤ r && r < 0xE000
def isSurrogate (r : Nat) : Bool := 0xD800 ≤ r && r < 0xE000

/-- the byte a single-letter escape stands for -/
def simpleEscape (e : UInt8) : Option UInt8 :=
  if e = 0x22 then some 0x22
  else if e = 0x5C then some 0x5C
  else if e = 0x2F then some 0x2F
  else if e = 0x62 then some 8
  else if e = 0x66 then some 12
  else if e = 0x6E then some 10
  else if e = 0x72 then some 13
  else if e = 0x74 then some 9
  else none

/-- `\uXXXX` with the surrogate handling of `unquoteBytes`; the argument is what follows `\u`.
Returns (decoded bytes, raw bytes consumed after `\u`, rest). -/
def readUnicode (rest2 : Bytes) : Option (Bytes × Bytes × Bytes) :=
  match hex4 rest2 with
  | none => none
  | some (rr, rest3) =>
    let pair : Option (Nat × Bytes) :=
      if isHighSurr rr then
        match getu4 rest3 with
        | some (rr1, rest4) =>
          if isLowSurr rr1 then some ((rr - 0xD800) * 1024 + (rr1 - 0xDC00) + 0x10000, rest4)
          else none
        | none => none
      else none
    match pair with
    | some (dec, rest4) => some (encodeRune dec, rest2.take 4 ++ rest3.take 6, rest4)
    | none => some (encodeRune (if isSurrogate rr then runeError else rr), rest2.take 4, rest3)

/-- one step of the string scanner + unquote -/
inductive StrStep where
  | done (rest : Bytes)                 -- closing quote
  | chunk (d raw rest : Bytes)          -- decoded bytes, raw bytes consumed, rest
  | fail
  deriving Repr, DecidableEq

def stringStep (s : Bytes) : StrStep :=
  match s with
  | [] => .fail
  | c :: rest =>
    if c = 0x22 then .done rest
    else if c = 0x5C then
      match rest with
      | [] => .fail
      | e :: rest2 =>
        match simpleEscape e with
        | some out => .chunk [out] [c, e] rest2
        | none =>
          if e = 0x75 then
            match readUnicode rest2 with
            | some (d, raw, r) => .chunk d (c :: e :: raw) r
            | none => .fail
          else .fail
    else if c.toNat < 0x20 then .fail
    else if c.toNat < 0x80 then .chunk [c] [c] rest
    else
      let rn := decodeRune s
      if rn.1 = runeError ∧ rn.2 = 1 then .chunk [0xEF, 0xBF, 0xBD] [c] rest
      else .chunk (s.take rn.2) (s.take rn.2) (s.drop rn.2)

/-- Reads the remainder of a string literal after the opening quote.
Returns (decoded bytes, raw bytes consumed up to and including the closing quote, rest) or `none`
where the scanner / unquote fails (unterminated, control character, bad escape). Invalid UTF-8
is replaced by U+FFFD exactly as `unquoteBytes` does. -/
def readString : Nat → Bytes → Option (Bytes × Bytes × Bytes)
  | 0, _ => none
  | fuel + 1, s =>
    match stringStep s with
    | .fail => none
    | .done rest => some ([], [0x22], rest)
    | .chunk d raw rest =>
      match readString fuel rest with
      | some (d', raw', r) => some (d ++ d', raw ++ raw', r)
      | none => none

end J5V.Json
