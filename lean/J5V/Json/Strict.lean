import J5V.Json.Tree
/-!
# Strict reading of a whole document (the re-reader of C08)

`parse bytes` succeeds iff the input is exactly one JSON value (RFC 8259 grammar: the token machine
of `J5V.Json.Token` enforces the value / member / element grammar, string escapes and control
characters, the number grammar) surrounded by optional whitespace: every `Token()` call succeeds,
every container is closed and nothing but whitespace follows the value. The result keeps the
number / string distinction (`PTree.num` vs `PTree.str`).

It is built on the same tokenizer as the decoder model; that tokenizer is validated against
`encoding/json` on arbitrary bytes by the `tok` op of the correspondence. (The Go side of the
check re-reads the real encoder output with its own strict tokenizer, stream `codec.wire`.)
-/
namespace J5V.Json

def parse (bs : Bytes) : Option PTree :=
  let its := tokenize bs
  let r := buildValue (its.length + 1) its
  if r.2.isEmpty && r.1.complete then some r.1 else none

end J5V.Json
