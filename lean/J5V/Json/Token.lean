import J5V.Json.Escape
/-!
# Token-level spec of `encoding/json`'s `Decoder.Token()` / `More()` with `UseNumber()`

Mirror of `encoding/json/stream.go` (`Token`, `tokenPrepareForDecode`, `tokenValueAllowed`,
`tokenValueEnd`, `peek`, `More`) and of the scanner states reached by `Decode` on a scalar
(`scanner.go`: `stateBeginValue`, `state0/1/Neg/Dot/Dot0/E/ESign/E0`, `stateT…`, `stateF…`,
`stateN…`, `stateInString…`), Go 1.24.

`tokenize` is the complete run of "call `Token()` until it fails": a list of delivered tokens,
ended either by the end of the list (`peek` hit EOF: `Token()` returns `io.EOF`, `More()` is
false) or by an `Item.bad closer` (the next `Token()` call returns a syntax error; `closer` records
whether the offending byte is `]` or `}`, which is what `More()` looks at).

Errors are delayed exactly as in Go: `1x` delivers the number `1` (the scanner stops a top-level
scalar at the first byte that cannot continue it) and fails on the *next* call.
-/
namespace J5V.Json

inductive Tok where
  | lb | rb            -- { }
  | lk | rk            -- [ ]
  | str (s raw : Bytes) -- decoded bytes, raw literal including both quotes
  | num (text : Bytes)
  | tru | fls | null
  deriving Repr, DecidableEq, Inhabited

inductive Item where
  | tok (t : Tok)
  | bad (closer : Bool)
  | fuel               -- fuel exhausted: proved unreachable (`tokenize_no_fuel`)
  deriving Repr, DecidableEq, Inhabited

/-- `tokenState` -/
inductive TS where
  | top | arrStart | arrValue | arrComma | objStart | objKey | objColon | objValue | objComma
  deriving Repr, DecidableEq, Inhabited

def isSpace (c : UInt8) : Bool := c = 0x20 || c = 0x09 || c = 0x0D || c = 0x0A

def skipWs : Bytes → Bytes
  | [] => []
  | c :: rest => if isSpace c then skipWs rest else c :: rest

def isDigit (c : UInt8) : Bool := 0x30 ≤ c.toNat && c.toNat ≤ 0x39

/-- longest prefix of ASCII digits -/
def spanDigits : Bytes → Bytes × Bytes
  | [] => ([], [])
  | c :: rest =>
    if isDigit c then let r := spanDigits rest; (c :: r.1, r.2) else ([], c :: rest)

/-- optional leading `-` (`stateBeginValue` → `stateNeg`) -/
def scanSign : Bytes → Bytes × Bytes
  | 0x2D :: r => ([0x2D], r)
  | s => ([], s)

/-- `0` or a non-zero digit followed by digits (`state0` / `state1`) -/
def scanInt : Bytes → Option (Bytes × Bytes)
  | [] => none
  | c :: r =>
    if c = 0x30 then some ([c], r)
    else if isDigit c then let d := spanDigits r; some (c :: d.1, d.2)
    else none

/-- optional `.` followed by at least one digit (`stateDot` / `stateDot0`) -/
def scanFrac : Bytes → Option (Bytes × Bytes)
  | 0x2E :: r2 =>
    let d := spanDigits r2
    if d.1.isEmpty then none else some (0x2E :: d.1, d.2)
  | s => some ([], s)

/-- optional `+` / `-` of an exponent (`stateE` → `stateESign`) -/
def scanExpSign : Bytes → Bytes × Bytes
  | 0x2B :: r => ([0x2B], r)
  | 0x2D :: r => ([0x2D], r)
  | s => ([], s)

/-- optional exponent: `e`/`E`, optional sign, at least one digit (`stateE` / `stateESign` / `stateE0`) -/
def scanExp : Bytes → Option (Bytes × Bytes)
  | [] => some ([], [])
  | e :: r3 =>
    if e = 0x65 ∨ e = 0x45 then
      let sg := scanExpSign r3
      let d := spanDigits sg.2
      if d.1.isEmpty then none else some (e :: (sg.1 ++ d.1), d.2)
    else some ([], e :: r3)

/-- scanner states `state1/0` … `stateE0`: the number literal at the head. `none` = `scanError`
(or `io.ErrUnexpectedEOF` when the input ends inside the literal). -/
def scanNumber (s : Bytes) : Option (Bytes × Bytes) :=
  let sg := scanSign s
  match scanInt sg.2 with
  | none => none
  | some (ip, a1) =>
    match scanFrac a1 with
    | none => none
    | some (fp, a2) =>
      match scanExp a2 with
      | none => none
      | some (ep, a3) => some (sg.1 ++ ip ++ fp ++ ep, a3)

/-- strip an exact prefix -/
def stripPrefix : Bytes → Bytes → Option Bytes
  | [], s => some s
  | _ :: _, [] => none
  | p :: ps, c :: cs => if p = c then stripPrefix ps cs else none

/-- a scalar value at the head (first byte is not space, not one of `[]{}:,`). -/
def scanScalar (s : Bytes) : Option (Tok × Bytes) :=
  match s with
  | [] => none
  | c :: rest =>
    if c = 0x22 then
      match readString (rest.length + 1) rest with
      | some (d, raw, r) => some (.str d (c :: raw), r)
      | none => none
    else if c = 0x74 then (stripPrefix [0x72, 0x75, 0x65] rest).map fun r => (.tru, r)
    else if c = 0x66 then (stripPrefix [0x61, 0x6C, 0x73, 0x65] rest).map fun r => (.fls, r)
    else if c = 0x6E then (stripPrefix [0x75, 0x6C, 0x6C] rest).map fun r => (.null, r)
    else if c = 0x2D ∨ isDigit c then (scanNumber s).map fun p => (.num p.1, p.2)
    else none

def valueAllowed : TS → Bool
  | .top | .arrStart | .arrValue | .objValue => true
  | _ => false

def valueEnd : TS → TS
  | .arrStart | .arrValue => .arrComma
  | .objValue => .objComma
  | s => s

/-- one iteration of the `for` loop in `Decoder.Token()` -/
inductive TokStep where
  | eof                                              -- `peek` hit the end of input
  | bad (closer : Bool)                              -- the call fails
  | emit (t : Tok) (st : TS) (stack : List TS) (rest : Bytes)  -- a token is delivered
  | skip (st : TS) (stack : List TS) (rest : Bytes)  -- `:` or `,` consumed, loop again
  deriving Repr, DecidableEq

def tokStep (st : TS) (stack : List TS) (inp : Bytes) : TokStep :=
  match skipWs inp with
  | [] => .eof
  | c :: rest =>
    if c = 0x5B then
      if valueAllowed st then .emit .lk .arrStart (st :: stack) rest else .bad false
    else if c = 0x5D then
      if st = .arrStart ∨ st = .arrComma then
        match stack with
        | [] => .bad true
        | s :: stack' => .emit .rk (valueEnd s) stack' rest
      else .bad true
    else if c = 0x7B then
      if valueAllowed st then .emit .lb .objStart (st :: stack) rest else .bad false
    else if c = 0x7D then
      if st = .objStart ∨ st = .objComma then
        match stack with
        | [] => .bad true
        | s :: stack' => .emit .rb (valueEnd s) stack' rest
      else .bad true
    else if c = 0x3A then
      if st = .objColon then .skip .objValue stack rest else .bad false
    else if c = 0x2C then
      if st = .arrComma then .skip .arrValue stack rest
      else if st = .objComma then .skip .objKey stack rest
      else .bad false
    else if c = 0x22 ∧ (st = .objStart ∨ st = .objKey) then
      match scanScalar (c :: rest) with
      | some (t, r) => .emit t .objColon stack r
      | none => .bad false
    else if !valueAllowed st then .bad false
    else
      match scanScalar (c :: rest) with
      | some (t, r) => .emit t (valueEnd st) stack r
      | none => .bad false

/-- repeated `Token()` -/
def tokLoop : Nat → TS → List TS → Bytes → List Item
  | 0, _, _, _ => [.fuel]
  | fuel + 1, st, stack, inp =>
    match tokStep st stack inp with
    | .eof => []
    | .bad closer => [.bad closer]
    | .emit t st' stack' rest => .tok t :: tokLoop fuel st' stack' rest
    | .skip st' stack' rest => tokLoop fuel st' stack' rest

/-- every iteration consumes at least one byte, so `length + 1` iterations suffice
(the last one sees the end of input). -/
def tokenize (bs : Bytes) : List Item := tokLoop (bs.length + 1) .top [] bs

end J5V.Json
