import J5V.Compile.StrcaseProofs
import J5V.Compile.ConvertProofs
import J5V.Compile.Entity
import J5V.Generated.CompileconstsFacts
import J5V.Compile.EntityProofs
import J5V.Compile.PathProofs
/-!
# C17 — entity declarations expand to a complete, mutually consistent API

Statements about `J5V.Compile.Entity` (the model of `sourcewalk/entity.go`) and the strcase model,
for every entity declaration; no bound on the number of keys, events, commands, summaries.
-/
namespace J5V.Props.C17
open J5V.Go J5V.Compile J5V.Compile.Entity

/-! ## The two naming routes

Before `fix: be45979`, `entity.go` *named* the State / Event / EventType objects
`ToCamel(name ++ suffix)` but *referred* to them as
`componentName(suffix) = ToCamel(name) ++ ToCamel(suffix)`. The strcase facts that made this a
defect stay here as theorems (they are what a regression would run into); the model follows the
repaired code, where both routes are `componentName`. -/

/-- the old assumption: the two routes agree for every identifier -/
def NameRoutesAgree : Prop :=
  ∀ n : Str, NoSpace n →
    toCamel (n ++ b!"State") = toCamel n ++ toCamel b!"State" ∧
    toCamel (n ++ b!"Event") = toCamel n ++ toCamel b!"Event" ∧
    toCamel (n ++ b!"EventType") = toCamel n ++ toCamel b!"EventType"

/-- It is false: strcase lower-cases a capital that follows a capital, so for a name ending in a
capital the old code called the object `FooAstate` while references said `FooAState`. -/
theorem C17_name_prefix_compat_counterexample : ¬ NameRoutesAgree := by
  intro h
  have := (h b!"FooA" (by decide)).1
  revert this
  decide

/-- The routes agree exactly when the name does not end in `A`–`Z`. -/
theorem C17_name_prefix_compat_iff (n : Str) (hn : NoSpace n) :
    (toCamel (n ++ b!"State") = toCamel n ++ toCamel b!"State" ∧
     toCamel (n ++ b!"Event") = toCamel n ++ toCamel b!"Event" ∧
     toCamel (n ++ b!"EventType") = toCamel n ++ toCamel b!"EventType") ↔ lastIsCap n = false := by
  rw [toCamel_capWord _ capWord_State, toCamel_capWord _ capWord_Event,
    toCamel_capWord _ capWord_EventType,
    toCamel_append_iff n _ hn capWord_State, toCamel_append_iff n _ hn capWord_Event,
    toCamel_append_iff n _ hn capWord_EventType]
  simp

/-- **Names and references coincide** (repaired code): every object the expansion creates is
named by the same function its references use, for every entity name. -/
theorem C17_name_routes (e : Entity) :
    (stateObject e).name = componentName e b!"State" ∧
    (eventObject e).name = componentName e b!"Event" ∧
    (eventOneof e).name = componentName e b!"EventType" ∧
    (keysObject e).name = componentName e b!"Keys" ∧
    (dataObject e).name = componentName e b!"Data" ∧
    (statusEnum e).name = componentName e b!"Status" ∧
    -- the references
    (stateObject e).props.map (·.schema) =
      [ refField b!"j5.state.v1" b!"StateMetadata",
        .objectRef [] (componentName e b!"Keys") true [],
        .objectRef [] (componentName e b!"Data") false [],
        .enumRef [] (componentName e b!"Status") [] (some (defaultFilters e)) ] ∧
    (eventObject e).props.map (·.schema) =
      [ refField b!"j5.state.v1" b!"EventMetadata",
        .objectRef [] (componentName e b!"Keys") true [],
        .oneofRef [] (componentName e b!"EventType") [] true ] :=
  ⟨rfl, rfl, rfl, rfl, rfl, rfl, rfl, rfl⟩

/-! ## Components -/

/-- kind and name of what the file visitor receives -/
def itemLabel : Item → String × List Str
  | .object o => ("object", [o.name])
  | .oneof o => ("oneof", [o.name])
  | .enum en => ("enum", [en.name])
  | .serviceFile ss => ("services", ss.map fun s => s.name.getD [])
  | .topicFile ts => ("topics", ts.map (·.name))
  | .abort => ("abort", [])

/-- an entity whose status filters name declared statuses and whose summaries are distinct -/
def ValidEntity (e : Entity) : Prop := filtersOk e = true ∧ summariesDistinct e.summaries = true

/-- **Components.** A valid entity expands, in this order, to: Keys, Data (objects), Status (enum),
State (object), EventType (oneof), Event (object), the query service, the command services, the
publish topic, one upsert topic per summary, then its nested schemas — all named
`CamelCase(entity) ++ suffix`, for every entity name. -/
theorem C17_components (pkg : Str) (e : Entity) (hv : ValidEntity e) :
    let C := toCamel e.name
    (expand pkg e).map itemLabel =
      [ ("object", [C ++ b!"Keys"]), ("object", [C ++ b!"Data"]), ("enum", [C ++ b!"Status"]),
        ("object", [C ++ b!"State"]), ("oneof", [C ++ b!"EventType"]), ("object", [C ++ b!"Event"]),
        ("services", [C ++ b!"Query"]),
        ("services", e.commands.map fun s => match s.name with
            | some n => if hasSuffix b!"Command" n then n else n ++ b!"Command"
            | none => C ++ b!"Command"),
        ("topics", [C ++ b!"Publish"]),
        ("topics", e.summaries.map fun s =>
            if s.name = [] then C ++ b!"Summary" else C ++ toCamel s.name) ] ++
      e.nested.map fun n => itemLabel (nestedItem n) := by
  intro C
  obtain ⟨hf, hs⟩ := hv
  have hK : toCamel b!"Keys" = b!"Keys" := by decide
  have hD : toCamel b!"Data" = b!"Data" := by decide
  have hS : toCamel b!"Status" = b!"Status" := by decide
  have hSt : toCamel b!"State" = b!"State" := by decide
  have hEv : toCamel b!"Event" = b!"Event" := by decide
  have hET : toCamel b!"EventType" = b!"EventType" := by decide
  simp only [expand, hf, hs, if_true, List.map_append, List.map_cons, List.map_nil, itemLabel,
    keysObject, dataObject, statusEnum, stateObject, eventOneof, eventObject, eventTypeName,
    componentName, ObjDecl.name, hK, hD, hS, hSt, hEv, hET,
    queryService, publishTopic, Option.getD, List.map_map]
  simp only [List.cons_append, List.nil_append, List.cons.injEq, true_and, Prod.mk.injEq,
    List.append_cancel_right_eq, and_true]
  have hcmd : List.map ((fun s : Service => match s.name with | some x => x | none => [])
        ∘ commandService pkg e) e.commands =
      List.map (fun s : Service => match s.name with
          | some n => if hasSuffix b!"Command" n then n else n ++ b!"Command"
          | none => C ++ b!"Command") e.commands := by
    apply List.map_congr_left
    intro s _
    simp only [Function.comp, commandService]
    cases s.name <;> rfl
  have hsum : List.map ((fun x : Topic => x.name) ∘ summaryTopic pkg e) e.summaries =
      List.map (fun s : Summary =>
        if s.name = [] then C ++ b!"Summary" else C ++ toCamel s.name) e.summaries := by
    apply List.map_congr_left
    intro s _
    simp only [Function.comp, summaryTopic, summaryTopicName, C]
  refine ⟨rfl, rfl, rfl, rfl, rfl, rfl, rfl, hcmd, rfl, hsum, ?_⟩
  apply List.map_congr_left
  intro n _
  rfl

/-- **One annotation.** Keys, Data, State and Event carry the PSM annotation with the same entity
name (`snake(entity)`) and their own part; the query and command services carry the same entity
name; publish and summary topics carry `<package>.<CamelCase(entity)>`. -/
theorem C17_annotation (pkg : Str) (e : Entity) :
    (keysObject e).psm = some ⟨toSnake e.name, .keys⟩ ∧
    (dataObject e).psm = some ⟨toSnake e.name, .data⟩ ∧
    (stateObject e).psm = some ⟨toSnake e.name, .state⟩ ∧
    (eventObject e).psm = some ⟨toSnake e.name, .event⟩ ∧
    (queryService pkg e).sopt = .query (toSnake e.name) ∧
    (∀ s ∈ e.commands, (commandService pkg e s).sopt = .command (toSnake e.name)) ∧
    (∃ m, (publishTopic pkg e).type = .event (pkg ++ b!"." ++ toCamel e.name) m) ∧
    (∀ s ∈ e.summaries, ∃ m,
      (summaryTopic pkg e s).type = .upsert (pkg ++ b!"." ++ toCamel e.name) m) :=
  ⟨rfl, rfl, rfl, rfl, rfl, fun _ _ => rfl, ⟨_, rfl⟩, fun _ _ => ⟨_, rfl⟩⟩

/-- **State and Event shape.** State = metadata, flattened keys, data, status; Event = metadata,
flattened keys, the event oneof; all required, in this order (so numbered 1…). -/
theorem C17_state_event_shape (e : Entity) :
    (stateObject e).props.map (fun p => (p.name, p.required)) =
      [(b!"metadata", true), (b!"keys", true), (b!"data", true), (b!"status", true)] ∧
    (eventObject e).props.map (fun p => (p.name, p.required)) =
      [(b!"metadata", true), (b!"keys", true), (b!"event", true)] ∧
    (stateObject e).props[1]?.map (·.schema) =
      some (.objectRef [] (componentName e b!"Keys") true []) ∧
    (eventObject e).props[1]?.map (·.schema) =
      some (.objectRef [] (componentName e b!"Keys") true []) :=
  ⟨rfl, rfl, rfl, rfl⟩

/-- **The event oneof.** Exactly one option per declared event, in declaration order, named
`lowerCamel(event)`, pointing at `<EventType>.<event>`; and the event objects themselves are the
nested schemas of the oneof, in the same order. -/
theorem C17_event_oneof (e : Entity) :
    (eventOneof e).props.length = e.events.length ∧
    (eventOneof e).nested = e.events.map Nested.object ∧
    ∀ i (hi : i < e.events.length) (hp : i < (eventOneof e).props.length),
      (eventOneof e).props[i].name = toLowerCamel e.events[i].name ∧
      (eventOneof e).props[i].schema =
        .objectRef [] ((eventOneof e).name ++ b!"." ++ e.events[i].name) false [] := by
  refine ⟨by simp [eventOneof, ObjDecl.props], rfl, ?_⟩
  intro i hi hp
  simp [eventOneof, ObjDecl.props, ObjDecl.name, Property.name, Property.schema]

/-- **Primary keys are path parameters, in declaration order.** The request of Get (and of
Events) consists of the key-typed keys that are primary or shard keys, in declaration order; the
HTTP path is exactly `:k1/:k2/…` over those (plus `/events`). -/
theorem C17_primary_keys (e : Entity) :
    (getKeys e).Sublist (e.keys.map (·.prop)) ∧
    (getMethod e).request = some (getKeys e) ∧
    (getMethod e).path = joinWith b!"/" ((getKeys e).map fun p => b!":" ++ p.name) ∧
    (eventsMethod e).path =
      joinWith b!"/" (((getKeys e).map fun p => b!":" ++ p.name) ++ [b!"events"]) ∧
    (∀ k ∈ e.keys, keyInfo k = some true → k.prop ∈ getKeys e) := by
  refine ⟨?_, rfl, rfl, rfl, ?_⟩
  · unfold getKeys
    induction e.keys with
    | nil => simp
    | cons k ks ih =>
      simp only [List.filterMap_cons, List.map_cons]
      split
      · exact ih.cons _
      · rename_i b hb
        cases hk : keyInfo k with
        | none => simp [hk] at hb
        | some pk =>
          cases pk <;> cases hs : k.shard <;> simp [hk, hs] at hb <;> subst hb <;> exact ih.cons_cons _
  · intro k hk hp
    unfold getKeys
    exact List.mem_filterMap.mpr ⟨k, hk, by simp [hp]⟩

/-- a primary key field is required in the emitted descriptor even when not marked so -/
theorem C17_primary_key_required (c : Ctx) (np : List Str) (io : Bool) (number : Nat) (name : Str)
    (req opt : Bool) (fmt : KeyFmt) (tenant : Option Str) (rules : Rules) (lr : Bool) (f : FieldSkel)
    (h : (bProperty c np io number
            (.mk name req opt (.key fmt (.ek (.primary true) tenant) rules lr))).fld = some f) :
    f.req = true := by
  rw [bProperty] at h
  · simp only [bField, scalarField, Option.getD] at h
    have := finishProperty_fld _ _ _ _ _ _ _ _ _ _ h
    simp [this.2.2.2.2.2.2.1, EntKey.isPrimary]
  · intro items r h; cases h
  · intro items r h; cases h

/-- **Statuses are numbered in declaration order after UNSPECIFIED**, with the prefix
`SCREAMING_SNAKE(entity)_STATUS_`. (Hypothesis: the first status is not itself the explicit
zero `UNSPECIFIED`.) -/
theorem C17_status_numbering (e : Entity)
    (h : ∀ first rest, e.statuses = first :: rest →
      isExplicitUnspecified (toScreamingSnake e.name ++ b!"_STATUS_") first = false) :
    let pfx := toScreamingSnake e.name ++ b!"_STATUS_"
    (convEnum (statusEnum e)).values =
      (pfx ++ b!"UNSPECIFIED", 0) ::
        e.statuses.zipIdx.map fun (n, i) => (enumFull pfx n, i + 1) := by
  intro pfx
  have hp : enumPrefix (statusEnum e) = pfx := by
    have hne : toScreamingSnake e.name ++ b!"_STATUS_" ≠ [] := by simp
    simp only [enumPrefix, statusEnum, statusPrefix, pfx, hne, if_false]
  simp only [convEnum, hp]
  exact enumValues_implicit _ _ h

/-! ## The converted skeleton -/

/-- **State message.** When the State object converts without error, its message has exactly the
four fields `metadata = 1, keys = 2, data = 3, status = 4`. -/
theorem C17_state_skeleton (c : Ctx) (e : Entity)
    (h : (convDecl c [] false [] (stateObject e)).errs = 0) :
    declMsgOf c [] false [] (stateObject e) ∈ (convDecl c [] false [] (stateObject e)).msgs ∧
    (declMsgOf c [] false [] (stateObject e)).fields.map (fun f => (f.name, f.number)) =
      [(b!"metadata", 1), (b!"keys", 2), (b!"data", 3), (b!"status", 4)] := by
  refine ⟨convDecl_msgOf _ _ _ _ _, ?_⟩
  rw [declMsgOf_fields c [] false [] (stateObject e) h]
  have h1 : toSnake b!"metadata" = b!"metadata" := by decide
  have h2 : toSnake b!"keys" = b!"keys" := by decide
  have h3 : toSnake b!"data" = b!"data" := by decide
  have h4 : toSnake b!"status" = b!"status" := by decide
  simp [stateObject, ObjDecl.props, List.zipIdx_cons, Property.name, h1, h2, h3, h4]

/-- **Event message**: `metadata = 1, keys = 2, event = 3`. -/
theorem C17_event_skeleton (c : Ctx) (e : Entity)
    (h : (convDecl c [] false [] (eventObject e)).errs = 0) :
    declMsgOf c [] false [] (eventObject e) ∈ (convDecl c [] false [] (eventObject e)).msgs ∧
    (declMsgOf c [] false [] (eventObject e)).fields.map (fun f => (f.name, f.number)) =
      [(b!"metadata", 1), (b!"keys", 2), (b!"event", 3)] := by
  refine ⟨convDecl_msgOf _ _ _ _ _, ?_⟩
  rw [declMsgOf_fields c [] false [] (eventObject e) h]
  have h1 : toSnake b!"metadata" = b!"metadata" := by decide
  have h2 : toSnake b!"keys" = b!"keys" := by decide
  have h3 : toSnake b!"event" = b!"event" := by decide
  simp [eventObject, ObjDecl.props, List.zipIdx_cons, Property.name, h1, h2, h3]

/-- **Event oneof message.** When the EventType oneof converts without error, its message has one
field per declared event, numbered from 1 in declaration order, named
`snake(lowerCamel(event))`, all members of oneof 0. -/
theorem C17_event_oneof_skeleton (c : Ctx) (e : Entity)
    (h : (convDecl c [] true [] (eventOneof e)).errs = 0) :
    declMsgOf c [] true [] (eventOneof e) ∈ (convDecl c [] true [] (eventOneof e)).msgs ∧
    (declMsgOf c [] true [] (eventOneof e)).fields.map (fun f => (f.name, f.number)) =
      e.events.zipIdx.map (fun (ev, i) => (toSnake (toLowerCamel ev.name), i + 1)) ∧
    (∀ f ∈ (declMsgOf c [] true [] (eventOneof e)).fields, f.oneof = some 0) := by
  refine ⟨convDecl_msgOf _ _ _ _ _, ?_, ?_⟩
  · rw [declMsgOf_fields c [] true [] (eventOneof e) h]
    simp only [eventOneof, ObjDecl.props, List.nil_append, List.zipIdx_map, List.map_map]
    apply List.map_congr_left
    intro x _
    rfl
  · intro f hf
    have := bProps_fld_oneof c ([] ++ [(eventOneof e).name]) true 1 ([] ++ (eventOneof e).props) f
      (by simpa [declMsgOf, declMsg, mkMsg, MsgSkel.fields] using hf)
    simpa using this

/-- **The entity on the generated files.** What a valid entity contributes, through conversion,
to the files of its source file (for every conversion context, every entity shape):
* main file — exactly the messages `Keys, Data, State, EventType, Event` in this order (each the
  message of its object, `C17_state_skeleton` etc. give their fields), then the entity's nested
  schemas; exactly the enum `Status` (numbered by `C17_status_numbering`), then nested enums;
* `.service` file — the query service (one proto service) followed by one proto service per
  declared command service;
* `.topic` file — the publish topic service followed by one upsert topic service per summary.
Nothing else; together with `C02_exactness_file` this fixes the entity's part of every file. -/
theorem C17_entity_files (c : Ctx) (pkg : Str) (e : Entity) (hv : ValidEntity e) :
    ((expand pkg e).filter (·.target = .main)).flatMap (itemMsgs c) =
      [ declMsgOf c [] false [] (keysObject e), declMsgOf c [] false [] (dataObject e),
        declMsgOf c [] false [] (stateObject e), declMsgOf c [] true [] (eventOneof e),
        declMsgOf c [] false [] (eventObject e) ] ++ (e.nested.map nestedItem).flatMap (itemMsgs c) ∧
    ((expand pkg e).filter (·.target = .main)).flatMap (itemEnums c) =
      convEnum (statusEnum e) :: (e.nested.map nestedItem).flatMap (itemEnums c) ∧
    ((expand pkg e).filter (·.target = .service)).flatMap (itemSvcs c) =
      serviceSvcs c (queryService pkg e) ++
        (e.commands.map (commandService pkg e)).flatMap (serviceSvcs c) ∧
    ((expand pkg e).filter (·.target = .topic)).flatMap (itemSvcs c) =
      (topicNodes (publishTopic pkg e)).map topicSvc ++
        (e.summaries.map (summaryTopic pkg e)).flatMap fun t => (topicNodes t).map topicSvc :=
  entity_files c pkg e hv

/-- **The query service on the skeleton**: one proto service `<C>QueryService` carrying the entity
annotation, with exactly the rpcs `<C>Get`, `<C>List`, `<C>Events` in this order — input
`<M>Request`, output `<M>Response`, verb GET, annotated get / list / events, path
`/<base>/q/…` with every `:key` rewritten to `{snake(key)}` (`C02_path_rewrite`; the keys are the
primary keys in declaration order, `C17_primary_keys`). -/
theorem C17_query_service_skeleton (c : Ctx) (pkg : Str) (e : Entity) :
    serviceSvcs c (queryService pkg e) =
      [{ name := toCamel e.name ++ b!"Query" ++ b!"Service", sopt := .query (snakeName e),
         methods := [getMethod e, listMethod e, eventsMethod e].map
           (methodSkelOf (some (b!"/" ++ baseUrlPath pkg e ++ b!"/q"))) }] ∧
    ([getMethod e, listMethod e, eventsMethod e].map
        (methodSkelOf (some (b!"/" ++ baseUrlPath pkg e ++ b!"/q")))).map
      (fun m => (m.name, m.input, m.output, m.mopt, m.http.map (·.verb))) =
      [ (toCamel e.name ++ b!"Get", toCamel e.name ++ b!"Get" ++ b!"Request",
          toCamel e.name ++ b!"Get" ++ b!"Response", .get, some .get),
        (toCamel e.name ++ b!"List", toCamel e.name ++ b!"List" ++ b!"Request",
          toCamel e.name ++ b!"List" ++ b!"Response", .list, some .get),
        (toCamel e.name ++ b!"Events", toCamel e.name ++ b!"Events" ++ b!"Request",
          toCamel e.name ++ b!"Events" ++ b!"Response", .events, some .get) ] :=
  ⟨queryService_svcs c pkg e, rfl⟩

/-- **The query routes in explicit `{key}` form, on the skeleton.** For a base path made of clean
literal parts `b1 … bn` (`CleanPart`: what `path.Clean` keeps — non-empty, not `.` / `..`, no slash —
and not starting with `:`; the default `BaseUrlPath`, package segments + snake(entity), is of that
form) and key names without a slash, the `google.api.http` patterns the compiler emits for the
three rpcs of `<C>QueryService` (`C17_query_service_skeleton`) are
`/b1/…/bn/q/{snake(k1)}/…/{snake(km)}` for Get over the primary / shard keys in declaration order
(`C17_primary_keys`), the same over the shard keys for List, and `…/{snake(km)}/events` for Events:
`path.Join` + `path.Clean` change nothing, `strings.Split` gives the parts back, every `:key` part
becomes `{snake(key)}` and every literal part stays. -/
theorem C17_query_paths_skeleton (pkg : Str) (e : Entity) (bparts : List Str)
    (hb : baseUrlPath pkg e = joinWith b!"/" bparts) (hbne : bparts ≠ [])
    (hbc : ∀ p ∈ bparts, CleanPart p ∧ p.head? ≠ some 58)
    (hk : ∀ k ∈ e.keys, 47 ∉ k.prop.name) :
    (methodSkelOf (some (b!"/" ++ baseUrlPath pkg e ++ b!"/q")) (getMethod e)).http.map (·.path) =
      some (b!"/" ++ joinWith b!"/" (bparts ++ [b!"q"] ++
        ((getKeys e).map fun k => b!"{" ++ toSnake k.name ++ b!"}"))) ∧
    (methodSkelOf (some (b!"/" ++ baseUrlPath pkg e ++ b!"/q")) (listMethod e)).http.map (·.path) =
      some (b!"/" ++ joinWith b!"/" (bparts ++ [b!"q"] ++
        ((listKeys e).map fun k => b!"{" ++ toSnake k.name ++ b!"}"))) ∧
    (methodSkelOf (some (b!"/" ++ baseUrlPath pkg e ++ b!"/q")) (eventsMethod e)).http.map (·.path) =
      some (b!"/" ++ joinWith b!"/" (bparts ++ [b!"q"] ++
        ((getKeys e).map fun k => b!"{" ++ toSnake k.name ++ b!"}") ++ [b!"events"])) :=
  query_paths pkg e bparts hb hbne hbc hk

/-! ## Non-vacuity -/

def exEntity : Entity :=
  { name := b!"fooBar", baseUrl := [],
    keys := [ { prop := .mk b!"fooId" false false (.key .uuid (.ek (.primary true) none) [] false), shard := false },
              { prop := .mk b!"tenantId" false false (.key .uuid (.ek .plain (some b!"tenant")) [] false), shard := true } ],
    data := [.mk b!"title" false false (.string [] false)],
    statuses := [b!"ACTIVE", b!"DONE"],
    events := [.mk b!"Created" [] [] none, .mk b!"Updated" [] [] none],
    commands := [], summaries := [{ name := [], props := [] }],
    query := some { eventsInGet := true, filters := [b!"ACTIVE"] }, nested := [] }

example : ValidEntity exEntity := ⟨by decide, by decide⟩

/-- the formerly failing class is covered now: an entity name ending in a capital -/
example : ValidEntity { exEntity with name := b!"FooA" } := ⟨by decide, by decide⟩

example : (getMethod exEntity).path = b!":fooId/:tenantId" := by decide

example : (convEnum (statusEnum exEntity)).values =
    [(b!"FOO_BAR_STATUS_UNSPECIFIED", 0), (b!"FOO_BAR_STATUS_ACTIVE", 1), (b!"FOO_BAR_STATUS_DONE", 2)] := by
  decide

/-- the hypotheses of `C17_query_paths_skeleton` on the example entity (default base path) and the
three emitted patterns -/
example : baseUrlPath b!"foo.v1" exEntity = joinWith b!"/" [b!"foo", b!"v1", b!"foo_bar"] ∧
    (∀ k ∈ exEntity.keys, 47 ∉ k.prop.name) ∧
    (methodSkelOf (some (b!"/" ++ baseUrlPath b!"foo.v1" exEntity ++ b!"/q")) (getMethod exEntity)).http.map (·.path) =
      some b!"/foo/v1/foo_bar/q/{foo_id}/{tenant_id}" ∧
    (methodSkelOf (some (b!"/" ++ baseUrlPath b!"foo.v1" exEntity ++ b!"/q")) (listMethod exEntity)).http.map (·.path) =
      some b!"/foo/v1/foo_bar/q/{tenant_id}" ∧
    (methodSkelOf (some (b!"/" ++ baseUrlPath b!"foo.v1" exEntity ++ b!"/q")) (eventsMethod exEntity)).http.map (·.path) =
      some b!"/foo/v1/foo_bar/q/{foo_id}/{tenant_id}/events" := by decide

example : ∀ p ∈ [b!"foo", b!"v1", b!"foo_bar"], CleanPart p ∧ p.head? ≠ some 58 := by
  intro p hp
  simp only [List.mem_cons, List.mem_nil_iff, or_false] at hp
  rcases hp with rfl | rfl | rfl <;>
    exact ⟨⟨by decide, by decide, by decide, by decide⟩, by decide⟩

/-- the witness of the counterexample: `FooA` -/
example : toCamel (b!"FooA" ++ b!"State") = b!"FooAstate" ∧ toCamel b!"FooA" ++ b!"State" = b!"FooAState" := by
  decide

end J5V.Props.C17

/-! ## Obligations over facts regenerated from the current source (`extract compileconsts`) -/
namespace J5V.Props.C17
open J5V.Generated.Compileconsts

/-- every strcase call of `entity.go` takes a plain operand (a field, `name`, `suffix`): the
defect shape `strcase.ToCamel(entity.Name + "State")` — case conversion of a concatenation —
does not occur. The calls, in source order: -/
theorem C17_src_strcase_calls :
    (strcaseCalls.filter fun (f, _, _) => f = "sourcewalk/entity.go").map (fun (_, fn, call) => (fn, call)) =
      [ ("entityNode.componentName", "strcase.ToCamel(ent.Schema.Name)"),
        ("entityNode.componentName", "strcase.ToCamel(suffix)"),
        ("entityNode.fullName", "strcase.ToCamel(ent.Schema.Name)"),
        ("entityNode.run", "strcase.ToSnake(ent.Schema.Name)"),
        ("entityNode.acceptStatus", "strcase.ToScreamingSnake(entity.Name)"),
        ("entityNode.findStatus", "strcase.ToScreamingSnake(ent.Schema.Name)"),
        ("entityNode.acceptEventOneof", "strcase.ToLowerCamel(eventObjectSchema.Def.Name)"),
        ("entityNode.acceptCommands", "strcase.ToCamel(ent.Schema.Name)"),
        ("entityNode.acceptSummaryTopics", "strcase.ToCamel(ent.Schema.Name)"),
        ("entityNode.acceptSummaryTopics", "strcase.ToCamel(ent.Schema.Name)"),
        ("entityNode.acceptSummaryTopics", "strcase.ToCamel(summary.Name)"),
        ("entityNode.acceptPublishTopic", "strcase.ToCamel(ent.Schema.Name)"),
        ("entityNode.acceptPublishTopic", "strcase.ToCamel(ent.Schema.Name)"),
        ("entityNode.acceptQuery", "strcase.ToCamel(entity.Name)"),
        ("entityNode.acceptQuery", "strcase.ToLowerCamel(name)"),
        ("entityNode.acceptQuery", "strcase.ToCamel(entity.Name)"),
        ("entityNode.acceptQuery", "strcase.ToLowerCamel(name)"),
        ("entityNode.acceptQuery", "strcase.ToCamel(entity.Name)"),
        ("entityNode.acceptQuery", "strcase.ToCamel(entity.Name)") ] := by
  decide

/-- `componentName` is `ToCamel(name) + ToCamel(suffix)`; the entity's snake name comes from
`RangeRootElements` -/
theorem C17_src_component_name :
    (strcaseCalls.filter fun (_, fn, _) => fn = "entityNode.componentName") =
      [ ("sourcewalk/entity.go", "entityNode.componentName", "strcase.ToCamel(ent.Schema.Name)"),
        ("sourcewalk/entity.go", "entityNode.componentName", "strcase.ToCamel(suffix)") ] ∧
    ("sourcewalk/file.go", "FileNode.RangeRootElements", "strcase.ToSnake(entity.Name)") ∈ strcaseCalls := by
  decide

/-- the component suffixes used by the model are the literals of the source -/
theorem C17_src_suffixes :
    ∀ s ∈ [ ("entityNode.acceptKeys", "Keys"), ("entityNode.acceptData", "Data"),
            ("entityNode.acceptStatus", "Status"), ("entityNode.acceptStatus", "_STATUS_"),
            ("entityNode.acceptState", "State"), ("entityNode.acceptEventOneof", "EventType"),
            ("entityNode.acceptEvent", "Event"), ("entityNode.acceptQuery", "%sGet"),
            ("entityNode.acceptQuery", "%sList"), ("entityNode.acceptQuery", "%sEvents"),
            ("entityNode.acceptQuery", "%sQuery"), ("entityNode.acceptCommands", "%sCommand"),
            ("entityNode.acceptPublishTopic", "%sPublish"), ("entityNode.acceptPublishTopic", "%sEvent"),
            ("entityNode.acceptSummaryTopics", "%sSummary") ],
      ("sourcewalk/entity.go", s.1, s.2) ∈ stringLiterals := by
  decide

end J5V.Props.C17
