import J5V.Compile.StrcaseProofs
import J5V.Compile.ConvertProofs
import J5V.Compile.Entity
import J5V.Generated.CompileconstsFacts
import J5V.Compile.EntityProofs
import J5V.Compile.EntitySvc
import J5V.Compile.Link
import J5V.Compile.PathProofs
/-!
# C17 — entity declarations expand to a complete, mutually consistent API

Statements about `J5V.Compile.Entity` (the model of `sourcewalk/entity.go`) and the strcase model,
for every entity declaration; no bound on the number of keys, events, commands, summaries.
-/
namespace J5V.Props.C17
open J5V.Go J5V.Compile J5V.Compile.Entity

/-! ## The two naming routes

Before `fix: be45979`, `entity.go` *named* the State / Event / EventType objects
`ToCamel(name ++ suffix)` but *referred* to them as
`componentName(suffix) = ToCamel(name) ++ ToCamel(suffix)`. The strcase facts that made this a
defect stay here as theorems (they are what a regression would run into); the model follows the
repaired code, where both routes are `componentName`. -/

/-- the old assumption: the two routes agree for every identifier -/
def NameRoutesAgree : Prop :=
  ∀ n : Str, NoSpace n →
    toCamel (n ++ b!"State") = toCamel n ++ toCamel b!"State" ∧
    toCamel (n ++ b!"Event") = toCamel n ++ toCamel b!"Event" ∧
    toCamel (n ++ b!"EventType") = toCamel n ++ toCamel b!"EventType"

/-- It is false: strcase lower-cases a capital that follows a capital, so for a name ending in a
capital the old code called the object `FooAstate` while references said `FooAState`. -/
theorem C17_name_prefix_compat_counterexample : ¬ NameRoutesAgree := by
  intro h
  have := (h b!"FooA" (by decide)).1
  revert this
  decide

/-- The routes agree exactly when the name does not end in `A`–`Z`. -/
theorem C17_name_prefix_compat_iff (n : Str) (hn : NoSpace n) :
    (toCamel (n ++ b!"State") = toCamel n ++ toCamel b!"State" ∧
     toCamel (n ++ b!"Event") = toCamel n ++ toCamel b!"Event" ∧
     toCamel (n ++ b!"EventType") = toCamel n ++ toCamel b!"EventType") ↔ lastIsCap n = false := by
  rw [toCamel_capWord _ capWord_State, toCamel_capWord _ capWord_Event,
    toCamel_capWord _ capWord_EventType,
    toCamel_append_iff n _ hn capWord_State, toCamel_append_iff n _ hn capWord_Event,
    toCamel_append_iff n _ hn capWord_EventType]
  simp

/-- **Names and references coincide** (repaired code): every object the expansion creates is
named by the same function its references use, for every entity name. -/
theorem C17_name_routes (e : Entity) :
    (stateObject e).name = componentName e b!"State" ∧
    (eventObject e).name = componentName e b!"Event" ∧
    (eventOneof e).name = componentName e b!"EventType" ∧
    (keysObject e).name = componentName e b!"Keys" ∧
    (dataObject e).name = componentName e b!"Data" ∧
    (statusEnum e).name = componentName e b!"Status" ∧
    -- the references
    (stateObject e).props.map (·.schema) =
      [ refField b!"j5.state.v1" b!"StateMetadata",
        .objectRef [] (componentName e b!"Keys") true [],
        .objectRef [] (componentName e b!"Data") false [],
        .enumRef [] (componentName e b!"Status") [] (some (defaultFilters e)) ] ∧
    (eventObject e).props.map (·.schema) =
      [ refField b!"j5.state.v1" b!"EventMetadata",
        .objectRef [] (componentName e b!"Keys") true [],
        .oneofRef [] (componentName e b!"EventType") [] true ] :=
  ⟨rfl, rfl, rfl, rfl, rfl, rfl, rfl, rfl⟩

/-! ## Components -/

/-- kind and name of what the file visitor receives -/
def itemLabel : Item → String × List Str
  | .object o => ("object", [o.name])
  | .oneof o => ("oneof", [o.name])
  | .enum en => ("enum", [en.name])
  | .serviceFile ss => ("services", ss.map fun s => s.name.getD [])
  | .topicFile ts => ("topics", ts.map (·.name))
  | .abort => ("abort", [])

/-- an entity whose status filters name declared statuses and whose summaries are distinct (what the
walker demands). An entity WITHOUT events is valid in this sense — the compiler accepts it; see
`C17_zero_events_counterexample` for what fails downstream -/
def ValidEntity (e : Entity) : Prop := filtersOk e = true ∧ summariesDistinct e.summaries = true

/-- **Components.** A valid entity expands, in this order, to: Keys, Data (objects), Status (enum),
State (object), EventType (oneof), Event (object), the query service, the command services, the
publish topic, one upsert topic per summary, then its nested schemas — all named
`CamelCase(entity) ++ suffix`, for every entity name. -/
theorem C17_components (pkg : Str) (e : Entity) (hv : ValidEntity e) :
    let C := toCamel e.name
    (expand pkg e).map itemLabel =
      [ ("object", [C ++ b!"Keys"]), ("object", [C ++ b!"Data"]), ("enum", [C ++ b!"Status"]),
        ("object", [C ++ b!"State"]), ("oneof", [C ++ b!"EventType"]), ("object", [C ++ b!"Event"]),
        ("services", [C ++ b!"Query"]),
        ("services", e.commands.map fun s => match s.name with
            | some n => if hasSuffix b!"Command" n then n else n ++ b!"Command"
            | none => C ++ b!"Command"),
        ("topics", [C ++ b!"Publish"]),
        ("topics", e.summaries.map fun s =>
            if s.name = [] then C ++ b!"Summary" else C ++ toCamel s.name) ] ++
      e.nested.map fun n => itemLabel (nestedItem n) := by
  intro C
  obtain ⟨hf, hs⟩ := hv
  have hK : toCamel b!"Keys" = b!"Keys" := by decide
  have hD : toCamel b!"Data" = b!"Data" := by decide
  have hS : toCamel b!"Status" = b!"Status" := by decide
  have hSt : toCamel b!"State" = b!"State" := by decide
  have hEv : toCamel b!"Event" = b!"Event" := by decide
  have hET : toCamel b!"EventType" = b!"EventType" := by decide
  simp only [expand, hf, hs, if_true, List.map_append, List.map_cons, List.map_nil, itemLabel,
    keysObject, dataObject, statusEnum, stateObject, eventOneof, eventObject, eventTypeName,
    componentName, ObjDecl.name, hK, hD, hS, hSt, hEv, hET,
    queryService, publishTopic, Option.getD, List.map_map]
  simp only [List.cons_append, List.nil_append, List.cons.injEq, true_and, Prod.mk.injEq,
    List.append_cancel_right_eq, and_true]
  have hcmd : List.map ((fun s : Service => match s.name with | some x => x | none => [])
        ∘ commandService pkg e) e.commands =
      List.map (fun s : Service => match s.name with
          | some n => if hasSuffix b!"Command" n then n else n ++ b!"Command"
          | none => C ++ b!"Command") e.commands := by
    apply List.map_congr_left
    intro s _
    simp only [Function.comp, commandService]
    cases s.name <;> rfl
  have hsum : List.map ((fun x : Topic => x.name) ∘ summaryTopic pkg e) e.summaries =
      List.map (fun s : Summary =>
        if s.name = [] then C ++ b!"Summary" else C ++ toCamel s.name) e.summaries := by
    apply List.map_congr_left
    intro s _
    simp only [Function.comp, summaryTopic, summaryTopicName, C]
  refine ⟨rfl, rfl, rfl, rfl, rfl, rfl, rfl, hcmd, rfl, hsum, ?_⟩
  apply List.map_congr_left
  intro n _
  rfl

/-- **One annotation.** Keys, Data, State and Event carry the PSM annotation with the same entity
name (`snake(entity)`) and their own part; the query and command services carry the same entity
name; publish and summary topics carry `<package>.<CamelCase(entity)>`. -/
theorem C17_annotation (pkg : Str) (e : Entity) :
    (keysObject e).psm = some ⟨toSnake e.name, .keys⟩ ∧
    (dataObject e).psm = some ⟨toSnake e.name, .data⟩ ∧
    (stateObject e).psm = some ⟨toSnake e.name, .state⟩ ∧
    (eventObject e).psm = some ⟨toSnake e.name, .event⟩ ∧
    (queryService pkg e).sopt = .query (toSnake e.name) ∧
    (∀ s ∈ e.commands, (commandService pkg e s).sopt = .command (toSnake e.name)) ∧
    (∃ m, (publishTopic pkg e).type = .event (pkg ++ b!"." ++ toCamel e.name) m) ∧
    (∀ s ∈ e.summaries, ∃ m,
      (summaryTopic pkg e s).type = .upsert (pkg ++ b!"." ++ toCamel e.name) m) :=
  ⟨rfl, rfl, rfl, rfl, rfl, fun _ _ => rfl, ⟨_, rfl⟩, fun _ _ => ⟨_, rfl⟩⟩

/-- **State and Event shape.** State = metadata, flattened keys, data, status; Event = metadata,
flattened keys, the event oneof; all required, in this order (so numbered 1…). -/
theorem C17_state_event_shape (e : Entity) :
    (stateObject e).props.map (fun p => (p.name, p.required)) =
      [(b!"metadata", true), (b!"keys", true), (b!"data", true), (b!"status", true)] ∧
    (eventObject e).props.map (fun p => (p.name, p.required)) =
      [(b!"metadata", true), (b!"keys", true), (b!"event", true)] ∧
    (stateObject e).props[1]?.map (·.schema) =
      some (.objectRef [] (componentName e b!"Keys") true []) ∧
    (eventObject e).props[1]?.map (·.schema) =
      some (.objectRef [] (componentName e b!"Keys") true []) :=
  ⟨rfl, rfl, rfl, rfl⟩

/-- **The event oneof.** Exactly one option per declared event, in declaration order, named
`lowerCamel(event)`, pointing at `<EventType>.<event>`; and the event objects themselves are the
nested schemas of the oneof, in the same order. -/
theorem C17_event_oneof (e : Entity) :
    (eventOneof e).props.length = e.events.length ∧
    (eventOneof e).nested = e.events.map Nested.object ∧
    ∀ i (hi : i < e.events.length) (hp : i < (eventOneof e).props.length),
      (eventOneof e).props[i].name = toLowerCamel e.events[i].name ∧
      (eventOneof e).props[i].schema =
        .objectRef [] ((eventOneof e).name ++ b!"." ++ e.events[i].name) false [] := by
  refine ⟨by simp [eventOneof, ObjDecl.props], rfl, ?_⟩
  intro i hi hp
  simp [eventOneof, ObjDecl.props, ObjDecl.name, Property.name, Property.schema]

/-- **Primary keys are path parameters, in declaration order.** The request of Get (and of
Events) consists of the key-typed keys that are primary or shard keys, in declaration order; the
HTTP path is exactly `:k1/:k2/…` over those (plus `/events`). -/
theorem C17_primary_keys (e : Entity) :
    (getKeys e).Sublist (e.keys.map (·.prop)) ∧
    (getMethod e).request = some (getKeys e) ∧
    (getMethod e).path = joinWith b!"/" ((getKeys e).map fun p => b!":" ++ p.name) ∧
    (eventsMethod e).path =
      joinWith b!"/" (((getKeys e).map fun p => b!":" ++ p.name) ++ [b!"events"]) ∧
    (∀ k ∈ e.keys, keyInfo k = some true → k.prop ∈ getKeys e) := by
  refine ⟨?_, rfl, rfl, rfl, ?_⟩
  · unfold getKeys
    induction e.keys with
    | nil => simp
    | cons k ks ih =>
      simp only [List.filterMap_cons, List.map_cons]
      split
      · exact ih.cons _
      · rename_i b hb
        cases hk : keyInfo k with
        | none => simp [hk] at hb
        | some pk =>
          cases pk <;> cases hs : k.shard <;> simp [hk, hs] at hb <;> subst hb <;> exact ih.cons_cons _
  · intro k hk hp
    unfold getKeys
    exact List.mem_filterMap.mpr ⟨k, hk, by simp [hp]⟩

/-- a primary key field is required in the emitted descriptor even when not marked so -/
theorem C17_primary_key_required (c : Ctx) (np : List Str) (io : Bool) (number : Nat) (name : Str)
    (req opt : Bool) (fmt : KeyFmt) (tenant : Option Str) (rules : Rules) (lr : Bool) (f : FieldSkel)
    (h : (bProperty c np io number
            (.mk name req opt (.key fmt (.ek (.primary true) tenant) rules lr))).fld = some f) :
    f.req = true := by
  rw [bProperty] at h
  · simp only [bField, scalarField, Option.getD] at h
    have := finishProperty_fld _ _ _ _ _ _ _ _ _ _ h
    simp [this.2.2.2.2.2.2.1, EntKey.isPrimary]
  · intro items r h; cases h
  · intro items r h; cases h

/-- **Statuses are numbered in declaration order after UNSPECIFIED**, with the prefix
`SCREAMING_SNAKE(entity)_STATUS_`. (Hypothesis: the first status is not itself the explicit
zero `UNSPECIFIED`.) -/
theorem C17_status_numbering (e : Entity)
    (h : ∀ first rest, e.statuses = first :: rest →
      isExplicitUnspecified (toScreamingSnake e.name ++ b!"_STATUS_") first = false) :
    let pfx := toScreamingSnake e.name ++ b!"_STATUS_"
    (convEnum (statusEnum e)).values =
      (pfx ++ b!"UNSPECIFIED", 0) ::
        e.statuses.zipIdx.map fun (n, i) => (enumFull pfx n, i + 1) := by
  intro pfx
  have hp : enumPrefix (statusEnum e) = pfx := by
    have hne : toScreamingSnake e.name ++ b!"_STATUS_" ≠ [] := by simp
    simp only [enumPrefix, statusEnum, statusPrefix, pfx, hne, if_false]
  simp only [convEnum, hp]
  exact enumValues_implicit _ _ h

/-! ## The converted skeleton -/

/-- **State message.** When the State object converts without error, its message has exactly the
four fields `metadata = 1, keys = 2, data = 3, status = 4`. -/
theorem C17_state_skeleton (c : Ctx) (e : Entity)
    (h : (convDecl c [] false [] (stateObject e)).errs = 0) :
    declMsgOf c [] false [] (stateObject e) ∈ (convDecl c [] false [] (stateObject e)).msgs ∧
    (declMsgOf c [] false [] (stateObject e)).fields.map (fun f => (f.name, f.number)) =
      [(b!"metadata", 1), (b!"keys", 2), (b!"data", 3), (b!"status", 4)] := by
  refine ⟨convDecl_msgOf _ _ _ _ _, ?_⟩
  rw [declMsgOf_fields c [] false [] (stateObject e) h]
  have h1 : toSnake b!"metadata" = b!"metadata" := by decide
  have h2 : toSnake b!"keys" = b!"keys" := by decide
  have h3 : toSnake b!"data" = b!"data" := by decide
  have h4 : toSnake b!"status" = b!"status" := by decide
  simp [stateObject, ObjDecl.props, List.zipIdx_cons, Property.name, h1, h2, h3, h4]

/-- **Event message**: `metadata = 1, keys = 2, event = 3`. -/
theorem C17_event_skeleton (c : Ctx) (e : Entity)
    (h : (convDecl c [] false [] (eventObject e)).errs = 0) :
    declMsgOf c [] false [] (eventObject e) ∈ (convDecl c [] false [] (eventObject e)).msgs ∧
    (declMsgOf c [] false [] (eventObject e)).fields.map (fun f => (f.name, f.number)) =
      [(b!"metadata", 1), (b!"keys", 2), (b!"event", 3)] := by
  refine ⟨convDecl_msgOf _ _ _ _ _, ?_⟩
  rw [declMsgOf_fields c [] false [] (eventObject e) h]
  have h1 : toSnake b!"metadata" = b!"metadata" := by decide
  have h2 : toSnake b!"keys" = b!"keys" := by decide
  have h3 : toSnake b!"event" = b!"event" := by decide
  simp [eventObject, ObjDecl.props, List.zipIdx_cons, Property.name, h1, h2, h3]

/-- **Event oneof message.** When the EventType oneof converts without error, its message has one
field per declared event, numbered from 1 in declaration order, named
`snake(lowerCamel(event))`, all members of oneof 0. -/
theorem C17_event_oneof_skeleton (c : Ctx) (e : Entity)
    (h : (convDecl c [] true [] (eventOneof e)).errs = 0) :
    declMsgOf c [] true [] (eventOneof e) ∈ (convDecl c [] true [] (eventOneof e)).msgs ∧
    (declMsgOf c [] true [] (eventOneof e)).fields.map (fun f => (f.name, f.number)) =
      e.events.zipIdx.map (fun (ev, i) => (toSnake (toLowerCamel ev.name), i + 1)) ∧
    (∀ f ∈ (declMsgOf c [] true [] (eventOneof e)).fields, f.oneof = some 0) := by
  refine ⟨convDecl_msgOf _ _ _ _ _, ?_, ?_⟩
  · rw [declMsgOf_fields c [] true [] (eventOneof e) h]
    simp only [eventOneof, ObjDecl.props, List.nil_append, List.zipIdx_map, List.map_map]
    apply List.map_congr_left
    intro x _
    rfl
  · intro f hf
    have := bProps_fld_oneof c ([] ++ [(eventOneof e).name]) true 1 ([] ++ (eventOneof e).props) f
      (by simpa [declMsgOf, declMsg, mkMsg, MsgSkel.fields] using hf)
    simpa using this

/-- **The entity on the generated files.** What a valid entity contributes, through conversion,
to the files of its source file (for every conversion context, every entity shape):
* main file — exactly the messages `Keys, Data, State, EventType, Event` in this order (each the
  message of its object, `C17_state_skeleton` etc. give their fields), then the entity's nested
  schemas; exactly the enum `Status` (numbered by `C17_status_numbering`), then nested enums;
* `.service` file — the query service (one proto service) followed by one proto service per
  declared command service;
* `.topic` file — the publish topic service followed by one upsert topic service per summary.
Nothing else; together with `C02_exactness_file` this fixes the entity's part of every file. -/
theorem C17_entity_files (c : Ctx) (pkg : Str) (e : Entity) (hv : ValidEntity e) :
    ((expand pkg e).filter (·.target = .main)).flatMap (itemMsgs c) =
      [ declMsgOf c [] false [] (keysObject e), declMsgOf c [] false [] (dataObject e),
        declMsgOf c [] false [] (stateObject e), declMsgOf c [] true [] (eventOneof e),
        declMsgOf c [] false [] (eventObject e) ] ++ (e.nested.map nestedItem).flatMap (itemMsgs c) ∧
    ((expand pkg e).filter (·.target = .main)).flatMap (itemEnums c) =
      convEnum (statusEnum e) :: (e.nested.map nestedItem).flatMap (itemEnums c) ∧
    ((expand pkg e).filter (·.target = .service)).flatMap (itemSvcs c) =
      serviceSvcs c (queryService pkg e) ++
        (e.commands.map (commandService pkg e)).flatMap (serviceSvcs c) ∧
    ((expand pkg e).filter (·.target = .topic)).flatMap (itemSvcs c) =
      (topicNodes (publishTopic pkg e)).map topicSvc ++
        (e.summaries.map (summaryTopic pkg e)).flatMap fun t => (topicNodes t).map topicSvc :=
  entity_files c pkg e hv

/-- **The query service on the skeleton**: one proto service `<C>QueryService` carrying the entity
annotation, with exactly the rpcs `<C>Get`, `<C>List`, `<C>Events` in this order — input
`<M>Request`, output `<M>Response`, verb GET, annotated get / list / events, path
`/<base>/q/…` with every `:key` rewritten to `{snake(key)}` (`C02_path_rewrite`; the keys are the
primary keys in declaration order, `C17_primary_keys`). -/
theorem C17_query_service_skeleton (c : Ctx) (pkg : Str) (e : Entity) :
    serviceSvcs c (queryService pkg e) =
      [{ name := toCamel e.name ++ b!"Query" ++ b!"Service", sopt := .query (snakeName e),
         methods := [getMethod e, listMethod e, eventsMethod e].map
           (methodSkelOf (some (b!"/" ++ baseUrlPath pkg e ++ b!"/q"))) }] ∧
    ([getMethod e, listMethod e, eventsMethod e].map
        (methodSkelOf (some (b!"/" ++ baseUrlPath pkg e ++ b!"/q")))).map
      (fun m => (m.name, m.input, m.output, m.mopt, m.http.map (·.verb))) =
      [ (toCamel e.name ++ b!"Get", toCamel e.name ++ b!"Get" ++ b!"Request",
          toCamel e.name ++ b!"Get" ++ b!"Response", .get, some .get),
        (toCamel e.name ++ b!"List", toCamel e.name ++ b!"List" ++ b!"Request",
          toCamel e.name ++ b!"List" ++ b!"Response", .list, some .get),
        (toCamel e.name ++ b!"Events", toCamel e.name ++ b!"Events" ++ b!"Request",
          toCamel e.name ++ b!"Events" ++ b!"Response", .events, some .get) ] :=
  ⟨queryService_svcs c pkg e, rfl⟩

/-- **The query routes in explicit `{key}` form, on the skeleton.** For a base path made of clean
literal parts `b1 … bn` (`CleanPart`: what `path.Clean` keeps — non-empty, not `.` / `..`, no slash —
and not starting with `:`; the default `BaseUrlPath`, package segments + snake(entity), is of that
form) and key names without a slash, the `google.api.http` patterns the compiler emits for the
three rpcs of `<C>QueryService` (`C17_query_service_skeleton`) are
`/b1/…/bn/q/{snake(k1)}/…/{snake(km)}` for Get over the primary / shard keys in declaration order
(`C17_primary_keys`), the same over the shard keys for List, and `…/{snake(km)}/events` for Events:
`path.Join` + `path.Clean` change nothing, `strings.Split` gives the parts back, every `:key` part
becomes `{snake(key)}` and every literal part stays. -/
theorem C17_query_paths_skeleton (pkg : Str) (e : Entity) (bparts : List Str)
    (hb : baseUrlPath pkg e = joinWith b!"/" bparts) (hbne : bparts ≠ [])
    (hbc : ∀ p ∈ bparts, CleanPart p ∧ p.head? ≠ some 58)
    (hk : ∀ k ∈ e.keys, 47 ∉ k.prop.name) :
    (methodSkelOf (some (b!"/" ++ baseUrlPath pkg e ++ b!"/q")) (getMethod e)).http.map (·.path) =
      some (b!"/" ++ joinWith b!"/" (bparts ++ [b!"q"] ++
        ((getKeys e).map fun k => b!"{" ++ toSnake k.name ++ b!"}"))) ∧
    (methodSkelOf (some (b!"/" ++ baseUrlPath pkg e ++ b!"/q")) (listMethod e)).http.map (·.path) =
      some (b!"/" ++ joinWith b!"/" (bparts ++ [b!"q"] ++
        ((listKeys e).map fun k => b!"{" ++ toSnake k.name ++ b!"}"))) ∧
    (methodSkelOf (some (b!"/" ++ baseUrlPath pkg e ++ b!"/q")) (eventsMethod e)).http.map (·.path) =
      some (b!"/" ++ joinWith b!"/" (bparts ++ [b!"q"] ++
        ((getKeys e).map fun k => b!"{" ++ toSnake k.name ++ b!"}") ++ [b!"events"])) :=
  query_paths pkg e bparts hb hbne hbc hk

/-- **Keys message on the skeleton.** When the Keys object converts without error, its message has
one field per declared key, in declaration order, numbered from 1 and named `snake(key)`, and the
field of every primary key (`keyInfo k = some true`: a `key`-typed field marked primary) carries
`(buf.validate.field).required` — whether or not the declaration says `required`. -/
theorem C17_keys_skeleton (c : Ctx) (e : Entity)
    (h : (convDecl c [] false [] (keysObject e)).errs = 0) :
    declMsgOf c [] false [] (keysObject e) ∈ (convDecl c [] false [] (keysObject e)).msgs ∧
    (declMsgOf c [] false [] (keysObject e)).fields.map (fun f => (f.name, f.number)) =
      e.keys.zipIdx.map (fun (k, i) => (toSnake k.prop.name, i + 1)) ∧
    (∀ i (hi : i < e.keys.length) (f : FieldSkel),
      (declMsgOf c [] false [] (keysObject e)).fields[i]? = some f →
      keyInfo e.keys[i] = some true → f.req = true) := by
  refine ⟨convDecl_msgOf _ _ _ _ _, ?_, ?_⟩
  · rw [declMsgOf_fields c [] false [] (keysObject e) h]
    simp only [keysObject, ObjDecl.props, List.nil_append, List.zipIdx_map, List.map_map]
    apply List.map_congr_left
    intro x _
    rfl
  · intro i hi f hf hk
    have herr : (bProps c ([] ++ [componentName e b!"Keys"]) false 1 ([] ++ e.keys.map (·.prop))).eff.errs = 0 := by
      have := h
      simp only [keysObject] at this
      rw [convDecl_errs] at this
      omega
    have hget := bProps_flds_getElem c _ false 1 _ herr i (by simpa using hi)
    simp only [declMsgOf, declMsg, mkMsg, MsgSkel.fields, keysObject, ObjDecl.name, ObjDecl.props] at hf
    rw [hget] at hf
    simp only [List.nil_append, List.getElem_map] at hf
    cases hp : (e.keys[i]).prop with
    | mk name req opt schema =>
      simp only [keyInfo, hp, Property.schema] at hk
      cases schema with
      | key fmt ek rules lr =>
        simp only [Option.some.injEq] at hk
        cases ek with
        | nokey => simp [EntKey.isPrimary] at hk
        | ek kind tenant =>
          cases kind with
          | primary b =>
            cases b with
            | true =>
              rw [hp] at hf
              exact C17_primary_key_required c _ false _ name req opt fmt tenant rules lr f hf
            | false => simp [EntKey.isPrimary] at hk
          | plain => simp [EntKey.isPrimary] at hk
          | foreign _ _ => simp [EntKey.isPrimary] at hk
      | _ => simp at hk

/-- **Command services on the skeleton.** Every declared command service (methods with a request
and a verb) is one proto service of the `.service` file, named `<Name>Command` + `Service`
(`<C>CommandService` when unnamed; the suffix is not doubled), annotated with the same entity name
as the query service, with one rpc per declared method in declaration order (input
`<Method>Request`, the declared verb, path below `/<base>/c` or `/<base>/<declared base>`). -/
theorem C17_command_service_skeleton (c : Ctx) (pkg : Str) (e : Entity) (hv : ValidEntity e)
    (s : Service) (hs : s ∈ e.commands)
    (hreq : ∀ m ∈ s.methods, m.request.isSome = true) (hverb : ∀ m ∈ s.methods, m.verb ≠ .unspecified) :
    serviceSvcs c (commandService pkg e s) =
      [{ name := commandName e s ++ b!"Service", sopt := .command (toSnake e.name),
         methods := s.methods.map (methodSkelOf (some (commandBase pkg e s))) }] ∧
    (∀ x ∈ serviceSvcs c (commandService pkg e s),
      x ∈ ((expand pkg e).filter (·.target = .service)).flatMap (itemSvcs c)) ∧
    (s.methods.map (methodSkelOf (some (commandBase pkg e s)))).map
        (fun m => (m.name, m.input, m.http.map (·.verb))) =
      s.methods.map (fun m => (m.name, m.name ++ b!"Request", some m.verb)) := by
  refine ⟨?_, ?_, ?_⟩
  · unfold serviceSvcs builtMethods
    simp only [commandService]
    rw [built_methods c _ s.methods hreq hverb]
    rfl
  · intro x hx
    rw [(entity_files c pkg e hv).2.2.1]
    apply List.mem_append_right
    exact List.mem_flatMap.mpr ⟨_, List.mem_map.mpr ⟨s, hs, rfl⟩, hx⟩
  · simp only [List.map_map]
    apply List.map_congr_left
    intro m _
    rfl

/-- **The publish topic on the skeleton.** One proto service `<C>PublishTopic` in the `.topic`
file, role `event`, entity `<package>.<C>`, one method `<C>Event` taking `<C>EventMessage`, whose
message has the properties metadata, keys, event (the event oneof), data, status
(`C17_topic_message_skeleton`: numbered 1…5). -/
theorem C17_publish_topic_skeleton (c : Ctx) (pkg : Str) (e : Entity) (hv : ValidEntity e) :
    (topicNodes (publishTopic pkg e)).map topicSvc =
      [{ name := toCamel (toCamel e.name ++ b!"Publish") ++ b!"Topic",
         sopt := .topic (toSnake (toCamel e.name ++ b!"Publish")) .event (pkg ++ b!"." ++ toCamel e.name),
         methods := [{ name := toCamel e.name ++ b!"Event", input := toCamel e.name ++ b!"Event" ++ b!"Message",
                       output := googleProtoEmptyType, http := none, mopt := .none }] }] ∧
    (∀ x ∈ (topicNodes (publishTopic pkg e)).map topicSvc,
      x ∈ ((expand pkg e).filter (·.target = .topic)).flatMap (itemSvcs c)) ∧
    (topicNodes (publishTopic pkg e)).flatMap (topicMsgs c) =
      [declMsg c [] false [] (toCamel e.name ++ b!"Event" ++ b!"Message")
        (publishProps e) [] none] := by
  refine ⟨rfl, ?_, rfl⟩
  intro x hx
  rw [(entity_files c pkg e hv).2.2.2]
  exact List.mem_append_left _ hx

/-- **One upsert topic per summary, on the skeleton.** `<C><Summary>Topic` (`<C>SummaryTopic` for the
unnamed summary), role `upsert`, entity `<package>.<C>`, one method named like the topic, whose
message starts with the implicit `upsert` metadata field followed by the summary's properties. -/
theorem C17_summary_topic_skeleton (c : Ctx) (pkg : Str) (e : Entity) (hv : ValidEntity e)
    (s : Summary) (hs : s ∈ e.summaries) :
    (topicNodes (summaryTopic pkg e s)).map topicSvc =
      [{ name := toCamel (summaryTopicName e s) ++ b!"Topic",
         sopt := .topic (toSnake (summaryTopicName e s)) .upsert (pkg ++ b!"." ++ toCamel e.name),
         methods := [{ name := summaryTopicName e s, input := summaryTopicName e s ++ b!"Message",
                       output := googleProtoEmptyType, http := none, mopt := .none }] }] ∧
    (∀ x ∈ (topicNodes (summaryTopic pkg e s)).map topicSvc,
      x ∈ ((expand pkg e).filter (·.target = .topic)).flatMap (itemSvcs c)) ∧
    (topicNodes (summaryTopic pkg e s)).flatMap (topicMsgs c) =
      [declMsg c [] false upsertPrepend (summaryTopicName e s ++ b!"Message") s.props [] none] := by
  refine ⟨rfl, ?_, rfl⟩
  intro x hx
  rw [(entity_files c pkg e hv).2.2.2]
  apply List.mem_append_right
  exact List.mem_flatMap.mpr ⟨_, List.mem_map.mpr ⟨s, hs, rfl⟩, hx⟩

/-- **Names, kinds and annotations on the skeleton**: the five messages of the main file are named
`<C>Keys / Data / State / EventType / Event`; Keys, Data, State, Event are objects carrying the PSM
annotation with the entity name and their own part, EventType is a oneof without annotation. -/
theorem C17_annotation_skeleton (c : Ctx) (e : Entity) :
    [ declMsgOf c [] false [] (keysObject e), declMsgOf c [] false [] (dataObject e),
      declMsgOf c [] false [] (stateObject e), declMsgOf c [] true [] (eventOneof e),
      declMsgOf c [] false [] (eventObject e) ].map (fun m => (m.name, m.kind, m.psm)) =
    [ (toCamel e.name ++ toCamel b!"Keys", .object, some ⟨toSnake e.name, .keys⟩),
      (toCamel e.name ++ toCamel b!"Data", .object, some ⟨toSnake e.name, .data⟩),
      (toCamel e.name ++ toCamel b!"State", .object, some ⟨toSnake e.name, .state⟩),
      (toCamel e.name ++ toCamel b!"EventType", .oneof, none),
      (toCamel e.name ++ toCamel b!"Event", .object, some ⟨toSnake e.name, .event⟩) ] := rfl

/-- **Topic messages on the skeleton**: when they convert without error, the publish message has the
fields `metadata = 1, keys = 2, event = 3, data = 4, status = 5`, and a summary's upsert message has
`upsert = 1` followed by the summary's properties numbered from 2 in declaration order. -/
theorem C17_topic_message_skeleton (c : Ctx) (e : Entity) (s : Summary)
    (hp : (convDecl c [] false [] (.mk (toCamel e.name ++ b!"Event" ++ b!"Message")
      (publishProps e) [] none)).errs = 0)
    (hs : (convDecl c [] false upsertPrepend
      (.mk (summaryTopicName e s ++ b!"Message") s.props [] none)).errs = 0) :
    (declMsg c [] false [] (toCamel e.name ++ b!"Event" ++ b!"Message")
        (publishProps e) [] none).fields.map
        (fun f => (f.name, f.number)) =
      [(b!"metadata", 1), (b!"keys", 2), (b!"event", 3), (b!"data", 4), (b!"status", 5)] ∧
    (declMsg c [] false upsertPrepend (summaryTopicName e s ++ b!"Message") s.props [] none).fields.map
        (fun f => (f.name, f.number)) =
      (b!"upsert", 1) :: s.props.zipIdx.map (fun (p, i) => (toSnake p.name, i + 2)) := by
  constructor
  · have := declMsgOf_fields c [] false [] _ hp
    simp only [declMsgOf, ObjDecl.name, ObjDecl.props, ObjDecl.nested, ObjDecl.psm] at this
    rw [this]
    have h1 : toSnake b!"metadata" = b!"metadata" := by decide
    have h2 : toSnake b!"keys" = b!"keys" := by decide
    have h3 : toSnake b!"event" = b!"event" := by decide
    have h4 : toSnake b!"data" = b!"data" := by decide
    have h5 : toSnake b!"status" = b!"status" := by decide
    simp [publishProps, List.zipIdx_cons, Property.name, h1, h2, h3, h4, h5]
  · have := declMsgOf_fields c [] false upsertPrepend _ hs
    simp only [declMsgOf, ObjDecl.name, ObjDecl.props, ObjDecl.nested, ObjDecl.psm] at this
    rw [this]
    have h1 : toSnake b!"upsert" = b!"upsert" := by decide
    simp only [upsertPrepend, List.cons_append, List.nil_append, List.zipIdx_cons, List.map_cons,
      Property.name, h1, Nat.zero_add, List.cons.injEq, true_and]
    rw [List.zipIdx_eq_map_add (l := s.props) (i := 1)]
    simp [List.map_map, Function.comp, Nat.add_assoc]
    intro a b _; omega

/-- **State and Event hold the FLATTENED keys, on the skeleton.** When the State (Event) object converts
without error, the second field of its message is `keys = 2`, message-typed, required, carrying the
`object` extension with `flatten` set. -/
theorem C17_flattened_keys_skeleton (c : Ctx) (e : Entity) :
    ((convDecl c [] false [] (stateObject e)).errs = 0 → ∀ f,
      (declMsgOf c [] false [] (stateObject e)).fields[1]? = some f →
      f.number = 2 ∧ f.name = b!"keys" ∧ f.type = .message ∧ f.ext = b!"object+flatten" ∧ f.req = true) ∧
    ((convDecl c [] false [] (eventObject e)).errs = 0 → ∀ f,
      (declMsgOf c [] false [] (eventObject e)).fields[1]? = some f →
      f.number = 2 ∧ f.name = b!"keys" ∧ f.type = .message ∧ f.ext = b!"object+flatten" ∧ f.req = true) := by
  have hk : toSnake b!"keys" = b!"keys" := by decide
  constructor
  · intro h f hf
    have herr : (bProps c ([] ++ [componentName e b!"State"]) false 1 ([] ++ (stateObject e).props)).eff.errs = 0 := by
      have := h
      simp only [stateObject] at this
      rw [convDecl_errs] at this
      simp only [stateObject, ObjDecl.props]
      omega
    have hget := bProps_flds_getElem c _ false 1 _ herr 1 (by simp [stateObject, ObjDecl.props])
    simp only [declMsgOf, declMsg, mkMsg, MsgSkel.fields, stateObject, ObjDecl.name, ObjDecl.props] at hf hget
    rw [hget] at hf
    have := flattenRef_fld c _ false _ _ _ f (by simpa using hf)
    simpa [hk] using this
  · intro h f hf
    have herr : (bProps c ([] ++ [componentName e b!"Event"]) false 1 ([] ++ (eventObject e).props)).eff.errs = 0 := by
      have := h
      simp only [eventObject] at this
      rw [convDecl_errs] at this
      simp only [eventObject, ObjDecl.props]
      omega
    have hget := bProps_flds_getElem c _ false 1 _ herr 1 (by simp [eventObject, ObjDecl.props])
    simp only [declMsgOf, declMsg, mkMsg, MsgSkel.fields, eventObject, ObjDecl.name, ObjDecl.props] at hf hget
    rw [hget] at hf
    have := flattenRef_fld c _ false _ _ _ f (by simpa using hf)
    simpa [hk] using this

/-! ## Zero events (open finding) -/

/-- what the consumers of the compiled entity need beyond the compiler's own output: the event oneof
has at least one member (`protodesc.NewFiles`, hence `structure.APIFromImage` / `j5client`, reject a
oneof without fields) -/
def EventOneofInhabited (e : Entity) : Prop := (eventOneof e).props ≠ []

theorem C17_event_oneof_inhabited_iff (e : Entity) : EventOneofInhabited e ↔ e.events ≠ [] := by
  simp [EventOneofInhabited, eventOneof, ObjDecl.props]

/-- the witness of the open finding `c17-client-api:entity-without-events`:
`entity Foo { key fooId key:id62 { primary = true } status A }` -/
def exNoEvents : Entity :=
  { name := b!"Foo", baseUrl := [],
    keys := [ { prop := .mk b!"fooId" false false (.key .id62 (.ek (.primary true) none) [] false), shard := false } ],
    data := [], statuses := [b!"A"], events := [], commands := [], summaries := [], query := none, nested := [] }
def bunNoEvents : Bundle :=
  { pkgs := [{ name := b!"foo.v1", files := [.j5s b!"foo/v1/e.j5s" [] [.entity exNoEvents] b!"foo.v1"] }] }

set_option maxRecDepth 8192 in
/-- **Zero events: the compiler's output is as stated, the client-side clause fails.** The quantifier
of the property allows 0 events, `ValidEntity` holds for such an entity and every theorem of this file
applies to it: the model — like `CompilePackage` — compiles AND links it (`compileLinked`; the link
model, like protocompile, has no "oneof needs a member" arm). Its EventType message is a oneof with
NO field, which `protodesc.NewFiles` rejects, so the clause "the client API StateEntity derived from
them" (oracle only, anchors `package_from_source.go`) fails on the real code: recorded as the open
finding `c17-client-api:entity-without-events` with this very witness. `EventOneofInhabited e ↔
e.events ≠ []` is the decidable predicate that excludes exactly the recorded class. -/
theorem C17_zero_events_counterexample :
    ValidEntity exNoEvents ∧ (compilePkg bunNoEvents b!"foo.v1").isOk = true ∧
    (compileLinked bunNoEvents b!"foo.v1").isOk = true ∧ ¬ EventOneofInhabited exNoEvents ∧
    (∀ c, (declMsgOf c [] true [] (eventOneof exNoEvents)).fields = [] ∧
      (declMsgOf c [] true [] (eventOneof exNoEvents)).kind = .oneof) := by
  refine ⟨⟨by decide, by decide⟩, by decide, by decide, ?_, ?_⟩
  · rw [C17_event_oneof_inhabited_iff]; simp [exNoEvents]
  · intro c
    exact ⟨rfl, rfl⟩

/-! ## Non-vacuity -/

def exEntity : Entity :=
  { name := b!"fooBar", baseUrl := [],
    keys := [ { prop := .mk b!"fooId" false false (.key .uuid (.ek (.primary true) none) [] false), shard := false },
              { prop := .mk b!"tenantId" false false (.key .uuid (.ek .plain (some b!"tenant")) [] false), shard := true } ],
    data := [.mk b!"title" false false (.string [] false)],
    statuses := [b!"ACTIVE", b!"DONE"],
    events := [.mk b!"Created" [] [] none, .mk b!"Updated" [] [] none],
    commands := [], summaries := [{ name := [], props := [] }],
    query := some { eventsInGet := true, filters := [b!"ACTIVE"] }, nested := [] }

example : ValidEntity exEntity := ⟨by decide, by decide⟩

/-- the formerly failing class is covered now: an entity name ending in a capital -/
example : ValidEntity { exEntity with name := b!"FooA" } := ⟨by decide, by decide⟩

example : (getMethod exEntity).path = b!":fooId/:tenantId" := by decide

example : (convEnum (statusEnum exEntity)).values =
    [(b!"FOO_BAR_STATUS_UNSPECIFIED", 0), (b!"FOO_BAR_STATUS_ACTIVE", 1), (b!"FOO_BAR_STATUS_DONE", 2)] := by
  decide

/-- the hypotheses of `C17_query_paths_skeleton` on the example entity (default base path) and the
three emitted patterns -/
example : baseUrlPath b!"foo.v1" exEntity = joinWith b!"/" [b!"foo", b!"v1", b!"foo_bar"] ∧
    (∀ k ∈ exEntity.keys, 47 ∉ k.prop.name) ∧
    (methodSkelOf (some (b!"/" ++ baseUrlPath b!"foo.v1" exEntity ++ b!"/q")) (getMethod exEntity)).http.map (·.path) =
      some b!"/foo/v1/foo_bar/q/{foo_id}/{tenant_id}" ∧
    (methodSkelOf (some (b!"/" ++ baseUrlPath b!"foo.v1" exEntity ++ b!"/q")) (listMethod exEntity)).http.map (·.path) =
      some b!"/foo/v1/foo_bar/q/{tenant_id}" ∧
    (methodSkelOf (some (b!"/" ++ baseUrlPath b!"foo.v1" exEntity ++ b!"/q")) (eventsMethod exEntity)).http.map (·.path) =
      some b!"/foo/v1/foo_bar/q/{foo_id}/{tenant_id}/events" := by decide

example : ∀ p ∈ [b!"foo", b!"v1", b!"foo_bar"], CleanPart p ∧ p.head? ≠ some 58 := by
  intro p hp
  simp only [List.mem_cons, List.mem_nil_iff, or_false] at hp
  rcases hp with rfl | rfl | rfl <;>
    exact ⟨⟨by decide, by decide, by decide, by decide⟩, by decide⟩

/-- an entity with a command service and a named summary: valid, compiles as a package (so every
`errs = 0` hypothesis above holds for it in the context the loader builds), its command methods have
requests and verbs, its first key is primary -/
def exEntity2 : Entity :=
  { exEntity with
    commands := [{ name := some b!"FooBar", basePath := none, methods :=
      [{ name := b!"CreateFooBar", verb := .post, path := b!":fooId/create",
         request := some [.mk b!"fooId" true false (.string [] false)], response := some [] }] }],
    summaries := [{ name := b!"brief", props := [.mk b!"title" false false (.string [] false)] }] }

def exBundle : Bundle :=
  { pkgs := [{ name := b!"foo.v1", files := [.j5s b!"foo/v1/e.j5s" [] [.entity exEntity2] b!"foo.v1"] }] }

example : ValidEntity exEntity2 := ⟨by decide, by decide⟩
example : (compilePkg exBundle b!"foo.v1").isOk = true := by decide
example : (convDecl { resolve := fun _ _ => none } [] false [] (keysObject exEntity2)).errs = 0 := by decide
example : ∀ s ∈ exEntity2.commands, (∀ m ∈ s.methods, m.request.isSome = true) ∧
    (∀ m ∈ s.methods, m.verb ≠ .unspecified) := by decide
example : keyInfo exEntity2.keys[0] = some true := by decide

/-- the witness of the counterexample: `FooA` -/
example : toCamel (b!"FooA" ++ b!"State") = b!"FooAstate" ∧ toCamel b!"FooA" ++ b!"State" = b!"FooAState" := by
  decide

end J5V.Props.C17

/-! ## Obligations over facts regenerated from the current source (`extract compileconsts`) -/
namespace J5V.Props.C17
open J5V.Generated.Compileconsts

/-- every strcase call of `entity.go` takes a plain operand (a field, `name`, `suffix`): the
defect shape `strcase.ToCamel(entity.Name + "State")` — case conversion of a concatenation —
does not occur. The calls, in source order: -/
theorem C17_src_strcase_calls :
    (strcaseCalls.filter fun (f, _, _) => f = "sourcewalk/entity.go").map (fun (_, fn, call) => (fn, call)) =
      [ ("entityNode.componentName", "strcase.ToCamel(ent.Schema.Name)"),
        ("entityNode.componentName", "strcase.ToCamel(suffix)"),
        ("entityNode.fullName", "strcase.ToCamel(ent.Schema.Name)"),
        ("entityNode.run", "strcase.ToSnake(ent.Schema.Name)"),
        ("entityNode.acceptStatus", "strcase.ToScreamingSnake(entity.Name)"),
        ("entityNode.findStatus", "strcase.ToScreamingSnake(ent.Schema.Name)"),
        ("entityNode.acceptEventOneof", "strcase.ToLowerCamel(eventObjectSchema.Def.Name)"),
        ("entityNode.acceptCommands", "strcase.ToCamel(ent.Schema.Name)"),
        ("entityNode.acceptSummaryTopics", "strcase.ToCamel(ent.Schema.Name)"),
        ("entityNode.acceptSummaryTopics", "strcase.ToCamel(ent.Schema.Name)"),
        ("entityNode.acceptSummaryTopics", "strcase.ToCamel(summary.Name)"),
        ("entityNode.acceptPublishTopic", "strcase.ToCamel(ent.Schema.Name)"),
        ("entityNode.acceptPublishTopic", "strcase.ToCamel(ent.Schema.Name)"),
        ("entityNode.acceptQuery", "strcase.ToCamel(entity.Name)"),
        ("entityNode.acceptQuery", "strcase.ToLowerCamel(name)"),
        ("entityNode.acceptQuery", "strcase.ToCamel(entity.Name)"),
        ("entityNode.acceptQuery", "strcase.ToLowerCamel(name)"),
        ("entityNode.acceptQuery", "strcase.ToCamel(entity.Name)"),
        ("entityNode.acceptQuery", "strcase.ToCamel(entity.Name)") ] := by
  decide

/-- `componentName` is `ToCamel(name) + ToCamel(suffix)`; the entity's snake name comes from
`RangeRootElements` -/
theorem C17_src_component_name :
    (strcaseCalls.filter fun (_, fn, _) => fn = "entityNode.componentName") =
      [ ("sourcewalk/entity.go", "entityNode.componentName", "strcase.ToCamel(ent.Schema.Name)"),
        ("sourcewalk/entity.go", "entityNode.componentName", "strcase.ToCamel(suffix)") ] ∧
    ("sourcewalk/file.go", "FileNode.RangeRootElements", "strcase.ToSnake(entity.Name)") ∈ strcaseCalls := by
  decide

/-- the component suffixes used by the model are the literals of the source -/
theorem C17_src_suffixes :
    ∀ s ∈ [ ("entityNode.acceptKeys", "Keys"), ("entityNode.acceptData", "Data"),
            ("entityNode.acceptStatus", "Status"), ("entityNode.acceptStatus", "_STATUS_"),
            ("entityNode.acceptState", "State"), ("entityNode.acceptEventOneof", "EventType"),
            ("entityNode.acceptEvent", "Event"), ("entityNode.acceptQuery", "%sGet"),
            ("entityNode.acceptQuery", "%sList"), ("entityNode.acceptQuery", "%sEvents"),
            ("entityNode.acceptQuery", "%sQuery"), ("entityNode.acceptCommands", "%sCommand"),
            ("entityNode.acceptPublishTopic", "%sPublish"), ("entityNode.acceptPublishTopic", "%sEvent"),
            ("entityNode.acceptSummaryTopics", "%sSummary") ],
      ("sourcewalk/entity.go", s.1, s.2) ∈ stringLiterals := by
  decide

end J5V.Props.C17
