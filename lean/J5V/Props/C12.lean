import J5V.Rules.ProofsC12
import J5V.Rules.ProofsMatcher
import J5V.Rules.SrcFacts
/-!
# C12 — compiled validation constraints accept exactly what the j5s rules allow

Only property theorems and their non-vacuity examples. Everything is about the models
`J5V.Rules.compileRules` (writer, `internal/j5s/j5convert/fields.go`), `J5V.Rules.pvField`
(protovalidate-go field evaluation of the emitted subset) and `J5V.Rules.j5Accepts` (meaning of the
j5s rules). Quantification: **every** admissible declaration (`WFRules`), **every** well-typed
candidate value (all integers of the field type, all strings, all lists — no bound), **every**
pattern matcher that agrees with RE2 on the published id62 pattern.
-/
namespace J5V.Props.C12
open J5V.Go J5V.Rules

def definedOf (p : Property) : List Int := definedOfSchema p.schema.item

/-- the hypothesis on the (trusted) regex engine: it implements `^[0-9A-Za-z]{22}$` -/
def MatcherOK (M : Matcher) : Prop := ∀ x, M.run id62Pattern x = id62Shape x

/-- **C12 (full statement).** For every admissible declaration the compiler succeeds, and
protovalidate's verdict on any well-typed field value is "accept" exactly when the value
satisfies the declared rules, "reject" otherwise (never a run-time error). -/
theorem C12_equiv (M : Matcher) (hM : MatcherOK M) (optPres : Bool) (p : Property) (v : FieldVal)
    (hwf : WFRules p = true) (hty : WellTyped optPres p v = true) :
    ∃ c, compileRules p = .ok c ∧
      pvField M (definedOf p) c (p.hasPresence optPres) v = ofBool (j5Accepts M optPres p v) := by
  simp only [WFRules, Bool.and_eq_true, Bool.not_eq_true'] at hwf
  obtain ⟨⟨hs, hnot⟩, harr⟩ := hwf
  obtain ⟨a, ha, hprim, hitem⟩ := item_equiv M hM p.schema.item hs
  refine ⟨_, compileRules_eq p a ha hprim hnot, ?_⟩
  obtain ⟨name, num, req, opt, desc, schema⟩ := p
  cases schema with
  | single s =>
    simp only [FieldSchema.item] at hitem
    cases v with
    | absent =>
      have hp : (Property.hasPresence ⟨name, num, req, opt, desc, .single s⟩ optPres) = true := by
        simpa [WellTyped] using hty
      simp only [hp, pv_single_absent]
      simp [j5Accepts]
    | single x =>
      have hk : x.hasKind s = true := by simpa [WellTyped] using hty
      simp only [pv_single, definedOf, FieldSchema.item, hitem x hk]
      simp [j5Accepts]
    | list xs => simp [WellTyped] at hty
  | array s rules sf =>
    simp only [FieldSchema.item] at hitem
    cases v with
    | absent => simp [WellTyped] at hty
    | single x => simp [WellTyped] at hty
    | list xs =>
      have hk : xs.all (·.hasKind s) = true := by simpa [WellTyped] using hty
      have hne : ¬ ((rules.bind (·.uniqueItems)) == some true && xs.any isMsgScalar) = true := by
        intro hcon
        simp only [Bool.and_eq_true] at hcon
        obtain ⟨hu, hm⟩ := hcon
        cases rules with
        | none => simp at hu
        | some r =>
          simp only [Option.bind_some] at hu
          -- some element is a message value, so the item schema is a message kind
          obtain ⟨y, hy, hym⟩ := List.any_eq_true.mp hm
          have hyk := List.all_eq_true.mp hk y hy
          cases y <;> simp [isMsgScalar] at hym
          simp only [Scalar.hasKind] at hyk
          simp_all
      have hpres : (Property.hasPresence ⟨name, num, req, opt, desc, .array s rules sf⟩ optPres) = false := rfl
      simp only [hpres, pv_array M _ a.validate rules _ xs hne]
      have hall : xs.all (evalOpt M (definedOf ⟨name, num, req, opt, desc, .array s rules sf⟩) a.validate) =
          xs.all (j5Item M s) := by
        apply all_congr_mem
        intro y hy
        exact hitem y (List.all_eq_true.mp hk y hy)
      rw [hall]
      simp [j5Accepts]
  | map s rules sf =>
    simp only [FieldSchema.item] at hitem
    cases v with
    | absent => simp [WellTyped] at hty
    | single x => simp [WellTyped] at hty
    | list xs =>
      have hk : xs.all (·.hasKind s) = true := by simpa [WellTyped] using hty
      have hpres : (Property.hasPresence ⟨name, num, req, opt, desc, .map s rules sf⟩ optPres) = false := rfl
      simp only [hpres, pv_map M _ a.validate rules _ xs]
      have hall : xs.all (evalOpt M (definedOf ⟨name, num, req, opt, desc, .map s rules sf⟩) a.validate) =
          xs.all (j5Item M s) := by
        apply all_congr_mem
        intro y hy
        exact hitem y (List.all_eq_true.mp hk y hy)
      rw [hall]
      simp [j5Accepts]

/-- required presence: whatever the other rules, a required field that is unset (or zero-valued,
for fields without presence) is rejected, and an empty list is rejected for a required array. -/
theorem C12_required_equiv (M : Matcher) (hM : MatcherOK M) (optPres : Bool) (p : Property) (v : FieldVal)
    (hwf : WFRules p = true) (hty : WellTyped optPres p v = true) (hreq : p.effRequired = true)
    (hempty : fieldHas (p.hasPresence optPres) v = false) :
    ∃ c, compileRules p = .ok c ∧ pvField M (definedOf p) c (p.hasPresence optPres) v = .reject ∧
      j5Accepts M optPres p v = false := by
  obtain ⟨c, hc, hv⟩ := C12_equiv M hM optPres p v hwf hty
  have hj : j5Accepts M optPres p v = false := by
    obtain ⟨name, num, req, opt, desc, schema⟩ := p
    cases schema with
    | single s =>
      cases v with
      | absent => simp [j5Accepts, hreq]
      | single x =>
        simp only [fieldHas, Bool.or_eq_false_iff, Bool.not_eq_false'] at hempty
        simp [j5Accepts, hreq, hempty.1, hempty.2]
      | list xs => simp [WellTyped] at hty
    | array s rules sf =>
      cases v with
      | absent => simp [WellTyped] at hty
      | single x => simp [WellTyped] at hty
      | list xs =>
        simp only [fieldHas, Bool.not_eq_false'] at hempty
        simp [j5Accepts, hreq, hempty]
    | map s rules sf =>
      cases v with
      | absent => simp [WellTyped] at hty
      | single x => simp [WellTyped] at hty
      | list xs =>
        simp only [fieldHas, Bool.not_eq_false'] at hempty
        simp [j5Accepts, hreq, hempty]
  refine ⟨c, hc, ?_, hj⟩
  rw [hv, hj]
  rfl

/-- arrays: the verdict is the conjunction of the count bounds, uniqueness and the per-item rules -/
theorem C12_array_equiv (M : Matcher) (hM : MatcherOK M) (p : Property) (s : Schema)
    (rules : Option ArrayRules) (sf : Option String) (xs : List Scalar)
    (hs : p.schema = .array s rules sf)
    (hwf : WFRules p = true) (hty : WellTyped false p (.list xs) = true) :
    ∃ c, compileRules p = .ok c ∧
      (pvField M (definedOf p) c false (.list xs) = .accept ↔
        ((p.effRequired = true → xs ≠ []) ∧
         (∀ r, rules = some r →
            (∀ n, r.minItems = some n → n ≤ xs.length) ∧
            (∀ n, r.maxItems = some n → xs.length ≤ n) ∧
            (r.uniqueItems = some true → allDistinct xs = true)) ∧
         ∀ x ∈ xs, j5Item M s x = true)) := by
  obtain ⟨c, hc, hv⟩ := C12_equiv M hM false p (.list xs) hwf hty
  refine ⟨c, hc, ?_⟩
  have hp : p.hasPresence false = false := by
    simp [Property.hasPresence, hs]
  rw [hp] at hv
  rw [hv]
  have hacc : ∀ b : Bool, ofBool b = Verdict.accept ↔ b = true := by
    intro b; cases b <;> simp [ofBool]
  rw [hacc]
  simp only [j5Accepts, hs, Bool.and_eq_true, Bool.or_eq_true, Bool.not_eq_true', List.all_eq_true]
  constructor
  · rintro ⟨⟨h1, h2⟩, h3⟩
    refine ⟨?_, ?_, h3⟩
    · intro hr hx
      rcases h1 with h1 | h1
      · simp [hr] at h1
      · simp [hx] at h1
    · intro r hr
      subst hr
      simp only [optAll, Bool.and_eq_true, Bool.or_eq_true, Bool.not_eq_true'] at h2
      obtain ⟨⟨hmin, hmax⟩, hu⟩ := h2
      refine ⟨?_, ?_, ?_⟩
      · intro n hn; simpa [hn, optAll] using hmin
      · intro n hn; simpa [hn, optAll] using hmax
      · intro hu'; rcases hu with hu | hu
        · simp [hu'] at hu
        · exact hu
  · rintro ⟨h1, h2, h3⟩
    refine ⟨⟨?_, ?_⟩, h3⟩
    · cases hr : p.effRequired with
      | false => simp
      | true =>
        right
        have := h1 hr
        cases xs with
        | nil => exact absurd rfl this
        | cons _ _ => rfl
    · cases rules with
      | none => simp [optAll]
      | some r =>
        obtain ⟨hmin, hmax, hu⟩ := h2 r rfl
        simp only [optAll, Bool.and_eq_true, Bool.or_eq_true, Bool.not_eq_true']
        refine ⟨⟨?_, ?_⟩, ?_⟩
        · cases hm : r.minItems with
          | none => rfl
          | some n => simpa using hmin n hm
        · cases hm : r.maxItems with
          | none => rfl
          | some n => simpa using hmax n hm
        · cases hq : r.uniqueItems with
          | none => left; rfl
          | some b =>
            cases b with
            | false => left; rfl
            | true => right; exact hu hq

/-- maps (`map:<type>`, since d9448b1 the compiler writes their rules): the verdict is the
conjunction of required (non-empty), the pair count bounds and the rules of every value -/
theorem C12_map_equiv (M : Matcher) (hM : MatcherOK M) (p : Property) (s : Schema)
    (rules : Option MapRules) (sf : Option String) (xs : List Scalar)
    (hs : p.schema = .map s rules sf)
    (hwf : WFRules p = true) (hty : WellTyped false p (.list xs) = true) :
    ∃ c, compileRules p = .ok c ∧
      (pvField M (definedOf p) c false (.list xs) = .accept ↔
        ((p.required = true → xs ≠ []) ∧
         (∀ r, rules = some r →
            (∀ n, r.minPairs = some n → n ≤ xs.length) ∧
            (∀ n, r.maxPairs = some n → xs.length ≤ n)) ∧
         ∀ x ∈ xs, j5Item M s x = true)) := by
  obtain ⟨c, hc, hv⟩ := C12_equiv M hM false p (.list xs) hwf hty
  refine ⟨c, hc, ?_⟩
  have hp : p.hasPresence false = false := by
    simp [Property.hasPresence, hs]
  rw [hp] at hv
  rw [hv]
  have hacc : ∀ b : Bool, ofBool b = Verdict.accept ↔ b = true := by
    intro b; cases b <;> simp [ofBool]
  rw [hacc]
  have hreq : p.effRequired = p.required := by
    simp [Property.effRequired, Property.primaryKey, hs]
  simp only [j5Accepts, hs, hreq, Bool.and_eq_true, Bool.or_eq_true, Bool.not_eq_true', List.all_eq_true]
  constructor
  · rintro ⟨⟨h1, h2⟩, h3⟩
    refine ⟨?_, ?_, h3⟩
    · intro hr hx
      rcases h1 with h1 | h1
      · simp [hr] at h1
      · simp [hx] at h1
    · intro r hr
      subst hr
      simp only [optAll, Bool.and_eq_true] at h2
      obtain ⟨hmin, hmax⟩ := h2
      refine ⟨?_, ?_⟩
      · intro n hn; simpa [hn, optAll] using hmin
      · intro n hn; simpa [hn, optAll] using hmax
  · rintro ⟨h1, h2, h3⟩
    refine ⟨⟨?_, ?_⟩, h3⟩
    · cases hr : p.required with
      | false => simp
      | true =>
        right
        have := h1 hr
        cases xs with
        | nil => exact absurd rfl this
        | cons _ _ => rfl
    · cases rules with
      | none => simp [optAll]
      | some r =>
        obtain ⟨hmin, hmax⟩ := h2 r rfl
        simp only [optAll, Bool.and_eq_true]
        refine ⟨?_, ?_⟩
        · cases hm : r.minPairs with
          | none => rfl
          | some n => simpa using hmin n hm
        · cases hm : r.maxPairs with
          | none => rfl
          | some n => simpa using hmax n hm

/-! ## integer bounds: inclusivity, stated outright -/

/-- minimum / maximum are inclusive unless the exclusive flag is `true`. -/
theorem C12_int_inclusivity (M : Matcher) (fmt : IntFormat) (r : IntRules) (lr : ListRules)
    (name : String) (num : Nat) (v : Int)
    (hwf : intRulesWF fmt r = true) :
    ∃ c, compileRules { name := name, number := num, schema := .single (.integer fmt (some r) lr) } = .ok c ∧
      (pvField M [] c false (.single (.int v)) = .accept ↔
        (∀ m, r.minimum = some m → if r.exclusiveMinimum = some true then m < v else m ≤ v) ∧
        (∀ m, r.maximum = some m → if r.exclusiveMaximum = some true then v < m else v ≤ m)) := by
  obtain ⟨ub, lb, hc, he⟩ := compileInt_ok fmt r hwf
  refine ⟨singleFC (some (.int fmt ub lb)) false, ?_, ?_⟩
  · simp [compileRules, writeField, buildField, hc, FieldSchema.item, singleFC, FieldSchema.isArray, fieldValidate, psmPrimaryKey]
  · rw [pv_single]
    simp only [evalOpt, evalItem, he, intOk, Bool.not_false, Bool.true_or, Bool.true_and]
    have hacc : ∀ b : Bool, ofBool b = Verdict.accept ↔ b = true := by
      intro b; cases b <;> simp [ofBool]
    rw [hacc]
    obtain ⟨mn, mx, emn, emx⟩ := r
    cases mn <;> cases mx <;> simp [optAll] <;> (try split) <;> (try split) <;> simp_all

/-! ## what the hypotheses exclude (proved counterexamples) -/

/-- Fixed finding `int-bound-cast-wraps` (33463c1): a bound the field's type cannot hold used to be
converted with `int32(x)` — `maximum = 2^31` on an INT32 field became `lte: -2^31`, rejecting 0.
The compiler now rejects the declaration. -/
theorem C12_int_out_of_range_rejected :
    (compileRules { name := "i", number := 2,
                    schema := .single (.integer .i32 (some { maximum := some (2 ^ 31) }) none) }).isErr = true ∧
    castTo .i32 (2 ^ 31) = -(2 ^ 31) := by
  constructor <;> decide

/-- Enum fields: the compiler rejects (error, never panic) exactly the declarations `WFRules`
excludes — a name under `in` / `notIn`, or (since b6c593a) a default filter of the list rules,
that is not an option of the enum, written with or without the prefix. -/
theorem C12_enum_rejected_iff_inadmissible (d : EnumDecl) (rules : Option EnumRules) (lr : ListRules) :
    (buildField (.enum d rules lr)).isErr = !schemaWF (.enum d rules lr) :=
  buildField_enum_isErr d rules lr

/-- a default filter which is not an option: compile error -/
example : (compileRules {
    name := "e", number := 2,
    schema := .single (.enum { name := "En", defaultPrefix := "EN_", options := ["A", "B"] } none
      (some { text := "f1/df43/s0/ds0/q0/qi-", defaultFilters := ["C"] })) }).isErr = true := by decide

/-- Reversed bounds: protovalidate reads `gte: 10, lte: 5` as "outside (5, 10)" and accepts 20,
which no value of a minimum-10 / maximum-5 declaration can satisfy. (An empty range is not an
admissible declaration; the compiler accepts it silently.) -/
theorem C12_int_reversed_counterexample :
    let p : Property := { name := "i", number := 2,
                          schema := .single (.integer .i64 (some { minimum := some 10, maximum := some 5 }) none) }
    ∃ c, compileRules p = .ok c ∧
      pvField ⟨fun _ _ => false⟩ [] c false (.single (.int 20)) = .accept ∧
      j5Accepts ⟨fun _ _ => false⟩ false p (.single (.int 20)) = false := by
  refine ⟨_, rfl, ?_, ?_⟩ <;> decide

/-- Open finding `array-unique-on-message-items`: `uniqueItems` on an array of objects compiles to
`repeated.unique`, which protovalidate cannot evaluate. -/
theorem C12_unique_message_counterexample :
    let p : Property := { name := "a", number := 2,
                          schema := .array (.object "foo.v1.Bar" false false) (some { uniqueItems := some true }) none }
    ∃ c, compileRules p = .ok c ∧
      pvField ⟨fun _ _ => false⟩ [] c false (.list [.msg]) = .error ∧
      j5Accepts ⟨fun _ _ => false⟩ false p (.list [.msg]) = true := by
  refine ⟨_, rfl, ?_, ?_⟩ <;> decide

/-- Fixed finding `optional-field-without-presence` (c0f36ba). Before the repair
`field s ? string { rules.minLength = 1 }` compiled to a field with `proto3_optional` but without
the synthetic oneof, hence without presence (`optPres = false`): the declaration makes absence
distinguishable and allowed, but the only message that could express "unset" carried the empty
string, which the compiled constraint rejects. This is that state of affairs, kept as the boundary
of the presence parameter; `C12_presence_as_declared` / `C12_equiv_repaired` are the repaired one. -/
theorem C12_optional_presence_counterexample :
    let p : Property := { name := "s", number := 2, explicitlyOptional := true,
                          schema := .single (.string none (some { minLength := some 1 }) none) }
    p.declaredPresence = true ∧ p.hasPresence false = false ∧
    j5Accepts ⟨fun _ _ => false⟩ false p .absent = true ∧
    ∃ c, compileRules p = .ok c ∧
      pvField ⟨fun _ _ => false⟩ [] c (p.hasPresence false) (.single (.str [])) = .reject := by
  refine ⟨by decide, by decide, by decide, _, rfl, by decide⟩

/-- with the synthetic oneof in place (`optPres = true`, the fact the harness measures on the
compiler as repaired by c0f36ba) the compiled field has presence exactly where the declaration
says so: message kinds and `? type` -/
theorem C12_presence_as_declared (p : Property) : p.hasPresence true = p.declaredPresence := by
  obtain ⟨name, num, req, opt, desc, schema⟩ := p
  cases schema <;> simp [Property.hasPresence, Property.declaredPresence]

/-- **C12 for the compiler as it is now**: presence as declared, an unset `? type` field is
accepted whatever its rules, a set one is judged by the rules. -/
theorem C12_equiv_repaired (M : Matcher) (hM : MatcherOK M) (p : Property) (v : FieldVal)
    (hwf : WFRules p = true) (hty : WellTyped true p v = true) :
    ∃ c, compileRules p = .ok c ∧
      pvField M (definedOf p) c p.declaredPresence v = ofBool (j5Accepts M true p v) := by
  have h := C12_equiv M hM true p v hwf hty
  rwa [C12_presence_as_declared] at h

/-- the witness of the fixed finding, now accepted: unset `s ? string { minLength = 1 }` -/
example :
    let p : Property := { name := "s", number := 2, explicitlyOptional := true,
                          schema := .single (.string none (some { minLength := some 1 }) none) }
    WFRules p = true ∧ WellTyped true p .absent = true ∧ j5Accepts ⟨fun _ _ => false⟩ true p .absent = true ∧
    ∃ c, compileRules p = .ok c ∧ pvField ⟨fun _ _ => false⟩ [] c p.declaredPresence .absent = .accept := by
  refine ⟨by decide, by decide, by decide, _, rfl, by decide⟩

/-! ## the matcher used by the correspondence runs satisfies the hypothesis -/

/-- `Wire.smallMatcher`, which the driver evaluates against protovalidate's RE2, implements the
published id62 pattern exactly; so the C12 theorems apply to the very model the correspondence tests. -/
theorem C12_driver_matcher_ok : MatcherOK Wire.smallMatcher := Wire.smallMatcher_id62

/-! ## non-vacuity: the hypotheses are satisfiable by non-trivial declarations and values -/

/-- a matcher satisfying `MatcherOK` exists -/
example : MatcherOK ⟨fun p x => if p = id62Pattern then id62Shape x else false⟩ := by
  intro x; simp

example : WFRules {
    name := "i", number := 2, required := true,
    schema := .single (.integer .u32 (some { minimum := some 1, maximum := some 10, exclusiveMaximum := some true }) none) } = true := by
  decide

example : WellTyped false {
    name := "i", number := 2, required := true,
    schema := .single (.integer .u32 (some { minimum := some 1, maximum := some 10, exclusiveMaximum := some true }) none) }
    (.single (.int 10)) = true := by decide

example : WFRules {
    name := "a", number := 2,
    schema := .array (.string none (some { minLength := some 2 }) none) (some { minItems := some 1, uniqueItems := some true }) none } = true := by
  decide

example : WFRules {
    name := "e", number := 2,
    schema := .single (.enum { name := "En", defaultPrefix := "EN_", options := ["A", "B", "C"] }
                (some { inn := ["A", "EN_B"], notIn := ["C"] }) none) } = true := by
  decide

example : WFRules {
    name := "e", number := 2,
    schema := .single (.enum { name := "En", defaultPrefix := "EN_", options := ["A", "B", "C"] }
                (some { notIn := ["C"] })
                (some { text := "f1/df41+454e5f42/s0/ds0/q0/qi-", defaultFilters := ["A", "EN_B"] })) } = true := by
  decide

example : WFRules {
    name := "m", number := 2, required := true,
    schema := .map (.integer .i32 (some { minimum := some 3 }) none) (some { minPairs := some 1, maxPairs := some 3 }) none } = true ∧
  WellTyped false {
    name := "m", number := 2, required := true,
    schema := .map (.integer .i32 (some { minimum := some 3 }) none) (some { minPairs := some 1, maxPairs := some 3 }) none }
    (.list [.int 3, .int 7]) = true := by
  decide

example : WFRules {
    name := "k", number := 2,
    schema := .single (.key (some .id62) (some { typ := .primary true }) none) } = true := by decide

/-! ## Source-fact obligations (regenerated by `extract/rules.go` on every check)

See `J5V/Rules/SrcFacts.lean`. The facts are re-extracted from the current
`internal/j5s/j5convert/fields.go`; a changed guard, cast, slot or an unrecognised construct makes
the obligation fail. -/
section Src
open J5V.Rules.Src
set_option maxRecDepth 100000

/-- **inclusivity table = model.** For each of the four integer formats and each member of the
`less_than` / `greater_than` oneofs (`lte, lt, gte, gt`) the source has exactly one copy; it takes
`st.Integer.Rules.Maximum` / `.Minimum` cast to the field's type, under `Rules != nil`, the
format's case, `<bound> != nil` and one of the two recognised spellings of the test on
`Exclusive<bound>`; and for each value of that flag (absent, false, true) the guard fires exactly
when the model's `compileInt` picks that member. The member is stored in the matching oneof slot. -/
theorem C12_src_inclusivity_table : writerInclusivityMatchesModel = true ∧ writerSlotsMatch = true := by decide +kernel

/-- required: `node.Schema.Required`, forced for primary keys, written as
`(buf.validate.field).required = true` (the model's `setRequired` / `psmPrimaryKey`) -/
theorem C12_src_required_written : writerRequiredFacts = true := by decide +kernel

/-- array / map: item (value) constraints are attached whenever they or the container rules exist,
each container rule under `Rules != nil` alone (`wrapArray` / `wrapMap`); key formats map to
uuid / the id62 pattern / the declared pattern / nothing (`keyStringC`) -/
theorem C12_src_containers_and_keys : containerGuardFacts = true ∧ keyFormatFacts = true := by decide +kernel

/-- the range check of integer bounds (`checkIntegerBound`, 33463c1): per format the spelled
interval test agrees with the model's `boundFits` around every boundary -/
theorem C12_src_bound_range_check : boundCheckFacts = true := by decide +kernel

/-- every rule kind has a branch: each member of `schema.Field.type` is a case of `buildField`
(`buildProperty` for array / map), and unknown members are errors -/
theorem C12_src_branches : everyMemberHasWriterBranch = true ∧ writerDefaultsPresent = true := by decide +kernel

/-- the rule fields the writer reads: every field of every `…Field.Rules` message except the
explicit list (multipleOf, object min/maxProperties: ignored; float rules: compile error;
timestamp bounds: not expressible in j5s text) -/
theorem C12_src_rule_fields_read : everySchemaFieldIsReadOrListed = true := by decide +kernel

end Src

end J5V.Props.C12
