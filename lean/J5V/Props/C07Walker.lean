import J5V.Walker.ParserLink
import J5V.Walker.PP.Entity
import J5V.Walker.TextRoundtrip
import J5V.Generated.BclunicodeFacts
import J5V.Walker.WalkCex
import J5V.Walker.TermCheck
import J5V.Walker.Facts
import J5V.Walker.OrderLink
/-!
# C07 (walker part) — the schema-driven BCL walker `j5s text → SourceFile`

Model: `J5V.Walker` (`walkSchema env body msg : Res Node`, a result `.ok tree`, `.err e` or `.panic why`;
`env` = block spec + schema of containers and scalars, here `j5Env` converted from the regenerated facts
`Generated/WalkerspecFacts`, `Generated/WalkerschemaFacts`; `stub j5Env filename` = `FileStub(filename)`);
`body` = the statements of the BCL parser model `J5V.Bcl.parseFile cls src ff` (C11). Tie to the code:
stream `walker.parse` (PROTOCOL-walker.md). Only property theorems, non-vacuity examples and obligations over
regenerated facts live here; lemmas: `J5V/Walker/*Proofs.lean`, `WalkMain.lean`, `WalkJ5.lean`,
`ParserLink.lean`, `TermCheck.lean`.

Every source-level statement holds for **every** classifier `cls`, **every** rune string `src` (Go strings
reach the lexer through `[]rune(data)`), both parser modes `ff` and **every** file name (arbitrary bytes);
there is no bound on length or nesting.

`InFileLC src p` is "`p.line < lineCount` and `p.col ≤` rune length of that line" over
`strings.Split(src, "\n")` (the EOL / EOF column is allowed) — `J5V/Bcl/PosLines.lean`.
-/
namespace J5V.Props.C07Walker
open J5V.Bcl J5V.Walker

/-! ## Obligations over the facts regenerated from the current source -/

/-- the extractors met nothing they could not represent: no unknown construct in the literal `J5SchemaSpec`
(`internal/j5s/j5parse/schema.go`), no unknown field type / unresolved name in the j5 schema closure of
`SourceFile` -/
theorem C07W_src_facts_complete : factsProblems = [] := by decide

/-- **the spec the code ships is well formed** (`Env.WF`, decidable, evaluated by the kernel on the
regenerated facts; the six conjuncts of `J5V/Walker/WF.lean`): `closed` — every object / oneof / enum a
property type names is in the schema table; `typesOK` — no property type is unknown, an object reference
resolves to an object schema and a oneof reference to a oneof schema, array / map items are object / oneof
/ scalar / enum / any; `rootOK` — the root schema is in the table and is an object; `stubOK` — the
properties `FileStub` presets (`path`, `package.name`, `sourceLocations`) have types that admit the
preset; `splitOK` — every path of every scalar split of `J5SchemaSpec` is non-empty and, followed from the
block's own schema through aliases and properties, ends at a scalar field; `mapNamesFresh` — the name
`<schema>.<property>` of a map container is neither a schema name nor the name of a block of
`J5SchemaSpec`. A change of `J5SchemaSpec` or of the j5 schema that breaks one of these breaks this theorem
— and with it every source-level theorem below, which all rest on it. (It is also the non-vacuity witness
for the hypothesis `env.WF` of the general forms.) -/
theorem C07W_src_spec_wf : j5Env.WF = true := j5Env_WF

/-! ## No panic -/

/-- **General form.** For any environment that is well formed (`env.WF`), any well-typed message `msg`
(`TreeOK`) and any statement list in which every block type reference has at least one ident
(`bodyTypesOK`, decidable), the walk returns `.ok` or `.err`: none of the model's panic sites (nil scope
root, index out of range, type assertion on a node of the wrong kind, exhausted fuel) is reached. -/
theorem C07W_walk_no_panic {env : Env} (hwf : env.WF = true) {msg : Node} (hmsg : TreeOK env msg)
    (body : List Statement) (hb : bodyTypesOK body = true) (why : String) :
    walkSchema env body msg ≠ .panic why :=
  J5V.Walker.C07W_walk_no_panic hwf hmsg body hb why

/-- **Source-level form for j5s files.** Whatever the source text, parser mode and file name: if the BCL
parser returns a tree, walking its statements over the file stub with the j5 spec never panics. The
hypothesis `bodyTypesOK` is discharged by the parser (`parseFile_bodyTypesOK`), `WF` by
`C07W_src_spec_wf`, `TreeOK` of the stub by `j5_stub_treeOK`. -/
theorem C07W_parse_walk_no_panic (cls : Cls) (src : List Rune) (ff : Bool) (f : File) (filename : Str)
    (h : parseFile cls src ff = .tree f) (why : String) :
    walkSchema j5Env f.body (stub j5Env filename) ≠ .panic why :=
  parse_walk_no_panic cls src ff f filename h why

/-- the parser never builds a block whose type reference is empty (both modes): every block header of the
tree is the header of a header fragment, and `popReference` pops an ident before `newReference` -/
theorem C07W_parse_types_ok (cls : Cls) (src : List Rune) (ff : Bool) (f : File)
    (h : parseFile cls src ff = .tree f) : bodyTypesOK f.body = true :=
  parseFile_bodyTypesOK cls src ff f h

/-- **The hypothesis `bodyTypesOK` is necessary for the MODEL** (checked counterexample, evaluated by the
kernel): on the statement list `cexBody` = one block whose type reference has NO ident, with a description
line in its body, the walk with the well-formed `j5Env` over the well-typed stub panics (`buildScope …
.resetScope` with an empty path returns the tail scope, whose root is nil; `setDescription` dereferences
it). Such a statement list cannot come from the parser: Go's `NewReference` indexes `idents[0]`, so the
real code would have panicked already when building the reference, and the parser model pops an ident first
(`C07W_parse_types_ok`). The source-level theorems therefore carry no such hypothesis. -/
theorem C07W_walk_counterexample :
    bodyTypesOK cexBody = false ∧ (walkSchema j5Env cexBody (stub j5Env [97])).isPanic = true :=
  ⟨rfl, walkSchema_panics_on_empty_type_reference⟩

/-! ## Error positions -/

/-- **General form.** An error of the walk carries a position (a span), and both ends of the span are
positions of the statements: `BodyPos body p` = `p` belongs to every set of positions that contains `0:0`
(the span of the synthetic `true` of a `!` / `?` mark) and both ends of every span stored in the statements
(statement, key / type idents, end of the type reference, tags and qualifiers with their reference idents,
values incl. array elements, descriptions). The side condition excludes the one error raised BEFORE the
walk, when the spec of the root schema cannot be built — a property of `env` alone. -/
theorem C07W_error_positions {env : Env} (hwf : env.WF = true) {msg : Node} (hmsg : TreeOK env msg)
    (body : List Statement) (hb : bodyTypesOK body = true) {e : WErr}
    (h : walkSchema env body msg = .err e) (hroot : newRootSchemaWalker env ≠ .err e) :
    ∃ sp, e.pos = some sp ∧ BodyPos body sp.start ∧ BodyPos body sp.end_ :=
  C07W_walk_error_position hwf hmsg body hb h hroot

/-- for the j5 spec the side condition of the general form holds: the spec of the root schema builds -/
theorem C07W_j5_root_builds (e : WErr) : newRootSchemaWalker j5Env ≠ .err e := j5Env_root_walker e

/-- **Source-level form for j5s files.** Every error the walk of a parsed file returns carries a position,
and both ends of it lie inside the file: line `<` number of lines of `src`, column `≤` rune length of that
line (`InFileLC`; lines as `strings.Split(src, "\n")`). (C11 gives the same for the parser's own
diagnostics.) -/
theorem C07W_parse_error_positions (cls : Cls) (src : List Rune) (ff : Bool) (f : File) (filename : Str)
    (h : parseFile cls src ff = .tree f) {e : WErr}
    (he : walkSchema j5Env f.body (stub j5Env filename) = .err e) :
    ∃ sp, e.pos = some sp ∧ InFileLC src sp.start ∧ InFileLC src sp.end_ :=
  parse_walk_error_position cls src ff f filename h he

/-- every position of the statements of a parsed file is a position of the file -/
theorem C07W_parse_body_positions (cls : Cls) (src : List Rune) (ff : Bool) (f : File)
    (h : parseFile cls src ff = .tree f) : ∀ p, BodyPos f.body p → InFileLC src p :=
  parseFile_bodyPos cls src ff f h

/-! ## Successful walks -/

/-- **General form.** A successful walk returns a well-typed tree (`TreeOK`: every node has the shape its
schema property prescribes) that extends the message it started from (`Ext`, "the tree only grows": every
typed address that was valid in `msg` is valid in the result, and a container found there is still a
container of the same shape — message, list or map). -/
theorem C07W_walk_ok {env : Env} (hwf : env.WF = true) {msg tree : Node} (hmsg : TreeOK env msg)
    (body : List Statement) (hb : bodyTypesOK body = true) (h : walkSchema env body msg = .ok tree) :
    TreeOK env tree ∧ Ext env msg tree :=
  J5V.Walker.C07W_walk_ok hwf hmsg body hb h

/-- **Source-level form for j5s files**: the result of walking a parsed file is a well-typed `SourceFile`
that extends the stub (path, package name, empty source locations). -/
theorem C07W_parse_walk_ok (cls : Cls) (src : List Rune) (ff : Bool) (f : File) (filename : Str)
    (h : parseFile cls src ff = .tree f) {tree : Node}
    (hw : walkSchema j5Env f.body (stub j5Env filename) = .ok tree) :
    TreeOK j5Env tree ∧ Ext j5Env (stub j5Env filename) tree :=
  parse_walk_ok cls src ff f filename h hw

/-! ## Termination

What is proved, exactly. `walkSchema` is a Lean function, so it returns on every input; the question is
whether it can return "I gave up". Every function of the model is a STRUCTURAL recursion (over the
statements, the values, the lists of the spec): accepted by Lean's structural-recursion checker, and
`J5V/Walker/TermCheck.lean` fails the build if a project function reachable from `walkSchema` / `stub` is
defined by well-founded recursion, `partial`, `unsafe` or `opaque`. The one recursion that follows the
SPEC instead of the input — `setAttribute` ⇄ `setContainerFromScalar`: a scalar assigned to a container
is split over the container's own attributes, which may be containers with a split again — is structural
on a fuel argument, started at `fuelOf env = 2·|given| + |schemas| + 8`, and returns `.panic "fuel"` at
zero (the Go code would recurse until the stack overflows on a cyclic spec). The theorem: under `env.WF`
(which bounds the nesting of scalar splits) the fuel is never exhausted. -/

/-- **General form**: for a well-formed environment the spec-following recursion never runs out of fuel,
whatever the statements (with `bodyTypesOK`) and the well-typed message. Corollary of
`C07W_walk_no_panic`. -/
theorem C07W_terminates {env : Env} (hwf : env.WF = true) {msg : Node} (hmsg : TreeOK env msg)
    (body : List Statement) (hb : bodyTypesOK body = true) : walkSchema env body msg ≠ .panic "fuel" :=
  J5V.Walker.C07W_walk_no_panic hwf hmsg body hb "fuel"

/-- **Source-level form for j5s files**: walking any parsed file with the j5 spec never exhausts the
fuel. -/
theorem C07W_parse_walk_terminates (cls : Cls) (src : List Rune) (ff : Bool) (f : File) (filename : Str)
    (h : parseFile cls src ff = .tree f) : walkSchema j5Env f.body (stub j5Env filename) ≠ .panic "fuel" :=
  parse_walk_no_panic cls src ff f filename h "fuel"

/-! ## Parse + walk, combined -/

/-- **From text to `SourceFile`, total.** For every classifier, every rune string `src`, either parser mode
and every file name: `ParseFile` returns a non-empty list of diagnostics, or a tree; and for a tree the
walk over the file stub returns either `.ok tree'` with `tree'` a well-typed `SourceFile` extending the
stub, or `.err e` where `e` has a position with both ends inside `src` — never `.panic` (no nil
dereference, index or type-assertion failure, no exhausted fuel). -/
theorem C07W_parse_walk_total (cls : Cls) (src : List Rune) (ff : Bool) (filename : Str) :
    (∃ es, es ≠ [] ∧ parseFile cls src ff = .errors es) ∨
    (∃ f, parseFile cls src ff = .tree f ∧
      ((∃ tree, walkSchema j5Env f.body (stub j5Env filename) = .ok tree ∧
          TreeOK j5Env tree ∧ Ext j5Env (stub j5Env filename) tree) ∨
       (∃ e sp, walkSchema j5Env f.body (stub j5Env filename) = .err e ∧
          e.pos = some sp ∧ InFileLC src sp.start ∧ InFileLC src sp.end_))) :=
  parse_walk_total cls src ff filename

/-! ## Non-vacuity (evaluated by the kernel on `asciiCls`, file name `a`)

`C07W_src_spec_wf` is the witness for `env.WF`; `j5_stub_treeOK` for `TreeOK`. -/

/-- a small j5s file parses to a tree and its walk succeeds (hypotheses and the `.ok` branch are
inhabited) -/
example : ∃ f, parseFile asciiCls (ofAscii "object Foo {\n field a ! string\n}\n") true = .tree f ∧
    (walkSchema j5Env f.body (stub j5Env [97])).isOk = true :=
  tree_of_match (by rw [j5Env_nf]; decide +kernel)

/-- a file the parser accepts and the walk rejects: `object` has no block `required`; the error sits on
line 1, columns 1–8 (the `.err` branch is inhabited, with a position) -/
example : ∃ f, parseFile asciiCls (ofAscii "object Foo {\n required {\n }\n}\n") true = .tree f ∧
    (walkSchema j5Env f.body (stub j5Env [97])).errPos = some ⟨⟨1, 1⟩, ⟨1, 8⟩⟩ :=
  tree_of_match (by rw [j5Env_nf]; decide +kernel)

/-- … and that position is inside the file -/
example : InFileLC (ofAscii "object Foo {\n required {\n }\n}\n") ⟨1, 1⟩ ∧
    InFileLC (ofAscii "object Foo {\n required {\n }\n}\n") ⟨1, 8⟩ := by decide +kernel


/-! ## Acceptance of the documented language: print, then parse -/

/-- **C07W, print / parse.** For every abstract j5s file `ast` of the generator's syntax (`J5V.Compile.SrcFile`, the
type the compile theorems C02 / C07 / C13 / C17 start from) inside the fragment `supported` — package, imports, objects,
oneofs and enums with fields of all 15 kinds, every format and qualifier form, `!` / `?` marks, flatten, arrays and maps,
inline and nested schemas, every rule kind with literals of the right kind, services and methods, topics, entities with
keys, data, statuses, events, commands, summaries and query — walking the syntax tree `toBcl ast` of the printed text over
the stub of `filename` succeeds and returns EXACTLY the message `toMsg filename ast` the file denotes (every touched flag
included). `toBcl` / `toMsg` are written independently of the walker (`Walker/Print.lean`) and tied to the real printer
and parser by the stream `walker.print` (the parse tree of the printed text, erased, equals `toBcl ast`; the real
parser's message equals `toMsg`). Proof: exact symbolic execution of the interpreter by induction over the syntax
(`Walker/PP/*`). -/
theorem C07W_print_parse (filename : Str) (ast : J5V.Compile.SrcFile) (h : supported ast = true) :
    walkSchema j5Env (toBcl ast) (stub j5Env filename) = .ok (toMsg filename ast) :=
  J5V.Walker.C07W_print_parse filename ast h

/-- a file inside the fragment: `foo/v1/a.j5s` with `object Foo { field a ! string; field b integer:INT32;
field c array:object:Bar }` and `enum Kind { A B }` -/
def demoAst : J5V.Compile.SrcFile :=
  .j5s [102,111,111,47,118,49,47,97,46,106,53,115] [] [
    .object (.mk [70,111,111] [
      .mk [97] true false (.string [] false),
      .mk [98] false false (.integer .int32 [] false),
      .mk [99] false false (.array (.objectRef [] [66,97,114] false []) [])] [] none),
    .enum ⟨[75,105,110,100], [], [[65], [66]]⟩] [102,111,111,46,118,49]
example : supported demoAst = true := by
  unfold supported; rw [j5Env_nf]; decide +kernel

/-! ## Error spans are not reversed

The spans the walker puts on an error are spans of single nodes, POINT spans (`walkTags`: end of the type
reference / of a tag), the zero span (`!` / `?` marks) and HULLS `⟨first.span.start, last.span.end_⟩` of a run
of tags (`finishTags`), of qualifiers (`walkQualifiers`) or of the `remaining` values of a scalar split
(`setContainerFromScalar`: elements of ONE array value in their source order — `rightToLeft` reverses twice —
or `strings.Split` pieces of ONE string, which all carry that string's span). `BodyOrdered body`
(`J5V/Walker/OrderDefs.lean`, a structural predicate over the statements at any depth) is what makes all of
them `start ≤ end_`: every node span the walker reads (statement, key / type idents, tags and qualifiers with
their reference idents, values incl. nested array elements, descriptions) has `start ≤ end_`, and the tags of
a header, its qualifiers, and the elements of every array value are in SOURCE ORDER (each one's `span.end_ ≤`
every later one's `span.start`). Proof: the walk re-verified for an arbitrary set `S` of spans that contains
the node spans, the point spans and the hulls of all sublists of the three kinds of runs
(`walkSchema_specS`, `J5V/Walker/Order{Attr,Walk,Main}.lean`), instantiated with `S sp := sp.start ≤ sp.end_`. -/

/-- **General form.** For a well-formed environment, a well-typed message and statements that are
`BodyOrdered` (and whose block type references have an ident, as in `C07W_error_positions`), the span of an
error of the walk is not reversed: `sp.start ≤ sp.end_` in the lexicographic order on (line, column). -/
theorem C07W_error_span_ordered {env : Env} (hwf : env.WF = true) {msg : Node} (hmsg : TreeOK env msg)
    (body : List Statement) (hb : bodyTypesOK body = true) (hord : BodyOrdered body) {e : WErr}
    (h : walkSchema env body msg = .err e) (hroot : newRootSchemaWalker env ≠ .err e) :
    ∃ sp, e.pos = some sp ∧ sp.start ≤ sp.end_ :=
  C07W_walk_error_span_ordered hwf hmsg body hb hord h hroot

/-- **the parser's trees are `BodyOrdered`** (both modes, every classifier, every source): the parser reads
the tokens in source order (`WInv.ordered`), so consecutive tags, qualifiers and array elements are in
source order, and every node span has `start ≤ end_` (`J5V/Bcl/OrderProofs.lean`) -/
theorem C07W_parse_body_ordered (cls : Cls) (src : List Rune) (ff : Bool) (f : File)
    (h : parseFile cls src ff = .tree f) : BodyOrdered f.body :=
  J5V.Bcl.parseFile_bodyOrdered cls src ff f h

/-- **Source-level form for j5s files.** Every error the walk of a parsed file returns carries a span whose
two ends lie inside the file (`C07W_parse_error_positions`) and whose start is not after its end — the three
conditions of "inside the file" of the correspondence protocol (`0 ≤ line < lineCount`,
`0 ≤ col ≤ runeLen(line)`, `start ≤ end`), for every source text, parser mode and file name. -/
theorem C07W_parse_error_span_ordered (cls : Cls) (src : List Rune) (ff : Bool) (f : File) (filename : Str)
    (h : parseFile cls src ff = .tree f) {e : WErr}
    (he : walkSchema j5Env f.body (stub j5Env filename) = .err e) :
    ∃ sp, e.pos = some sp ∧ InFileLC src sp.start ∧ InFileLC src sp.end_ ∧ sp.start ≤ sp.end_ :=
  parse_walk_error_span_ordered cls src ff f filename h he

/-- non-vacuity of `BodyOrdered` + the `.err` branch, on a HULL span: `object Foo Bar Baz { }` parses, its
statements are `BodyOrdered`, and the walk rejects the two extra tags `Bar Baz` at the hull of their spans,
line 0, columns 11–17 (evaluated by the kernel) -/
example : ∃ f, parseFile asciiCls (ofAscii "object Foo Bar Baz {\n}\n") true = .tree f ∧
    BodyOrdered f.body ∧ bodyTypesOK f.body = true ∧
    (walkSchema j5Env f.body (stub j5Env [97])).errPos = some ⟨⟨0, 11⟩, ⟨0, 17⟩⟩ := by
  obtain ⟨f, hf, he⟩ : ∃ f, parseFile asciiCls (ofAscii "object Foo Bar Baz {\n}\n") true = .tree f ∧
      (walkSchema j5Env f.body (stub j5Env [97])).errPos = some ⟨⟨0, 11⟩, ⟨0, 17⟩⟩ :=
    tree_of_match (by rw [j5Env_nf]; decide +kernel)
  exact ⟨f, hf, C07W_parse_body_ordered _ _ _ f hf, C07W_parse_types_ok _ _ _ f hf, he⟩


/-! ## Acceptance from source TEXT

`printJ5s ast` (`Walker/PrintText.lean`) is the text the harness printer `j5sgen.PrintFile` writes in its plain style:
one statement per line, two spaces per open block, single spaces between tokens, `type:qualifier`, strings quoted,
a blank line after `package`, after the imports, after every element and in front of nested schemas. The stream
`walker.print` compares it byte for byte with the Go printer's text on every op. `ClsAscii cls`: the classifier agrees
with ASCII on runes < 128 (letters, digits, white space) — Go's tables do: `C07W_src_ascii_class`. -/

/-- **C07W, text round trip.** For every file `ast` of the fragment `supported`, the BCL parser (either mode)
accepts the plain-style text `printJ5s ast`, and the syntax tree it builds is `toBcl ast` up to positions. (Proof:
the text is `renderFile plainGap (toBcl ast)`; `toBcl ast` is well formed for the lexer and the walker
(`toBcl_textOK`); `tree_text_roundtrip` — the C09 machinery: the text lexes to the canonical tokens, the BCL walker
reads them back, `fragmentsToFile` inverts the flattening.) -/
theorem C07W_text_roundtrip (cls : Cls) (hcls : ClsAscii cls) (ast : J5V.Compile.SrcFile)
    (h : supported ast = true) (ff : Bool) :
    ∃ t, parseFile cls (printJ5s ast) ff = .tree t ∧
      Statement.eraseList t.body = Statement.eraseList (toBcl ast) :=
  text_roundtrip cls hcls ast h ff

/-- the schema walker does not look at positions: two statement lists equal up to positions give the same result up
to the position of the error -/
theorem C07W_walk_position_free (env : Env) (body body' : List Statement) (msg : Node)
    (he : Statement.eraseList body' = Statement.eraseList body) :
    (walkSchema env body' msg).dropPos = (walkSchema env body msg).dropPos :=
  walkSchema_dropPos_of_erase_eq env body body' msg he

/-- **C07W, acceptance from source text.** Every file of the documented fragment, written in the plain style, is
accepted and denotes its SourceDef: `ParseFile` of `printJ5s ast` gives a tree, and the walk of that tree over the stub
of `filename` returns exactly `toMsg filename ast`. (`C07W_text_roundtrip` + `C07W_walk_position_free` +
`C07W_print_parse`.) -/
theorem C07W_text_parse_walk (cls : Cls) (hcls : ClsAscii cls) (filename : Str)
    (ast : J5V.Compile.SrcFile) (h : supported ast = true) (ff : Bool) :
    ∃ t, parseFile cls (printJ5s ast) ff = .tree t ∧
      walkSchema j5Env t.body (stub j5Env filename) = .ok (toMsg filename ast) :=
  text_parse_walk cls hcls filename ast h ff

/-- in Go's tables the ASCII runes are classified as `asciiCls` classifies them (bit 1 = `unicode.IsSpace`, 2 =
`IsDigit`, 4 = `IsLetter`): the hypothesis `ClsAscii` of the text theorems holds for the real classifier -/
theorem C07W_src_ascii_class :
    (List.range 128).all (fun r =>
      let b := J5V.Generated.Bclunicode.asciiClass.getD r 0
      decide ((b % 2 = 1) = (asciiCls.isSpace r = true)) &&
      decide ((b / 2 % 2 = 1) = (asciiCls.isDigit r = true)) &&
      decide ((b / 4 % 2 = 1) = (asciiCls.isLetter r = true))) = true := by decide

example : ClsAscii asciiCls := asciiCls_clsAscii

end J5V.Props.C07Walker
