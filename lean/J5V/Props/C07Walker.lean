import J5V.Walker.Walk
import J5V.Walker.Facts
import J5V.Walker.Stub
import J5V.Walker.Dump
/-!
# C07 (walker part) — the schema-driven BCL walker `j5s text → SourceFile`

Model: `J5V.Walker` (`walkSchema env body msg`; `env` = block spec + schema of containers and scalars, here
`j5Env` converted from the regenerated facts `Generated/WalkerspecFacts`, `Generated/WalkerschemaFacts`);
tie to the code: stream `walker.parse` (PROTOCOL-walker.md). Only property theorems, non-vacuity examples and
obligations over regenerated facts live here.
-/
namespace J5V.Props.C07Walker
open J5V.Walker

/-! ## Obligations over the facts regenerated from the current source -/

/-- the extractors met nothing they could not represent: no unknown construct in the literal `J5SchemaSpec`
(`internal/j5s/j5parse/schema.go`), no unknown field type / unresolved name in the j5 schema closure of
`SourceFile` -/
theorem C07W_src_facts_complete : factsProblems = [] := by decide

end J5V.Props.C07Walker
