import J5V.Codec.SpellingProofs
import J5V.Codec.FaultProofs
import J5V.Codec.FaultDocProofs
import J5V.Codec.SpellProofs
import J5V.Codec.QueryProofs
import J5V.Codec.ExactProofs
import J5V.Codec.StoredProofs
import J5V.Codec.StoredFlat
import J5V.Codec.FlatItems
import J5V.Generated.CodecFacts
/-!
# C03 — decoding is exact or rejected

Property theorems only. Scalar level first (every scalar token goes through
`scalarReflectFromGo` = `decodeScalar`): documented alternate spellings denote the same value, and
each fault class of the property text is rejected with an error.
-/
namespace J5V.Props.C03
open J5V.Go J5V.Json J5V.Codec

/-! ## alternate spellings -/

/-- quoted and bare spellings of a 32-bit integer denote the same value -/
theorem C03_int32_quoted_or_bare (O : Oracle) (i : Int) (h1 : -(2 ^ 31 : Int) ≤ i) (h2 : i < 2 ^ 31) :
    decodeScalar O .int32 (.str (fmtInt i)) = .ok (some (.int i)) ∧
    decodeScalar O .int32 (.num (fmtInt i)) = .ok (some (.int i)) := by
  constructor
  · simp only [decodeScalar]; rw [parseInt_fmtInt i 32 (by simpa using h1) (by simpa using h2)]
  · simp only [decodeScalar]; rw [parseInt_fmtInt i 64 (by omega) (by omega)]
    simp only []; rw [if_neg (by omega)]

/-- quoted and bare spellings of a 64-bit integer denote the same value -/
theorem C03_int64_quoted_or_bare (O : Oracle) (i : Int) (h1 : -(2 ^ 63 : Int) ≤ i) (h2 : i < 2 ^ 63) :
    decodeScalar O .int64 (.str (fmtInt i)) = .ok (some (.int i)) ∧
    decodeScalar O .int64 (.num (fmtInt i)) = .ok (some (.int i)) := by
  constructor <;>
  · simp only [decodeScalar]; rw [parseInt_fmtInt i 64 (by simpa using h1) (by simpa using h2)]

/-- quoted and bare spellings of an unsigned 64-bit integer denote the same value — for the whole
range (after repair 492207d: bare values above `MaxInt64` used to be rejected) -/
theorem C03_uint64_quoted_or_bare (O : Oracle) (n : Nat) (h : n < 2 ^ 64) :
    decodeScalar O .uint64 (.str (fmtNat n)) = .ok (some (.uint n)) ∧
    decodeScalar O .uint64 (.num (fmtNat n)) = .ok (some (.uint n)) := by
  constructor <;> · simp only [decodeScalar]; rw [parseUint_fmtNat n 64 h]

theorem C03_uint32_quoted_or_bare (O : Oracle) (n : Nat) (h : n < 2 ^ 32) :
    decodeScalar O .uint32 (.str (fmtNat n)) = .ok (some (.uint n)) ∧
    decodeScalar O .uint32 (.num (fmtNat n)) = .ok (some (.uint n)) := by
  constructor
  · simp only [decodeScalar]; rw [parseUint_fmtNat n 32 h]
  · simp only [decodeScalar]
    have := parseInt_fmtInt (n : Int) 64 (by omega) (by omega)
    rw [fmtInt_nonneg _ (by omega)] at this
    simp only [Int.toNat_natCast] at this
    rw [this]; simp only []; rw [if_neg (by omega)]; simp

/-- floats and decimals: the quoted and the bare spelling of the same text go through the same
library call, so they denote the same value (or are both rejected) -/
theorem C03_float_decimal_quoted_or_bare (O : Oracle) (text : Bytes) :
    decodeScalar O .float64 (.str text) = decodeScalar O .float64 (.num text) ∧
    decodeScalar O .float32 (.str text) = decodeScalar O .float32 (.num text) ∧
    decodeScalar O .decimal (.str text) = decodeScalar O .decimal (.num text) :=
  ⟨rfl, rfl, rfl⟩

/-- base64: standard or URL-safe alphabet, with or without padding, same bytes -/
theorem C03_base64_spellings (O : Oracle) (bs : Bytes) :
    decodeScalar O .bytes (.str (b64Encode bs)) = .ok (some (.bytes bs)) ∧
    decodeScalar O .bytes (.str ((b64Encode bs).map stdToUrl)) = .ok (some (.bytes bs)) ∧
    decodeScalar O .bytes (.str (stripPad (b64Encode bs))) = .ok (some (.bytes bs)) := by
  refine ⟨?_, ?_, ?_⟩ <;> simp only [decodeScalar]
  · rw [byteValueFromString_encode]
  · rw [byteValueFromString_url]
  · rw [byteValueFromString_unpadded]

/-- enum option names with or without the enum prefix denote the same option (unless another
option literally carries the prefixed name, which the exact-match rule of 7e19d0c prefers) -/
theorem C03_enum_prefix (pfx : Bytes) (opts : List (Bytes × Int)) (name : Bytes) (n : Int)
    (h : (opts.find? fun o => o.1 == name) = some (name, n))
    (hfull : (opts.find? fun o => o.1 == pfx ++ name) = none) :
    enumOptionByName pfx opts name = some n ∧ enumOptionByName pfx opts (pfx ++ name) = some n :=
  ⟨enumOptionByName_short pfx opts name n h, enumOptionByName_prefixed pfx opts name n h hfull⟩

/-! ## faults are rejected (scalar level) -/

/-- wrong JSON type for the field kind -/
theorem C03_fault_wrong_type (O : Oracle) (k : ScalarKind) (t : GoTok) (h : wrongType k t = true) :
    ∃ e, decodeScalar O k t = .err e :=
  decodeScalar_wrongType O k t h

/-- unparsable or out-of-range integers, quoted or bare, every integer format (after repair
b7a2948: the quoted forms used to be dropped silently) -/
theorem C03_fault_bad_integer (O : Oracle) (text : Bytes) :
    (parseInt text 64 = none → ∃ e, decodeScalar O .int32 (.num text) = .err e) ∧
    (parseInt text 64 = none → ∃ e, decodeScalar O .int64 (.num text) = .err e) ∧
    (parseInt text 64 = none → ∃ e, decodeScalar O .uint32 (.num text) = .err e) ∧
    (parseUint text 64 = none → ∃ e, decodeScalar O .uint64 (.num text) = .err e) ∧
    (parseInt text 32 = none → ∃ e, decodeScalar O .int32 (.str text) = .err e) ∧
    (parseInt text 64 = none → ∃ e, decodeScalar O .int64 (.str text) = .err e) ∧
    (parseUint text 32 = none → ∃ e, decodeScalar O .uint32 (.str text) = .err e) ∧
    (parseUint text 64 = none → ∃ e, decodeScalar O .uint64 (.str text) = .err e) :=
  decodeScalar_int_unparsable O text

theorem C03_fault_int32_range (O : Oracle) (text : Bytes) (v : Int) (hp : parseInt text 64 = some v)
    (hr : v > 2147483647 ∨ v < -2147483648) : ∃ e, decodeScalar O .int32 (.num text) = .err e :=
  decodeScalar_int32_range O text v hp hr

theorem C03_fault_uint32_range (O : Oracle) (text : Bytes) (v : Int) (hp : parseInt text 64 = some v)
    (hr : v < 0 ∨ v > 4294967295) : ∃ e, decodeScalar O .uint32 (.num text) = .err e :=
  decodeScalar_uint32_range O text v hp hr

/-- invalid base64 / date / decimal / timestamp / float text -/
theorem C03_fault_invalid_text (O : Oracle) (s : Bytes) :
    (byteValueFromString s = none → ∃ e, decodeScalar O .bytes (.str s) = .err e) ∧
    (dateFromString s = none → ∃ e, decodeScalar O .date (.str s) = .err e) ∧
    (O.parseDec s = none → ∃ e, decodeScalar O .decimal (.str s) = .err e) ∧
    (O.parseTime s = none → ∃ e, decodeScalar O .timestamp (.str s) = .err e) ∧
    (O.parseFloat s = none → ∃ e, decodeScalar O .float64 (.str s) = .err e) ∧
    (O.parseFloat s = none → ∃ e, decodeScalar O .float32 (.num s) = .err e) :=
  decodeScalar_invalid_text O s

/-- exactness: a scalar token is never coerced — when `decodeScalar` succeeds on an integer kind
the stored value is the integer the text denotes -/
theorem C03_int_exact (O : Oracle) (text : Bytes) (v : PVal)
    (h : decodeScalar O .int64 (.num text) = .ok (some v)) :
    ∃ i, parseInt text 64 = some i ∧ v = .int i := by
  simp only [decodeScalar] at h
  cases hp : parseInt text 64 with
  | none => simp [hp] at h
  | some i => simp only [hp] at h; cases h; exact ⟨i, rfl, rfl⟩

/-- **scalar exactness, stated independently of the decoder, every non-oracle kind** (round 4; answers the
audit finding that `scalarSpells` is defined through `decodeScalar`). Whenever `decodeScalar` succeeds,
the stored value is THE value the token denotes, where the denotation is given by the arithmetic /
textual functions below and not by `decodeScalar`:
* integers: `parseInt text bits` / `parseUint text bits` = the value of the optional sign and the decimal
  digits of the whole text (`none` unless the text is exactly that and fits `bits`; `parseInt_fmtInt`,
  `parseUint_fmtNat` tie them to the digit strings); a bare number is read at 64 bits and — for the
  32-bit kinds — must lie in the 32-bit range; nothing is truncated, rounded or wrapped (`uint32`: the
  stored natural number is `i.toNat` of an `i` with `0 ≤ i`);
* bytes: one of the four base64 decodings of the text (`byteValueFromString`: standard / URL alphabet,
  padded / unpadded; `C03_base64_spellings`);
* date: the three `-`-separated integers, month 1–12, the day exists in that month of that year
  (`daysInMonth`: Gregorian, with the century rule);
* bool / string / key: the token itself.
Floats, timestamps and decimals are oracle kinds: the stored value is what the shipped
`ParseFloat` / `time.Parse` / `decimal.NewFromString` table says (`decodeScalar` adds only the float32
range arm). With this theorem the `scalarSpells` clauses inside `StoredV` / `StoredRoot`
(`C03_exact_stored_*`, `C03_exact_or_rejected_*`) mean: the value at the member's path is the denoted
value in the sense above. -/
theorem C03_scalar_exact (O : Oracle) (text : Bytes) (v : PVal) :
    (decodeScalar O .int32 (.num text) = .ok (some v) →
      ∃ i, parseInt text 64 = some i ∧ -2147483648 ≤ i ∧ i ≤ 2147483647 ∧ v = .int i) ∧
    (decodeScalar O .int32 (.str text) = .ok (some v) → ∃ i, parseInt text 32 = some i ∧ v = .int i) ∧
    (decodeScalar O .int64 (.num text) = .ok (some v) → ∃ i, parseInt text 64 = some i ∧ v = .int i) ∧
    (decodeScalar O .int64 (.str text) = .ok (some v) → ∃ i, parseInt text 64 = some i ∧ v = .int i) ∧
    (decodeScalar O .uint32 (.num text) = .ok (some v) →
      ∃ i, parseInt text 64 = some i ∧ 0 ≤ i ∧ i ≤ 4294967295 ∧ v = .uint i.toNat) ∧
    (decodeScalar O .uint32 (.str text) = .ok (some v) → ∃ n, parseUint text 32 = some n ∧ v = .uint n) ∧
    (decodeScalar O .uint64 (.num text) = .ok (some v) → ∃ n, parseUint text 64 = some n ∧ v = .uint n) ∧
    (decodeScalar O .uint64 (.str text) = .ok (some v) → ∃ n, parseUint text 64 = some n ∧ v = .uint n) ∧
    (decodeScalar O .bytes (.str text) = .ok (some v) →
      ∃ b, byteValueFromString text = some b ∧ v = .bytes b) ∧
    (decodeScalar O .date (.str text) = .ok (some v) →
      ∃ a b c y m d, splitDash text = [a, b, c] ∧ parseInt a 64 = some y ∧ parseInt b 64 = some m ∧
        parseInt c 64 = some d ∧ 1 ≤ m ∧ m ≤ 12 ∧ 1 ≤ d ∧ d ≤ daysInMonth y m ∧ v = .date y m d) ∧
    (decodeScalar O .string (.str text) = .ok (some v) → v = .str text) ∧
    (decodeScalar O .key (.str text) = .ok (some v) → v = .str text) ∧
    (∀ b, decodeScalar O .bool (.bool b) = .ok (some v) → v = .bool b) := by
  refine ⟨?_, ?_, ?_, ?_, ?_, ?_, ?_, ?_, ?_, ?_, ?_, ?_, ?_⟩
  · intro h
    simp only [decodeScalar] at h
    cases hp : parseInt text 64 with
    | none => simp [hp] at h
    | some i =>
      simp only [hp] at h
      split at h
      · cases h
      · next hr => cases h; exact ⟨i, rfl, by omega, by omega, rfl⟩
  · intro h
    simp only [decodeScalar] at h
    cases hp : parseInt text 32 with
    | none => simp [hp] at h
    | some i => simp only [hp] at h; cases h; exact ⟨i, rfl, rfl⟩
  · intro h
    simp only [decodeScalar] at h
    cases hp : parseInt text 64 with
    | none => simp [hp] at h
    | some i => simp only [hp] at h; cases h; exact ⟨i, rfl, rfl⟩
  · intro h
    simp only [decodeScalar] at h
    cases hp : parseInt text 64 with
    | none => simp [hp] at h
    | some i => simp only [hp] at h; cases h; exact ⟨i, rfl, rfl⟩
  · intro h
    simp only [decodeScalar] at h
    cases hp : parseInt text 64 with
    | none => simp [hp] at h
    | some i =>
      simp only [hp] at h
      split at h
      · cases h
      · next hr => cases h; exact ⟨i, rfl, by omega, by omega, rfl⟩
  · intro h
    simp only [decodeScalar] at h
    cases hp : parseUint text 32 with
    | none => simp [hp] at h
    | some n => simp only [hp] at h; cases h; exact ⟨n, rfl, rfl⟩
  · intro h
    simp only [decodeScalar] at h
    cases hp : parseUint text 64 with
    | none => simp [hp] at h
    | some n => simp only [hp] at h; cases h; exact ⟨n, rfl, rfl⟩
  · intro h
    simp only [decodeScalar] at h
    cases hp : parseUint text 64 with
    | none => simp [hp] at h
    | some n => simp only [hp] at h; cases h; exact ⟨n, rfl, rfl⟩
  · intro h
    simp only [decodeScalar] at h
    cases hp : byteValueFromString text with
    | none => simp [hp] at h
    | some b => simp only [hp] at h; cases h; exact ⟨b, rfl, rfl⟩
  · intro h
    simp only [decodeScalar] at h
    cases hp : dateFromString text with
    | none => simp [hp] at h
    | some r =>
      obtain ⟨y, m, d⟩ := r
      simp only [hp] at h
      cases h
      unfold dateFromString at hp
      split at hp
      · next a b c hsplit =>
        split at hp
        · next y' m' d' h1 h2 h3 =>
          split at hp
          · cases hp
          · split at hp
            · cases hp
            · split at hp
              · cases hp
              · next hr1 hr2 hr3 =>
                cases hp
                exact ⟨a, b, c, y, m, d, hsplit, h1, h2, h3, by omega, by omega, by omega, by omega, rfl⟩
        · cases hp
      · cases hp
  · intro h; simp only [decodeScalar] at h; cases h; rfl
  · intro h; simp only [decodeScalar] at h; cases h; rfl
  · intro b h; simp only [decodeScalar] at h; cases h; rfl

/-- **enum exactness** (round 4): an accepted enum name is the name of a declared option — as written, or
with the enum's prefix removed — and the stored number is THAT option's number (never a default, never
another option). -/
theorem C03_enum_exact (pfx : Bytes) (opts : List (Bytes × Int)) (name : Bytes) (n : Int)
    (h : enumOptionByName pfx opts name = some n) :
    (name, n) ∈ opts ∨ (trimPrefix name pfx, n) ∈ opts := by
  unfold enumOptionByName at h
  cases hf : opts.find? (fun o => o.1 == name) with
  | some o =>
    simp only [hf, Option.some.injEq] at h
    have hm := List.mem_of_find?_eq_some hf
    have he : o.1 = name := by simpa using List.find?_some hf
    left
    have : o = (name, n) := Prod.ext he h
    rw [← this]; exact hm
  | none =>
    simp only [hf, optionByName] at h
    cases hg : opts.find? (fun o => o.1 == trimPrefix name pfx) with
    | none => simp [hg] at h
    | some o =>
      simp only [hg, Option.map_some, Option.some.injEq] at h
      have hm := List.mem_of_find?_eq_some hg
      have he : o.1 = trimPrefix name pfx := by simpa using List.find?_some hg
      right
      have : o = (trimPrefix name pfx, n) := Prod.ext he h
      rw [← this]; exact hm

/-! ## structural faults are rejected -/

/-- unknown key: a member whose name the property set does not have fails the object / the oneof
(`"no such field"` / `"no such key"`), whatever follows and whatever was decoded before -/
theorem C03_fault_unknown_key (c : Cfg) (props : List PropDef) (k kr : Bytes) (v : PTree)
    (rest : PMembers) (st : PS) (h : findProp props k = none) :
    (∃ e, decObjMembers c props (.cons k kr v rest) st = .err e) ∧
    (k ≠ ascii "!type" → ∀ found ct, ∃ e, decOneofMembers c props (.cons k kr v rest) st found ct = .err e) :=
  ⟨unknown_key_object c props k kr v rest st h,
   fun hk found ct => unknown_key_oneof c props k kr v rest st found ct hk h⟩

/-- duplicate key: a second non-null value for a property that was already given is rejected
(`CreateField`: "already set") for every field kind and every value -/
theorem C03_fault_duplicate_key (c : Cfg) (props : List PropDef) (p : PropDef) (t : PTree) (st : PS)
    (hseen : p.jsonName ∈ st.seen) (hnn : t ≠ .null) : ∃ e, decProp c props p t st = .err e :=
  duplicate_key c props p t st hseen hnn

/-- more than one key in a oneof; a `!type` that contradicts the key present; a `!type` naming no
member — all rejected by the post-checks, which fail the whole oneof -/
theorem C03_fault_oneof (ops : List PropDef) :
    (∀ a b rest ct m, ∃ e, oneofPost ops (a :: b :: rest) ct m = .err e) ∧
    (∀ k name m, k ≠ name → ∃ e, oneofPost ops [k] (some name) m = .err e) ∧
    (∀ name m, findProp ops name = none → ∃ e, oneofPost ops [] (some name) m = .err e) ∧
    (∀ st found ct term, (∃ e, oneofPost ops found ct st.m = .err e) →
      ∃ e, finishOneof ops (.ok (st, found, ct, term)) = .err e) :=
  ⟨oneof_multiple_keys ops, oneof_type_mismatch ops, oneof_type_unknown ops,
   finishOneof_post_err ops⟩

/-- more than one member of a **proto** oneof (members of an anonymous proto oneof are ordinary
optional properties of the J5 object; members of a wrapper / exposed oneof likewise live in one
proto oneof): a non-null value for a member while a different member of the same proto oneof is set
in the message is rejected, for every field kind and every value (after repair 25c97b7: protobuf
used to drop the first member silently — `{"aOneofString":"x","aOneofFloat":1}` was accepted) -/
theorem C03_fault_proto_oneof_second_member (c : Cfg) (props : List PropDef) (p : PropDef) (t : PTree)
    (st : PS) (hbusy : groupBusy props p st.m = true) (hnn : t ≠ .null) :
    ∃ e, decProp c props p t st = .err e :=
  proto_oneof_second_member c props p t st hbusy hnn

/-- every key of a oneof body other than `!type` is counted (`foundKeys`), so a body with two
keys reaches the post-checks with at least two entries -/
theorem C03_oneof_keys_counted (c : Cfg) (ops : List PropDef) (ms : PMembers) (st : PS)
    (found : List Bytes) (ct : Option Bytes) (st' : PS) (found' : List Bytes) (ct' : Option Bytes)
    (term : Term) (h : decOneofMembers c ops ms st found ct = .ok (st', found', ct', term)) :
    found.length ≤ found'.length :=
  decOneofMembers_found_grows c ops ms st found ct st' found' ct' term h

/-- faults at any position: an error while decoding a member value is an error of the enclosing
object — at the member itself and at every later member; likewise for array elements and map
values. By induction this lifts a fault at any depth to the root. -/
theorem C03_fault_propagates (c : Cfg) (props : List PropDef) (k kr : Bytes) (v : PTree)
    (rest : PMembers) (st : PS) (p : PropDef) (hf : findProp props k = some p) :
    ((∃ e, decProp c props p v st = .err e) → ∃ e, decObjMembers c props (.cons k kr v rest) st = .err e) ∧
    (∀ st1, decProp c props p v st = .ok st1 → (∃ e, decObjMembers c props rest st1 = .err e) →
      ∃ e, decObjMembers c props (.cons k kr v rest) st = .err e) :=
  ⟨object_propagates c props k kr v rest st p hf,
   fun st1 hok h => object_propagates_later c props k kr v rest st st1 p hf hok h⟩

/-- a scalar fault (any of the scalar-level fault theorems above) inside a property, an array
element or a map value fails the property / array / map -/
theorem C03_fault_scalar_positions (c : Cfg) (k : ScalarKind) (t : PTree) (tok : GoTok)
    (hg : goTok t = some tok) (h : ∃ e, decodeScalar c.O k tok = .err e) :
    (∀ props p st, p.field = .scalar k → t ≠ .null → ∃ e, decProp c props p t st = .err e) ∧
    (∀ rest acc, ∃ e, decElems c (.scalar k) (.cons t rest) acc = .err e) ∧
    (∀ key kr rest acc, ∃ e, decMapMembers c (.scalar k) (.cons key kr t rest) acc = .err e) :=
  ⟨fun props p st hf hnn => scalar_prop_propagates c props p k t tok st hf hg hnn h,
   fun rest acc => array_propagates_scalar c k t tok rest acc hg h,
   fun key kr rest acc => map_propagates_scalar c k key kr t tok rest acc hg h⟩

/-! ## document level: every admissible spelling decodes to the same message -/

/-- (`_partial`: proved for `Env.flat` environments and — hypothesis `hA` — not for j5 `Any` values under
`WithProtoToAny`, where the decoder also stores the expanded content; protobuf-`Any` documents and an
exposed oneof inlined from a flattened object are outside `SpellsV` / `Env.flat`.)

**C03_variations_partial**: for every `Env.flat` environment (flattened objects, exposed oneofs, proto
oneofs, wrapper oneofs, enums, arrays / maps, j5 `Any` properties — for those the codec without
`WithProtoToAny`, `hA`) and every representable message `m`: every
document that *spells* `m` (`SpellsRoot`, `Codec/Doc.lean`, defined by recursion on the document)
— object members in **any order**, **explicit nulls** anywhere, `"!type"` before / after / without
the oneof member, the `"!type"` and `"value"` members of an `Any` in either order (the value any
complete JSON value whose compact rendering is the stored `j5_json`), array elements and map values
in order, every scalar written in **any** form
`scalarReflectFromGo` maps to the stored value (the documented alternates: `C03_scalar_alternates`
below), enum names with or without prefix — decodes to exactly `m`. The canonical encoding is one
of these documents, so they all produce the same message as the canonical spelling. -/
theorem C03_variations_partial (c : Cfg) (hs : c.env.flat = true)
    (hA : c.protoToAny = false ∨ c.env.noJ5Any = true) (root : String) (m : Fields) (t : PTree)
    (hok : valOk c.env c.O (.object root) (.msg m) = true ∨
      valOk c.env c.O (.oneof root) (.msg m) = true)
    (h : SpellsRoot c root m t) : decRootTree c root t = .ok m :=
  spells_root_decodes c hs hA root m t hok h

/-- the same for `Codec.JSONToProto` on the document the JSON reader model delivers.
What the `_bytes` form is: the tree theorem instantiated at `t := readDoc bs` (same proof term). `readDoc` —
the model of `Decoder.Token()` + the tree builder — is where insignificant whitespace and string escapes
are consumed; there is NO theorem that `readDoc` is insensitive to insignificant whitespace
(`readDoc (ws-variant bs) = readDoc bs`; only `readDoc_render` for the encoder's compact output exists),
so the property's whitespace clause rests on the tokenizer model, validated by the `tok` ops and the
`ws` / `escape` variations of the correspondence stream — it is not a theorem. The hypotheses speak about
`readDoc bs`, not about the bytes. -/
theorem C03_variations_bytes_partial (c : Cfg) (hs : c.env.flat = true)
    (hA : c.protoToAny = false ∨ c.env.noJ5Any = true) (root : String) (m : Fields)
    (bs : Bytes)
    (hok : valOk c.env c.O (.object root) (.msg m) = true ∨
      valOk c.env c.O (.oneof root) (.msg m) = true)
    (h : SpellsRoot c root m (readDoc bs)) : decodeBytes c root bs = .ok m :=
  spells_root_decodes c hs hA root m (readDoc bs) hok h

/-- the documented alternate spellings of a scalar all *spell* the value (`scalarSpells` is the
leaf case of `SpellsRoot`): quoted or bare 32- and 64-bit integers over their whole range;
standard, URL-safe and unpadded base64; floats and decimals quoted or bare, in any text
`ParseFloat` / `decimal.NewFromString` maps to the value; timestamps in any RFC 3339 text
`time.Parse` maps to the instant (any offset); any string literal denoting the string -/
theorem C03_scalar_alternates (O : Oracle) (raw : Bytes) :
    (∀ i : Int, -(2 ^ 31 : Int) ≤ i → i < 2 ^ 31 →
      scalarSpells O .int32 (.int i) (.str (fmtInt i) raw) ∧ scalarSpells O .int32 (.int i) (.num (fmtInt i))) ∧
    (∀ i : Int, -(2 ^ 63 : Int) ≤ i → i < 2 ^ 63 →
      scalarSpells O .int64 (.int i) (.str (fmtInt i) raw) ∧ scalarSpells O .int64 (.int i) (.num (fmtInt i))) ∧
    (∀ n : Nat, n < 2 ^ 32 →
      scalarSpells O .uint32 (.uint n) (.str (fmtNat n) raw) ∧ scalarSpells O .uint32 (.uint n) (.num (fmtNat n))) ∧
    (∀ n : Nat, n < 2 ^ 64 →
      scalarSpells O .uint64 (.uint n) (.str (fmtNat n) raw) ∧ scalarSpells O .uint64 (.uint n) (.num (fmtNat n))) ∧
    (∀ bs : Bytes, scalarSpells O .bytes (.bytes bs) (.str (b64Encode bs) raw) ∧
      scalarSpells O .bytes (.bytes bs) (.str ((b64Encode bs).map stdToUrl) raw) ∧
      scalarSpells O .bytes (.bytes bs) (.str (stripPad (b64Encode bs)) raw)) ∧
    (∀ x b b32, O.parseFloat x = some (b, b32) →
      scalarSpells O .float64 (.f64 b) (.str x raw) ∧ scalarSpells O .float64 (.f64 b) (.num x)) ∧
    (∀ x b b32, O.parseFloat x = some (b, some b32) →
      scalarSpells O .float32 (.f32 b32) (.str x raw) ∧ scalarSpells O .float32 (.f32 b32) (.num x)) ∧
    (∀ x norm, O.parseDec x = some norm →
      scalarSpells O .decimal (.dec norm) (.str x raw) ∧ scalarSpells O .decimal (.dec norm) (.num x)) ∧
    (∀ x s n, O.parseTime x = some (s, n) → scalarSpells O .timestamp (.ts s n) (.str x raw)) ∧
    (∀ s : Bytes, scalarSpells O .string (.str s) (.str s raw)) := by
  refine ⟨?_, ?_, ?_, ?_, ?_, ?_, ?_, ?_, ?_, ?_⟩
  · intro i h1 h2
    obtain ⟨a, b⟩ := C03_int32_quoted_or_bare O i h1 h2
    exact ⟨⟨by simp, _, rfl, a⟩, ⟨by simp, _, rfl, b⟩⟩
  · intro i h1 h2
    obtain ⟨a, b⟩ := C03_int64_quoted_or_bare O i h1 h2
    exact ⟨⟨by simp, _, rfl, a⟩, ⟨by simp, _, rfl, b⟩⟩
  · intro n h
    obtain ⟨a, b⟩ := C03_uint32_quoted_or_bare O n h
    exact ⟨⟨by simp, _, rfl, a⟩, ⟨by simp, _, rfl, b⟩⟩
  · intro n h
    obtain ⟨a, b⟩ := C03_uint64_quoted_or_bare O n h
    exact ⟨⟨by simp, _, rfl, a⟩, ⟨by simp, _, rfl, b⟩⟩
  · intro bs
    obtain ⟨a, b, d⟩ := C03_base64_spellings O bs
    exact ⟨⟨by simp, _, rfl, a⟩, ⟨by simp, _, rfl, b⟩, ⟨by simp, _, rfl, d⟩⟩
  · intro x b b32 h
    exact ⟨⟨by simp, _, rfl, by simp [decodeScalar, h]⟩, ⟨by simp, _, rfl, by simp [decodeScalar, h]⟩⟩
  · intro x b b32 h
    exact ⟨⟨by simp, _, rfl, by simp [decodeScalar, h]⟩, ⟨by simp, _, rfl, by simp [decodeScalar, h]⟩⟩
  · intro x norm h
    exact ⟨⟨by simp, _, rfl, by simp [decodeScalar, h]⟩, ⟨by simp, _, rfl, by simp [decodeScalar, h]⟩⟩
  · intro x s n h
    exact ⟨by simp, _, rfl, by simp [decodeScalar, h]⟩
  · intro s
    exact ⟨by simp, _, rfl, rfl⟩

/-! ## exactness: member by member, and composed over the whole document (`C03_exact_stored_partial`) -/

/-- **Full statement** of the first sentence's exactness half: whenever decoding succeeds, the
document spells the resulting message (every non-null member is stored with the value it denotes
and nothing else is stored). Proved for `Env.apart` in the relational form `StoredRoot`
(`C03_exact_stored_partial`, whole document, every depth, both halves at the granularity of
properties / elements / keys); `SpellsRoot` itself is narrower than what the decoder accepts
(e.g. repeated `"!type"`), so the full statement is stated with `StoredRoot` there. -/
def C03_exact_full : Prop :=
  ∀ (c : Cfg), c.env.flat = true → ∀ (root : String) (t : PTree) (m : Fields),
    decRootTree c root t = .ok m → SpellsRoot c root m t

/-- **a successfully decoded non-null scalar member is stored with exactly the value its token
denotes**: for every property set, every decoder state, every scalar kind — the value `vv` is one
`scalarReflectFromGo` maps the token to (`scalarSpells`: never a coerced or truncated value), it
is found at the proto path of the property afterwards (or it is the zero value of an
implicit-presence field, which protobuf does not store), and every leaf of the message at an
unrelated path (neither above nor below) is exactly as before: nothing else is lost. -/
theorem C03_exact_scalar_member_partial (c : Cfg) (props : List PropDef) (p : PropDef)
    (k : ScalarKind) (t : PTree) (st st' : PS) (hf : p.field = .scalar k) (hnn : t ≠ .null)
    (hne : p.path ≠ []) (h : decProp c props p t st = .ok st') :
    ∃ vv, scalarSpells c.O k vv t ∧
      (getPath st'.m p.path = some vv ∨
        ((p.pres == .imp && vv.isZero) = true ∧ getPath st'.m p.path = none)) ∧
      ∀ x, x ≠ [] → ¬ p.path <+: x → ¬ x <+: p.path → getPath st'.m x = getPath st.m x :=
  scalar_member_stored c props p k t st st' hf hnn hne h

/-- **object level exactness (scalar members)**: whenever the member loop of an object succeeds —
at the top level or for any nested object, array element or map value, from any decoder state —
**every non-null scalar member** of that object is found in the resulting message at the proto
path of its property with exactly a value its token denotes (or it is the zero value of an
implicit-presence field, which protobuf does not store), whatever the other members of the object
are (later members never overwrite it: `C03_set_frame`). `PathsApart`: the properties have proto
paths none of which is a prefix of another's — what `Env.flat` gives for object roots without
exposed oneofs. -/
theorem C03_exact_object_scalars_partial (c : Cfg) (props : List PropDef) (hpa : PathsApart props)
    (ms : PMembers) (st st' : PS) (term : Term)
    (h : decObjMembers c props ms st = .ok (st', term))
    (k : Bytes) (v : PTree) (p : PropDef) (kk : ScalarKind) (hmem : isMember k v ms)
    (hnn : v ≠ .null) (hfp : findProp props k = some p) (hfld : p.field = .scalar kk) :
    ∃ vv, scalarSpells c.O kk vv v ∧
      (getPath st'.m p.path = some vv ∨
        ((p.pres == .imp && vv.isZero) = true ∧ getPath st'.m p.path = none)) :=
  object_scalar_members_exact c props hpa ms st st' term h k v p kk hmem hnn hfp hfld

/-- **array elements**: a successfully decoded array of scalars is, element by element and in
order, the values the element tokens denote -/
theorem C03_exact_scalar_array_partial (c : Cfg) (k : ScalarKind) (xs : PElems) (acc l : List PVal)
    (term : Term) (h : decElems c (.scalar k) xs acc = .ok (l, term)) :
    ∃ vs, l = acc ++ vs ∧ elemsDenote c.O k vs xs :=
  scalar_elems_exact c k xs acc l term h

/-- **later members keep earlier ones**: `Message.Set` for property `p` — after `CreateField`
passed its proto-oneof check — leaves every leaf at a path that is neither above nor below
`p`'s path unchanged, whatever the message holds -/
theorem C03_set_frame (props : List PropDef) (p : PropDef) (v : Option PVal) (kl : Nat)
    (hkl : p.path.getLast? = some kl) (m : Fields) (x : List Nat) (hne : p.path ≠ []) (hx : x ≠ [])
    (h1 : ¬ p.path <+: x) (h2 : ¬ x <+: p.path) (hgb : groupBusy props p m = false) :
    getPath (updPath props p v m) x = getPath m x :=
  getPath_updPath_frame props p v kl hkl m x hne hx h1 h2
    (siblingsUnset_of_not_busy props p kl m hkl hgb)

/-- **whole-document exactness (`_partial` in the class of schemas, and one direction)**: whenever
`Codec.JSONToProto` accepts a document, the resulting message holds **everything the document
says, exactly** (`StoredRoot`, `Codec/Doc.lean`, a relation on the document that never mentions
the decoder): every non-null member — at every depth: members of nested objects, elements of
arrays (by position), values of maps (by key), the arm of a oneof (wrapper oneofs at any position,
`"!type"` before / after / absent / repeated) — is found at the proto path of its property with a
value `vv` such that
* a scalar token denotes exactly `vv` (`scalarSpells`: `scalarReflectFromGo` maps the token to it —
  never a coerced, truncated or defaulted value),
* an enum name is an option (short or prefixed) with exactly that number,
* an object / oneof / array / map is stored as a message / list / map that in turn holds
  everything its subtree says,
or — for the zero value of an implicit-presence field and for `[]` / `{}` of an array / map, which
protobuf does not store — the path is unset (`storedAt`). Later members never overwrite earlier
ones (`member_persists`, `oneof_persists`, `map_persists`).

**And nothing else is stored**: in every object of the document a property is set only if the
object has a non-null member for it (`OnlyM`; a oneof that has an arm member: `OnlyO`), a stored
list has exactly one value per element, a stored map has exactly the document's keys, in order
(`StoredV`'s map clause). (Invariant: properties not yet met are unset, `Fresh`; nested messages
are decoded into fresh messages.)

An **exposed oneof** (empty proto path) is a oneof object over the *same* message: its member is
described by `StoredX` (the arm is stored in the enclosing message; `OnlyM` counts the members of
the exposed oneof as leaves of the property).

Hypothesis `Env.apart` (decidable: `Env.apartB`): in every object root the leaves of different
properties (`leavesOf`: the property's own proto path, or — exposed oneof — the one-element paths of
the oneof's members) are unrelated (none a prefix of another), in every oneof root all paths are
non-empty and unrelated — flattened objects (paths of any length), exposed oneofs, anonymous proto
oneofs, wrapper oneofs, arrays, maps, enums, `Any` fields are all allowed. This is what `Env.flat`
asks of the paths (`prefixFree` of the leaf entries). Every decoding mode.

Missing for the full statement: the content of an `Any` (`StoredV` does not look into it); an
exposed oneof inlined from a flattened object (its path is a prefix of its siblings'); for a oneof body made of `"!type"` members only, which arm `oneof.NewValue` selected;
proto fields that belong to no property path (the message is built from the empty one by
`Message.Set` at property paths only, but that is not part of `StoredRoot`).

What this theorem proves is PLACEMENT, FRAMING and ONLY-IF. For a scalar leaf `StoredV` says
`scalarSpells`: `decodeScalar` maps the token to the stored value — by itself that is what the
decoder's scalar function returned; that it is the value the token DENOTES (no coercion, truncation,
defaulting) is the separate theorem `C03_scalar_exact` (integers, bytes, date, bool, string) and, for
floats / timestamps / decimals, the shipped oracle tables. `StoredV … (.any _) = True`: the content
of an `Any` is not examined. -/
theorem C03_exact_stored_partial (c : Cfg) (hE : c.env.apart) (root : String) (t : PTree)
    (m : Fields) (h : decRootTree c root t = .ok m) : StoredRoot c root m t :=
  stored_root c hE root t m h

/-- **… for every flat environment** (`Env.flat`: the class C01's round trip is proved for —
flattened objects, exposed oneofs, anonymous proto oneofs, wrapper oneofs, enums, arrays / maps of
scalars / enums / objects / oneofs, j5 `Any` properties): `Env.flat → Env.apart`
(`apart_of_flat`: the leaf paths of an object root are duplicate-free and prefix-free, the members
of a oneof root have distinct one-element paths). -/
theorem C03_exact_stored_flat_partial (c : Cfg) (hs : c.env.flat = true) (root : String) (t : PTree)
    (m : Fields) (h : decRootTree c root t = .ok m) : StoredRoot c root m t :=
  stored_root c (apart_of_flat c.env hs) root t m h

/-- **"exact or rejected", packaged as the dichotomy the property names** (round 4): for every
document — every tree the JSON reader can deliver, malformed or not — over an environment with
unrelated leaf paths (`Env.apart`; every `Env.flat` environment: `apart_of_flat`) the decoder
EITHER returns an error OR returns a message that is exactly what the document says
(`StoredRoot`: every non-null member at every depth stored at its property's path with a value its
token denotes, nothing else set). There is no third outcome (no panic: `decRootTree_np`, C06), and
in particular no successful decode that drops, invents or alters a member. -/
theorem C03_exact_or_rejected_partial (c : Cfg) (hE : c.env.apart) (hc : c.env.itemsOk = true)
    (root : String) (t : PTree) :
    (∃ e, decRootTree c root t = .err e) ∨
      (∃ m, decRootTree c root t = .ok m ∧ StoredRoot c root m t) := by
  cases h : decRootTree c root t with
  | ok m => exact Or.inr ⟨m, rfl, stored_root c hE root t m h⟩
  | err e => exact Or.inl ⟨e, rfl⟩
  | panic w => exact absurd h (decRootTree_np c hc root t w)

/-- the same on the bytes `Codec.JSONToProto` reads, for every byte string and every flat
environment (`Env.flat` alone: it implies both `Env.apart` and `Env.itemsOk`) -/
theorem C03_exact_or_rejected_bytes_partial (c : Cfg) (hs : c.env.flat = true)
    (root : String) (bs : Bytes) :
    (∃ e, decodeBytes c root bs = .err e) ∨
      (∃ m, decodeBytes c root bs = .ok m ∧ StoredRoot c root m (readDoc bs)) :=
  C03_exact_or_rejected_partial c (apart_of_flat c.env hs) (itemsOk_of_flat c.env hs) root (readDoc bs)

/-- the class C01 / C03 are proved for satisfies the schema condition of C06 (array / map items are
never arrays or maps): for flat environments "never panics" needs no further hypothesis -/
theorem C03_flat_itemsOk (env : Env) (hs : env.flat = true) : env.itemsOk = true :=
  itemsOk_of_flat env hs

/-- **the two relational halves fit together** (round 4): whatever document `SpellsRoot` accepts as a
spelling of a representable message `m` is, read the other way round, a document that says exactly
`m` (`StoredRoot`) — the forward relation (`C03_variations_partial`) is contained in the backward one
(`C03_exact_stored_flat_partial`) — and a document spells **at most one** representable message. -/
theorem C03_spelled_is_stored (c : Cfg) (hs : c.env.flat = true)
    (hA : c.protoToAny = false ∨ c.env.noJ5Any = true) (root : String) (m : Fields) (t : PTree)
    (hok : valOk c.env c.O (.object root) (.msg m) = true ∨
      valOk c.env c.O (.oneof root) (.msg m) = true)
    (h : SpellsRoot c root m t) : StoredRoot c root m t :=
  stored_root c (apart_of_flat c.env hs) root t m (spells_root_decodes c hs hA root m t hok h)

theorem C03_spelling_unique (c : Cfg) (hs : c.env.flat = true)
    (hA : c.protoToAny = false ∨ c.env.noJ5Any = true) (root : String) (m m' : Fields) (t : PTree)
    (hok : valOk c.env c.O (.object root) (.msg m) = true ∨
      valOk c.env c.O (.oneof root) (.msg m) = true)
    (hok' : valOk c.env c.O (.object root) (.msg m') = true ∨
      valOk c.env c.O (.oneof root) (.msg m') = true)
    (h : SpellsRoot c root m t) (h' : SpellsRoot c root m' t) : m = m' := by
  have h1 := spells_root_decodes c hs hA root m t hok h
  have h2 := spells_root_decodes c hs hA root m' t hok' h'
  rw [h1] at h2
  cases h2; rfl

/-- how to read `StoredRoot` (top level of an object root): every non-null member `k: v` of the
document whose property has a proto path is stored at that path as a value `vv` the subtree `v` is
stored as (`StoredV`: for a scalar, `scalarSpells` — exactly a value the token denotes; recursively
for containers) -/
theorem C03_stored_member (c : Cfg) (props : List PropDef) (fs : Fields) :
    ∀ (ms : PMembers), StoredM c props fs ms → ∀ k v p, isMember k v ms → v ≠ .null →
      findProp props k = some p → p.path ≠ [] →
      ∃ vv, StoredV c p.field vv v ∧ storedAt fs p vv
  | .nil _, _, k, v, p, hm, _, _, _ => by simp [isMember] at hm
  | .cons k0 _ v0 rest, h, k, v, p, hm, hnn, hfp, hne => by
    simp only [StoredM] at h
    simp only [isMember] at hm
    rcases hm with ⟨rfl, rfl⟩ | hm
    · rcases h.1 with h1 | ⟨p', vv, hfp', _, hsv, hst⟩ | ⟨p', hfp', hpe, _⟩
      · exact absurd h1 hnn
      · rw [hfp] at hfp'; cases hfp'; exact ⟨vv, hsv, hst⟩
      · rw [hfp] at hfp'; cases hfp'; exact absurd hpe hne
    · exact C03_stored_member c props fs rest h.2 k v p hm hnn hfp hne

/-- the same on bytes: what `Codec.JSONToProto` accepts, it stored exactly as the reader saw it
(the tree theorem at `t := readDoc bs`; see the note at `C03_variations_bytes_partial`: no
whitespace-insensitivity theorem for `readDoc`) -/
theorem C03_exact_stored_bytes_partial (c : Cfg) (hE : c.env.apart) (root : String) (bs : Bytes)
    (m : Fields) (h : decodeBytes c root bs = .ok m) : StoredRoot c root m (readDoc bs) :=
  stored_root c hE root (readDoc bs) m h

/-! ## scalar values supplied as URL query parameters -/

/-- (`_partial`: ONE key with ONE value; every segment of the key must be the JSON name of a property
literally (`queryDoc` resolves it with `findProp`) — the `propertyName` / `ToLowerCamel` fallback for
snake-case segments, repeated values (array parameters), several keys in one query and JSON-valued
container parameters are NOT covered by this theorem; they are covered by the correspondence stream
`codec.query` and its Go-side oracle only.)

**C03_query_scalar_partial**: a scalar (or enum) value supplied as the URL query parameter
`a.b.c=v` — dotted path of JSON names through object, wrapper-oneof and exposed-oneof containers
of any proto path — produces the **same outcome** as the document `{"a":{"b":{"c":V}}}`
(`queryDoc`: `V` is `true` / `false` for a boolean field given as `true` / `false`, the string
`"v"` otherwise): the same message when accepted, an error exactly when the document is rejected.
For every environment (no hypothesis on the schema), every oracle, both modes. Together with
`C03_variations_partial` / `C03_scalar_alternates` (the string form of a number, a date, … is an
admissible spelling) the parameter produces the same message as the canonical spelling. -/
theorem C03_query_scalar_partial (c : Cfg) (root : String) (props : List PropDef) (key s : Bytes)
    (doc : PTree)
    (hroot : c.env.find root = some (.object props) ∨ c.env.find root = some (.oneof props))
    (hnt : ascii "!type" ∉ splitDot key) (hdoc : queryDoc c (splitDot key) props s = some doc) :
    (∃ m, decodeQuery c root [(key, [s])] = .ok m ∧ decRootTree c root doc = .ok m) ∨
    (∃ e e', decodeQuery c root [(key, [s])] = .err e ∧ decRootTree c root doc = .err e') ∨
    (∃ w w', decodeQuery c root [(key, [s])] = .panic w ∧ decRootTree c root doc = .panic w') :=
  query_scalar_doc c root props key s doc hroot hnt hdoc

/-! ## document level: a fault anywhere is rejected -/

/-- **C03_faults**: a document that contains — at the top level or at *any* nesting position
(member of a nested object, array element, map value, oneof arm), whatever surrounds it — a member
that cannot be represented in its target field is **rejected with an error**: never accepted,
never partially accepted, no panic. `FaultRoot` (`Codec/Doc.lean`) is defined by recursion on the
document only and lists the classes: wrong JSON type; a scalar token `scalarReflectFromGo` rejects
(unparsable / out-of-range number, invalid base64 / date / decimal / timestamp: the scalar-level
theorems above); unknown enum name; unknown key; more than one key in a oneof; a `"!type"` that
contradicts the key present or names no member; a `null` array element or map value; a duplicate
key; a truncated container. For every environment whose array / map items are not arrays / maps
(`Env.itemsOk`, needed only to exclude the `newFieldFactory` panic), every root, every oracle.

What this theorem is: error PROPAGATION from any depth. The scalar clause of `FaultV` is "`decodeScalar`
returns an error on the token"; that the documented fault classes (unparsable / out-of-range numbers,
invalid base64 / date / …) do make `decodeScalar` fail is the content of the scalar-level theorems
`C03_fault_wrong_type / bad_integer / int32_range / uint32_range / invalid_text`. NOT in `FaultRoot`:
faults inside the body of an `Any` (a key other than `"!type"` / `"value"`, a missing `"!type"` — `FaultV …
(.any _) = False`), and a second member of a plain proto oneof (only the single-step theorem
`C03_fault_proto_oneof_second_member`; `FaultM` has no such clause). -/
theorem C03_faults (c : Cfg) (hc : c.env.itemsOk = true) (root : String) (t : PTree)
    (h : FaultRoot c root t) : ∃ e, decRootTree c root t = .err e :=
  fault_rejected c hc root t h

/-- the same for `Codec.JSONToProto` on bytes: if the tree the JSON reader delivers contains a
fault, the call returns an error (the tree theorem at `t := readDoc bs`) -/
theorem C03_faults_bytes (c : Cfg) (hc : c.env.itemsOk = true) (root : String) (bs : Bytes)
    (h : FaultRoot c root (readDoc bs)) : ∃ e, decodeBytes c root bs = .err e :=
  fault_rejected c hc root (readDoc bs) h

/-- a fault inside a property value is a fault of the object, at any member position (the
constructor-like facts that make `FaultRoot` a relation "one fault at any position") -/
theorem C03_fault_positions (c : Cfg) (props : List PropDef) (k kr : Bytes) (v : PTree)
    (rest : PMembers) :
    (findProp props k = none → FaultM c props (.cons k kr v rest)) ∧
    (∀ p, findProp props k = some p → FaultV c p.field v → FaultM c props (.cons k kr v rest)) ∧
    (FaultM c props rest → FaultM c props (.cons k kr v rest)) ∧
    (∀ item x xs, FaultV c item x → FaultE c item (.cons x xs)) ∧
    (∀ item x xs, FaultE c item xs → FaultE c item (.cons x xs)) ∧
    (∀ item x xs, FaultV c item x → FaultMap c item (.cons k kr x xs)) ∧
    (∀ item x xs, FaultMap c item xs → FaultMap c item (.cons k kr x xs)) := by
  refine ⟨?_, ?_, ?_, ?_, ?_, ?_, ?_⟩
  · intro h; simp only [FaultM]; exact Or.inl h
  · intro p hp hv; simp only [FaultM]; exact Or.inr (Or.inl ⟨p, hp, hv⟩)
  · intro h; simp only [FaultM]; exact Or.inr (Or.inr (Or.inr h))
  · intro item x xs h; simp only [FaultE]; exact Or.inr (Or.inl h)
  · intro item x xs h; simp only [FaultE]; exact Or.inr (Or.inr h)
  · intro item x xs h; simp only [FaultMap]; exact Or.inr (Or.inl h)
  · intro item x xs h; simp only [FaultMap]; exact Or.inr (Or.inr h)

/-! ## Non-vacuity -/

/-- a small schema for the fault examples -/
def wOps : List PropDef :=
  [{ jsonName := ascii "a", path := [1], pres := .opt, field := .scalar .string, group := some 0 },
   { jsonName := ascii "b", path := [2], pres := .opt, field := .scalar .int32, group := some 0 }]

def mProps : List PropDef :=
  [{ jsonName := ascii "name", path := [1], pres := .imp, field := .scalar .string },
   { jsonName := ascii "w", path := [3], pres := .msg, field := .oneof "t.W" },
   { jsonName := ascii "arr", path := [4], pres := .list, field := .array (.scalar .int32) },
   { jsonName := ascii "sub", path := [5], pres := .msg, field := .object "t.M" }]

def faultEnv : Env := { defs := [("t.W", .oneof wOps), ("t.M", .object mProps)] }

def faultCfg : Cfg := { env := faultEnv, O := toyOracle }

example : faultEnv.itemsOk = true := by decide

theorem faultEnv_M : faultCfg.env.find "t.M" = some (.object mProps) := by decide
theorem faultEnv_W : faultCfg.env.find "t.W" = some (.oneof wOps) := by decide

/-- a reordered document with an explicit null, a quoted 32-bit integer and a oneof without
`"!type"`: `{"w":{"b":"7"},"sub":null,"arr":["1",2],"name":"x"}` spells the message
`{name: "x", w: {b: 7}, arr: [1, 2]}` -/
example : SpellsRoot faultCfg "t.M"
    [(1, .str (ascii "x")), (3, .msg [(2, .int 7)]), (4, .list [.int 1, .int 2])]
    (.obj (.cons (ascii "w") [] (.obj (.cons (ascii "b") [] (.str (ascii "7") []) (.nil .closed)))
      (.cons (ascii "sub") [] .null
        (.cons (ascii "arr") [] (.arr (.cons (.str (ascii "1") []) (.cons (.num (ascii "2")) (.nil .closed))))
          (.cons (ascii "name") [] (.str (ascii "x") []) (.nil .closed)))))) := by
  unfold SpellsRoot; rw [faultEnv_M]; simp only []
  -- "w"
  rw [SpellsM]
  refine ⟨mProps[1], by decide, Or.inr (Or.inl ⟨by simp, by decide, ⟨.msg [(2, .int 7)], rfl, ?_⟩, ?_⟩)⟩
  · show SpellsV faultCfg (.oneof "t.W") _ _
    rw [SpellsV, faultEnv_W]; simp only []
    rw [SpellsO]
    refine ⟨rfl, by decide, wOps[1], 2, .int 7, by decide, rfl, rfl, ?_, ?_⟩
    · intro q' hq' hne
      simp only [wOps, List.mem_cons, List.mem_singleton, List.not_mem_nil, or_false] at hq'
      rcases hq' with rfl | rfl
      · decide
      · exact absurd rfl hne
    · show SpellsV faultCfg (.scalar .int32) _ _
      rw [SpellsV]
      · exact ⟨by simp, _, rfl, rfl⟩
      all_goals (intros; simp_all)
  -- "sub": null
  rw [SpellsM]
  refine ⟨mProps[3], by decide, Or.inl ⟨rfl, ?_⟩⟩
  -- "arr"
  rw [SpellsM]
  refine ⟨mProps[2], by decide, Or.inr (Or.inl ⟨by decide, by decide, ⟨.list [.int 1, .int 2], rfl, ?_⟩, ?_⟩)⟩
  · show SpellsV faultCfg (.array (.scalar .int32)) _ _
    rw [SpellsV]
    rw [SpellsE]
    refine ⟨_, _, rfl, ?_, ?_⟩
    · rw [SpellsV]
      · exact ⟨by simp, _, rfl, rfl⟩
      all_goals (intros; simp_all)
    rw [SpellsE]
    refine ⟨_, _, rfl, ?_, ?_⟩
    · rw [SpellsV]
      · exact ⟨by simp, _, rfl, rfl⟩
      all_goals (intros; simp_all)
    rw [SpellsE]; exact ⟨rfl, rfl⟩
  -- "name"
  rw [SpellsM]
  refine ⟨mProps[0], by decide, Or.inr (Or.inl ⟨by decide, by decide, ⟨.str (ascii "x"), rfl, ?_⟩, ?_⟩)⟩
  · show SpellsV faultCfg (.scalar .string) _ _
    rw [SpellsV]
    · exact ⟨by simp, _, rfl, rfl⟩
    all_goals (intros; simp_all)
  -- end: every property not given is unset
  rw [SpellsM]
  refine ⟨rfl, ?_⟩
  intro p hp hn
  simp only [mProps, List.mem_cons, List.mem_singleton, List.not_mem_nil, or_false] at hp
  rcases hp with rfl | rfl | rfl | rfl
  · exact absurd (by decide) hn
  · exact absurd (by decide) hn
  · exact absurd (by decide) hn
  · exact ⟨fun _ => by decide, fun h => by simp at h⟩

/-- `sub.w.b=7` is the document `{"sub":{"w":{"b":"7"}}}` (hypotheses of `C03_query_scalar_partial`) -/
example : queryDoc faultCfg (splitDot (ascii "sub.w.b")) mProps (ascii "7") =
    some (.obj (.cons (ascii "sub") [] (.obj (.cons (ascii "w") [] (.obj (.cons (ascii "b") []
      (.str (ascii "7") []) (.nil .closed))) (.nil .closed))) (.nil .closed))) := by
  rfl
example : ascii "!type" ∉ splitDot (ascii "sub.w.b") := by decide

/-- hypotheses of `C03_exact_scalar_member_partial` are satisfiable: `"name":"x"` is accepted -/
example : decProp faultCfg mProps mProps[0] (.str (ascii "x") []) { m := [], seen := [] } =
    .ok { m := [(1, .str (ascii "x"))], seen := [ascii "name"] } := by rfl

/-- hypotheses of the object / array exactness theorems are satisfiable -/
example : decObjMembers faultCfg mProps
    (.cons (ascii "name") [] (.str (ascii "x") []) (.nil .closed)) { m := [], seen := [] } =
    .ok ({ m := [(1, .str (ascii "x"))], seen := [ascii "name"] }, .closed) := by rfl
example : decElems faultCfg (.scalar .int32) (.cons (.num (ascii "1")) (.nil .closed)) [] =
    .ok ([.int 1], .closed) := by rfl
example : mProps[0].path.getLast? = some 1 ∧ groupBusy mProps mProps[0] [] = false ∧
    ¬ mProps[0].path <+: [5] ∧ ¬ [5] <+: mProps[0].path := by decide

/-- hypothesis of `C03_exact_stored_partial`: the example environment (scalars, a wrapper oneof
with a proto-oneof group, an array, a recursive object) addresses unrelated leaves … -/
example : faultEnv.apart := apart_of_apartB faultEnv (by decide)
/-- … and so does an environment with a flattened object (paths `[6,1]`, `[6,2,1]`), a map and an
`Any` … -/
example : Env.apart { defs := [("t.F", .object [
    { jsonName := ascii "fa", path := [6, 1], pres := .imp, field := .scalar .string },
    { jsonName := ascii "fb", path := [6, 2, 1], pres := .list, field := .array (.object "t.F") },
    { jsonName := ascii "tags", path := [7], pres := .map, field := .map (.scalar .string) },
    { jsonName := ascii "any", path := [8], pres := .msg, field := .any false }])] } :=
  apart_of_apartB _ (by decide)
/-- … and one with an **exposed oneof** (`kind`: members in fields 20 / 21 of the object itself) -/
example : Env.apart { defs := [
    ("t.K", .oneof [
      { jsonName := ascii "num", path := [20], pres := .opt, field := .scalar .int32, group := some 0 },
      { jsonName := ascii "sub", path := [21], pres := .msg, field := .object "t.X", group := some 0 }]),
    ("t.X", .object [
      { jsonName := ascii "name", path := [1], pres := .imp, field := .scalar .string },
      { jsonName := ascii "kind", path := [], pres := .none, field := .oneof "t.K" },
      { jsonName := ascii "fa", path := [40, 1], pres := .imp, field := .scalar .string }])] } :=
  apart_of_apartB _ (by decide)
/-- overlapping leaves are not: an exposed member in the field of another property -/
example : Env.apartB { defs := [
    ("t.K", .oneof [{ jsonName := ascii "num", path := [1], pres := .opt, field := .scalar .int32 }]),
    ("t.X", .object [
      { jsonName := ascii "name", path := [1], pres := .imp, field := .scalar .string },
      { jsonName := ascii "kind", path := [], pres := .none, field := .oneof "t.K" }])] } = false := by
  decide
/-- a document the decoder accepts (so the conclusion is about something): reordered members, a
quoted 32-bit integer, a oneof without `"!type"`, an explicit null -/
example : decRootTree faultCfg "t.M"
    (.obj (.cons (ascii "w") [] (.obj (.cons (ascii "b") [] (.str (ascii "7") []) (.nil .closed)))
      (.cons (ascii "sub") [] .null
        (.cons (ascii "name") [] (.str (ascii "x") []) (.nil .closed))))) =
    .ok [(1, .str (ascii "x")), (3, .msg [(2, .int 7)])] := by rfl

/-- the `Any` clause of `SpellsV`: `{"value":{},"!type":"t.T"}` — value first — spells the j5 `Any`
holding `j5_json = {}` … -/
example (c : Cfg) : SpellsV c (.any false) (.anyJ5 (ascii "t.T") [] (ascii "{}") .none "" (.msg []))
    (.obj (.cons (ascii "value") [] (.obj (.nil .closed))
      (.cons (ascii "!type") [] (.str (ascii "t.T") []) (.nil .closed)))) := by
  simp only [SpellsV]
  exact ⟨rfl, ascii "t.T", .obj (.nil .closed), [], [], [], rfl, rfl, by decide, Or.inr rfl⟩
/-- … and such a message is representable in a flat environment with an `Any` property (hypotheses
of `C03_variations_partial` for `Any`: `hok`, `hs`, `hA`) -/
example : valOk { defs := [("t.A", .object [
      { jsonName := ascii "p", path := [2], pres := .msg, field := .any false }])] }
    { toyOracle with chunk := fun bs => if bs = ascii "{}" then some (.obj (.nil .closed)) else none }
    (.object "t.A") (.msg [(2, .anyJ5 (ascii "t.T") [] (ascii "{}") .none "" (.msg []))]) = true ∧
    Env.flat { defs := [("t.A", .object [
      { jsonName := ascii "p", path := [2], pres := .msg, field := .any false }])] } = true := by
  decide

/-- `PathsApart` holds for the example object -/
example : PathsApart mProps := by
  refine ⟨by decide, ?_⟩
  intro p hp q hq hne
  simp only [mProps, List.mem_cons, List.mem_singleton, List.not_mem_nil, or_false] at hp hq
  rcases hp with rfl | rfl | rfl | rfl <;> rcases hq with rfl | rfl | rfl | rfl <;>
    first | exact absurd rfl hne | decide

example : faultEnv.flat = true := by decide
/-- hypotheses of `C03_exact_or_rejected_partial` / `_bytes_partial` (an environment with a wrapper
oneof, scalars, an enum …): flat, hence apart, and `itemsOk` -/
example : faultEnv.flat = true ∧ faultEnv.itemsOk = true := by decide
example : valOk faultEnv toyOracle (.object "t.M")
    (.msg [(1, .str (ascii "x")), (3, .msg [(2, .int 7)]), (4, .list [.int 1, .int 2])]) = true := by decide

/-- unknown key, nested: `{"sub":{"zz":1}}` -/
example : FaultRoot faultCfg "t.M"
    (.obj (.cons (ascii "sub") [] (.obj (.cons (ascii "zz") [] (.num (ascii "1")) (.nil .closed))) (.nil .closed))) := by
  unfold FaultRoot; rw [faultEnv_M]; simp only []
  rw [FaultM]
  refine Or.inr (Or.inl ⟨mProps[3], by decide, ?_⟩)
  show FaultV faultCfg (.object "t.M") _
  rw [FaultV, faultEnv_M]; simp only []
  rw [FaultM]
  exact Or.inl (by decide)

/-- unparsable number in an array element: `{"arr":[1,"x"]}` -/
example : FaultRoot faultCfg "t.M"
    (.obj (.cons (ascii "arr") [] (.arr (.cons (.num (ascii "1")) (.cons (.str (ascii "x") []) (.nil .closed))))
      (.nil .closed))) := by
  unfold FaultRoot; rw [faultEnv_M]; simp only []
  rw [FaultM]
  refine Or.inr (Or.inl ⟨mProps[2], by decide, ?_⟩)
  show FaultV faultCfg (.array (.scalar .int32)) _
  rw [FaultV]
  rw [FaultE]; right; right
  rw [FaultE]; right; left
  rw [FaultV]
  · simp only [goTok]
    exact ⟨_, rfl⟩
  all_goals (intros; simp_all)

/-- two keys in a oneof arm: `{"w":{"a":"x","b":1}}` -/
example : FaultRoot faultCfg "t.M"
    (.obj (.cons (ascii "w") [] (.obj (.cons (ascii "a") [] (.str (ascii "x") [])
      (.cons (ascii "b") [] (.num (ascii "1")) (.nil .closed)))) (.nil .closed))) := by
  unfold FaultRoot; rw [faultEnv_M]; simp only []
  rw [FaultM]
  refine Or.inr (Or.inl ⟨mProps[1], by decide, ?_⟩)
  show FaultV faultCfg (.oneof "t.W") _
  rw [FaultV, faultEnv_W]; simp only []
  right
  have hk : oneofKeys (.cons (ascii "a") [] (.str (ascii "x") [])
      (.cons (ascii "b") [] (.num (ascii "1")) (.nil .closed))) = [ascii "a", ascii "b"] := by decide
  unfold FaultOneofPost; rw [hk]; trivial

example : parseInt (ascii "abc") 32 = none := by decide
example : parseInt (ascii "2147483648") 32 = none := by decide
example : parseUint (ascii "-1") 64 = none := by decide
example : byteValueFromString (ascii "a*b") = none := by decide
example : dateFromString (ascii "2020-13-45") = none := by decide
example : dateFromString (ascii "2023-02-29") = none := by decide
example : dateFromString (ascii "2024-02-29") = some (2024, 2, 29) := by decide
example : wrongType .bool (.str (ascii "true")) = true := by decide
example : ((b64Encode [0xfb, 0xff]).map stdToUrl) = ascii "-_8=" := by decide
example : stripPad (b64Encode [0xfb, 0xff]) = ascii "+/8" := by decide
/-- `groupBusy` holds in the witness of 25c97b7: `aOneofString` (field 100) is set, `aOneofFloat`
(field 102) of the same proto oneof arrives -/
example : groupBusy
    [{ jsonName := ascii "aOneofString", path := [100], pres := .opt, field := .scalar .string, group := some 0 },
     { jsonName := ascii "aOneofFloat", path := [102], pres := .opt, field := .scalar .float32, group := some 0 }]
    { jsonName := ascii "aOneofFloat", path := [102], pres := .opt, field := .scalar .float32, group := some 0 }
    [(100, .str (ascii "x"))] = true := by decide
/-- an enum whose option's short name starts with the prefix (the class repaired by 7e19d0c) -/
example : enumOptionByName (ascii "T_") [(ascii "X", 1), (ascii "T_X", 2)] (ascii "T_X") = some 2 := by
  decide

/-! ## source facts
Obligations over `J5V.Generated.Codec` (regenerated from /repo's current source by extract/codec.go at
every check run). Maintained by codec-go; they tie the model's case analysis to the switches in
the Go source. -/
section SourceFacts
open J5V.Generated.Codec

/-- E3: no arm of `scalarReflectFromGo` answers a failed parse with a nil error (the defect
repaired by /repo b7a2948: `"abc"` in an integer field was silently dropped). -/
theorem C03_src_no_swallowed_parse_error :
    (scalarArms.all fun a => !a.swallowsError) = true := by decide

/-- the string helpers and `DateFromString` hand their parse error on -/
theorem C03_src_helpers_return_errors :
    (helperSwallowsError.all fun p => !p.2) = true := by decide

/-- every `default:` arm of the Go-type switches is an error (wrong JSON type is rejected) -/
theorem C03_src_default_arms_reject :
    (scalarArms.all fun a => !a.isDefault || a.defaultReturnsError) = true := by decide

/-- the arms reachable from JSON tokens / query strings (string, json.Number, bool, nil, default) are
exactly the ones the model's `scalarReflectFromGo` distinguishes -/
theorem C03_src_token_arms :
    ((scalarArms.filter fun a => a.goType ∈ ["string", "json.Number", "json.Number(pre)", "bool", "nil", "default"]).map
        fun a => (a.schema, a.goType)) =
      [("Field_Bool", "bool"), ("Field_Bool", "nil"), ("Field_Bool", "default"),
       ("Field_String_", "string"), ("Field_String_", "nil"), ("Field_String_", "default"),
       ("Field_Key", "string"), ("Field_Key", "nil"), ("Field_Key", "default"),
       ("Field_Integer", "json.Number(pre)"),
       ("Field_Integer/INT32", "string"), ("Field_Integer/INT32", "default"),
       ("Field_Integer/INT64", "string"), ("Field_Integer/INT64", "default"),
       ("Field_Integer/UINT32", "string"), ("Field_Integer/UINT32", "default"),
       ("Field_Integer/UINT64", "string"), ("Field_Integer/UINT64", "default"),
       ("Field_Float", "json.Number"), ("Field_Float", "string"),
       ("Field_Bytes", "string"), ("Field_Bytes", "default"),
       ("Field_Timestamp", "string"), ("Field_Timestamp", "default"),
       ("Field_Decimal", "string"), ("Field_Decimal", "json.Number"), ("Field_Decimal", "default"),
       ("Field_Date", "string"), ("Field_Date", "default")] := by decide

/-- **`decodeOneofInner` ↔ `decOneofMembers` + `oneofPost`** (round 4). The facts list every `if` of
the Go function in source order (callback included) with its exact condition and whether its body
returns an error / nil. Mirrored one by one: the reserved key `"!type"` (must be a string token, sets
`constrainType`, is not counted: model `if k = ascii "!type"`), unknown key → error (`findProp = none`),
`foundKeys` appended once per known key *before* the value is decoded (`found ++ [k]`), then the
post-checks in this order: no key (`len(foundKeys) == 0`: nothing, or `NewValue` of the `"!type"` arm,
error when it does not exist), **more than one key → error** (`len(foundKeys) > 1`, model: the last arm
of `oneofPost`), `"!type"` present and different from the key → error. Any edit of a condition, of the
order, or of an outcome changes the list. -/
theorem C03_src_oneof_key_handling :
    decodeOneofInnerIfs =
      [("err := dec.jsonObjectBody(func{…}); err != nil", "err"),
       ("keyTokenStr == \"!type\"", "nil"),
       ("err != nil", "err"),
       ("!ok", "err"),
       ("err != nil", "err"),
       ("err := dec.decodeValue(matchedProperty); err != nil", "err"),
       ("len(foundKeys) == 0", "nil"),
       ("constrainType == nil", "nil"),
       ("err != nil", "err"),
       ("len(foundKeys) > 1", "err"),
       ("constrainType != nil && foundKeys[0] != *constrainType", "err")] ∧
    decodeOneofPropertyIfs =
      [("err != nil", "err"), ("wasNull", "nil"), ("err != nil", "err"), ("!ok", "err"),
       ("err != nil", "err")] ∧
    jsonObjectBodyIfs =
      [("err != nil", "err"), ("!ok", "err"), ("err := callback(keyTokenStr); err != nil", "err")] := by
  decide

/-- **`decodeAny` ↔ `decAnyMembers` / `finishAnyProp`** (round 4): `null` → nothing stored; keys:
`"!type"` (string token), anything other than `"value"` → error (6ebe64c), a second `"value"` →
error; after the loop a missing `"!type"` or a missing `"value"` → error; with `WithProtoToAny` and a
resolver: depth check first, resolver miss → error, nested decode failure → error. -/
theorem C03_src_any_key_handling :
    decodeAnyIfs =
      [("err != nil", "err"), ("wasNull", "nil"), ("err != nil", "err"), ("!ok", "err"),
       ("err := dec.jsonObjectBody(func{…}); err != nil", "err"),
       ("keyTokenStr == \"!type\"", "nil"),
       ("err != nil", "err"),
       ("!ok", "err"),
       ("keyTokenStr != \"value\"", "err"),
       ("valueBytes != nil", "err"),
       ("err != nil", "err"),
       ("constrainType == nil", "err"),
       ("valueBytes == nil", "err"),
       ("dec.codec.addProtoToAny && dec.codec.resolver != nil", "none"),
       ("dec.anyDepth >= maxAnyDepth", "err"),
       ("err != nil", "err"),
       ("err == protoregistry.NotFound", "err"),
       ("err := dec.codec.decodeNested(valueBytes, msg, dec.anyDepth+1); err != nil", "err"),
       ("err != nil", "err"),
       ("err != nil", "err")] := by
  decide

/-- **query.go ↔ `Codec/Query.lean`** (round 4): the key is split at `"."` (`splitDot`, byte `0x2E`);
`propertyAtPath` enters an existing field (`prop.IsSet()`) or creates it and requires a container
(`qEnter`); `decodeQuery`: an empty value list is an error (036c15b), a scalar / container with more
than one value is an error, a container value must start with `{` after `TrimSpace`; `queryGoValue`
turns exactly the texts `true` / `false` of a bool field (or array of bool) into booleans (ebfcdb5)
and leaves everything else a string. -/
theorem C03_src_query_shape :
    querySplitArgs = ["\".\""] ∧
    (splitDot (ascii "a.b") = [ascii "a", ascii "b"]) ∧
    queryBoolCases = [("\"true\"", "true"), ("\"false\"", "false")] ∧
    queryGoValueIfs =
      [("arrayType, ok := fieldType.(*schema_j5pb.Field_Array); ok && arrayType.Array != nil && arrayType.Array.Items != nil", "none"),
       ("_, ok := fieldType.(*schema_j5pb.Field_Bool); ok", "none")] ∧
    propertyAtPathIfs =
      [("err != nil", "err"), ("prop.IsSet()", "none"), ("err != nil", "err"), ("err != nil", "err"),
       ("propSet, ok := field.AsContainer(); ok", "none"), ("else of prop.IsSet()", "none")] ∧
    decodeQueryIfs =
      [("err != nil", "err"),
       ("len(values) == 0", "err"),
       ("err != nil", "err"),
       ("err != nil", "err"),
       ("scalar, ok := field.AsScalar(); ok", "none"),
       ("len(values) > 1", "err"),
       ("err != nil", "err"),
       ("array, ok := field.AsArrayOfScalar(); ok", "none"),
       ("err != nil", "err"),
       ("container, ok := field.AsContainer(); ok", "none"),
       ("len(values) > 1", "err"),
       ("!strings.HasPrefix(val, \"{\")", "err"),
       ("err != nil", "err")] := by
  decide

/-- **the per-kind value decoders ↔ `decScalarProp` / `decEnumProp` / the `.object` / `.map` / `.array`
arms of `decProp`, `decElems`, `decMapMembers`** (round 4). Every one starts the same way, and the
model mirrors exactly this order: read a token (error → error), **`null` → nothing stored, before
`CreateField`** (so an explicit null never touches the message or a proto oneof), `CreateField`
(error → error: "already set" / proto-oneof member), then the kind-specific part: a delimiter where a
scalar is expected → error; a non-string where an enum name is expected → error; containers need
their opening delimiter (`expectDelimOrNull`: anything else → error) and their closing one
(`expectDelim`). Map values / array elements: a delimiter for a scalar → error, a non-string for an
enum → error; objects and oneofs recurse. -/
theorem C03_src_value_shapes :
    decodeScalarIfs =
      [("err != nil", "err"), ("token == nil", "nil"), ("err != nil", "err"), ("!ok", "err"),
       ("_, ok := token.(json.Delim); ok", "err")] ∧
    decodeEnumIfs =
      [("err != nil", "err"), ("token == nil", "nil"), ("err != nil", "err"), ("!ok", "err"), ("!ok", "err")] ∧
    decodeObjectPropertyIfs =
      [("err != nil", "err"), ("wasNull", "nil"), ("err != nil", "err"), ("!ok", "err"),
       ("err := dec.decodeObjectInner(object); err != nil", "err")] ∧
    decodeObjectInnerIfs =
      [("err != nil", "err"), ("err := dec.decodeValue(prop); err != nil", "err"), ("err != nil", "err")] ∧
    decodeMapPropertyIfs =
      [("err != nil", "err"), ("wasNull", "nil"), ("err != nil", "err"), ("!ok", "err"), ("err != nil", "err")] ∧
    decodeMapFieldIfs =
      [("err != nil", "err"), ("_, ok := tok.(json.Delim); ok", "err"), ("err != nil", "err"), ("!ok", "err"),
       ("err != nil", "err"), ("err != nil", "err")] ∧
    decodeArrayPropertyIfs =
      [("err != nil", "err"), ("wasNull", "nil"), ("err != nil", "err"), ("!ok", "err"), ("err != nil", "err")] ∧
    decodeArrayFieldValueIfs =
      [("field, ok := field.AsArrayOfScalar(); ok", "err"), ("err != nil", "err"),
       ("_, ok := tok.(json.Delim); ok", "err"), ("field, ok := field.AsArrayOfObject(); ok", "err"),
       ("field, ok := field.AsArrayOfOneof(); ok", "err"), ("err != nil", "err")] ∧
    expectDelimOrNullIfs =
      [("err != nil", "err"), ("tok == nil", "nil"), ("tok != json.Delim(delim)", "err")] ∧
    expectDelimIfs = [("err != nil", "err"), ("tok != json.Delim(delim)", "err")] ∧
    popValueAsBytesIfs =
      [("err := dec.jd.Decode(raw); err != nil", "err"), ("err := json.Compact(buf, *raw); err != nil", "err")] := by
  decide

/-- **the integer arm of `scalarReflectFromGo` ↔ `decodeScalar` for int32 / int64 / uint32 / uint64**
(round 4): the conversions applied to the INPUT are exactly: pointer unwrapping (`reflect`), for a
`json.Number` `strconv.ParseUint(text, 10, 64)` (UINT64) or `Number.Int64()` (= `ParseInt(text, 10, 64)`),
and for strings `ParseInt` / `ParseUint` once per format. There is no route through `float64`
(`Number.Float64`, `ParseFloat`, a helper): a bare number in fraction / exponent syntax is a syntax error
for an integer field, as in the model's `parseInt` / `parseUint` — never a rounded neighbour. -/
theorem C03_src_integer_conversions :
    reflectFromGoIntegerConversions =
      ["reflect.ValueOf", "rv.Kind", "rv.IsNil", "rv.Elem", "rv.Interface", "strconv.ParseUint",
       "numVal.String", "numVal.Int64", "strconv.ParseInt", "strconv.ParseInt", "strconv.ParseUint",
       "strconv.ParseUint"] := by decide

theorem C03_src_extractor_ok : codecExtractorOk = true := by decide

end SourceFacts

end J5V.Props.C03
