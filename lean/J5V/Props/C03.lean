import J5V.Codec.SpellingProofs
import J5V.Codec.FaultProofs
import J5V.Generated.CodecFacts
/-!
# C03 — decoding is exact or rejected

Property theorems only. Scalar level first (every scalar token goes through
`scalarReflectFromGo` = `decodeScalar`): documented alternate spellings denote the same value, and
each fault class of the property text is rejected with an error.
-/
namespace J5V.Props.C03
open J5V.Go J5V.Json J5V.Codec

/-! ## alternate spellings -/

/-- quoted and bare spellings of a 32-bit integer denote the same value -/
theorem C03_int32_quoted_or_bare (O : Oracle) (i : Int) (h1 : -(2 ^ 31 : Int) ≤ i) (h2 : i < 2 ^ 31) :
    decodeScalar O .int32 (.str (fmtInt i)) = .ok (some (.int i)) ∧
    decodeScalar O .int32 (.num (fmtInt i)) = .ok (some (.int i)) := by
  constructor
  · simp only [decodeScalar]; rw [parseInt_fmtInt i 32 (by simpa using h1) (by simpa using h2)]
  · simp only [decodeScalar]; rw [parseInt_fmtInt i 64 (by omega) (by omega)]
    simp only []; rw [if_neg (by omega)]

/-- quoted and bare spellings of a 64-bit integer denote the same value -/
theorem C03_int64_quoted_or_bare (O : Oracle) (i : Int) (h1 : -(2 ^ 63 : Int) ≤ i) (h2 : i < 2 ^ 63) :
    decodeScalar O .int64 (.str (fmtInt i)) = .ok (some (.int i)) ∧
    decodeScalar O .int64 (.num (fmtInt i)) = .ok (some (.int i)) := by
  constructor <;>
  · simp only [decodeScalar]; rw [parseInt_fmtInt i 64 (by simpa using h1) (by simpa using h2)]

/-- quoted and bare spellings of an unsigned 64-bit integer denote the same value — for the whole
range (after repair 492207d: bare values above `MaxInt64` used to be rejected) -/
theorem C03_uint64_quoted_or_bare (O : Oracle) (n : Nat) (h : n < 2 ^ 64) :
    decodeScalar O .uint64 (.str (fmtNat n)) = .ok (some (.uint n)) ∧
    decodeScalar O .uint64 (.num (fmtNat n)) = .ok (some (.uint n)) := by
  constructor <;> · simp only [decodeScalar]; rw [parseUint_fmtNat n 64 h]

theorem C03_uint32_quoted_or_bare (O : Oracle) (n : Nat) (h : n < 2 ^ 32) :
    decodeScalar O .uint32 (.str (fmtNat n)) = .ok (some (.uint n)) ∧
    decodeScalar O .uint32 (.num (fmtNat n)) = .ok (some (.uint n)) := by
  constructor
  · simp only [decodeScalar]; rw [parseUint_fmtNat n 32 h]
  · simp only [decodeScalar]
    have := parseInt_fmtInt (n : Int) 64 (by omega) (by omega)
    rw [fmtInt_nonneg _ (by omega)] at this
    simp only [Int.toNat_natCast] at this
    rw [this]; simp only []; rw [if_neg (by omega)]; simp

/-- floats and decimals: the quoted and the bare spelling of the same text go through the same
library call, so they denote the same value (or are both rejected) -/
theorem C03_float_decimal_quoted_or_bare (O : Oracle) (text : Bytes) :
    decodeScalar O .float64 (.str text) = decodeScalar O .float64 (.num text) ∧
    decodeScalar O .float32 (.str text) = decodeScalar O .float32 (.num text) ∧
    decodeScalar O .decimal (.str text) = decodeScalar O .decimal (.num text) :=
  ⟨rfl, rfl, rfl⟩

/-- base64: standard or URL-safe alphabet, with or without padding, same bytes -/
theorem C03_base64_spellings (O : Oracle) (bs : Bytes) :
    decodeScalar O .bytes (.str (b64Encode bs)) = .ok (some (.bytes bs)) ∧
    decodeScalar O .bytes (.str ((b64Encode bs).map stdToUrl)) = .ok (some (.bytes bs)) ∧
    decodeScalar O .bytes (.str (stripPad (b64Encode bs))) = .ok (some (.bytes bs)) := by
  refine ⟨?_, ?_, ?_⟩ <;> simp only [decodeScalar]
  · rw [byteValueFromString_encode]
  · rw [byteValueFromString_url]
  · rw [byteValueFromString_unpadded]

/-- enum option names with or without the enum prefix denote the same option (unless another
option literally carries the prefixed name, which the exact-match rule of 7e19d0c prefers) -/
theorem C03_enum_prefix (pfx : Bytes) (opts : List (Bytes × Int)) (name : Bytes) (n : Int)
    (h : (opts.find? fun o => o.1 == name) = some (name, n))
    (hfull : (opts.find? fun o => o.1 == pfx ++ name) = none) :
    enumOptionByName pfx opts name = some n ∧ enumOptionByName pfx opts (pfx ++ name) = some n :=
  ⟨enumOptionByName_short pfx opts name n h, enumOptionByName_prefixed pfx opts name n h hfull⟩

/-! ## faults are rejected (scalar level) -/

/-- wrong JSON type for the field kind -/
theorem C03_fault_wrong_type (O : Oracle) (k : ScalarKind) (t : GoTok) (h : wrongType k t = true) :
    ∃ e, decodeScalar O k t = .err e :=
  decodeScalar_wrongType O k t h

/-- unparsable or out-of-range integers, quoted or bare, every integer format (after repair
b7a2948: the quoted forms used to be dropped silently) -/
theorem C03_fault_bad_integer (O : Oracle) (text : Bytes) :
    (parseInt text 64 = none → ∃ e, decodeScalar O .int32 (.num text) = .err e) ∧
    (parseInt text 64 = none → ∃ e, decodeScalar O .int64 (.num text) = .err e) ∧
    (parseInt text 64 = none → ∃ e, decodeScalar O .uint32 (.num text) = .err e) ∧
    (parseUint text 64 = none → ∃ e, decodeScalar O .uint64 (.num text) = .err e) ∧
    (parseInt text 32 = none → ∃ e, decodeScalar O .int32 (.str text) = .err e) ∧
    (parseInt text 64 = none → ∃ e, decodeScalar O .int64 (.str text) = .err e) ∧
    (parseUint text 32 = none → ∃ e, decodeScalar O .uint32 (.str text) = .err e) ∧
    (parseUint text 64 = none → ∃ e, decodeScalar O .uint64 (.str text) = .err e) :=
  decodeScalar_int_unparsable O text

theorem C03_fault_int32_range (O : Oracle) (text : Bytes) (v : Int) (hp : parseInt text 64 = some v)
    (hr : v > 2147483647 ∨ v < -2147483648) : ∃ e, decodeScalar O .int32 (.num text) = .err e :=
  decodeScalar_int32_range O text v hp hr

theorem C03_fault_uint32_range (O : Oracle) (text : Bytes) (v : Int) (hp : parseInt text 64 = some v)
    (hr : v < 0 ∨ v > 4294967295) : ∃ e, decodeScalar O .uint32 (.num text) = .err e :=
  decodeScalar_uint32_range O text v hp hr

/-- invalid base64 / date / decimal / timestamp / float text -/
theorem C03_fault_invalid_text (O : Oracle) (s : Bytes) :
    (byteValueFromString s = none → ∃ e, decodeScalar O .bytes (.str s) = .err e) ∧
    (dateFromString s = none → ∃ e, decodeScalar O .date (.str s) = .err e) ∧
    (O.parseDec s = none → ∃ e, decodeScalar O .decimal (.str s) = .err e) ∧
    (O.parseTime s = none → ∃ e, decodeScalar O .timestamp (.str s) = .err e) ∧
    (O.parseFloat s = none → ∃ e, decodeScalar O .float64 (.str s) = .err e) ∧
    (O.parseFloat s = none → ∃ e, decodeScalar O .float32 (.num s) = .err e) :=
  decodeScalar_invalid_text O s

/-- exactness: a scalar token is never coerced — when `decodeScalar` succeeds on an integer kind
the stored value is the integer the text denotes -/
theorem C03_int_exact (O : Oracle) (text : Bytes) (v : PVal)
    (h : decodeScalar O .int64 (.num text) = .ok (some v)) :
    ∃ i, parseInt text 64 = some i ∧ v = .int i := by
  simp only [decodeScalar] at h
  cases hp : parseInt text 64 with
  | none => simp [hp] at h
  | some i => simp only [hp] at h; cases h; exact ⟨i, rfl, rfl⟩

/-! ## structural faults are rejected -/

/-- unknown key: a member whose name the property set does not have fails the object / the oneof
(`"no such field"` / `"no such key"`), whatever follows and whatever was decoded before -/
theorem C03_fault_unknown_key (c : Cfg) (props : List PropDef) (k kr : Bytes) (v : PTree)
    (rest : PMembers) (st : PS) (h : findProp props k = none) :
    (∃ e, decObjMembers c props (.cons k kr v rest) st = .err e) ∧
    (k ≠ ascii "!type" → ∀ found ct, ∃ e, decOneofMembers c props (.cons k kr v rest) st found ct = .err e) :=
  ⟨unknown_key_object c props k kr v rest st h,
   fun hk found ct => unknown_key_oneof c props k kr v rest st found ct hk h⟩

/-- duplicate key: a second non-null value for a property that was already given is rejected
(`CreateField`: "already set") for every field kind and every value -/
theorem C03_fault_duplicate_key (c : Cfg) (props : List PropDef) (p : PropDef) (t : PTree) (st : PS)
    (hseen : p.jsonName ∈ st.seen) (hnn : t ≠ .null) : ∃ e, decProp c props p t st = .err e :=
  duplicate_key c props p t st hseen hnn

/-- more than one key in a oneof; a `!type` that contradicts the key present; a `!type` naming no
member — all rejected by the post-checks, which fail the whole oneof -/
theorem C03_fault_oneof (ops : List PropDef) :
    (∀ a b rest ct m, ∃ e, oneofPost ops (a :: b :: rest) ct m = .err e) ∧
    (∀ k name m, k ≠ name → ∃ e, oneofPost ops [k] (some name) m = .err e) ∧
    (∀ name m, findProp ops name = none → ∃ e, oneofPost ops [] (some name) m = .err e) ∧
    (∀ st found ct term, (∃ e, oneofPost ops found ct st.m = .err e) →
      ∃ e, finishOneof ops (.ok (st, found, ct, term)) = .err e) :=
  ⟨oneof_multiple_keys ops, oneof_type_mismatch ops, oneof_type_unknown ops,
   finishOneof_post_err ops⟩

/-- more than one member of a **proto** oneof (members of an anonymous proto oneof are ordinary
optional properties of the J5 object; members of a wrapper / exposed oneof likewise live in one
proto oneof): a non-null value for a member while a different member of the same proto oneof is set
in the message is rejected, for every field kind and every value (after repair 25c97b7: protobuf
used to drop the first member silently — `{"aOneofString":"x","aOneofFloat":1}` was accepted) -/
theorem C03_fault_proto_oneof_second_member (c : Cfg) (props : List PropDef) (p : PropDef) (t : PTree)
    (st : PS) (hbusy : groupBusy props p st.m = true) (hnn : t ≠ .null) :
    ∃ e, decProp c props p t st = .err e :=
  proto_oneof_second_member c props p t st hbusy hnn

/-- every key of a oneof body other than `!type` is counted (`foundKeys`), so a body with two
keys reaches the post-checks with at least two entries -/
theorem C03_oneof_keys_counted (c : Cfg) (ops : List PropDef) (ms : PMembers) (st : PS)
    (found : List Bytes) (ct : Option Bytes) (st' : PS) (found' : List Bytes) (ct' : Option Bytes)
    (term : Term) (h : decOneofMembers c ops ms st found ct = .ok (st', found', ct', term)) :
    found.length ≤ found'.length :=
  decOneofMembers_found_grows c ops ms st found ct st' found' ct' term h

/-- faults at any position: an error while decoding a member value is an error of the enclosing
object — at the member itself and at every later member; likewise for array elements and map
values. By induction this lifts a fault at any depth to the root. -/
theorem C03_fault_propagates (c : Cfg) (props : List PropDef) (k kr : Bytes) (v : PTree)
    (rest : PMembers) (st : PS) (p : PropDef) (hf : findProp props k = some p) :
    ((∃ e, decProp c props p v st = .err e) → ∃ e, decObjMembers c props (.cons k kr v rest) st = .err e) ∧
    (∀ st1, decProp c props p v st = .ok st1 → (∃ e, decObjMembers c props rest st1 = .err e) →
      ∃ e, decObjMembers c props (.cons k kr v rest) st = .err e) :=
  ⟨object_propagates c props k kr v rest st p hf,
   fun st1 hok h => object_propagates_later c props k kr v rest st st1 p hf hok h⟩

/-- a scalar fault (any of the scalar-level fault theorems above) inside a property, an array
element or a map value fails the property / array / map -/
theorem C03_fault_scalar_positions (c : Cfg) (k : ScalarKind) (t : PTree) (tok : GoTok)
    (hg : goTok t = some tok) (h : ∃ e, decodeScalar c.O k tok = .err e) :
    (∀ props p st, p.field = .scalar k → t ≠ .null → ∃ e, decProp c props p t st = .err e) ∧
    (∀ rest acc, ∃ e, decElems c (.scalar k) (.cons t rest) acc = .err e) ∧
    (∀ key kr rest acc, ∃ e, decMapMembers c (.scalar k) (.cons key kr t rest) acc = .err e) :=
  ⟨fun props p st hf hnn => scalar_prop_propagates c props p k t tok st hf hg hnn h,
   fun rest acc => array_propagates_scalar c k t tok rest acc hg h,
   fun key kr rest acc => map_propagates_scalar c k key kr t tok rest acc hg h⟩

/-! ## Non-vacuity -/

example : parseInt (ascii "abc") 32 = none := by decide
example : parseInt (ascii "2147483648") 32 = none := by decide
example : parseUint (ascii "-1") 64 = none := by decide
example : byteValueFromString (ascii "a*b") = none := by decide
example : dateFromString (ascii "2020-13-45") = none := by decide
example : dateFromString (ascii "2023-02-29") = none := by decide
example : dateFromString (ascii "2024-02-29") = some (2024, 2, 29) := by decide
example : wrongType .bool (.str (ascii "true")) = true := by decide
example : ((b64Encode [0xfb, 0xff]).map stdToUrl) = ascii "-_8=" := by decide
example : stripPad (b64Encode [0xfb, 0xff]) = ascii "+/8" := by decide
/-- `groupBusy` holds in the witness of 25c97b7: `aOneofString` (field 100) is set, `aOneofFloat`
(field 102) of the same proto oneof arrives -/
example : groupBusy
    [{ jsonName := ascii "aOneofString", path := [100], pres := .opt, field := .scalar .string, group := some 0 },
     { jsonName := ascii "aOneofFloat", path := [102], pres := .opt, field := .scalar .float32, group := some 0 }]
    { jsonName := ascii "aOneofFloat", path := [102], pres := .opt, field := .scalar .float32, group := some 0 }
    [(100, .str (ascii "x"))] = true := by decide
/-- an enum whose option's short name starts with the prefix (the class repaired by 7e19d0c) -/
example : enumOptionByName (ascii "T_") [(ascii "X", 1), (ascii "T_X", 2)] (ascii "T_X") = some 2 := by
  decide

/-! ## source facts
Obligations over `J5V.Generated.Codec` (regenerated from /repo's current source by extract/codec.go at
every check run). Maintained by codec-go; they tie the model's case analysis to the switches in
the Go source. -/
section SourceFacts
open J5V.Generated.Codec

/-- E3: no arm of `scalarReflectFromGo` answers a failed parse with a nil error (the defect
repaired by /repo b7a2948: `"abc"` in an integer field was silently dropped). -/
theorem C03_src_no_swallowed_parse_error :
    (scalarArms.all fun a => !a.swallowsError) = true := by decide

/-- the string helpers and `DateFromString` hand their parse error on -/
theorem C03_src_helpers_return_errors :
    (helperSwallowsError.all fun p => !p.2) = true := by decide

/-- every `default:` arm of the Go-type switches is an error (wrong JSON type is rejected) -/
theorem C03_src_default_arms_reject :
    (scalarArms.all fun a => !a.isDefault || a.defaultReturnsError) = true := by decide

/-- the arms reachable from JSON tokens / query strings (string, json.Number, bool, nil, default) are
exactly the ones the model's `scalarReflectFromGo` distinguishes -/
theorem C03_src_token_arms :
    ((scalarArms.filter fun a => a.goType ∈ ["string", "json.Number", "json.Number(pre)", "bool", "nil", "default"]).map
        fun a => (a.schema, a.goType)) =
      [("Field_Bool", "bool"), ("Field_Bool", "nil"), ("Field_Bool", "default"),
       ("Field_String_", "string"), ("Field_String_", "nil"), ("Field_String_", "default"),
       ("Field_Key", "string"), ("Field_Key", "nil"), ("Field_Key", "default"),
       ("Field_Integer", "json.Number(pre)"),
       ("Field_Integer/INT32", "string"), ("Field_Integer/INT32", "default"),
       ("Field_Integer/INT64", "string"), ("Field_Integer/INT64", "default"),
       ("Field_Integer/UINT32", "string"), ("Field_Integer/UINT32", "default"),
       ("Field_Integer/UINT64", "string"), ("Field_Integer/UINT64", "default"),
       ("Field_Float", "json.Number"), ("Field_Float", "string"),
       ("Field_Bytes", "string"), ("Field_Bytes", "default"),
       ("Field_Timestamp", "string"), ("Field_Timestamp", "default"),
       ("Field_Decimal", "string"), ("Field_Decimal", "json.Number"), ("Field_Decimal", "default"),
       ("Field_Date", "string"), ("Field_Date", "default")] := by decide

theorem C03_src_extractor_ok : codecExtractorOk = true := by decide

end SourceFacts

end J5V.Props.C03
