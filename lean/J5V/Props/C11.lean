import J5V.Bcl.ErrPrintProofs
import J5V.Bcl.FirstErrorProofs
import J5V.Bcl.PosLines
import J5V.Generated.BcltokensFacts
/-!
# C11 — BCL parser is total and every diagnostic points inside the file

Only property theorems (+ non-vacuity examples, + obligations over facts regenerated from the source).
Models: `J5V.Bcl.Lexer`, `J5V.Bcl.Parser`, `J5V.Bcl.ErrPrint`; lemmas: `J5V.Bcl.*Proofs`, `PosLines`.
Every statement holds for **every** classifier `cls` and **every** rune string `src` (Go strings reach
the lexer through `[]rune(data)`, modelled by `decodeRunes`, so this covers every byte string); there
is no bound on length, nesting or token count.

`InFileLC src p` is "`p.line < lineCount` and `p.col ≤` rune length of that line" over
`strings.Split(src, "\n")` (the EOL / EOF column is allowed); `p ≤ q` is the lexicographic order.
The node predicates `Statement.okList Q`, `Fragment.ok Q`, `Diag.ok Q` (ParserProofs) say that the node and
every node below it (block headers, references, identifiers, tags, values incl. nested arrays,
descriptions, attached comments, and the tokens stored in them) has `start ≤ end` with both ends in `Q`.
-/
namespace J5V.Props.C11
open J5V.Go J5V.Bcl

/-! ## Lexer: progress, termination, positions -/

/-- each `NextToken` consumes at least one rune of a non-empty input (at end of input it returns EOF) -/
theorem C11_lex_progress (cls : Cls) (c : Cur) (r : Rune) (rs : List Rune) :
    (nextToken cls c (r :: rs)).rest.length < (r :: rs).length :=
  nextToken_progress cls c r rs

theorem C11_lex_eof (cls : Cls) (c : Cur) :
    (nextToken cls c []).err = none ∧ (nextToken cls c []).tok.ty = .eof :=
  nextToken_nil cls c

/-- `AllTokens` terminates: the model's fuel (`len + 2`) is never exhausted. -/
theorem C11_lex_total (cls : Cls) (ff : Bool) (src : List Rune) : allTokens cls ff src ≠ .nofuel := by
  have := allTokens_spec cls ff src
  intro h; rw [h] at this; exact this

/-- tokens of an error-free lex: `start ≤ end`, both inside the file, in source order, none is EOF -/
theorem C11_token_positions (cls : Cls) (ff : Bool) (src : List Rune) (ts : List Token)
    (h : allTokens cls ff src = .toks ts) :
    ts.Pairwise (fun t u => t.end_ ≤ u.start) ∧
    ∀ t ∈ ts, t.start ≤ t.end_ ∧ InFileLC src t.start ∧ InFileLC src t.end_ ∧ t.ty ≠ .eof := by
  have := allTokens_spec cls ff src
  rw [h] at this
  obtain ⟨h1, h2⟩ := this.props
  exact ⟨h1, fun t ht => ⟨(h2 t ht).2.1, (h2 t ht).2.2.1.toLC, (h2 t ht).2.2.2.1.toLC,
    (h2 t ht).2.2.2.2⟩⟩

/-- lexer errors (both modes): at least one, each positioned inside the file -/
theorem C11_lex_error_positions (cls : Cls) (ff : Bool) (src : List Rune) (es : List LexErr)
    (h : allTokens cls ff src = .errs es) : es ≠ [] ∧ ∀ e ∈ es, InFileLC src e.pos := by
  have := allTokens_spec cls ff src
  rw [h] at this
  exact ⟨allTokensLoop_errs_ne_nil cls ff _ _ _ _ _ _ h, fun e he => (this e he).toLC⟩

/-! ## Parser: total, positions, first error -/

/-- For any input, in fail-fast or collect-all mode, `ParseFile` returns a tree or a **non-empty** list
of diagnostics; it never panics (`popToken` on an empty slice, `NewReference` of no idents) and always
terminates (no fuel exhaustion in the lexer loop, the fragment loop, the tag / qualifier loops or the
nested-array recursion). -/
theorem C11_parse_total (cls : Cls) (src : List Rune) (ff : Bool) :
    (∃ f, parseFile cls src ff = .tree f) ∨ (∃ es, es ≠ [] ∧ parseFile cls src ff = .errors es) := by
  have := parseFile_spec (fun _ => True) cls src ff (fun _ _ => trivial)
  cases h : parseFile cls src ff with
  | tree f => exact Or.inl ⟨f, rfl⟩
  | errors es => rw [h] at this; exact Or.inr ⟨es, this.1, rfl⟩
  | panic s => rw [h] at this; exact this.elim

theorem C11_parse_no_panic (cls : Cls) (src : List Rune) (ff : Bool) (s : String) :
    parseFile cls src ff ≠ .panic s := by
  rcases C11_parse_total cls src ff with ⟨f, h⟩ | ⟨es, _, h⟩ <;> rw [h] <;> simp

/-- Every tree node and every diagnostic has `start ≤ end` with both positions inside the input. -/
theorem C11_positions (cls : Cls) (src : List Rune) (ff : Bool) :
    (∀ f, parseFile cls src ff = .tree f → Statement.okList (InFileLC src) f.body) ∧
    (∀ es, parseFile cls src ff = .errors es → ∀ d ∈ es, Diag.ok (InFileLC src) d) := by
  have := parseFile_spec (InFileLC src) cls src ff (fun _ h => h.toLC)
  constructor
  · intro f h; rw [h] at this; exact this
  · intro es h; rw [h] at this; exact this.2

/-- … and so has every fragment the formatter / FmtDiffs work on; fragments are in source order. -/
theorem C11_fragment_positions (cls : Cls) (src : List Rune) (frags : List Fragment)
    (h : collectFragments cls src = .ok frags) : FragChain (InFileLC src) ⟨0, 0⟩ frags := by
  have := collectFragments_spec (InFileLC src) cls src (fun _ h => h.toLC)
  rw [h] at this; exact this

/-- Collect-all mode reports the fail-fast diagnostic first: both modes give the same tree, or both
give diagnostics with the same first element. -/
theorem C11_first_error (cls : Cls) (src : List Rune) :
    ParseAgree (parseFile cls src true) (parseFile cls src false) :=
  parseFile_agree cls src

/-- unfolded form of `ParseAgree` for the error case -/
theorem C11_first_error_head (cls : Cls) (src : List Rune) (e1 : List Diag)
    (h : parseFile cls src true = .errors e1) :
    ∃ e0, parseFile cls src false = .errors e0 ∧ e0.head? = e1.head? ∧ e1 ≠ [] := by
  have := parseFile_agree cls src
  rw [h] at this
  cases h0 : parseFile cls src false with
  | tree f => rw [h0] at this; exact this.elim
  | errors e0 => rw [h0] at this; exact ⟨e0, rfl, this.2, this.1⟩
  | panic s => rw [h0] at this; exact this.elim

/-! ## Rendering -/

/-- Rendering diagnostics against the source never fails: for **arbitrary** (also negative,
out-of-range, mid-rune) positions, arbitrary source lines and any context size, `HumanString` reaches
no index / slice panic. -/
theorem C11_render_total (errs : List (Option IPosition)) (lines : List (List Nat)) (ctx : Int) :
    ∃ out, humanStringAll errs lines ctx = .ok out :=
  humanStringAll_no_panic errs lines ctx

/-- … in particular for a single diagnostic (the `humanString` closure of print.go). -/
theorem C11_render_one_total (pos : Option IPosition) (lines : List (List Nat)) (ctx : Int) :
    ∃ out, humanString pos lines ctx = .ok out :=
  humanString_no_panic pos lines ctx

/-! ## Non-vacuity (evaluated by the kernel on `asciiCls`) -/

/-- a nested, multi-line file parses to a tree -/
example : (match parseFile asciiCls (ofAscii "a.b = [1, [2.5, \"x\"]] // hi\nblk foo ! bar:baz {\n | desc\n}\n") true with
    | .tree f => decide (f.body.length = 2) | _ => false) = true := by decide +kernel

/-- collect-all yields two diagnostics, fail-fast the first of them -/
example : (match parseFile asciiCls (ofAscii "a = \nb\nc = = 1\n") false,
      parseFile asciiCls (ofAscii "a = \nb\nc = = 1\n") true with
    | .errors e0, .errors e1 => decide (e0.length = 2 ∧ e1.length = 1 ∧ e0.head? = e1.head?)
    | _, _ => false) = true := by decide +kernel

/-- lexer errors in both modes -/
example : (match allTokens asciiCls false (ofAscii "a = \"x\n1.2.3 #"), allTokens asciiCls true (ofAscii "a = \"x\n1.2.3 #") with
    | .errs e0, .errs e1 => decide (e0.length = 3 ∧ e1.length = 1)
    | _, _ => false) = true := by decide +kernel

end J5V.Props.C11

/-! ## Obligations over facts regenerated from the current source (`extract bcltokens`)

The model hard-codes the operator table, the literal range, the empty keyword table, the case
structure of `NextToken` / `lexEscape` / `nextFragment`, `popToken`'s EOF synthesis and that every exit
of `walkStatement` assigns `hdr.End`; these obligations re-check on every run that the source still
says so. -/
namespace J5V.Props.C11
open J5V.Generated.Bcltokens

theorem C11_src_operators : operatorChars =
    [("ASSIGN", "="), ("LBRACE", "{"), ("RBRACE", "}"), ("LBRACK", "["), ("RBRACK", "]"), ("DOT", "."),
     ("COMMA", ","), ("COLON", ":"), ("PLUS", "+"), ("BANG", "!"), ("QUESTION", "?")] := by decide
theorem C11_src_operators_init : operatorsInit = "operators[rune(tokens[i][0])] = i" := by decide
theorem C11_src_literals : literalKinds =
    ["IDENT", "STRING", "REGEX", "INT", "DECIMAL", "BOOL", "COMMENT", "BLOCK_COMMENT", "DESCRIPTION"] ∧
    keywordKinds = [] ∧
    canStartTag = ["IDENT", "STRING", "REGEX", "BANG", "QUESTION", "BOOL"] := by decide
theorem C11_src_nextToken : nextTokenPrelude =
    ["l.next()", "if l.ch == lexerEofChr => return l.tokenOf(EOF), nil",
     "if op, ok := operators[l.ch]; ok => return l.tokenOf(op), nil", "startPos := l.getPosition()"] ∧
    nextTokenCases = ["'/'", "'\"'", "'|'", "'\\n'", "default"] ∧
    lexEscapeCases = ["'\\\\', '\\n', quote"] := by decide
theorem C11_src_walkStatement_end : walkStatementEndSet =
    [("LBRACE", true), ("DESCRIPTION", true), ("COMMENT", true), ("EOL, EOF", true), ("default", true)] := by
  decide
theorem C11_src_nextFragment : nextFragmentCases =
    ["EOF", "EOL", "RBRACE", "COMMENT, BLOCK_COMMENT", "DESCRIPTION", "IDENT, BOOL", "default"] := by decide

end J5V.Props.C11
