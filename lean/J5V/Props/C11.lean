import J5V.Bcl.ErrPrintProofs
/-!
# C11 — BCL parser is total and every diagnostic points inside the file

Only property theorems (+ non-vacuity examples).  Models: `J5V.Bcl.Lexer`, `J5V.Bcl.Parser`,
`J5V.Bcl.ErrPrint`; lemmas: `J5V.Bcl.*Proofs`.  All statements hold for every classifier `cls`.
-/
namespace J5V.Props.C11
open J5V.Go J5V.Bcl

/-- Rendering diagnostics against the source never fails: for **arbitrary** (also negative,
out-of-range, mid-rune) positions, arbitrary source lines and any context size, `HumanString` reaches
no index / slice panic. -/
theorem C11_render_total (errs : List (Option IPosition)) (lines : List (List Nat)) (ctx : Int) :
    ∃ out, humanStringAll errs lines ctx = .ok out :=
  humanStringAll_no_panic errs lines ctx

/-- … in particular for a single diagnostic (the `humanString` closure of print.go). -/
theorem C11_render_one_total (pos : Option IPosition) (lines : List (List Nat)) (ctx : Int) :
    ∃ out, humanString pos lines ctx = .ok out :=
  humanString_no_panic pos lines ctx

end J5V.Props.C11
