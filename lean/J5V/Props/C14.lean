import J5V.Compile.PermProofs
/-!
# C14 — compilation is deterministic

About the list-indexed model `J5V.Compile.Package`: packages and files are lists in the order the
file source returns them, Go maps are association lists in write order.

Proved so far:
* the general lemma: a fold whose body commutes is invariant under permutation (and, if also
  idempotent, under repetition) — the shape of every map-range loop classified by extractor E8;
* its instantiation to the package export table (`includeIO`) and the resolver
  (`Package.ResolveType`): with distinct export names, type resolution does not depend on the
  order in which the file source lists the files of a package.

The full statement (`compilePkg` equal for permuted listings) is stated below and not yet proved.
-/
namespace J5V.Props.C14
open J5V.Go J5V.Compile

/-- **General lemma.** A left fold whose body commutes yields the same result for any permutation
of its input. -/
theorem C14_fold_perm_invariant {α β : Type} (f : β → α → β)
    (hcomm : ∀ b x y, f (f b x) y = f (f b y) x) {l₁ l₂ : List α} (p : l₁.Perm l₂) (b : β) :
    l₁.foldl f b = l₂.foldl f b :=
  fold_perm_invariant f hcomm p b

/-- …and, with an idempotent body, repetitions do not matter either (set semantics). -/
theorem C14_fold_idempotent {α β : Type} (f : β → α → β)
    (hcomm : ∀ b x y, f (f b x) y = f (f b y) x) (hidem : ∀ b x, f (f b x) x = f b x)
    (l : List α) (x : α) (hx : x ∈ l) (b : β) : (x :: l).foldl f b = l.foldl f b :=
  fold_idem_dup f hcomm hidem l x hx b

/-- export names of a list of file summaries are pairwise distinct -/
def DistinctExports (sums : List Summary') : Prop :=
  ((sums.flatMap (·.exports)).map (·.1)).Nodup

/-- **The export table does not depend on the listing order** (`includeIO` writes
`pkg.Exports[name]` file by file): with distinct export names every lookup gives the same answer
for any permutation of the files. -/
theorem C14_exports_perm (sums sums' : List Summary') (h : sums.Perm sums')
    (hd : DistinctExports sums) (k : Str) :
    mapGet (sums.flatMap (·.exports)) k = mapGet (sums'.flatMap (·.exports)) k :=
  mapGet_perm (h.flatMap_right _) hd k

/-- **Type resolution does not depend on the listing order** of the package's files nor on the
order in which its dependencies were loaded (Go ranges over a map there). -/
theorem C14_resolve_perm (name : Str) (sums sums' : List Summary')
    (deps deps' : List (Str × List (Str × TypeRef)))
    (h : sums.Perm sums') (hd : DistinctExports sums)
    (hdeps : deps.Perm deps') (hdn : (deps.map (·.1)).Nodup) (pkg sch : Str) :
    ({ pkgName := name, exports := sums.flatMap (·.exports), deps := deps } : Resolver).resolveType pkg sch =
    ({ pkgName := name, exports := sums'.flatMap (·.exports), deps := deps' } : Resolver).resolveType pkg sch := by
  unfold Resolver.resolveType
  simp only [C14_exports_perm sums sums' h hd sch, mapGet_perm hdeps hdn pkg]

/-- the conversion context built from permuted listings is the *same function* -/
theorem C14_ctx_perm (im : ImportMap) (name : Str) (sums sums' : List Summary')
    (deps deps' : List (Str × List (Str × TypeRef)))
    (h : sums.Perm sums') (hd : DistinctExports sums)
    (hdeps : deps.Perm deps') (hdn : (deps.map (·.1)).Nodup) :
    resolveTypeNoImport im { pkgName := name, exports := sums.flatMap (·.exports), deps := deps } =
    resolveTypeNoImport im { pkgName := name, exports := sums'.flatMap (·.exports), deps := deps' } := by
  funext pkg sch
  unfold resolveTypeNoImport
  cases im.expand pkg sch with
  | none => rfl
  | some e =>
    cases e with
    | implicit t => rfl
    | ref p s => exact C14_resolve_perm name sums sums' deps deps' h hd hdeps hdn p s

/-- hence every file converts to the same descriptors whatever the listing order -/
theorem C14_convertFile_perm (name : Str) (sums sums' : List Summary')
    (deps deps' : List (Str × List (Str × TypeRef)))
    (h : sums.Perm sums') (hd : DistinctExports sums)
    (hdeps : deps.Perm deps') (hdn : (deps.map (·.1)).Nodup)
    (path : Str) (imports : List Import) (elems : List Elem) :
    convertFile { pkgName := name, exports := sums.flatMap (·.exports), deps := deps } path imports elems =
    convertFile { pkgName := name, exports := sums'.flatMap (·.exports), deps := deps' } path imports elems := by
  unfold convertFile
  simp only []
  cases j5Imports (packageFromFilename (path ++ b!".proto")) imports with
  | ok im => simp only [C14_ctx_perm im name sums sums' deps deps' h hd hdeps hdn]
  | err t => rfl
  | panic w => rfl

/-- full statement (to be proved): compiling a package of a bundle whose file listing is
permuted gives the same outcome -/
def PermFilesInvariant : Prop :=
  ∀ (b : Bundle) (p : Pkg) (files' : List SrcFile) (rest₁ rest₂ : List Pkg),
    b.pkgs = rest₁ ++ [p] ++ rest₂ → p.files.Perm files' →
    ∀ fs, compilePkg b p.name = .ok fs →
      compilePkg { pkgs := rest₁ ++ [{ p with files := files' }] ++ rest₂ } p.name = .ok fs

/-! ## Non-vacuity -/

example : DistinctExports
    [ { path := b!"a", pkg := b!"p", exports := [(b!"A", ⟨b!"p", b!"A", b!"a", .message false⟩)], depPkgs := [] },
      { path := b!"b", pkg := b!"p", exports := [(b!"B", ⟨b!"p", b!"B", b!"b", .message false⟩)], depPkgs := [] } ] := by
  unfold DistinctExports; decide

end J5V.Props.C14
