import J5V.Compile.PermFiles
import J5V.Compile.CacheProofs
import J5V.Compile.PermPkgs
import J5V.Print.Layout
import J5V.Generated.MaprangeFacts
import J5V.Generated.BuildersFacts
/-!
# C14 — compilation is deterministic

About the list-indexed model `J5V.Compile.Package`: packages and files are lists in the order the
file source returns them, Go maps are association lists in write order.

Proved so far:
* the general lemma: a fold whose body commutes is invariant under permutation (and, if also
  idempotent, under repetition) — the shape of every map-range loop classified by extractor E8;
* its instantiation to the package export table (`includeIO`) and the resolver
  (`Package.ResolveType`): with distinct export names, type resolution does not depend on the
  order in which the file source lists the files of a package.

* the full statement for the file listing: `C14_perm_files` — `compilePkg` of a package is the
  same for every permutation of its source file listing.
-/
namespace J5V.Props.C14
open J5V.Go J5V.Compile

/-- **General lemma.** A left fold whose body commutes yields the same result for any permutation
of its input. -/
theorem C14_fold_perm_invariant {α β : Type} (f : β → α → β)
    (hcomm : ∀ b x y, f (f b x) y = f (f b y) x) {l₁ l₂ : List α} (p : l₁.Perm l₂) (b : β) :
    l₁.foldl f b = l₂.foldl f b :=
  fold_perm_invariant f hcomm p b

/-- …and, with an idempotent body, repetitions do not matter either (set semantics). -/
theorem C14_fold_idempotent {α β : Type} (f : β → α → β)
    (hcomm : ∀ b x y, f (f b x) y = f (f b y) x) (hidem : ∀ b x, f (f b x) x = f b x)
    (l : List α) (x : α) (hx : x ∈ l) (b : β) : (x :: l).foldl f b = l.foldl f b :=
  fold_idem_dup f hcomm hidem l x hx b

/-- export names of a list of file summaries are pairwise distinct -/
def DistinctExports (sums : List Summary') : Prop :=
  ((sums.flatMap (·.exports)).map (·.1)).Nodup

/-- **The export table does not depend on the listing order** (`includeIO` writes
`pkg.Exports[name]` file by file): with distinct export names every lookup gives the same answer
for any permutation of the files. -/
theorem C14_exports_perm (sums sums' : List Summary') (h : sums.Perm sums')
    (hd : DistinctExports sums) (k : Str) :
    mapGet (sums.flatMap (·.exports)) k = mapGet (sums'.flatMap (·.exports)) k :=
  mapGet_perm (h.flatMap_right _) hd k

/-- **Type resolution does not depend on the listing order** of the package's files nor on the
order in which its dependencies were loaded (Go ranges over a map there). -/
theorem C14_resolve_perm (name : Str) (sums sums' : List Summary')
    (deps deps' : List (Str × List (Str × TypeRef)))
    (h : sums.Perm sums') (hd : DistinctExports sums)
    (hdeps : deps.Perm deps') (hdn : (deps.map (·.1)).Nodup) (pkg sch : Str) :
    ({ pkgName := name, exports := sums.flatMap (·.exports), deps := deps } : Resolver).resolveType pkg sch =
    ({ pkgName := name, exports := sums'.flatMap (·.exports), deps := deps' } : Resolver).resolveType pkg sch := by
  unfold Resolver.resolveType
  simp only [C14_exports_perm sums sums' h hd sch, mapGet_perm hdeps hdn pkg]

/-- the conversion context built from permuted listings is the *same function* -/
theorem C14_ctx_perm (im : ImportMap) (name : Str) (sums sums' : List Summary')
    (deps deps' : List (Str × List (Str × TypeRef)))
    (h : sums.Perm sums') (hd : DistinctExports sums)
    (hdeps : deps.Perm deps') (hdn : (deps.map (·.1)).Nodup) :
    resolveTypeNoImport im { pkgName := name, exports := sums.flatMap (·.exports), deps := deps } =
    resolveTypeNoImport im { pkgName := name, exports := sums'.flatMap (·.exports), deps := deps' } := by
  funext pkg sch
  unfold resolveTypeNoImport
  cases im.expand pkg sch with
  | none => rfl
  | some e =>
    cases e with
    | implicit t => rfl
    | ref p s => exact C14_resolve_perm name sums sums' deps deps' h hd hdeps hdn p s

/-- hence every file converts to the same descriptors whatever the listing order -/
theorem C14_convertFile_perm (name : Str) (sums sums' : List Summary')
    (deps deps' : List (Str × List (Str × TypeRef)))
    (h : sums.Perm sums') (hd : DistinctExports sums)
    (hdeps : deps.Perm deps') (hdn : (deps.map (·.1)).Nodup)
    (path : Str) (imports : List Import) (elems : List Elem) :
    convertFile { pkgName := name, exports := sums.flatMap (·.exports), deps := deps } path imports elems =
    convertFile { pkgName := name, exports := sums'.flatMap (·.exports), deps := deps' } path imports elems := by
  unfold convertFile
  simp only []
  cases j5Imports (packageFromFilename (path ++ b!".proto")) imports with
  | ok im => simp only [C14_ctx_perm im name sums sums' deps deps' h hd hdeps hdn]
  | err t => rfl
  | panic w => rfl

/-- **Permuting the file listing.** For every bundle and package that compiles, whose export names
are distinct across its files and whose generated files have distinct names (ASSUMPTIONS `hdist`,
`hnames`: the generator only produces such bundles; they are not derived from `ValidBundle` — with
duplicate export names the winner in `Package.includeIO` does depend on the order), listing the package's source files in any other order yields the same compiled files —
same descriptors, in the same (sorted) order. Dependencies may be any packages of the bundle, at
any depth. (`compilePkg` = `CompilePackage` up to the link step; the link step is a function of
this result.) -/
theorem C14_perm_files (b : Bundle) (name : Str) (p : Pkg) (files' : List SrcFile)
    (hfind : b.find name = some p) (hperm : p.files.Perm files') (l : Loaded)
    (h : loadPkg b (b.pkgs.length + 1) [] name = .ok l)
    (hdist : (l.exports.map (·.1)).Nodup) (hnames : (l.files.map (·.name)).Nodup) :
    compilePkg (b.withFiles name files') name = compilePkg b name :=
  compilePkg_perm_files b name p files' hfind hperm l h hdist hnames

/-- the sorted list of generated files is the same for any order in which `pkg.Files` (a Go
map) is ranged over -/
theorem C14_sorted_files_perm {fs fs' : List FileSkel} (p : fs.Perm fs')
    (hnd : (fs.map (·.name)).Nodup) : sortFiles fs = sortFiles fs' :=
  sortFiles_perm p hnd

/-- a package being loaded never reads its own file listing again (cycle check first), so the
dependencies of the compiled package load identically whatever its own listing order is -/
theorem C14_deps_independent (b : Bundle) (name : Str) (files' : List SrcFile) (fuel : Nat)
    (chain : List Str) (d : Str) (h : chain.contains name = true) :
    loadPkg (b.withFiles name files') fuel chain d = loadPkg b fuel chain d :=
  loadPkg_withFiles_chain b name files' fuel chain d h

/-- **Call order, fresh vs reused `PackageSet`.** For a bundle whose package dependency graph is
acyclic (`rankOk`: some rank decreases along every dependency; ranks bounded by the number of
packages), every `CompilePackage` call of any call sequence — with repeats, in any order, on one
reused set or on a fresh set per call — returns exactly what compiling that package alone on a
fresh set returns. The cache (`PackageSet.Packages`) is transparent. -/
theorem C14_order_calls (b : Bundle) (r : Str → Nat) (hr : rankOk b r = true)
    (hF : ∀ n, r n < b.pkgs.length + 1) (reuse : Bool) (calls : List Str) :
    compileCalls b reuse calls [] = calls.map fun n => (n, compileLinked b n) :=
  compileCalls_agree b r hr hF reuse calls [] (by intro nl h; simp at h)

/-- in particular two call sequences agree on every package they both compile -/
theorem C14_order_calls_pair (b : Bundle) (r : Str → Nat) (hr : rankOk b r = true)
    (hF : ∀ n, r n < b.pkgs.length + 1) (reuse₁ reuse₂ : Bool) (calls₁ calls₂ : List Str) (n : Str)
    (o₁ o₂ : Outcome (List FileSkel))
    (h₁ : (n, o₁) ∈ compileCalls b reuse₁ calls₁ []) (h₂ : (n, o₂) ∈ compileCalls b reuse₂ calls₂ []) :
    o₁ = o₂ := by
  rw [C14_order_calls b r hr hF] at h₁ h₂
  simp only [List.mem_map, Prod.mk.injEq] at h₁ h₂
  obtain ⟨_, _, rfl, rfl⟩ := h₁
  obtain ⟨_, _, rfl, rfl⟩ := h₂
  rfl

/-- the cache-free loader itself does not depend on fuel or chain (beyond rank) -/
theorem C14_load_indep (b : Bundle) (r : Str → Nat) (hr : rankOk b r = true)
    (f f' : Nat) (chain chain' : List Str) (n : Str) (hf : r n < f) (hf' : r n < f')
    (hc : ∀ c ∈ chain, r n < r c) (hc' : ∀ c ∈ chain', r n < r c) :
    loadPkg b f chain n = loadPkg b f' chain' n :=
  loadPkg_indep b r hr f f' chain chain' n hf hf' hc hc'

/-- **Permuting the package listing.** With distinct package names, the order in which the file
source lists the packages (`ListPackages()`) changes nothing: for every package, the converted
files and the linked result are the same. (The listing only decides which names are local; the
model finds a package by name.) Any number of packages, any dependency graph. -/
theorem C14_perm_packages (b b' : Bundle) (hperm : b.pkgs.Perm b'.pkgs)
    (hnd : (b.pkgs.map (·.name)).Nodup) (name : Str) :
    compilePkg b name = compilePkg b' name ∧ compileLinked b name = compileLinked b' name :=
  compile_perm_pkgs b b' hperm hnd name

/-- **The link step under a permuted universe.** The files of the other packages (converted
dependencies, hand-written protos) reach the linker through Go maps; with distinct file names the
link result of a package's files does not depend on the order in which they are offered. -/
theorem C14_link_perm_others (others others' : List LFile) (files : List FileSkel)
    (hp : others.Perm others')
    (hnd : ((files.map (·.lfile) ++ others ++ builtinFiles).map (·.name)).Nodup) :
    linkFiles others files = linkFiles others' files :=
  linkFiles_perm_others others others' files hp hnd

/-! ## compile ∘ print, end to end on the models -/

/-- the printed text of every file of a compile result, by file name; `view` is the descriptor the
printer is handed for a generated file (`protoprint.PrintFile` reads a `protoreflect.FileDescriptor`
built from the compiled `FileDescriptorProto`) -/
def printAll (gen : String) (view : FileSkel → J5V.Print.Layout.FileD) (o : Outcome (List FileSkel)) :
    Outcome (List (Str × String)) :=
  o.map (List.map fun f => (f.name, J5V.Print.Layout.printText gen (view f)))

/-- **Compile ∘ print determinism on the models — PARTIAL: the compile half is proved, the print
half is assumed through `hview`.** Take a bundle `b`, list its packages in any other order (`b'`),
and list the files of the compiled package in any other order (`files'`). PROVED (from
`C14_perm_packages`, `C14_perm_files`): the compile results are EQUAL — outcome class, file names in
order, every skeleton — both up to the link step (`compilePkg`, under both permutations) and linked
(`compileLinked`, under the package permutation). Hence any function of the compile result is equal
too; `printAll` applies the printer model to a descriptor view of each file.
ASSUMED, not proved here: (1) `view` / `view'` are ARBITRARY functions `FileSkel → FileD` — there is
no model of the step "compiled FileDescriptorProto → protoreflect descriptor the printer reads"
(protodesc / protobuf-go are outside the model); (2) `hview`: the two views have the same
ARRANGEMENT (`FileD.arranged`) for every file. With `view' = view` (one deterministic view) `hview`
is `rfl` and the statement is exactly "equal compile results print equally"; for two different
views `hview` is precisely what a theorem about the printer's sort would have to establish:
`arranged` is invariant under a permutation of `items` only when the comparison is a strict total
order on them — `C05_order_total` needs `noTies`; elements without source lines that tie are NOT
covered (`sort.Sort` is unstable there; DESIGN §6). The print step itself is the statement of
`C05_print_function` (the text is a function of the arranged descriptor — true by the definition
of `printText`), re-derived in two lines. So this theorem adds to `C14_perm_*` only the packaging;
it does NOT prove that printing is independent of the element order the descriptor is read in. -/
theorem C14_compile_print_deterministic_partial (gen : String)
    (view view' : FileSkel → J5V.Print.Layout.FileD)
    (hview : ∀ f, (view f).arranged = (view' f).arranged)
    (b b' : Bundle) (hpk : b.pkgs.Perm b'.pkgs) (hnd : (b.pkgs.map (·.name)).Nodup)
    (name : Str) (p : Pkg) (files' : List SrcFile)
    (hfind : b'.find name = some p) (hperm : p.files.Perm files') (l : Loaded)
    (h : loadPkg b' (b'.pkgs.length + 1) [] name = .ok l)
    (hdist : (l.exports.map (·.1)).Nodup) (hnames : (l.files.map (·.name)).Nodup) :
    printAll gen view' (compilePkg (b'.withFiles name files') name) =
      printAll gen view (compilePkg b name) ∧
    printAll gen view' (compileLinked b' name) = printAll gen view (compileLinked b name) := by
  rw [compilePkg_perm_files b' name p files' hfind hperm l h hdist hnames,
    ← (compile_perm_pkgs b b' hpk hnd name).1, ← (compile_perm_pkgs b b' hpk hnd name).2]
  have hfun : (fun f : FileSkel => (f.name, J5V.Print.Layout.printText gen (view' f))) =
      fun f => (f.name, J5V.Print.Layout.printText gen (view f)) := by
    funext f
    have : J5V.Print.Layout.printText gen (view' f) = J5V.Print.Layout.printText gen (view f) := by
      unfold J5V.Print.Layout.printText J5V.Print.Layout.printFile
      rw [hview f]
    rw [this]
  unfold printAll
  rw [hfun]
  exact ⟨rfl, rfl⟩

/-! ## Non-vacuity -/

/-- a two-file package (second file refers to the first) meeting the hypotheses of `C14_perm_files` -/
def exBundle : Bundle :=
  { pkgs := [ { name := b!"foo.v1", files :=
      [ .j5s b!"foo/v1/a.j5s" [] [.object (.mk b!"A" [.mk b!"x" false false (.string [] false)] [] none)]
          b!"foo.v1",
        .j5s b!"foo/v1/b.j5s" []
          [.object (.mk b!"B" [.mk b!"a" false false (.objectRef [] b!"A" false [])] [] none)]
          b!"foo.v1" ] } ] }

example : (match loadPkg exBundle (exBundle.pkgs.length + 1) [] b!"foo.v1" with
    | .ok l => decide ((l.exports.map (·.1)).Nodup) && decide ((l.files.map (·.name)).Nodup)
                && l.files.length == 2
    | _ => false) = true := by decide

/-- two packages, `bar.v1` importing `foo.v1`: an acyclic bundle with its rank function -/
def exBundle2 : Bundle :=
  { pkgs := exBundle.pkgs ++ [ { name := b!"bar.v1", files :=
      [ .j5s b!"bar/v1/c.j5s" [⟨b!"foo.v1", []⟩]
          [.object (.mk b!"C" [.mk b!"a" false false (.objectRef b!"foo" b!"A" false [])] [] none)]
          b!"bar.v1" ] } ] }

def exRank (n : Str) : Nat := if n = b!"bar.v1" then 1 else 0

example : rankOk exBundle2 exRank = true := by decide
example : ∀ n, exRank n < exBundle2.pkgs.length + 1 := by
  intro n; unfold exRank; split <;> decide
example : (compileLinked exBundle2 b!"bar.v1").isOk = true := by decide

/-- hypotheses of `C14_perm_packages` for `exBundle2` and its reversed listing; hypotheses of
`C14_link_perm_others` for the files of `bar.v1` against the (reversed) files of `foo.v1` -/
example : exBundle2.pkgs.Perm exBundle2.pkgs.reverse ∧ (exBundle2.pkgs.map (·.name)).Nodup :=
  ⟨(List.reverse_perm _).symm, by decide⟩

def exLoaded : Loaded := match loadPkg exBundle2 3 [] b!"bar.v1" with | .ok l => l | _ => default

example : ((exLoaded.files.map (·.lfile) ++ exLoaded.depFiles.map (·.lfile) ++ builtinFiles).map (·.name)).Nodup ∧
    exLoaded.depFiles.length = 2 := by decide

example : DistinctExports
    [ { path := b!"a", pkg := b!"p", exports := [(b!"A", ⟨b!"p", b!"A", b!"a", .message false⟩)], depPkgs := [] },
      { path := b!"b", pkg := b!"p", exports := [(b!"B", ⟨b!"p", b!"B", b!"b", .message false⟩)], depPkgs := [] } ] := by
  unfold DistinctExports; decide

/-- hypotheses of `C14_compile_print_deterministic_partial`: `exBundle2`, its reversed package listing, the
two files of `foo.v1` listed the other way round, and a view that is not constant (imports and
package of the generated file) -/
def exBundle2r : Bundle := { pkgs := exBundle2.pkgs.reverse }
def exView (f : FileSkel) : J5V.Print.Layout.FileD :=
  { (default : J5V.Print.Layout.FileD) with
    pkg := String.ofList (f.pkg.map Char.ofNat),
    imports := f.deps.map fun d => (String.ofList (d.map Char.ofNat), "") }

example : exBundle2.pkgs.Perm exBundle2r.pkgs ∧ (exBundle2.pkgs.map (·.name)).Nodup ∧
    (match exBundle2r.find b!"foo.v1" with
     | some p => decide (p.files.length = 2)
     | none => false) = true ∧
    (match loadPkg exBundle2r (exBundle2r.pkgs.length + 1) [] b!"foo.v1" with
     | .ok l => decide ((l.exports.map (·.1)).Nodup) && decide ((l.files.map (·.name)).Nodup)
     | _ => false) = true ∧
    (match printAll "gen" exView (compilePkg exBundle2 b!"bar.v1") with
     | .ok [(n, _)] => decide (n = b!"bar/v1/c.j5s.proto")
     | _ => false) = true :=
  ⟨(List.reverse_perm _).symm, by decide, by decide, by decide, by decide⟩

end J5V.Props.C14

/-! ## Obligation over facts regenerated from the current source (`extract maprange`, E8)

Every `range` over a Go map, every `maps.Keys/Values` call and every protoreflect `Range`
callback in the anchored files, classified. A new or re-shaped loop fails the obligation. -/
namespace J5V.Props.C14
open J5V.Generated.Maprange

inductive LoopClass where
  /-- body only writes `m[k] = v` with distinct keys: commutative (`C14_exports_perm`) -/
  | insertIntoMap
  /-- collects, then sorts before use (`sortFiles`) -/
  | collectThenSort
  /-- result only feeds an error message or a warning, never the output -/
  | diagnosticOnly
  /-- loads each dependency and stores it: commutative up to which error is reported first -/
  | loadAndInsert
  /-- iteration order defined by protobuf-go (field / extension number order) -/
  | protobufOrder
  deriving Repr, DecidableEq

/-- the committed classification of the order-sensitive loops: (file, function, what, shape) ↦ class -/
def classified : List ((String × String × String × String) × LoopClass) :=
  [ (("protobuild/packages.go", "Package.includeIO", "range-map summary.Exports", "insert-into-map"), .insertIntoMap),
    (("protobuild/packages.go", "PackageSet.findFileByPath", "maps.Keys(pkg.Files)", "unsorted-slice"), .diagnosticOnly),
    (("protobuild/packages.go", "PackageSet.resolveDependencies", "range-map deps",
        "call:ps.loadPackage+insert-into-map+return"), .loadAndInsert),
    (("protobuild/packages.go", "PackageSet.CompilePackage", "range-map pkg.Files", "append:filenames:sorted"), .collectThenSort),
    (("protobuild/linker.go", "markOptionImportsUsed", "callback-range proto.RangeExtensions", "protobuf-defined-order"), .protobufOrder),
    (("j5convert/summary_walk.go", "SourceSummary", "range-map importMap.vals", "assign+call:ec.WarnPos+call:int+continue"), .diagnosticOnly),
    (("protoprint/optionreflect/builder.go", "Builder.OptionsFor", "callback-range srcReflect.Range", "protobuf-defined-order"), .protobufOrder),
    (("protoprint/optionreflect/walk.go", "walkOptionMap", "callback-range mp.Range", "protobuf-defined-order"), .protobufOrder) ]

/-- loops the extractor lists because it cannot resolve the ranged type; all of them range over
slices (declaration order), checked by reading: (file, function, what) -/
def sliceRanges : List (String × String × String) :=
  [ ("protobuild/source_resolver.go", "NewBundleResolver", "range-unknown bundleConfig.Packages"),
    ("protobuild/source_resolver.go", "newSourceResolver", "range-unknown packages"),
    ("protobuild/source_resolver.go", "sourceResolver.listPackageFiles", "range-unknown files"),
    ("protobuild/linker.go", "searchLinker.loadDependencies", "range-unknown desc.Dependency"),
    ("protobuild/lint.go", "LintFile", "range-unknown pkg.SourceFiles"),
    ("protobuild/lint.go", "LintAll", "range-unknown allPackages"),
    ("protobuild/lint.go", "LintAll", "range-unknown pkg.Files"),
    ("j5convert/builders.go", "fileContext.ensureImport", "range-unknown fb.fdp.Dependency"),
    ("j5convert/summary_walk.go", "summaryWalker.collectFileRefs", "range-unknown node.Schema.Options"),
    ("protoprint/protoprint.go", "fileBuffer.p", "range-unknown arg"),
    ("protoprint/protoprint.go", "fileBuilder.leadingComments", "range-unknown loc.LeadingDetachedComments") ]

/-- **E8**: every loop the extractor reports is either one of the classified order-sensitive loops
(same shape of body) or one of the known slice ranges; and every classified loop still exists -/
theorem C14_src_map_ranges_classified :
    (∀ r ∈ mapRanges, r ∈ classified.map (·.1) ∨ (r.1, r.2.1, r.2.2.1) ∈ sliceRanges) ∧
    (∀ c ∈ classified, c.1 ∈ mapRanges) := by
  decide

end J5V.Props.C14

/-! ## Obligation over facts regenerated from the current source (`extract builders`)

`fileContext.ensureImport` (j5convert/builders.go) statement by statement: the two explicit panics
(`Eff.imp`'s panic arms), return when the path is the file's own name, return when already present,
append, then `sort.Strings` on the SAME list — the shape `Compile.File.ensureImport` mirrors
("imports kept sorted on insertion", the first C14 mechanism). A removed sort, another order of the
statements, or any new statement fails the obligation. -/
namespace J5V.Props.C14
open J5V.Generated.Builders

theorem C14_src_ensure_import_sorted :
    ensureImportShape =
      ["panic-if-empty", "panic-if-no-slash", "return-if-self", "return-if-present:fb.fdp.Dependency",
       "append:fb.fdp.Dependency", "sort.Strings:fb.fdp.Dependency"] := by decide

/-- no other code of j5convert sorts or re-orders a descriptor list: besides appends at the end,
fresh literals and the in-place explicit zero enum value, the only write (a `sort.*` / `slices.*`
call is recorded as `call:<fn>`) is the `sort.Strings` inside `ensureImport` -/
theorem C14_src_only_imports_sorted :
    descriptorWrites.filter (fun r =>
        !(["append-end", "literal", "other:e.desc.Value[0] = value"].contains r.2.2.2)) =
      [("builders.go", "fileContext.ensureImport", "fb.fdp.Dependency", "call:sort.Strings")] := by decide

end J5V.Props.C14
