import J5V.Codec.QuerySteps
import J5V.Codec.DecodeProofs
import J5V.Json.TokenProofs
import J5V.Json.SizeProofs
import J5V.Codec.StepBound
import J5V.Generated.CodecFacts
/-!
# C06 — the decoder is total: no input crashes, hangs or exhausts the stack

Property theorems only. `decodeBytes` / `decodeQuery` are the models of `Codec.JSONToProto` /
`Codec.QueryToProto` (`J5V.Codec.{Decode,Query}`), in which every partial Go operation is an
explicit `.panic` outcome.

* **No panic** is a theorem for every byte string / every `url.Values`, every target root and
  every environment whose array / map items are not themselves arrays or maps (`Env.itemsOk`,
  decidable; proto cannot express such fields, and the harness never produces them).
* **Termination / no unbounded recursion**: the JSON reader runs on fuel `length + 1`
  (`tokenize`, `readDoc`) and every decoder function is accepted by Lean as *structurally*
  recursive on the tree `readDoc bytes` — there is no `partial`, no well-founded recursion and
  no fuel in `J5V.Codec.Decode`; the recursion depth is the nesting depth of the document.
* **Time bounded by the input size**: `C06_linear` — the step count `decodeBytesN`
  (`J5V.Codec.Steps`, same recursion as the decoder, continuing a loop with the decoder's own
  intermediate results) is at most `1010 · |bs| + 2222`.
-/
namespace J5V.Props.C06
open J5V.Go J5V.Json J5V.Codec

/-- JSON decoding never panics: for all byte strings, all roots, all well-formed environments,
both codec modes, any oracle. -/
theorem C06_decode_no_panic (c : Cfg) (hc : c.env.itemsOk = true) (root : String) (bs : Bytes) :
    ∀ w, decodeBytes c root bs ≠ .panic w :=
  decodeBytes_np c hc root bs

/-- the same on the level the proof works on: every partial JSON tree, i.e. every sequence of
`Token()` results including every way the stream can fail -/
theorem C06_decode_tree_no_panic (c : Cfg) (hc : c.env.itemsOk = true) (root : String) (t : PTree) :
    ∀ w, decRootTree c root t ≠ .panic w :=
  decRootTree_np c hc root t

/-- URL-query decoding never panics: for all key / value-list sequences (empty keys, dotted
paths into every kind, repeated and empty value lists). -/
theorem C06_query_no_panic (c : Cfg) (hc : c.env.itemsOk = true) (root : String)
    (kvs : List (Bytes × List Bytes)) : ∀ w, decodeQuery c root kvs ≠ .panic w :=
  decodeQuery_np c hc root kvs

/-- the tokenizer model never runs out of fuel: its `length + 1` iterations always suffice (every
`Token()` call consumes at least one byte), so no document is mis-classified as failing because
of the fuel bound -/
theorem C06_tokenize_fuel_ok (bs : Bytes) : Item.fuel ∉ tokenize bs :=
  tokenize_no_fuel bs

/-- `scalarReflectFromGo` never panics, whatever token reaches it -/
theorem C06_scalar_no_panic (O : Oracle) (k : ScalarKind) (t : GoTok) :
    ∀ w, decodeScalar O k t ≠ .panic w :=
  decodeScalar_np O k t

/-- the oneof post-checks (`foundKeys[0]`, repaired by da8a625) never panic -/
theorem C06_oneof_post_no_panic (ops : List PropDef) (found : List Bytes) (ct : Option Bytes)
    (m : Fields) : ∀ w, oneofPost ops found ct m ≠ .panic w :=
  oneofPost_np ops found ct m

/-! ## time bounded by the input size -/

/-- **C06_linear (tree level)**: the number of steps of the decoder — `decRootTreeN`
(`Codec/Steps.lean`): one per `decodeValue` call, one per loop iteration, for an `Any` value the
nodes `Decoder.Decode(&raw)` and `json.Compact` re-scan plus, with `WithProtoToAny`, the steps of
decoding the value again one level deeper — is at most `2 · anyFactor c` steps per node of the
document, where `anyFactor c = maxAnyDepth - c.anyDepth + 1 ≤ 101`: every node is visited a bounded
number of times. For every environment (no hypothesis), every root, both modes, every tree.
Before repair 309b762 there was no such bound: nested `Any` values were re-read at every level
(and in the real code re-marshalled: cubic time). 
What is counted (and what is not): the cost function is hand-written (`Codec/Steps.lean`) and counts
VISITS of document nodes — one per `decodeValue` call, loop iteration and terminator, the re-scan of an
`Any` value, the nested decode. Per visit, scalar conversion costs 1 (it is linear in the token, by
assumption on `strconv` / `decimal` — the decimal exponent guard 158a5b4 is not visible here), and
`createField` / `seen.contains`, `findProp`, `acc ++ [pv]`, the duplicate-key check `mget`, `finalType`,
`updPath` and error-path construction (69f067c) cost NOTHING in this count although they are linear in
the schema size / the number of members read so far in the model. So the theorem says: every node
is visited at most `2 · anyFactor c ≤ 202` times; it does not by itself say "time linear in `|bs|`" —
the per-visit cost is bounded by the schema and member count, not modelled, and wall time is observed
only by the Go-side `codec.stress` / `codec.fuzz` time bounds. -/
theorem C06_linear_tree (c : Cfg) (root : String) (t : PTree) :
    decRootTreeN c root t ≤ anyFactor c * (2 * t.size) :=
  decRootTreeN_le c root t

/-- **C06_linear**: `Codec.JSONToProto` on `bs` (fresh codec: `anyDepth = 0`) takes at most
`1010 · |bs| + 2222` decoder steps after one tokenisation pass: linear in the input size. (The
tree has at most five nodes per token, `readDoc_size`; the tokenizer delivers at most one token
per byte, `tokenize_length`, and never exhausts its fuel, `C06_tokenize_fuel_ok`.) -/
theorem C06_linear (c : Cfg) (hd : c.anyDepth = 0) (root : String) (bs : Bytes) :
    decodeBytesN c root bs ≤ 1010 * bs.length + 2222 := by
  unfold decodeBytesN
  have h1 := decRootTreeN_le c root (readDoc bs)
  have h2 := readDoc_size bs
  have hf : anyFactor c = 101 := by unfold anyFactor maxAnyDepth; rw [hd]
  rw [hf] at h1
  omega

/-- **recursion depth**: every decoder function is structurally recursive on the document tree,
so the depth of its recursion is at most the nesting depth of the document (plus, per enclosing
`Any`, one restart — at most `maxAnyDepth` of them), and the nesting depth is at most the size:
no recursion without bound -/
theorem C06_depth_le_size (bs : Bytes) : (readDoc bs).depth ≤ 5 * bs.length + 11 :=
  Nat.le_trans (depth_le_size _) (readDoc_size bs)

/-- environment with an array of arrays (not expressible in proto) -/
def badProp : PropDef :=
  { jsonName := [0x61], path := [1], pres := .list, field := .array (.array (.scalar .string)) }

def badEnv : Env := { defs := [("r", .object [badProp])] }

/-- The hypothesis `itemsOk` is needed: `newFieldFactory` does panic on an array of arrays. -/
theorem C06_itemsOk_needed :
    decRootTree { env := badEnv, O := default } "r"
      (.obj (.cons [0x61] [] (.arr (.nil .closed)) (.nil .closed))) =
      .panic "invalid schema for leaf field" := by
  simp [decRootTree, badEnv, badProp, Env.find, decObjMembers, findProp, decProp, createField, groupBusy, itemCheck,
    Outcome.bind, finishObject]

/-! ## Non-vacuity -/

/-- a realistic environment (object with scalar, enum, array-of-object, map, oneof, any members,
a recursive reference) satisfies `itemsOk` -/
def sampleEnv : Env :=
  { defs := [
      ("t.E", .enum (ascii "E_") [(ascii "UNSPECIFIED", 0), (ascii "A", 1)]),
      ("t.W", .oneof [
        { jsonName := ascii "s", path := [1], pres := .opt, field := .scalar .string, group := some 0 },
        { jsonName := ascii "o", path := [2], pres := .msg, field := .object "t.M", group := some 0 }]),
      ("t.M", .object [
        { jsonName := ascii "name", path := [1], pres := .imp, field := .scalar .string },
        { jsonName := ascii "n", path := [2], pres := .opt, field := .scalar .int64 },
        { jsonName := ascii "e", path := [3], pres := .imp, field := .enum "t.E" },
        { jsonName := ascii "kids", path := [4], pres := .list, field := .array (.object "t.M") },
        { jsonName := ascii "tags", path := [5], pres := .map, field := .map (.scalar .string) },
        { jsonName := ascii "w", path := [6], pres := .msg, field := .oneof "t.W" },
        { jsonName := ascii "any", path := [7], pres := .msg, field := .any false },
        { jsonName := ascii "flat", path := [8, 1], pres := .imp, field := .scalar .bool }])] }

example : sampleEnv.itemsOk = true := by decide

/-- a fresh codec has `anyDepth = 0` (hypothesis of `C06_linear`) -/
example : ({ env := sampleEnv, O := default } : Cfg).anyDepth = 0 := rfl

/-- the step count is not vacuous: `{"name":"x","n":"5"}` takes 6 steps (root, two members with
their values, terminator), `{"kids":[{}]}` takes 8 -/
example : decRootTreeN { env := sampleEnv, O := default } "t.M"
    (.obj (.cons (ascii "name") [] (.str (ascii "x") [])
      (.cons (ascii "n") [] (.str (ascii "5") []) (.nil .closed)))) = 6 := by decide
example : decRootTreeN { env := sampleEnv, O := default } "t.M"
    (.obj (.cons (ascii "kids") [] (.arr (.cons (.obj (.nil .closed)) (.nil .closed))) (.nil .closed))) = 8 := by
  decide

/-- **step bound of URL-query decoding** (round 4): `decodeQueryN` (`Codec/QuerySteps.lean`) counts the
steps of `Codec.QueryToProto` in the style of `decRootTreeN` — same recursion as `decodeQuery` /
`queryKey`, continuing with the decoder's own intermediate states: one step per key, one per byte of
the key (`strings.Split`), one per path segment (`propertyAtPath`), one per value, and for a
container-valued parameter the decoder steps on its JSON text. Bound for every environment, root, mode
and every key / value list: `1 + Σ queryCost`, with `queryCost (key, values) = 2·|key| + 4 + |values| +
docBound values`, `docBound [v] = anyFactor c · 2 · (5·|TrimSpace v| + 11)` (only a single value can be a
document) and `0` otherwise. Same cost model as `C06_linear_tree` (visits, not instructions: `findProp`,
`propertyName` / `ToLowerCamel`, `seen.contains`, `updAt` cost nothing in the count; scalar conversion 1). -/
theorem C06_query_steps (c : Cfg) (root : String) (kvs : List (Bytes × List Bytes)) :
    decodeQueryN c root kvs ≤ 1 + (kvs.map (queryCost c)).sum :=
  decodeQueryN_le c root kvs

/-- **… linear in the size of the query** for a fresh codec: per key at most `2·|key| + |values| +
1010·Σ|v| + 2226` steps (`TrimSpace` never lengthens a value: `trimSpace_length`; `strings.Split`
returns at most `|key| + 1` segments: `splitDot_length`). Together with `C06_query_no_panic` this is
the query half of "return either success or an error in time bounded by the input size". -/
theorem C06_query_linear (c : Cfg) (hd : c.anyDepth = 0) (root : String)
    (kvs : List (Bytes × List Bytes)) :
    decodeQueryN c root kvs ≤ 1 + (kvs.map queryCostLin).sum :=
  decodeQueryN_linear c hd root kvs

/-- the query step count is not vacuous: `name=x` takes 9 steps, `w.s=x&n=5` takes 14 -/
example : decodeQueryN { env := sampleEnv, O := default } "t.M" [(ascii "name", [ascii "x"])] = 9 := by decide
example : decodeQueryN { env := sampleEnv, O := default } "t.M"
    [(ascii "w.s", [ascii "x"]), (ascii "n", [ascii "5"])] = 14 := by decide

/-! ## source facts
Obligations over `J5V.Generated.Codec` (regenerated from /repo's current source by extract/codec.go at
every check run). Maintained by codec-go; they tie the model's case analysis to the switches in
the Go source. -/
section SourceFacts
open J5V.Generated.Codec

/-- E6: `decodeValue` handles every `PropertyType` constant, `property.PropertyType` maps every
j5schema field schema type to one of them, and the fall-through arms are errors, not panics. -/
theorem C06_src_decode_switch_coverage :
    decodeValueCases = propertyTypeConsts ∧ propertyTypeSwitchResults = propertyTypeConsts ∧
    propertyTypeSwitchSchemas = fieldSchemaTypes ∧ decodeValueDefaultIsError = true := by decide

/-- every scalar member of the `schema_j5pb.Field` oneof has an arm in `scalarReflectFromGo`
(the remaining members are the container kinds handled by `decodeValue`) -/
theorem C06_src_scalar_kinds_covered :
    (fieldTypeMembers.filter fun m => m ∉ ["Field_Array", "Field_Map", "Field_Object", "Field_Oneof", "Field_Enum"]) =
      reflectFromGoCases ∧
    reflectFromGoIntegerFormats = ["INT32", "INT64", "UINT32", "UINT64"] ∧
    reflectFromGoFloatFormats = ["FLOAT32", "FLOAT64"] := by decide

/-- **the `Any` nesting bound of 309b762 ↔ `maxAnyDepth` / `Cfg.anyDepth`** (round 4; what
`C06_linear_tree`'s factor `anyFactor` rests on): the Go constant has the model's value, the check
`dec.anyDepth >= maxAnyDepth` is an error arm of `decodeAny` (model: `c.anyDepth ≥ maxAnyDepth` in
`decAnyMembers`), the nested decode runs at `dec.anyDepth + 1` (model: `{ c with anyDepth :=
c.anyDepth + 1 }`), and the two entry points start at depth `0`. -/
theorem C06_src_any_depth_bound :
    maxAnyDepthConst = J5V.Codec.maxAnyDepth ∧
    ("dec.anyDepth >= maxAnyDepth", "err") ∈ decodeAnyIfs ∧
    decodeAnyNestedDepthArgs = ["dec.anyDepth + 1"] ∧
    decodeRootDepthArgs = ["0", "0"] := by decide

/-- the two remaining type switches of the decoder have an arm for every kind the model
distinguishes and an ERROR (not a panic, not a fall-through) as default: `decodeRootNested` (object /
oneof root; model `decRootTree`) and `decodeMapField` (scalar / enum / object / oneof values; model
`decMapMembers`, whose last arm is `.err "unknown map schema type"`) -/
theorem C06_src_root_and_map_switches :
    decodeRootNestedCases = ["Object", "Oneof"] ∧ decodeRootNestedDefaultIsError = true ∧
    decodeMapFieldCases = ["MapOfScalarField", "MapOfEnumField", "MapOfObjectField", "MapOfOneofField"] ∧
    decodeMapFieldDefaultIsError = true := by decide

theorem C06_src_extractor_ok : codecExtractorOk = true := by decide

end SourceFacts

end J5V.Props.C06
