import J5V.Compile.ConvertProofs
import J5V.Compile.ShapeProofs
import J5V.Compile.RefProofs
import J5V.Compile.RefsPkg
import J5V.Compile.SymProofs
import J5V.Compile.FieldShapeProofs
import J5V.Generated.CompileconstsFacts
import J5V.Generated.BuildersFacts
import J5V.Generated.ImportmapFacts
/-!
# C02 — j5s compiles to exactly the protobuf contract the source declares

Statements are about `J5V.Compile` (the model of `sourcewalk` + `j5convert`), for **every**
conversion context, parent path, property list, nesting depth; no bound.
Only property theorems and their non-vacuity examples live here.
-/
namespace J5V.Props.C02
open J5V.Go J5V.Compile

/-- **Field numbering.** In the message emitted for a declared (or virtual) object / oneof whose
conversion recorded no error, there is exactly one field per property — the virtual prepends
(request / upsert metadata) first, then the declared ones — and field `i` has number `i + 1`,
proto name `snake(name)` and JSON name `name`. -/
theorem C02_field_numbering (c : Ctx) (np : List Str) (isOneof : Bool) (virt : List Property)
    (name : Str) (props : List Property) (nested : List Nested) (psm : Option Psm)
    (h : (convDecl c np isOneof virt (.mk name props nested psm)).errs = 0) :
    let m := declMsg c np isOneof virt name props nested psm
    m ∈ (convDecl c np isOneof virt (.mk name props nested psm)).msgs ∧
    m.fields.length = virt.length + props.length ∧
    ∀ i (hi : i < (virt ++ props).length) (hf : i < m.fields.length),
      m.fields[i].number = i + 1 ∧
      m.fields[i].name = toSnake (virt ++ props)[i].name ∧
      m.fields[i].jsonName = (virt ++ props)[i].name := by
  intro m
  have herr : (bProps c (np ++ [name]) isOneof 1 (virt ++ props)).eff.errs = 0 := by
    rw [convDecl_errs] at h; omega
  obtain ⟨hl, hn⟩ := bProps_numbering c (np ++ [name]) isOneof 1 (virt ++ props) herr
  refine ⟨by rw [convDecl_msgs]; simp [m], by simpa [m, declMsg, mkMsg, MsgSkel.fields] using hl, ?_⟩
  intro i hi hf
  have := hn i hi (by simpa [m, declMsg, mkMsg, MsgSkel.fields] using hf)
  simp only [m, declMsg, mkMsg, MsgSkel.fields]
  refine ⟨by rw [this.1]; omega, this.2.1, this.2.2⟩

/-- the same as one list equation: names and numbers of all fields of a declaration's message -/
theorem C02_field_list (c : Ctx) (np : List Str) (isOneof : Bool) (virt : List Property)
    (o : ObjDecl) (h : (convDecl c np isOneof virt o).errs = 0) :
    declMsgOf c np isOneof virt o ∈ (convDecl c np isOneof virt o).msgs ∧
    (declMsgOf c np isOneof virt o).fields.map (fun f => (f.name, f.number)) =
      (virt ++ o.props).zipIdx.map fun (p, i) => (toSnake p.name, i + 1) :=
  ⟨convDecl_msgOf c np isOneof virt o, declMsgOf_fields c np isOneof virt o h⟩

/-- **Position numbering at the source** (`mapProperties`): numbers are 1 … n over the virtual
prepends followed by the declared properties, in order. -/
theorem C02_mapProperties (virt props : List Property) :
    (mapProperties virt props).map (·.1) = List.range' 1 (virt.length + props.length) ∧
    (mapProperties virt props).map (·.2) = virt ++ props :=
  ⟨mapProperties_fst virt props, mapProperties_snd virt props⟩

/-- **Enum numbering.** Without a leading explicit zero (`UNSPECIFIED` / `<PREFIX>UNSPECIFIED`),
the values are the implicit `<PREFIX>UNSPECIFIED = 0` followed by option `k` with number `k + 1`;
the prefix is the declared one or `SCREAMING_SNAKE(name)_`; option names get the prefix unless
they carry it. -/
theorem C02_enum_numbering (e : EnumDecl)
    (h : ∀ first rest, e.opts = first :: rest → isExplicitUnspecified (enumPrefix e) first = false) :
    (convEnum e).name = e.name ∧
    (convEnum e).values =
      (enumPrefix e ++ b!"UNSPECIFIED", 0) ::
        e.opts.zipIdx.map fun (n, i) => (enumFull (enumPrefix e) n, i + 1) :=
  ⟨rfl, enumValues_implicit _ _ h⟩

/-- …with one, that option *is* value 0 (still called `<PREFIX>UNSPECIFIED`) and the rest are
numbered from 1. -/
theorem C02_enum_numbering_explicit_zero (e : EnumDecl) (first : Str) (rest : List Str)
    (ho : e.opts = first :: rest) (h : isExplicitUnspecified (enumPrefix e) first = true) :
    (convEnum e).values =
      (enumPrefix e ++ b!"UNSPECIFIED", 0) ::
        rest.zipIdx.map fun (n, i) => (enumFull (enumPrefix e) n, i + 1) := by
  simp only [convEnum, ho]
  rw [enumValues_explicit _ _ _ h, enumFull_explicit _ _ h]

theorem C02_enum_prefix_default (e : EnumDecl) (h : e.pfx = []) :
    enumPrefix e = toScreamingSnake e.name ++ b!"_" := by
  simp [enumPrefix, h]

/-- **Nested naming.** An inline object in field `f` of a message with path `np` is emitted as a
message named `CamelCase(f)` — or the override — added to the owner's nested types, and the field
refers to it by the path-qualified name. -/
theorem C02_nested_naming (c : Ctx) (np : List Str) (isOneof : Bool) (number : Nat)
    (fname : Str) (req opt : Bool) (name : Str) (props : List Property) (flatten : Bool)
    (rules : Rules) (f : FieldSkel)
    (h : (bProperty c np isOneof number
            (.mk fname req opt (.objectInl name props flatten rules))).fld = some f) :
    let nm := if name = [] then toCamel fname else name
    f.typeName = relName np nm ∧ f.type = .message ∧
    ∃ m ∈ (bProperty c np isOneof number
            (.mk fname req opt (.objectInl name props flatten rules))).eff.msgs, m.name = nm := by
  intro nm
  obtain ⟨r, hty, htn, heq⟩ := bProperty_objectInl c np isOneof number fname req opt name props flatten rules
  obtain ⟨⟨msg, hname, hmsgs⟩, _⟩ := bField_objectInl c np (toCamel fname) name props flatten rules
  rw [heq] at h ⊢
  have hf := finishProperty_fld _ _ _ _ _ _ _ _ _ _ h
  refine ⟨by rw [hf.2.2.2.2.2.2.2.2.1, htn], by rw [hf.2.2.2.2.2.2.2.1, hty], msg, ?_, hname⟩
  rw [finishProperty_msgs, hmsgs]
  simp

/-- **Path parameters.** A path part `:name` is rewritten to `{snake(name)}`, and that is exactly
the proto name of the request field declared as `name`: for every request property there is an
emitted field with that JSON name whose proto name is what the rewritten path part contains. -/
theorem C02_path_param (c : Ctx) (np : List Str) (n : Nat) (req : List Property)
    (h : (bProps c np false n req).eff.errs = 0) (i : Nat) (hi : i < req.length) :
    ∃ f ∈ (bProps c np false n req).flds,
      f.jsonName = req[i].name ∧
      rewritePart (b!":" ++ req[i].name) = b!"{" ++ f.name ++ b!"}" := by
  obtain ⟨hl, hn⟩ := bProps_numbering c np false n req h
  have hf : i < (bProps c np false n req).flds.length := by rw [hl]; exact hi
  refine ⟨(bProps c np false n req).flds[i], List.getElem_mem hf, (hn i hi hf).2.2, ?_⟩
  rw [(hn i hi hf).2.1]
  rfl

/-- the whole path: split at `/`, each part rewritten, joined again -/
theorem C02_path_rewrite (req : List Property) (resolved : Str) :
    (rewritePath req resolved).1 =
      joinWith b!"/" ((splitOnByte 47 resolved).map rewritePart) := rfl

/-- **Imports.** `j5Imports` succeeds exactly when no import has an empty path and none is a
bare single-segment package without alias; the map holds the entries of every import, in order:
a package import `a.b.v1` is reachable as `b` (last-but-one segment) and as `a.b.v1`; an aliased
import only under its alias; a file import `a/b/v1/x.proto` under the package of its directory. -/
theorem C02_imports (pkg : Str) (imports : List Import) (h : ∀ imp ∈ imports, imp.path ≠ [])
    (hb : ∀ imp ∈ imports, importBad imp = false) :
    j5Imports pkg imports = .ok ⟨imports.flatMap importEntries, pkg⟩ ∧
    (∀ path, containsByte 47 path = false → 2 ≤ (splitOnByte 46 path).length →
      importEntries ⟨path, []⟩ =
        [((splitOnByte 46 path).getD ((splitOnByte 46 path).length - 2) [], path), (path, path)]) ∧
    (∀ path alias, containsByte 47 path = false → alias ≠ [] →
      importEntries ⟨path, alias⟩ = [(alias, path)]) ∧
    (∀ path alias, containsByte 47 path = true →
      importEntries ⟨path, alias⟩ = [(packageFromFilename path, packageFromFilename path)]) :=
  ⟨j5Imports_ok pkg imports h hb, importEntries_package, importEntries_alias, importEntries_file⟩

/-- **References resolve to the declared type.** Local references (no package, or the file's own
package) are looked up in the package's export table; references through an import key are looked
up in the export table of the package the key maps to. -/
theorem C02_refs_resolve (im : ImportMap) (r : Resolver) (hp : im.thisPackage = r.pkgName) :
    (∀ pkg schema, pkg = [] ∨ pkg = im.thisPackage →
      resolveTypeNoImport im r pkg schema = mapGet r.exports schema) ∧
    (∀ spec full schema, spec ≠ [] ∧ spec ≠ im.thisPackage → mapGet im.vals spec = some full →
      implicitRef spec schema = none → implicitRef full schema = none → full ≠ r.pkgName →
      resolveTypeNoImport im r spec schema =
        match mapGet r.deps full with
        | none => none
        | some ex => mapGet ex schema) :=
  ⟨fun pkg schema h => resolve_local im r pkg schema h hp,
   fun spec full schema h1 h2 h3 h4 h5 => resolve_imported im r spec full schema h1 h2 h3 h4 h5⟩

/-- …and a resolved reference gives the field the absolute name `.package.Name` of the declared
type and adds the file that declares it to the imports of the current file. -/
theorem C02_ref_adds_import (c : Ctx) (np : List Str) (d pkg schema : Str) (fl : Bool)
    (rules : Rules) (t : TypeRef) (h : c.resolve pkg schema = some t)
    (hm : t.kind.isMessage = true) (hpk : t.pkg ≠ []) :
    (∃ r, (bField c np d (.objectRef pkg schema fl rules)).res = some r ∧
      r.typeName = b!"." ++ t.pkg ++ b!"." ++ t.name ∧ r.type = .message) ∧
    t.file ∈ (bField c np d (.objectRef pkg schema fl rules)).eff.imports := by
  have := bField_objectRef_resolved c np d pkg schema fl rules t h hm
  rw [protoTypeName_abs t hpk] at this
  exact this

/-- **Exactness, per declaration.** A declared object yields exactly one message at its level (its
map entries live inside it) and no enum; a declared oneof yields its message preceded only by map
entries; a declared enum yields exactly one enum and no message; the message has exactly one field
per property (`C02_field_numbering`) — nothing else is emitted. -/
theorem C02_exactness (c : Ctx) (np : List Str) (virt : List Property) (name : Str)
    (props : List Property) (nested : List Nested) (psm : Option Psm) (e : EnumDecl) :
    (convDecl c np false virt (.mk name props nested psm)).msgs =
      [declMsg c np false virt name props nested psm] ∧
    (convDecl c np false virt (.mk name props nested psm)).enums = [] ∧
    (∃ entries, (convDecl c np true virt (.mk name props nested psm)).msgs =
        entries ++ [declMsg c np true virt name props nested psm] ∧
      ∀ m ∈ entries, m.kind = .mapentry) ∧
    (convDecl c np true virt (.mk name props nested psm)).enums = [] ∧
    convItem c (.enum e) = [{ target := .main, eff := { enums := [convEnum e] } }] := by
  refine ⟨?_, ?_, ⟨_, convDecl_msgs c np true virt name props nested psm, ?_⟩, ?_, rfl⟩
  · rw [convDecl_msgs, bProps_entries_object]; rfl
  · rw [convDecl]
  · exact bProps_entries_kind c (np ++ [name]) true 1 (virt ++ props)
  · rw [convDecl]

/-- **Exactness, services and topics.** A service yields exactly one service with exactly one rpc
per method (`C02_service_shape`); a topic node yields exactly one service with one rpc per message
(`C02_topic_shape`), after one message object per message. -/
theorem C02_exactness_steps (c : Ctx) (t : TopicNode) (ss : List Service) :
    (acceptTopic c t).length = t.msgs.length + 1 ∧
    (convServiceFile c ss).length = ss.length + 1 := by
  simp [acceptTopic, convServiceFile]

/-- **Service shape.** A service `N` whose methods all have a request and a supported verb is
emitted into the `.service` sub-package as service `NService`; each method `M` becomes an rpc with
input `MRequest`, output `MResponse` (or `google.api.HttpBody` when no response is declared), the
declared HTTP verb (body `*` unless GET), and the path `base/path` with every `:name` rewritten to
`{snake_name}`; the request / response objects are messages of the same file. -/
theorem C02_service_shape (c : Ctx) (s : Service) (name : Str) (hn : s.name = some name)
    (hreq : ∀ m ∈ s.methods, m.request.isSome = true)
    (hv : ∀ m ∈ s.methods, m.verb ≠ .unspecified) :
    (convService c s).target = .service ∧ (convService c s).hard = false ∧
    (convService c s).svcs =
      [{ name := name ++ b!"Service", sopt := soptSkel s.sopt,
         methods := s.methods.map (methodSkelOf s.basePath) }] :=
  convService_shape c s name hn hreq hv

theorem C02_service_messages (c : Ctx) (bp : Option Str) (m : Method) (req : List Property)
    (hr : m.request = some req) :
    (declMsg c [] false [] (m.name ++ b!"Request") req [] none) ∈ (walkMethod c bp m).eff.msgs ∧
    ∀ res, m.response = some res →
      (declMsg c [] false [] (m.name ++ b!"Response") res [] none) ∈ (walkMethod c bp m).eff.msgs :=
  walkMethod_msgs c bp m req hr

/-- **Sub-package files.** Service and topic output of `dir/base.j5s` goes to
`dir/<sub>/base.p.j5s.proto` in package `<package>.<sub>`; the file is created on first use. -/
theorem C02_subpackage_file (r : Root) (s : Step) (sub : Str) (hs : s.target.sub = some sub)
    (hnew : r.subs.any (·.2.pkg = r.main.pkg ++ b!"." ++ sub) = false) :
    ∃ f, (sub, f) ∈ (r.apply s).subs ∧ f.pkg = r.main.pkg ++ b!"." ++ sub ∧
      f.name = subPackageFileName r.main.name sub ∧ f.svcs = s.svcs ∧ f.msgs = s.eff.msgs := by
  unfold Root.apply
  simp only [hs, hnew, Bool.false_eq_true, if_false]
  refine ⟨({ name := subPackageFileName r.main.name sub, pkg := r.main.pkg ++ b!"." ++ sub } : FileB).apply
      s.eff s.svcs, ?_, rfl, rfl, by simp [FileB.apply], by simp [FileB.apply]⟩
  simp only [List.map_append, List.mem_append, List.map_cons, List.map_nil, List.mem_singleton]
  right
  simp

/-- **Topic shape.** When every message has a name (or the topic has a single message), a topic
`T` yields, in the `.topic` sub-package, one message object `<Name>Message` per message and a
service `<CamelCase(T)>Topic` carrying the messaging role, with one rpc per message returning
`google.protobuf.Empty`. -/
theorem C02_topic_shape (c : Ctx) (t : TopicNode)
    (hnames : ∀ m ∈ t.msgs, (topicMethodName t m).isSome = true) :
    (∀ s ∈ acceptTopic c t, s.target = .topic ∧ s.hard = false) ∧
    ∃ last, (acceptTopic c t).getLast? = some last ∧
      last.svcs =
        [{ name := toCamel t.name ++ b!"Topic", sopt := .topic t.topicName t.role t.entityName,
           methods := t.msgs.filterMap fun m => (topicMethodName t m).map fun n =>
             { name := n, input := n ++ b!"Message", output := googleProtoEmptyType, http := none,
               mopt := .none } }] :=
  acceptTopic_shape c t hnames

/-- **Messaging roles and implicit leading fields.** publish → role `publish`; reqres → two
topics `<T>Request` / `<T>Reply` with roles `request` / `reply`, both with the implicit leading
field `request` (`j5.messaging.v1.RequestMetadata`, required); upsert → role `upsert` with the
implicit leading field `upsert` (`UpsertMetadata`, required); topic name `snake(T)` throughout. -/
theorem C02_topic_roles (name : Str) (msgs reqs reps : List TopicMsg) (en : Str) (msg : TopicMsg) :
    topicNodes { name := name, type := .publish msgs } =
      [{ name := name, msgs := msgs, topicName := toSnake name, role := .publish }] ∧
    topicNodes { name := name, type := .reqres reqs reps } =
      [ { name := name ++ b!"Request", msgs := reqs, topicName := toSnake name,
          role := .request, prepend := requestPrepend },
        { name := name ++ b!"Reply", msgs := reps, topicName := toSnake name,
          role := .reply, prepend := requestPrepend } ] ∧
    topicNodes { name := name, type := .upsert en msg } =
      [{ name := name, msgs := [{ msg with name := some (msg.name.getD name) }],
         topicName := toSnake name, role := .upsert, entityName := en,
         prepend := upsertPrepend }] ∧
    requestPrepend = [.mk b!"request" true false (.objectRef b!"j5.messaging.v1" b!"RequestMetadata" false [])] ∧
    upsertPrepend = [.mk b!"upsert" true false (.objectRef b!"j5.messaging.v1" b!"UpsertMetadata" false [])] ∧
    ∀ (c : Ctx) (t : Topic), convTopic c t = (topicNodes t).flatMap (acceptTopic c) :=
  ⟨rfl, rfl, rfl, rfl, rfl, fun _ _ => rfl⟩

/-! ## File and package level -/

/-- **Exactness of a converted file.** When `ConvertJ5File` succeeds, the output is the main file
`<path>.proto` (package from the path, no services) followed by at most one file per sub-package
(`.service`, `.topic`), present exactly when a service / topic (or an entity, which expands to
both) is declared. Every component is a list equation over the visited items in declaration
order: messages and enums of the main file come from the object / oneof / enum items, messages
and services of a sub-package file from the service / topic items. Nothing else is emitted.
(`items` = the declarations with entities expanded, `C17_components`.) -/
theorem C02_exactness_file (res : Resolver) (path : Str) (imports : List Import) (elems : List Elem)
    (fs : List FileSkel) (h : convertFile res path imports elems = .ok fs) :
    ∃ im, j5Imports (packageFromFilename (path ++ b!".proto")) imports = .ok im ∧
      let c : Ctx := { resolve := resolveTypeNoImport im res }
      let pkg := packageFromFilename (path ++ b!".proto")
      let name := path ++ b!".proto"
      let items := elems.flatMap (itemsOfElem pkg)
      ∃ (main : FileSkel) (subs : List FileSkel), fs = main :: subs ∧
        main.name = name ∧ main.pkg = pkg ∧ main.svcs = [] ∧
        main.msgs = (items.filter (·.target = .main)).flatMap (itemMsgs c) ∧
        main.enums = (items.filter (·.target = .main)).flatMap (itemEnums c) ∧
        (subs.map (·.pkg)).Nodup ∧
        (∀ f ∈ subs, ∃ (t : Target) (k : Str), t.sub = some k ∧ (∃ i ∈ items, i.target = t) ∧
          f.name = subPackageFileName name k ∧ f.pkg = pkg ++ b!"." ++ k ∧
          f.msgs = (items.filter (·.target = t)).flatMap (itemMsgs c) ∧ f.enums = [] ∧
          f.svcs = (items.filter (·.target = t)).flatMap (itemSvcs c)) ∧
        (∀ (t : Target) (k : Str), t.sub = some k → (∃ i ∈ items, i.target = t) →
          ∃ f ∈ subs, f.pkg = pkg ++ b!"." ++ k) :=
  convertFile_exact res path imports elems fs h

/-- **Exactness, item by item**: what each visited item adds to its file. An object: exactly its
message (inline types, nested types and map entries live inside it, `C02_field_numbering`). A
oneof: its message, preceded only by the map entries of its options. An enum: exactly one enum.
A service file: per service the `<Method>Request` / `<Method>Response` objects of its methods and
one proto service when it is named. A topic file: per topic node one `<Name>Message` object per
named message (implicit leading fields first) and one proto service. -/
theorem C02_exactness_items (c : Ctx) :
    (∀ o, itemMsgs c (.object o) = [declMsgOf c [] false [] o] ∧ itemEnums c (.object o) = []) ∧
    (∀ o, (∃ entries, itemMsgs c (.oneof o) = entries ++ [declMsgOf c [] true [] o] ∧
        ∀ m ∈ entries, m.kind = .mapentry) ∧ itemEnums c (.oneof o) = []) ∧
    (∀ e, itemMsgs c (.enum e) = [] ∧ itemEnums c (.enum e) = [convEnum e]) ∧
    (∀ ss, itemMsgs c (.serviceFile ss) = ss.flatMap (fun s => s.methods.flatMap (methodMsgs c)) ∧
      itemSvcs c (.serviceFile ss) = ss.flatMap (serviceSvcs c)) ∧
    (∀ ts, itemMsgs c (.topicFile ts) = ts.flatMap (fun t => (topicNodes t).flatMap (topicMsgs c)) ∧
      itemSvcs c (.topicFile ts) = ts.flatMap fun t => (topicNodes t).map topicSvc) :=
  ⟨fun o => ⟨itemMsgs_object c o, itemEnums_object c o⟩,
   fun o => ⟨itemMsgs_oneof c o, itemEnums_oneof c o⟩,
   fun e => ⟨itemMsgs_enum c e, itemEnums_enum c e⟩,
   fun ss => ⟨itemMsgs_serviceFile c ss, itemSvcs_serviceFile c ss⟩,
   fun ts => ⟨itemMsgs_topicFile c ts, itemSvcs_topicFile c ts⟩⟩

/-- **Exactness of a compiled package.** The files `CompilePackage` hands to the linker are a
permutation (sorted by name) of the concatenation, over the source files of the package in listing
order, of what each j5s file converts to against the package's resolver (hand-written `.proto`
files contribute nothing); each of these conversions succeeded, so `C02_exactness_file` describes
it. -/
theorem C02_exactness_pkg (b : Bundle) (name : Str) (p : Pkg) (fs : List FileSkel)
    (hf : b.find name = some p) (h : compilePkg b name = .ok fs) :
    ∃ l, loadPkg b (b.pkgs.length + 1) [] name = .ok l ∧
      fs.Perm (p.files.flatMap (convOf l.resolver)) ∧
      ∀ f ∈ p.files, match f with
        | .proto _ _ _ => convOf l.resolver f = []
        | .j5s path imports elems _ =>
          convertFile l.resolver path imports elems = .ok (convOf l.resolver f) := by
  unfold compilePkg at h
  cases hl : loadPkg b (b.pkgs.length + 1) [] name with
  | err t => simp [hl] at h
  | panic w => simp [hl] at h
  | ok l =>
    simp only [hl, Outcome.ok.injEq] at h
    obtain ⟨hfiles, hok⟩ := loadPkg_ok_inv b _ [] name p l hf hl
    refine ⟨l, rfl, ?_, ?_⟩
    · rw [← h, ← hfiles]; exact sortFiles_perm_self _
    · intro f hfm
      cases f with
      | proto path msgs enums => rfl
      | j5s path imports elems decl =>
        obtain ⟨fs', hfs'⟩ := hok _ hfm
        simp only [convOf, hfs']

/-- **References resolve to the declared type, and its file is imported** (package level). In a
package that loads, for every j5s file and every type reference in it — local, cross-file,
imported by package / alias / last-but-one segment, dotted nested names, in objects, oneofs,
service request / response objects, topic messages, everything an entity expands to, at any inline
depth — the reference resolves in the file's conversion context (import map + the package's
resolver, `C02_refs_resolve` says which table is consulted), and the file that declares the type
is the generated file holding the reference or one of its dependencies. -/
theorem C02_refs_resolve_pkg (b : Bundle) (name : Str) (p : Pkg) (l : Loaded) (fuel : Nat)
    (chain : List Str) (hf : b.find name = some p) (hl : loadPkg b (fuel + 1) chain name = .ok l)
    (path : Str) (imports : List Import) (elems : List Elem) (decl : Str)
    (hmem : SrcFile.j5s path imports elems decl ∈ p.files) :
    ∃ im fs, j5Imports (packageFromFilename (path ++ b!".proto")) imports = .ok im ∧
      convertFile l.resolver path imports elems = .ok fs ∧ (∀ f ∈ fs, f ∈ l.files) ∧
      let c : Ctx := { resolve := resolveTypeNoImport im l.resolver }
      let pkg := packageFromFilename (path ++ b!".proto")
      ∀ i ∈ elems.flatMap (itemsOfElem pkg), ∀ r ∈ itemRefs i,
        ∃ t, c.resolve r.1 r.2 = some t ∧
          ∃ f ∈ fs, f.pkg = targetPkg pkg i.target ∧ (t.file = f.name ∨ t.file ∈ f.deps) := by
  obtain ⟨hfiles, hok⟩ := loadPkg_ok_inv b fuel chain name p l hf hl
  obtain ⟨fs, hfs⟩ := hok _ hmem
  obtain ⟨im, hj, hrefs⟩ := convertFile_refs l.resolver path imports elems fs hfs
  refine ⟨im, fs, hj, hfs, ?_, hrefs⟩
  intro f hf'
  rw [hfiles]
  exact List.mem_flatMap.mpr ⟨_, hmem, by simp only [convOf, hfs]; exact hf'⟩

/-- **Declared types are where the references point** (the link side of "references resolve to
the declared type"). In a package that loads, every object / oneof / enum a j5s file declares —
top level, nested, or inline at any depth, with the documented default or overridden nesting name
— is (a) an entry of the package's export table under its package-relative dotted name, whose
`TypeRef` names the generated main file `<path>.proto` (the table `C02_refs_resolve` says local
and imported references are looked up in), and (b) a message / enum symbol
`<package>.<dotted name>` of exactly that generated file in the link model. With
`C02_refs_resolve_pkg` (the declaring file is the holding file or one of its imports): the
absolute name `.pkg.Name` written on a referring field names a symbol of a visible file. -/
theorem C02_declared_types_link (b : Bundle) (name : Str) (p : Pkg) (l : Loaded) (fuel : Nat)
    (chain : List Str) (hf : b.find name = some p) (hl : loadPkg b (fuel + 1) chain name = .ok l)
    (path : Str) (imports : List Import) (elems : List Elem) (decl : Str)
    (hmem : SrcFile.j5s path imports elems decl ∈ p.files)
    (hpkg : packageFromFilename (path ++ b!".proto") ≠ []) :
    ∃ g ∈ l.files, g.name = path ++ b!".proto" ∧
      ∀ i ∈ elems.flatMap (itemsOfElem (packageFromFilename (path ++ b!".proto"))), i.target = .main →
        ∀ x ∈ itemExports i,
          (x.1, (⟨packageFromFilename (path ++ b!".proto"), x.1, path ++ b!".proto", x.2⟩ : TypeRef)) ∈ l.exports ∧
          (qual (packageFromFilename (path ++ b!".proto")) x.1, kindSym x.2) ∈ g.lfile.syms :=
  declared_types_link b name p l fuel chain hf hl path imports elems decl hmem hpkg

/-! ## cardinality, optionality, oneof wrapper, proto type -/

/-- **Cardinality, optionality, oneof wrapper.** In the message emitted for a declared (or virtual)
object / oneof whose conversion recorded no error, field `i` (virtual prepends first) is
`repeated` exactly when the property is an array or a map; carries `proto3_optional` exactly when
the property is marked explicitly optional (`?` / `optional = true`) — and then it is not
required; is marked required (`(buf.validate.field).required`) whenever the property is `!`
required; and is a member of the message's single protobuf `oneof` (index 0) exactly when the
declaration is a j5s oneof — whose message has kind `oneof` (the wrapper: a message that holds one
real `oneof type { … }` with ALL fields inside), an object's fields are in no oneof. -/
theorem C02_field_shape (c : Ctx) (np : List Str) (isOneof : Bool) (virt : List Property)
    (name : Str) (props : List Property) (nested : List Nested) (psm : Option Psm)
    (h : (convDecl c np isOneof virt (.mk name props nested psm)).errs = 0) :
    let m := declMsg c np isOneof virt name props nested psm
    m.kind = (if isOneof then .oneof else .object) ∧
    ∀ i (hi : i < (virt ++ props).length) (hf : i < m.fields.length),
      m.fields[i].repeated = (virt ++ props)[i].schema.isRepeated ∧
      m.fields[i].p3opt = (virt ++ props)[i].explicitlyOptional ∧
      m.fields[i].oneof = (if isOneof then some 0 else none) ∧
      ((virt ++ props)[i].required = true → m.fields[i].req = true) ∧
      (m.fields[i].p3opt = true → m.fields[i].req = false) := by
  intro m
  have herr : (bProps c (np ++ [name]) isOneof 1 (virt ++ props)).eff.errs = 0 := by
    rw [convDecl_errs] at h; omega
  refine ⟨by simp [m, declMsg, mkMsg, MsgSkel.kind], ?_⟩
  intro i hi hf
  have hf' : i < (bProps c (np ++ [name]) isOneof 1 (virt ++ props)).flds.length := by
    simpa [m, declMsg, mkMsg, MsgSkel.fields] using hf
  have hget := bProps_get c (np ++ [name]) isOneof 1 (virt ++ props) herr i hi hf'
  have := bProperty_shape c (np ++ [name]) isOneof (1 + i) _ _ hget
  simpa [m, declMsg, mkMsg, MsgSkel.fields] using this

/-- **Proto type of scalar fields.** A property of a scalar kind — string, bool, bytes, key, date,
decimal, timestamp, any, integer, float (not an array, map, reference or inline type) — that is
emitted at all is emitted non-repeated with exactly the type, type name and `(j5.ext.v1.field)`
member `scalarField` lists for its kind; the table: string / key → `string`, bool → `bool`, bytes →
`bytes`, integer:F → `int32 / int64 / uint32 / uint64` by format, date → message
`.j5.types.date.v1.Date`, decimal → `.j5.types.decimal.v1.Decimal`, timestamp →
`.google.protobuf.Timestamp`, any → `.j5.types.any.v1.Any`. -/
theorem C02_field_scalar_type (c : Ctx) (np : List Str) (io : Bool) (number : Nat) (name : Str)
    (req opt : Bool) (schema : Field) (b : BF) (r : FieldRes) (hs : scalarField schema = some b)
    (hr : b.res = some r) (f : FieldSkel)
    (h : (bProperty c np io number (.mk name req opt schema)).fld = some f) :
    f.type = r.type ∧ f.typeName = r.typeName ∧ f.ext = r.ext ∧ f.repeated = false :=
  bProperty_scalar_type c np io number name req opt schema b r hs hr f h

theorem C02_scalar_type_table (rules : Rules) (lr : Bool) (ifmt : IntFmt) (kf : KeyFmt) (ek : EntKey) :
    ((scalarField (.string rules lr)).bind (·.res)).map (fun r => (r.type, r.typeName)) = some (.string, []) ∧
    ((scalarField (.bool rules lr)).bind (·.res)).map (fun r => (r.type, r.typeName)) = some (.bool, []) ∧
    ((scalarField (.bytes rules)).bind (·.res)).map (fun r => (r.type, r.typeName)) = some (.bytes, []) ∧
    ((scalarField (.key kf ek rules lr)).bind (·.res)).map (fun r => (r.type, r.typeName)) = some (.string, []) ∧
    ((scalarField (.date rules lr)).bind (·.res)).map (fun r => (r.type, r.typeName)) =
      some (.message, b!".j5.types.date.v1.Date") ∧
    ((scalarField (.decimal rules lr)).bind (·.res)).map (fun r => (r.type, r.typeName)) =
      some (.message, b!".j5.types.decimal.v1.Decimal") ∧
    ((scalarField (.timestamp rules)).bind (·.res)).map (fun r => (r.type, r.typeName)) =
      some (.message, b!".google.protobuf.Timestamp") ∧
    ((scalarField .any).bind (·.res)).map (fun r => (r.type, r.typeName)) =
      some (.message, b!".j5.types.any.v1.Any") ∧
    (intRulesErr rules = false →
      ((scalarField (.integer ifmt rules lr)).bind (·.res)).map (fun r => (r.type, r.typeName)) =
        some (intType ifmt, [])) :=
  scalar_type_table rules lr ifmt kf ek

/-- float fields: `float` / `double` by format (rule-free form: every float rule is rejected —
recorded finding `c07-rejected:isolated:float`) -/
theorem C02_scalar_type_float (ffmt : FloatFmt) (lr : Bool) :
    ((scalarField (.float ffmt [] lr)).bind (·.res)).map (fun r => (r.type, r.typeName)) =
      some (floatType ffmt, []) :=
  scalar_type_float ffmt lr

/-- **Arrays.** An array property whose item type converts is a `repeated` field carrying the ITEM's
proto type and type name (scalar, well-known message, reference, inline type) and
`(j5.ext.v1.field).array`. -/
theorem C02_array_item_type (c : Ctx) (np : List Str) (io : Bool) (number : Nat) (name : Str)
    (req opt : Bool) (items : Field) (arules : Rules) (r : FieldRes)
    (hr : (bField c np (toCamel name) items).res = some r) (f : FieldSkel)
    (h : (bProperty c np io number (.mk name req opt (.array items arules))).fld = some f) :
    f.type = r.type ∧ f.typeName = r.typeName ∧ f.repeated = true ∧ f.ext = b!"array" :=
  bProperty_array c np io number name req opt items arules r hr f h

/-- **Type names of reference and inline fields** (next to `C02_ref_adds_import` for object
references): a oneof reference that resolves to a message and an enum reference that resolves to
an enum (rule values and default filters naming options) carry the absolute name
`TypeRef.protoTypeName` of the declared type, with proto type message / enum; an inline object or
oneof field refers to its nested message by the RELATIVE dotted name parent-path + (given name or
default nesting name). (Inline enums: `C02_nested_naming`'s enum twin is the `.enumInl` arm of
`bField`, typeName `relName np name` — covered by the list equations of `C02_exactness` only.) -/
theorem C02_ref_type_names (c : Ctx) (np : List Str) (d pkg schema : Str) (rules : Rules) (t : TypeRef)
    (h : c.resolve pkg schema = some t) :
    (∀ lr, t.kind.isMessage = true →
      ∃ r, (bField c np d (.oneofRef pkg schema rules lr)).res = some r ∧
        r.type = .message ∧ r.typeName = t.protoTypeName ∧ r.ext = b!"oneof") ∧
    (∀ (lr : Option (List Str)) pfx names, t.kind = .enum pfx names →
      mapValuesOk pfx names (enumRuleVals rules) = true → mapValuesOk pfx names (lr.getD []) = true →
      ∃ r, (bField c np d (.enumRef pkg schema rules lr)).res = some r ∧
        r.type = .enum ∧ r.typeName = t.protoTypeName ∧ r.ext = b!"enum") :=
  ⟨fun lr hm => bField_oneofRef_res c np d pkg schema rules lr t h hm,
   fun lr pfx names hk h1 h2 => bField_enumRef_res c np d pkg schema rules lr t pfx names h hk h1 h2⟩

theorem C02_inline_type_names (c : Ctx) (np : List Str) (d : Str) :
    (∀ name props fl rules, ((bField c np d (.objectInl name props fl rules)).res.map (fun r => (r.type, r.typeName))) =
      some (.message, relName np (if name = [] then d else name))) ∧
    (∀ name props rules lr, ((bField c np d (.oneofInl name props rules lr)).res.map (fun r => (r.type, r.typeName))) =
      some (.message, relName np (if name = [] then d else name))) :=
  bField_inline_typeName c np d

/-- non-vacuity: an array of int64; an enum reference with a prefixed and a bare rule value -/
example :
    ((bProperty { resolve := fun _ _ => none } [b!"Foo"] false 1
      (.mk b!"nums" false false (.array (.integer .int64 [] false) []))).fld.map
        (fun f => (f.type, f.repeated))) = some (.int64, true) ∧
    ((bField { resolve := fun _ _ => some ⟨b!"bar.v1", b!"E", b!"bar/v1/b.j5s.proto", .enum b!"E_" [b!"E_UNSPECIFIED", b!"E_ONE"]⟩ }
        [b!"Foo"] b!"X" (.enumRef [] b!"E" [⟨b!"in", .strs [b!"ONE", b!"E_ONE"]⟩] none)).res.map (·.typeName)) =
      some b!".bar.v1.E" := by decide

/-- **Maps.** A map property whose item type converts is emitted as a `repeated` message field of type
`<CamelCase(snake(name))>Entry` with `(j5.ext.v1.field).map`, together with exactly one map-entry
message of that name for the enclosing context: `key` = string, number 1; `value` = number 2 with
the item's proto type, type name and extension member. -/
theorem C02_map_entry (c : Ctx) (np : List Str) (io : Bool) (number : Nat) (name : Str) (req opt : Bool)
    (items : Field) (mrules : Rules) (r : FieldRes)
    (hr : (bField c np (toCamel name) items).res = some r) (f : FieldSkel)
    (h : (bProperty c np io number (.mk name req opt (.map items mrules))).fld = some f) :
    (bProperty c np io number (.mk name req opt (.map items mrules))).entries =
        [mkEntry (mapName (toSnake name)) r] ∧
      f.type = .message ∧ f.typeName = mapName (toSnake name) ∧ f.repeated = true ∧ f.ext = b!"map" ∧
      (mkEntry (mapName (toSnake name)) r).kind = .mapentry ∧
      (mkEntry (mapName (toSnake name)) r).fields.map (fun g => (g.name, g.number, g.type, g.typeName)) =
        [(b!"key", 1, .string, []), (b!"value", 2, r.type, r.typeName)] := by
  obtain ⟨h1, h2, h3, h4, h5⟩ := bProperty_map c np io number name req opt items mrules r hr f h
  exact ⟨h1, h2, h3, h4, h5, rfl, rfl⟩

/-- non-vacuity: a map of int64 values -/
example : (bField { resolve := fun _ _ => none } [b!"Foo"] b!"Counts" (.integer .int64 [] false)).res =
      some { type := .int64, ext := b!"integer" } ∧
    ((bProperty { resolve := fun _ _ => none } [b!"Foo"] false 1
      (.mk b!"counts" false false (.map (.integer .int64 [] false) []))).fld.map (·.typeName)) =
      some b!"CountsEntry" := by decide

/-! ## Non-vacuity -/

/-- a two-package bundle: `bar.v1` refers to a type of `foo.v1` through the last-but-one segment
of an import, to a type of another file of its own package, and declares a service and a topic -/
def exBundle : Bundle :=
  { pkgs :=
    [ { name := b!"foo.v1", files :=
        [ .j5s b!"foo/v1/a.j5s" [] [.object (.mk b!"A" [.mk b!"x" false false (.string [] false)] [] none)]
            b!"foo.v1" ] },
      { name := b!"bar.v1", files :=
        [ .j5s b!"bar/v1/b.j5s" [] [.enum { name := b!"E", pfx := [], opts := [b!"ONE"] }] b!"bar.v1",
          .j5s b!"bar/v1/c.j5s" [⟨b!"foo.v1", []⟩]
            [ .object (.mk b!"C" [ .mk b!"a" false false (.objectRef b!"foo" b!"A" false []),
                                   .mk b!"e" false false (.enumRef [] b!"E" [] none) ] [] none),
              .service { name := some b!"Svc", basePath := none, methods :=
                [ { name := b!"Get", verb := .get, path := b!"/c", request := some [],
                    response := some [.mk b!"c" false false (.objectRef [] b!"C" false [])] } ] },
              .topic { name := b!"Pub", type := .publish [{ name := some b!"Ping", props := [] }] } ]
            b!"bar.v1" ] } ] }

/-- the hypotheses of `C02_exactness_pkg` / `C02_refs_resolve_pkg` hold for it: the package
compiles (three generated files for `c.j5s`, one for `b.j5s`) and links -/
example : (match compilePkg exBundle b!"bar.v1" with
    | .ok fs => decide (fs.map (·.name) = [b!"bar/v1/b.j5s.proto", b!"bar/v1/c.j5s.proto",
        b!"bar/v1/service/c.p.j5s.proto", b!"bar/v1/topic/c.p.j5s.proto"])
    | _ => false) = true := by decide

example : packageFromFilename (b!"bar/v1/c.j5s" ++ b!".proto") ≠ [] := by decide

/-- a concrete object: two scalar fields and an inline object, converted without error -/
def exObj : ObjDecl :=
  .mk b!"Foo"
    [ .mk b!"fooId" true false (.string [] false),
      .mk b!"count" false true (.integer .int64 [] false),
      .mk b!"child" false false (.objectInl [] [.mk b!"x" false false (.bool [] false)] false []) ]
    [] none

def exCtx : Ctx := { resolve := resolveTypeNoImport ⟨[], b!"foo.v1"⟩ ⟨b!"foo.v1", [], []⟩ }

example : (convDecl exCtx [] false [] exObj).errs = 0 := by decide

/-- `C02_field_shape` on the example: required, explicitly optional, plain; none repeated, none in
a oneof; and a oneof with an array member -/
example :
    ((declMsg exCtx [] false [] b!"Foo" exObj.props [] none).fields.map
      fun f => (f.repeated, f.p3opt, f.req, f.oneof)) =
      [(false, false, true, none), (false, true, false, none), (false, false, false, none)] ∧
    (convDecl exCtx [] true [] (.mk b!"Pick" [.mk b!"tags" false false (.array (.string [] false) [])] [] none)).errs = 0 ∧
    (declMsg exCtx [] true [] b!"Pick" [.mk b!"tags" false false (.array (.string [] false) [])] [] none).kind = .oneof ∧
    ((declMsg exCtx [] true [] b!"Pick" [.mk b!"tags" false false (.array (.string [] false) [])] [] none).fields.map
      fun f => (f.repeated, f.type, f.oneof)) = [(true, .string, some 0)] := by
  decide

example :
    ((declMsg exCtx [] false [] b!"Foo" exObj.props [] none).fields.map
      fun f => (f.name, f.jsonName, f.number)) =
      [(b!"foo_id", b!"fooId", 1), (b!"count", b!"count", 2), (b!"child", b!"child", 3)] := by
  decide

example : (rewritePath [.mk b!"fooId" true false (.string [] false)] b!"/foo/v1/:fooId/x").1 =
    b!"/foo/v1/{foo_id}/x" := by decide

/-- `import bar.baz.v1` makes `baz.Thing` and `bar.baz.v1.Thing` resolvable -/
example : importEntries ⟨b!"bar.baz.v1", []⟩ = [(b!"baz", b!"bar.baz.v1"), (b!"bar.baz.v1", b!"bar.baz.v1")] := by
  decide

example : subPackageFileName b!"foo/v1/a.j5s.proto" b!"service" = b!"foo/v1/service/a.p.j5s.proto" := by
  decide

def exMethod : Method :=
  { name := b!"GetFoo", verb := .get, path := b!":fooId/x",
    request := some [.mk b!"fooId" true false (.string [] false)], response := none }

/-- hypotheses of `C02_service_shape` / `C02_topic_shape` / `C02_ref_adds_import` are met by
ordinary declarations -/
def exService : Service := { name := some b!"Foo", basePath := some b!"/foo/v1", methods := [exMethod] }

example : exService.name = some b!"Foo" ∧ (∀ m ∈ exService.methods, m.request.isSome = true) ∧
    (∀ m ∈ exService.methods, m.verb ≠ .unspecified) := by decide

def exTopicNode : TopicNode :=
  { name := b!"Blob", msgs := [{ name := some b!"Ping", props := [] }, { name := some b!"Pong", props := [] }],
    topicName := b!"blob", role := .publish }

example : ∀ m ∈ exTopicNode.msgs, (topicMethodName exTopicNode m).isSome = true := by decide

def exResolver : Resolver :=
  { pkgName := b!"foo.v1", exports := [(b!"A", ⟨b!"foo.v1", b!"A", b!"foo/v1/a.j5s.proto", .message false⟩)],
    deps := [(b!"bar.v1", [(b!"B", ⟨b!"bar.v1", b!"B", b!"bar/v1/b.j5s.proto", .message false⟩)])] }

example : resolveTypeNoImport ⟨importEntries ⟨b!"bar.v1", []⟩, b!"foo.v1"⟩ exResolver b!"bar" b!"B" =
    some ⟨b!"bar.v1", b!"B", b!"bar/v1/b.j5s.proto", .message false⟩ := by decide

example : (methodSkelOf (some b!"/foo/v1") exMethod).http =
    some { verb := .get, path := b!"/foo/v1/{foo_id}/x", body := [] } := by decide

example : (convEnum { name := b!"Status", pfx := [], opts := [b!"ACTIVE", b!"STATUS_DONE"] }).values =
    [(b!"STATUS_UNSPECIFIED", 0), (b!"STATUS_ACTIVE", 1), (b!"STATUS_DONE", 2)] := by decide

end J5V.Props.C02

/-! ## Obligations over facts regenerated from the current source (`extract compileconsts`)

The model hard-codes the import paths of `j5convert/imports.go` and the `implicitImports` table;
these obligations re-check on every run that the source still says the same. -/
namespace J5V.Props.C02
open J5V.Compile J5V.Generated.Compileconsts

/-- the import constants the model uses are those of `imports.go` -/
theorem C02_src_import_consts :
    importConsts.lookup "bufValidateImport" = some bufValidateImport.toString ∧
    importConsts.lookup "j5ExtImport" = some j5ExtImport.toString ∧
    importConsts.lookup "j5DateImport" = some j5DateImport.toString ∧
    importConsts.lookup "j5DecimalImport" = some j5DecimalImport.toString ∧
    importConsts.lookup "j5ListAnnotationsImport" = some j5ListAnnotationsImport.toString ∧
    importConsts.lookup "pbTimestamp" = some pbTimestampImport.toString ∧
    importConsts.lookup "j5AnyImport" = some j5AnyImport.toString ∧
    importConsts.lookup "googleApiHttpBodyImport" = some googleApiHttpBodyImport.toString ∧
    importConsts.lookup "googleApiAnnotationsImport" = some googleApiAnnotationsImport.toString ∧
    importConsts.lookup "googleProtoEmptyImport" = some googleProtoEmptyImport.toString ∧
    importConsts.lookup "messagingAnnotationsImport" = some messagingAnnotationsImport.toString ∧
    importConsts.lookup "googleProtoEmptyType" = some googleProtoEmptyType.toString := by
  decide

/-- the `implicitImports` table of the model is the one in the source -/
theorem C02_src_implicit_imports :
    J5V.Generated.Compileconsts.implicitImports =
      J5V.Compile.implicitImports.flatMap fun (pkg, ts) =>
        ts.map fun t => (pkg.toString, t.name.toString, t.file.toString) := by
  decide

/-- the name suffixes and formats of services and topics -/
theorem C02_src_suffixes :
    ("sourcewalk/service.go", "serviceBuilder.accept", "%sRequest") ∈ stringLiterals ∧
    ("sourcewalk/service.go", "serviceBuilder.accept", "%sResponse") ∈ stringLiterals ∧
    ("sourcewalk/service.go", "serviceBuilder.accept", "Service") ∈ stringLiterals ∧
    ("sourcewalk/service.go", "serviceBuilder.accept", "google.api.HttpBody") ∈ stringLiterals := by
  decide

end J5V.Props.C02

/-! ## Obligation over facts regenerated from the current source (`extract builders`)

Every write to a descriptor list (`Dependency`, `MessageType`, `EnumType`, `Service`, `NestedType`,
`Field`, `OneofDecl`, `Value`, `Method`) in the non-test files of internal/j5s/j5convert. The model
appends in visit order everywhere (`FileB.apply`: `msgs := f.msgs ++ e.msgs` …; `bProps`: fields in
declaration order; `enumValues`; `convService` / `acceptTopic`: methods in order): that is faithful
only if every site has the form `X = append(X, one element)`. The exceptions are listed: the two
fresh literals (the single `oneof` declaration of a oneof wrapper; key / value of a map entry) and
the explicit zero enum value replacing the implicit one in place (`enumValues`' first branch). A
prepend / insert / new site / re-sorted list changes the table and fails the obligation. -/
namespace J5V.Props.C02
open J5V.Generated.Builders

theorem C02_src_append_order :
    descriptorWrites =
      [ ("builders.go", "fileContext.ensureImport", "fb.fdp.Dependency", "append-end"),
        ("builders.go", "fileContext.ensureImport", "fb.fdp.Dependency", "call:sort.Strings"),
        ("builders.go", "fileContext.addMessage", "fb.fdp.MessageType", "append-end"),
        ("builders.go", "fileContext.addEnum", "fb.fdp.EnumType", "append-end"),
        ("builders.go", "fileContext.addService", "fb.fdp.Service", "append-end"),
        ("builders.go", "MessageBuilder.addMessage", "msg.descriptor.NestedType", "append-end"),
        ("builders.go", "MessageBuilder.addEnum", "msg.descriptor.EnumType", "append-end"),
        ("conversion.go", "conversionVisitor.visitTopicNode", "desc.Method", "append-end"),
        ("conversion.go", "conversionVisitor.visitObjectNode", "message.descriptor.OneofDecl", "append-end"),
        ("conversion.go", "conversionVisitor.visitObjectNode", "message.descriptor.Field", "append-end"),
        ("conversion.go", "conversionVisitor.visitOneofNode", "message.descriptor.OneofDecl", "literal"),
        ("conversion.go", "conversionVisitor.visitOneofNode", "message.descriptor.Field", "append-end"),
        ("enum.go", "enumBuilder.addValue", "e.desc.Value", "other:e.desc.Value[0] = value"),
        ("enum.go", "enumBuilder.addValue", "e.desc.Value", "append-end"),
        ("fields.go", "buildProperty", "mb.descriptor.Field", "literal"),
        ("service.go", "conversionVisitor.visitServiceMethodNode", "service.desc.Method", "append-end") ] := by
  decide

end J5V.Props.C02

/-! ## Obligation over facts regenerated from the current source (`extract importmap`)

The import loop of `j5Imports` (j5convert/imports.go), statement by statement — the shape
`Imports.j5ImportsGo` mirrors and `C02_imports` is about: an empty path returns at once; a FILE path
(contains `/`) writes ONE entry, under the package of its directory, and continues (no short name);
an alias writes one entry, under the alias, and continues; a package name with fewer than two
segments is an error; otherwise TWO entries, the last-but-one segment and the full name, both the
same definition. Go map writes in program order = `mapGet` (last write wins). A file import that
falls through to the short-name registration (seeded change C02-m9), a new arm or a reordered write
changes the list and fails the obligation. -/
namespace J5V.Props.C02
open J5V.Generated.Importmap

theorem C02_src_import_loop :
    importLoop =
      [ "if imp.Path == \"\" { lets  ; writes  ; return }",
        "let var src *bcl_j5pb.SourceLocation",
        "if importSources != nil { lets  ; writes  ; - }",
        "if strings.Contains(imp.Path, \"/\") { lets pkg := PackageFromFilename(imp.Path) ; writes out[pkg] ; continue }",
        "let pkg := imp.Path",
        "if imp.Alias != \"\" { lets  ; writes out[imp.Alias] ; continue }",
        "let parts := strings.Split(pkg, \".\")",
        "if len(parts) < 2 { lets  ; writes  ; continue }",
        "let withoutVersion := parts[len(parts)-2]",
        "let def := &importDef{ fullPath: pkg, source: src, }",
        "write out[withoutVersion]",
        "write out[pkg]" ] := by decide

end J5V.Props.C02
