import J5V.Compile.ConvertProofs
/-!
# C02 — j5s compiles to exactly the protobuf contract the source declares

Statements are about `J5V.Compile` (the model of `sourcewalk` + `j5convert`), for **every**
conversion context, parent path, property list, nesting depth; no bound.
Only property theorems and their non-vacuity examples live here.
-/
namespace J5V.Props.C02
open J5V.Go J5V.Compile

/-- **Field numbering.** In the message emitted for a declared (or virtual) object / oneof whose
conversion recorded no error, there is exactly one field per property — the virtual prepends
(request / upsert metadata) first, then the declared ones — and field `i` has number `i + 1`,
proto name `snake(name)` and JSON name `name`. -/
theorem C02_field_numbering (c : Ctx) (np : List Str) (isOneof : Bool) (virt : List Property)
    (name : Str) (props : List Property) (nested : List Nested) (psm : Option Psm)
    (h : (convDecl c np isOneof virt (.mk name props nested psm)).errs = 0) :
    let m := declMsg c np isOneof virt name props nested psm
    m ∈ (convDecl c np isOneof virt (.mk name props nested psm)).msgs ∧
    m.fields.length = virt.length + props.length ∧
    ∀ i (hi : i < (virt ++ props).length) (hf : i < m.fields.length),
      m.fields[i].number = i + 1 ∧
      m.fields[i].name = toSnake (virt ++ props)[i].name ∧
      m.fields[i].jsonName = (virt ++ props)[i].name := by
  intro m
  have herr : (bProps c (np ++ [name]) isOneof 1 (virt ++ props)).eff.errs = 0 := by
    rw [convDecl_errs] at h; omega
  obtain ⟨hl, hn⟩ := bProps_numbering c (np ++ [name]) isOneof 1 (virt ++ props) herr
  refine ⟨by rw [convDecl_msgs]; simp [m], by simpa [m, declMsg, mkMsg, MsgSkel.fields] using hl, ?_⟩
  intro i hi hf
  have := hn i hi (by simpa [m, declMsg, mkMsg, MsgSkel.fields] using hf)
  simp only [m, declMsg, mkMsg, MsgSkel.fields]
  refine ⟨by rw [this.1]; omega, this.2.1, this.2.2⟩

/-- **Position numbering at the source** (`mapProperties`): numbers are 1 … n over the virtual
prepends followed by the declared properties, in order. -/
theorem C02_mapProperties (virt props : List Property) :
    (mapProperties virt props).map (·.1) = List.range' 1 (virt.length + props.length) ∧
    (mapProperties virt props).map (·.2) = virt ++ props :=
  ⟨mapProperties_fst virt props, mapProperties_snd virt props⟩

/-- **Enum numbering.** Without a leading explicit zero (`UNSPECIFIED` / `<PREFIX>UNSPECIFIED`),
the values are the implicit `<PREFIX>UNSPECIFIED = 0` followed by option `k` with number `k + 1`;
the prefix is the declared one or `SCREAMING_SNAKE(name)_`; option names get the prefix unless
they carry it. -/
theorem C02_enum_numbering (e : EnumDecl)
    (h : ∀ first rest, e.opts = first :: rest → isExplicitUnspecified (enumPrefix e) first = false) :
    (convEnum e).name = e.name ∧
    (convEnum e).values =
      (enumPrefix e ++ b!"UNSPECIFIED", 0) ::
        e.opts.zipIdx.map fun (n, i) => (enumFull (enumPrefix e) n, i + 1) :=
  ⟨rfl, enumValues_implicit _ _ h⟩

/-- …with one, that option *is* value 0 (still called `<PREFIX>UNSPECIFIED`) and the rest are
numbered from 1. -/
theorem C02_enum_numbering_explicit_zero (e : EnumDecl) (first : Str) (rest : List Str)
    (ho : e.opts = first :: rest) (h : isExplicitUnspecified (enumPrefix e) first = true) :
    (convEnum e).values =
      (enumPrefix e ++ b!"UNSPECIFIED", 0) ::
        rest.zipIdx.map fun (n, i) => (enumFull (enumPrefix e) n, i + 1) := by
  simp only [convEnum, ho]
  rw [enumValues_explicit _ _ _ h, enumFull_explicit _ _ h]

theorem C02_enum_prefix_default (e : EnumDecl) (h : e.pfx = []) :
    enumPrefix e = toScreamingSnake e.name ++ b!"_" := by
  simp [enumPrefix, h]

/-- **Nested naming.** An inline object in field `f` of a message with path `np` is emitted as a
message named `CamelCase(f)` — or the override — added to the owner's nested types, and the field
refers to it by the path-qualified name. -/
theorem C02_nested_naming (c : Ctx) (np : List Str) (isOneof : Bool) (number : Nat)
    (fname : Str) (req opt : Bool) (name : Str) (props : List Property) (flatten : Bool)
    (rules : Rules) (f : FieldSkel)
    (h : (bProperty c np isOneof number
            (.mk fname req opt (.objectInl name props flatten rules))).fld = some f) :
    let nm := if name = [] then toCamel fname else name
    f.typeName = relName np nm ∧ f.type = .message ∧
    ∃ m ∈ (bProperty c np isOneof number
            (.mk fname req opt (.objectInl name props flatten rules))).eff.msgs, m.name = nm := by
  intro nm
  obtain ⟨r, hty, htn, heq⟩ := bProperty_objectInl c np isOneof number fname req opt name props flatten rules
  obtain ⟨⟨msg, hname, hmsgs⟩, _⟩ := bField_objectInl c np (toCamel fname) name props flatten rules
  rw [heq] at h ⊢
  have hf := finishProperty_fld _ _ _ _ _ _ _ _ _ _ h
  refine ⟨by rw [hf.2.2.2.2.2.2.2.2.1, htn], by rw [hf.2.2.2.2.2.2.2.1, hty], msg, ?_, hname⟩
  rw [finishProperty_msgs, hmsgs]
  simp

/-- **Path parameters.** A path part `:name` is rewritten to `{snake(name)}`, and that is exactly
the proto name of the request field declared as `name`: for every request property there is an
emitted field with that JSON name whose proto name is what the rewritten path part contains. -/
theorem C02_path_param (c : Ctx) (np : List Str) (n : Nat) (req : List Property)
    (h : (bProps c np false n req).eff.errs = 0) (i : Nat) (hi : i < req.length) :
    ∃ f ∈ (bProps c np false n req).flds,
      f.jsonName = req[i].name ∧
      rewritePart (b!":" ++ req[i].name) = b!"{" ++ f.name ++ b!"}" := by
  obtain ⟨hl, hn⟩ := bProps_numbering c np false n req h
  have hf : i < (bProps c np false n req).flds.length := by rw [hl]; exact hi
  refine ⟨(bProps c np false n req).flds[i], List.getElem_mem hf, (hn i hi hf).2.2, ?_⟩
  rw [(hn i hi hf).2.1]
  rfl

/-- the whole path: split at `/`, each part rewritten, joined again -/
theorem C02_path_rewrite (req : List Property) (resolved : Str) :
    (rewritePath req resolved).1 =
      joinWith b!"/" ((splitOnByte 47 resolved).map rewritePart) := rfl

/-! ## Non-vacuity -/

/-- a concrete object: two scalar fields and an inline object, converted without error -/
def exObj : ObjDecl :=
  .mk b!"Foo"
    [ .mk b!"fooId" true false (.string [] false),
      .mk b!"count" false true (.integer .int64 [] false),
      .mk b!"child" false false (.objectInl [] [.mk b!"x" false false (.bool [] false)] false []) ]
    [] none

def exCtx : Ctx := { resolve := resolveTypeNoImport ⟨[], b!"foo.v1"⟩ ⟨b!"foo.v1", [], []⟩ }

example : (convDecl exCtx [] false [] exObj).errs = 0 := by decide

example :
    ((declMsg exCtx [] false [] b!"Foo" exObj.props [] none).fields.map
      fun f => (f.name, f.jsonName, f.number)) =
      [(b!"foo_id", b!"fooId", 1), (b!"count", b!"count", 2), (b!"child", b!"child", 3)] := by
  decide

example : (rewritePath [.mk b!"fooId" true false (.string [] false)] b!"/foo/v1/:fooId/x").1 =
    b!"/foo/v1/{foo_id}/x" := by decide

example : (convEnum { name := b!"Status", pfx := [], opts := [b!"ACTIVE", b!"STATUS_DONE"] }).values =
    [(b!"STATUS_UNSPECIFIED", 0), (b!"STATUS_ACTIVE", 1), (b!"STATUS_DONE", 2)] := by decide

end J5V.Props.C02
