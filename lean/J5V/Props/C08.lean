import J5V.Codec.EncTotal
import J5V.Codec.EncStable
import J5V.Json.EscapeProofs
import J5V.Codec.ScalarProofs
import J5V.Codec.Encode
import J5V.Codec.EncTreeProofs
import J5V.Codec.WireProofs
import J5V.Props.C01
import J5V.Generated.CodecFacts
/-!
# C08 — the encoder emits well-formed JSON in the documented wire format

Property theorems only. `Wire` (`J5V/Codec/Wire.lean`) is the declarative transcription of the
README "Scalar Types" table and never mentions the encoder.
-/
namespace J5V.Props.C08
open J5V.Go J5V.Json J5V.Codec

/-- **C08_escape_valid**: every string the encoder writes (`appendString`, copied from protojson)
is a JSON string literal — opening quote, a body the JSON string reader accepts up to the
closing quote — and the literal denotes exactly the input bytes. For every byte string on which
the escaper succeeds; any suffix may follow. -/
theorem C08_escape_valid (s lit : Bytes) (h : appendString s = .ok lit) (rest : Bytes) :
    ∃ body, lit = 0x22 :: (body ++ [0x22]) ∧
      readString (body.length + 1) (body ++ 0x22 :: rest) = some (s, body ++ [0x22], rest) := by
  obtain ⟨body, hl, hr⟩ := appendString_reads s lit h
  exact ⟨body, hl, hr rest _ (Nat.lt_succ_self _)⟩

/-- the escaper is total: it never panics, succeeds on every valid UTF-8 string and returns an
error (no output at all) on invalid UTF-8 — so no invalid string literal is ever written -/
theorem C08_escape_total (s : Bytes) :
    (∀ w, appendString s ≠ .panic w) ∧
    (isValidUtf8 s = true → ∃ lit, appendString s = .ok lit) ∧
    (isValidUtf8 s = false → ∃ e, appendString s = .err e) :=
  appendString_total s

/-- 32-bit integers are bare JSON numbers; 64-bit integers are quoted (README table) -/
theorem C08_integer_forms (O : Oracle) (i : Int) (n : Nat) :
    encodeScalar O .int32 (.int i) = .ok (.bare (fmtInt i)) ∧
    encodeScalar O .uint32 (.uint n) = .ok (.bare (fmtNat n)) ∧
    encodeScalar O .int64 (.int i) = .ok (.quoted (fmtInt i)) ∧
    encodeScalar O .uint64 (.uint n) = .ok (.quoted (fmtNat n)) ∧
    Wire.isJsonNumber (fmtInt i) = true ∧ Wire.isJsonNumber (fmtNat n) = true :=
  ⟨rfl, rfl, rfl, rfl, isJsonNumber_fmtInt i, isJsonNumber_fmtNat n⟩

/-- non-finite floats are written as the quoted strings `"NaN"`, `"Infinity"`, `"-Infinity"`
(repair 22e9ce8; they used to be bare, i.e. invalid JSON); finite ones as bare literals -/
theorem C08_float_forms (O : Oracle) (b : Nat) :
    (finite64 b = true → encodeScalar O .float64 (.f64 b) = .ok (.bare (O.fmtF64 b))) ∧
    (finite64 b = false → ∃ s, encodeScalar O .float64 (.f64 b) = .ok (.quoted s) ∧
      (s = ascii "NaN" ∨ s = ascii "Infinity" ∨ s = ascii "-Infinity")) := by
  constructor
  · intro h
    simp only [encodeScalar, finite64_exp b h, nonFinite_finite]
  · intro h
    have hexp : decide (b / 2 ^ 52 % 2048 = 2047) = true := by
      simp only [finite64, bne_eq_false_iff_eq] at h
      simp [h]
    simp only [encodeScalar, nonFinite, hexp, if_true]
    split
    · split
      · exact ⟨_, rfl, Or.inr (Or.inr rfl)⟩
      · exact ⟨_, rfl, Or.inr (Or.inl rfl)⟩
    · exact ⟨_, rfl, Or.inl rfl⟩

/-- **Every representable scalar is written in its documented representation** (README "Scalar
Types", transcribed declaratively in `J5V.Codec.Wire`, which never mentions the encoder):
strings and keys as JSON strings denoting the value; bools as `true` / `false`; 32-bit integers
and floats as bare JSON numbers denoting the value; 64-bit integers as quoted decimal integers;
bytes as padded standard base64 (RFC 4648 §4 shape, decoding to the bytes); dates as zero padded
`YYYY-MM-DD` denoting year / month / day; decimals as the quoted text; timestamps as RFC 3339
with the `Z` offset (shape assumed of `time.Format` by `OracleWire`, used for that kind only). -/
theorem C08_scalar_conforms (O : Oracle) (L : OracleLaws O) (k : ScalarKind)
    (W : k = .timestamp → OracleWire O) (v : PVal) (hok : scalarOk O k v = true) :
    ∃ t, scalarNode O k v = .ok t ∧ Wire.scalarConforms O k v t :=
  scalar_conforms O L k W v hok

/-! ## well-formedness of the whole document -/

/-- **Full statement**: every successful encoding, of any message, parses as one JSON document -/
def C08_wellformed_full : Prop :=
  ∀ (env : Env) (O : Oracle), FloatTextOk O → ∀ (root : String) (v : PVal) (bs : Bytes),
    encodeBytes env O root v = .ok bs → ∃ t, parse bs = some t

/-- **Proved part (`_partial`)**: for **every** message (representable or not: non-finite floats,
out-of-range dates, undefined enum numbers, invalid UTF-8, two oneof members set, …) and every root
* of every environment without `Any` fields, and
* of **every environment with `Any` fields**, provided every `j5_json` stored in the message (at
  any depth, also inside the proto content of another `Any`) is a *recognised chunk*
  (`hg`, right alternative — `PVal.chunksOk`: the specification-side oracle `O.chunk` knows these
  very bytes; `ChunkLaws O`: what it knows is compact JSON as `json.Compact` or the codec itself writes it — `PTree.Enc`) —
  that is the property's own quantifier "every stored `j5_json` is itself well-formed JSON", in the
  compact form:
if the encoder returns bytes at all, the strict parser (`J5V.Json.parse`: exactly one RFC 8259
value, all containers closed, nothing but whitespace after it) accepts them, and the parsed tree
renders back to the same bytes. `FloatTextOk O` is the only assumption on the text oracles:
`strconv.FormatFloat(v,'g',-1,bits)` of a finite value is a JSON number. The proto content of an
`Any` (`google.protobuf.Any`, or a j5 `Any` without `j5_json`) is encoded by the codec itself and
needs no hypothesis.

Missing for the full statement, and the only gap left: caller-supplied `j5_json` bytes that are
not JSON (the encoder inserts them verbatim: `C08_any_j5json_unchecked`), and well-formed
`j5_json` that is *not compact* (whitespace, other escapes: the model has no lemma that the
tokenizer reads a well-formed value the same way in any context). -/
theorem C08_wellformed_partial (env : Env) (O : Oracle)
    (hO : FloatTextOk O) (root : String) (v : PVal) (bs : Bytes)
    (hg : env.noAny = true ∨ (ChunkLaws O ∧ v.chunksOk O = true))
    (h : encodeBytes env O root v = .ok bs) : ∃ t, parse bs = some t ∧ t.render = bs := by
  obtain ⟨t, _, hb, hp⟩ := encodeBytes_parses' env O hO root v bs hg h
  exact ⟨t, hp, hb.symm⟩

/-- **the encoder model never panics** (round 4): for EVERY message — representable or not: wrong
shapes, non-finite floats, out-of-range dates, invalid UTF-8, undefined enum numbers, `Any` values of
every kind — and every root, `Codec.ProtoToJSON` returns bytes or an error. The only panic the encoder
model can originate is the exhaustion of its recursion fuel (Go has no such notion: it would be a
model artefact); the theorem shows `encFuel = 6·depth + 10` always suffices — five levels of the mutual
recursion `encodeObjectBody → GetValue → encodeOneofBody → GetValue → encodeValue` per nesting level of
the message (`ENP`, `Codec/EncTotal.lean`). Hypothesis `Env.oneofsPlain` (decidable): the members of a
oneof wrapper have proto paths (no exposed oneof directly inside a oneof — always so for reflected
schemas, where a oneof's members are the fields of the wrapper message; every `Env.flat` environment:
`C08_flat_oneofsPlain`); without it a chain of exposed oneofs nested in one another could be longer
than any fuel derived from the message alone. -/
theorem C08_encode_no_panic (env : Env) (O : Oracle) (hE : env.oneofsPlain = true) (root : String)
    (v : PVal) : ∀ w, encodeBytes env O root v ≠ .panic w :=
  encodeBytes_np env O hE root v

/-- **the encoder model does not depend on its recursion fuel** (round 4): at every fuel from
`encFuel v = 6·depth + 10` on, `encRoot` returns exactly what `encodeTree` returns — for every message
and root. So the model's fuel is not an approximation of the Go encoder (which has none):
`encodeTree` is the fuel-free semantics, and the silent `false` of `hasProp` at fuel 0 (which would
omit an exposed oneof) is never reached (`ESt`, `Codec/EncStable.lean`). -/
theorem C08_encode_fuel_independent (env : Env) (O : Oracle) (hE : env.oneofsPlain = true)
    (root : String) (v : PVal) (F : Nat) (hF : encFuel v ≤ F) :
    encRoot env O F root v = encodeTree env O root v :=
  encRoot_fuel_stable env O hE root v F hF

theorem C08_flat_oneofsPlain (env : Env) (h : env.flat = true) : env.oneofsPlain = true :=
  oneofsPlain_of_flat env h

/-- **"the encoder must either fail or still emit valid JSON"** (the property's clause for
non-representable messages), packaged: for every message of an environment without `Any` (or with
recognised `j5_json` chunks, `hg`), `Codec.ProtoToJSON` EITHER returns an error OR returns bytes that
are one well-formed JSON document (strict parser) which re-renders to the same bytes. No third
outcome. -/
theorem C08_fails_or_wellformed (env : Env) (O : Oracle) (hO : FloatTextOk O)
    (hE : env.oneofsPlain = true) (root : String) (v : PVal)
    (hg : env.noAny = true ∨ (ChunkLaws O ∧ v.chunksOk O = true)) :
    (∃ e, encodeBytes env O root v = .err e) ∨
      (∃ bs t, encodeBytes env O root v = .ok bs ∧ parse bs = some t ∧ t.render = bs) := by
  cases h : encodeBytes env O root v with
  | ok bs =>
    obtain ⟨t, hp, hr⟩ := C08_wellformed_partial env O hO root v bs hg h
    exact Or.inr ⟨bs, t, rfl, hp, hr⟩
  | err e => exact Or.inl ⟨e, rfl⟩
  | panic w => exact absurd h (C08_encode_no_panic env O hE root v w)

/-- the strict parser returns exactly the tree the encoder built (numbers stay numbers, strings
stay strings, member order and names as written; a recognised `j5_json` chunk in parsed form) -/
theorem C08_parse_is_encoder_tree (env : Env) (O : Oracle)
    (hO : FloatTextOk O) (root : String) (v : PVal) (bs : Bytes)
    (hg : env.noAny = true ∨ (ChunkLaws O ∧ v.chunksOk O = true))
    (h : encodeBytes env O root v = .ok bs) :
    ∃ t, encodeTree env O root v = .ok t ∧ parse bs = some t := by
  obtain ⟨t, ht, _, hp⟩ := encodeBytes_parses' env O hO root v bs hg h
  exact ⟨t, ht, hp⟩

/-- the bytes the encoder model writes for a `j5_json` do not depend on the specification-side
recogniser: recognised or not, they are the stored bytes -/
theorem C08_chunk_bytes_verbatim (O : Oracle) (bs : Bytes) : (chunkNode O bs).render = bs :=
  chunkNode_render O bs

/-! ## the `Any` / `j5_json` gap (tree level, machine checked)

`encodeAny` copies `j5_json` into the output without looking at it. The witness: a j5 `Any` whose
`j5_json` is the single byte `}`. The encoder succeeds, the tree it builds holds the chunk
verbatim (`PTree.raw`), the bytes are `{"a":{"!type":"t","value":}}}` — and the chunk is not a JSON
value. (That the *whole* byte string is rejected by the strict parser is not evaluated here: kernel
evaluation of `parse` on 30 bytes does not terminate in reasonable memory; the chunk-level fact
below is what makes `C08_wellformed_partial` need `chunksOk` for environments with `Any`. Such a message is outside C01's
representable messages, so this is not a violation of C08 as stated.) -/

def anyEnv : Env :=
  { defs := [("r", .object [{ jsonName := ascii "a", path := [1], pres := .msg, field := .any false }])] }

def anyMsg : PVal := .msg [(1, .anyJ5 (ascii "t") [] [0x7D] .none "" (.msg []))]

def anyTree : PTree :=
  .obj (.cons (ascii "a") (ascii "\"a\"")
    (.obj (.cons (ascii "!type") (ascii "\"!type\"") (.str (ascii "t") (ascii "\"t\""))
      (.cons (ascii "value") (ascii "\"value\"") (.raw [0x7D]) (.nil .closed)))) (.nil .closed))

theorem C08_any_j5json_unchecked :
    encodeTree anyEnv toyOracle "r" anyMsg = .ok anyTree ∧
    encodeBytes anyEnv toyOracle "r" anyMsg = .ok (ascii "{\"a\":{\"!type\":\"t\",\"value\":}}}") ∧
    parse [0x7D] = none ∧ anyEnv.noAny = false := by
  refine ⟨by rfl, by rfl, by decide, by decide⟩

/-! ## the documented structure -/

/-- **Full statement**: every successful encoding of a representable message has the documented
structure (`Wire.RootConforms`, which never mentions the encoder) -/
def C08_conforms_full : Prop :=
  ∀ (c : Cfg), OracleLaws c.O → OracleWire c.O → ∀ (root : String) (m : Fields) (bs : Bytes),
    (valOk c.env c.O (.object root) (.msg m) = true ∨ valOk c.env c.O (.oneof root) (.msg m) = true) →
    encodeBytes c.env c.O root (.msg m) = .ok bs →
    ∃ t, parse bs = some t ∧ Wire.RootConforms c.env c.O root m t

/-- **C08_conforms (`_partial` only in the class of schemas)**: for every `Env.flat` environment
(flattened objects, exposed oneofs, anonymous proto oneofs, wrapper oneofs, enums, arrays / maps of
scalars / enums / objects / oneofs, j5 `Any` properties holding recognised `j5_json`) and every
representable message: the bytes
`Codec.ProtoToJSON` returns are one well-formed JSON document whose tree (as the strict parser
reads it) is the documented representation of the message:
* an object has one member per *set* property, in schema order, named by the property's JSON name;
  unset properties are omitted; the properties of a flattened object are members of the *parent*
  (looked up by their full proto path);
* a oneof (wrapper, exposed, or root) is `{}` or `{"!type": name, name: value}` — the type key plus
  exactly the key it names;
* scalars have the representation of the README table (`Wire.scalarConforms`: bare 32-bit integers
  / floats / booleans, quoted 64-bit integers and decimals, padded standard base64, RFC 3339 UTC,
  zero-padded dates), enums are the short option name.
`OracleWire` (the shape of `time.Format`) is used for timestamps only. `hM`: some codec can decode
the `Any` values of the message (`modeOk`, per value; void for messages without `Any` values) —
the structure facts are carried by the round-trip induction.

* a j5 `Any` is `{"!type": typeName, "value": data}` where `data` renders to exactly the stored
  `j5_json` (`Wire.Conforms.anyJ5`, `C08_any_j5_value_verbatim`: the chunk is inserted verbatim).

* a protobuf `Any` is `{"!type": name, "value": data}`: the URL is `type.googleapis.com/name`,
  `name` resolves to the content's root, and `data` is again the documented representation of the
  content (`Wire.Conforms.anyPbObj / anyPbOne`, `C08_any_pb_value_conforms`: `Wire.RootConforms` of
  the inner message — the relation recurses through `Any` values).

Missing for `C08_conforms_full`: messages populating both kinds of `Any`; an exposed oneof inlined from a flattened object. -/
theorem C08_conforms_partial (c : Cfg) (hs : c.env.flat = true) (L : OracleLaws c.O)
    (W : OracleWire c.O) (hC : c.env.noAny = true ∨ ChunkLaws c.O) (root : String) (m : Fields)
    (bs : Bytes)
    (hok : valOk c.env c.O (.object root) (.msg m) = true ∨
      valOk c.env c.O (.oneof root) (.msg m) = true)
    (hM : ∃ mode, modeOkF mode (6 * (depthFields m + 1) + 9) 0 m = true)
    (henc : encodeBytes c.env c.O root (.msg m) = .ok bs) :
    ∃ t, parse bs = some t ∧ Wire.RootConforms c.env c.O root m t := by
  obtain ⟨t, ht, hc⟩ := conforms_tree_flat c hs L W root m hok hM
  have hch : (PVal.msg m).chunksOk c.O = true := by
    rcases hok with hok | hok
    · exact valOk_chunksOk _ _ _ _ hok
    · exact valOk_chunksOk _ _ _ _ hok
  obtain ⟨t', ht', _, hp⟩ := encodeBytes_parses' c.env c.O
    (floatTextOk_of_laws c.O L) root (.msg m) bs (hC.elim Or.inl (fun h => Or.inr ⟨h, hch⟩)) henc
  rw [ht] at ht'; cases ht'
  exact ⟨t, hp, hc⟩

/-- **Any values are `{"!type": typeName, "value": …}`**: whatever `encodeAny` writes successfully
(any environment, any value) is an object with exactly these two members in this order, the first
a string holding the type name (for a `google.protobuf.Any` the type URL without its prefix) -/
theorem C08_any_shape (env : Env) (O : Oracle) (f : Nat) (pb : Bool) (v : PVal) (t : PTree)
    (h : encValue env O f (.any pb) v = .ok t) :
    ∃ tn l1 l2 l3 data, Wire.anyTypeName v = some tn ∧
      t = .obj (.cons (ascii "!type") l1 (.str tn l2) (.cons (ascii "value") l3 data (.nil .closed))) :=
  any_shape env O f pb v t h

/-- **what the wire-format relation demands of a j5 `Any`** (round 4; inversion of
`Wire.Conforms`, which `C08_conforms_partial` establishes for every value of the message): the
document is `{"!type": typeName, "value": data}` and **`data` renders to exactly the stored
`j5_json`** — the value is the stored chunk verbatim, whatever else the `Any` carries. -/
theorem C08_any_j5_value_verbatim (env : Env) (O : Oracle) (tn proto j5 : Bytes) (ik : InnerKind)
    (iroot : String) (inner : PVal) (t : PTree)
    (h : Wire.Conforms env O (.any false) (.anyJ5 tn proto j5 ik iroot inner) t) :
    ∃ l1 l2 l3 data, j5 ≠ [] ∧ data.render = j5 ∧
      t = .obj (.cons (ascii "!type") l1 (.str tn l2) (.cons (ascii "value") l3 data (.nil .closed))) := by
  cases h with
  | anyJ5 _ _ _ _ _ _ l1 l2 l3 data hj hr => exact ⟨l1, l2, l3, data, hj, hr, rfl⟩

/-- **… and of a protobuf `Any`** (round 4): the document is `{"!type": name, "value": data}`, the
type URL is `type.googleapis.com/` + `name`, `name` resolves to the root the content belongs to, and
**`data` is the documented representation of the content** as a message of that root
(`Wire.RootConforms`, recursively: members in schema order, oneofs, scalars per README table, nested
`Any` values again). -/
theorem C08_any_pb_value_conforms (env : Env) (O : Oracle) (url val : Bytes) (ik : InnerKind)
    (iroot : String) (inner : PVal) (t : PTree)
    (h : Wire.Conforms env O (.any true) (.anyPb url val ik iroot inner) t) :
    ∃ tn fs l1 l2 l3 data, url = ascii "type.googleapis.com/" ++ tn ∧ inner = .msg fs ∧
      env.resolve tn = some iroot ∧ Wire.RootConforms env O iroot fs data ∧
      t = .obj (.cons (ascii "!type") l1 (.str tn l2) (.cons (ascii "value") l3 data (.nil .closed))) := by
  cases h with
  | anyPbObj _ tn _ fs props l1 l2 l3 ms hres hfind hmc =>
    exact ⟨tn, fs, l1, l2, l3, .obj ms, rfl, rfl, hres, Or.inl ⟨props, ms, hfind, rfl, hmc⟩, rfl⟩
  | anyPbOne _ tn _ fs ops l1 l2 l3 data hres hfind hoc =>
    exact ⟨tn, fs, l1, l2, l3, data, rfl, rfl, hres, Or.inr ⟨ops, hfind, hoc⟩, rfl⟩

/-! ## Non-vacuity -/

/-- an oracle satisfying both `OracleLaws` and `OracleWire` -/
example : OracleLaws wireOracle ∧ OracleWire wireOracle := ⟨wireOracle_laws, wireOracle_wire⟩
example : C01.sampleEnv.flat = true := by decide
example : valOk C01.sampleEnv wireOracle (.object "t.M") (.msg C01.sampleMsg) = true := by decide

/-- hypotheses of `C08_conforms_partial` for a message that populates a protobuf `Any`, and for one
with j5 `Any` values (so the `Any` clauses of `Wire.Conforms` are exercised by the theorem) -/
example : C01.samplePbEnv.flat = true ∧
    valOk C01.samplePbEnv wireOracle (.object "t.P") (.msg C01.samplePbMsg) = true ∧
    modeOkF true (6 * (depthFields C01.samplePbMsg + 1) + 9) 0 C01.samplePbMsg = true := by decide
example : C01.sampleAnyEnv.flat = true ∧
    valOk C01.sampleAnyEnv C01.anyOracle (.object "t.A") (.msg C01.sampleAnyMsg) = true ∧
    modeOkF false (6 * (depthFields C01.sampleAnyMsg + 1) + 9) 0 C01.sampleAnyMsg = true := by decide
/-- the `Any` clauses are inhabited: `{"!type":"t","value":{"k":1}}` for the chunk `{"k":1}`, and a
protobuf `Any` of `t.v1.I` with content `{id: "x"}` -/
example : Wire.Conforms C01.sampleAnyEnv C01.anyOracle (.any false)
    (.anyJ5 (ascii "t") [] (ascii "{\"k\":1}") .none "" (.msg []))
    (.obj (.cons (ascii "!type") [] (.str (ascii "t") [])
      (.cons (ascii "value") [] C01.chunkTree (.nil .closed)))) :=
  Wire.Conforms.anyJ5 _ _ _ _ _ _ _ _ _ _ (by decide) (by decide)
example : Wire.Conforms C01.samplePbEnv wireOracle (.any true)
    (.anyPb (ascii "type.googleapis.com/" ++ ascii "t.v1.I") [] .inn "t.I" (.msg [(1, .str (ascii "x"))]))
    (.obj (.cons (ascii "!type") [] (.str (ascii "t.v1.I") [])
      (.cons (ascii "value") []
        (.obj (.cons (ascii "id") [] (.str (ascii "x") []) (.nil .closed))) (.nil .closed)))) :=
  by
  refine Wire.Conforms.anyPbObj [] (ascii "t.v1.I") "t.I" [(1, .str (ascii "x"))]
    [{ jsonName := ascii "id", path := [1], pres := .imp, field := .scalar .string }] [] [] []
    (.cons (ascii "id") [] (.str (ascii "x") []) (.nil .closed)) (by decide) (by decide) ?_
  refine Wire.MembersConform.emit _ _ _ (.str (ascii "x")) _ _ _ (by decide) rfl ?_
    (Wire.MembersConform.nil _)
  exact Wire.Conforms.scalar _ _ _ rfl

/-- `Env.oneofsPlain` holds for the sample environments (also the non-flat one with the inlined
oneof), and fails for a oneof whose member is itself an exposed oneof -/
example : C01.sampleEnv.oneofsPlain = true ∧ C01.samplePbEnv.oneofsPlain = true ∧
    C01.ioEnv.oneofsPlain = true := by decide
def nestedExposedEnv : Env :=
  { defs := [("t.W", .oneof [{ jsonName := ascii "x", path := [], pres := .none, field := .oneof "t.W" }])] }
example : nestedExposedEnv.oneofsPlain = false := by decide
example : scalarOk toyOracle .int64 (.int (-9223372036854775808)) = true := by decide
example : scalarOk toyOracle .date (.date 33 1 2) = true := by decide
example : scalarOk toyOracle .bytes (.bytes [0xfb, 0xff]) = true := by decide
example : Wire.isDateShape (ascii "0033-01-02") = true := by decide
example : Wire.isDateShape (ascii "  33-01-02") = false := by decide
example : Wire.isPaddedStdBase64 (ascii "+/8=") 2 = true := by decide
example : Wire.isPaddedStdBase64 (ascii "+/8") 2 = false := by decide
example : Wire.jsonIntValue (ascii "-12") = some (-12) := by decide
example : Wire.jsonIntValue (ascii "012") = none := by decide
example : C01.sampleEnv.noAny = true := by decide
example : FloatTextOk toyOracle := floatTextOk_of_laws _ toyOracle_laws

example : appendString (ascii "a\"b\\c\n") = .ok (ascii "\"a\\\"b\\\\c\\n\"") := by decide
/-- non-BMP text is copied, control characters become `\u00XX` -/
example : appendString [0xF0, 0x9F, 0x98, 0x80, 0x01] =
    .ok ([0x22, 0xF0, 0x9F, 0x98, 0x80] ++ ascii "\\u0001\"") := by decide
example : appendString [0xFF] = .err "invalid UTF-8" := by decide
example : finite64 0x7ff8000000000001 = false := by decide

/-! ## source facts
Obligations over `J5V.Generated.Codec` (regenerated from /repo's current source by extract/codec.go at
every check run). Maintained by codec-go; they tie the model's case analysis to the switches in
the Go source. -/
section SourceFacts
open J5V.Generated.Codec

/-- the constants of the wire format which the model hard-codes -/
theorem C08_src_formats :
    dateStringFormat = "%04d-%02d-%02d" ∧ timestampEncodeLayout = "time.RFC3339Nano" := by decide

/-- `encodeValue` has an arm for every kind of field and `encodeScalarField` for every Go type
`scalarGoFromReflect` can produce; the fall-through arms return errors. -/
theorem C08_src_encode_switch_coverage :
    encodeValueCases = ["AnyField", "ArrayField", "EnumField", "MapField", "ObjectField", "OneofField", "ScalarField"] ∧
    encodeScalarGoTypes = ["*date_j5t.Date", "*decimal_j5t.Decimal", "[]byte", "bool", "float32", "float64",
      "int32", "int64", "string", "time.Time", "uint32", "uint64"] ∧
    encodeValueDefaultIsError = true ∧ encodeScalarDefaultIsError = true := by decide

/-- **`encodeAny` ↔ the `.any` arm of `encValue`; `encodeOneofBody` ↔ `encOneofBody`** (round 4; the
Go side of `C08_any_shape`): the member names `encodeAny` writes are the literals `"!type"` then
`"value"` — the model's `typeKey`, `valueKey` —, followed by the type name as a JSON string and the
data bytes verbatim (`enc.add`); the data is `j5_json` when present, else the re-encoded proto
content, else an error (c903cda / 691a6dd). `encodeOneofBody` writes `{}` for an unset oneof, else
`"!type"`, the member's name as a string, and the member under that same name. -/
theorem C08_src_any_oneof_labels :
    encodeAnyLabels.map ascii = [typeKey, valueKey] ∧
    encodeAnyTypeArgs = ["val.TypeName"] ∧ encodeAnyDataArgs = ["jsonData"] ∧
    encodeAnyIfs =
      [("err != nil", "err"), ("val.J5Json != nil", "none"), ("val.Proto != nil", "none"),
       ("err != nil", "err"),
       ("err := proto.Unmarshal(val.Proto, dst.Interface()); err != nil", "err"),
       ("err != nil", "err"), ("err != nil", "err"), ("err != nil", "err"), ("err != nil", "err"),
       ("else of val.Proto != nil", "err")] ∧
    encodeOneofBodyLabels = ["!type", "<expr> prop.NameInParent()"] ∧
    encodeOneofBodyIfs =
      [("err != nil", "err"), ("!isSet", "nil"), ("err != nil", "err"), ("err != nil", "err"),
       ("err != nil", "err"), ("err := enc.encodeValue(prop); err != nil", "err")] := by
  decide

/-- the container writers ↔ `encObjectBody` / the `.map` / `.array` / `.enum` arms of `encValue`:
separators only between members (`!first`), a member is its label then its value, every error is
handed on (nothing is written "instead") -/
theorem C08_src_container_shapes :
    encodeObjectBodyIfs =
      [("!first", "none"), ("err := enc.fieldLabel(prop.NameInParent()); err != nil", "err"),
       ("err := enc.encodeValue(prop); err != nil", "err")] ∧
    encodeMapIfs = [("!first", "none"), ("err != nil", "err")] ∧
    encodeArrayIfs = [("!first", "none")] ∧
    encodeEnumIfs = [("err != nil", "err")] := by decide

/-- **the scalar writers ↔ `encodeScalar`** (round 4): per Go type of `encodeScalarField` the calls it
makes, and per primitive of `encoder.go` its calls and literals. Mirrored by the model: `string`,
`Date`, `Decimal`, `time.Time` and `[]byte` go through `addString` (quoted + escaped; the model's
`.quoted`), `[]byte` as ONE `base64.StdEncoding.EncodeToString` (padded standard alphabet, no
chunking), the timestamp as `In(UTC).Format(RFC3339Nano)`; `int64` / `uint64` are `FormatInt/Uint`
base 10 through `addQuoted` (quoted), `int32` / `uint32` the same through `add` (bare), bools the bare
literals `true` / `false`, floats `FormatFloat(v, 'g', -1, bits)` bare except the three quoted
non-finite literals `NaN`, `Infinity`, `-Infinity` (22e9ce8); a member label is `addString(name)`
followed by `:` (so names and map keys get the JSON string escaper, not a Go-syntax quoter). -/
theorem C08_src_scalar_writers :
    encodeScalarCalls =
      [
       ("string", ["enc.addString"]),
       ("bool", ["enc.addBool"]),
       ("int32", ["enc.addInt32"]),
       ("int64", ["enc.addInt64"]),
       ("uint32", ["enc.addUint32"]),
       ("uint64", ["enc.addUint64"]),
       ("float32", ["enc.addFloat", "float64"]),
       ("float64", ["enc.addFloat"]),
       ("[]byte", ["base64.StdEncoding.EncodeToString", "enc.addString"]),
       ("*date_j5t.Date", ["enc.addString", "vt.DateString"]),
       ("*decimal_j5t.Decimal", ["enc.addString"]),
       ("time.Time", ["enc.addString", "vt.In(…).Format", "vt.In"]),
       ("default", ["fmt.Errorf"])] ∧
    encoderPrimitives =
      [
       ("fieldLabel", ["enc.addString", "enc.add", "[]byte"], ["\":\""]),
       ("addString", ["make", "len", "appendString", "enc.add"], ["0", "2"]),
       ("addQuoted", ["enc.add", "[]byte", "enc.add", "enc.add", "[]byte"], ["`\"`", "`\"`"]),
       ("addInt32", ["strconv.FormatInt", "int64", "enc.add", "[]byte"], ["10"]),
       ("addUint32", ["strconv.FormatUint", "uint64", "enc.add", "[]byte"], ["10"]),
       ("addInt64", ["strconv.FormatInt", "enc.addQuoted", "[]byte"], ["10"]),
       ("addUint64", ["strconv.FormatUint", "enc.addQuoted", "[]byte"], ["10"]),
       ("addBool", ["enc.add", "[]byte", "enc.add", "[]byte"], ["\"true\"", "\"false\""]),
       ("addFloat", ["math.IsNaN", "enc.addQuoted", "[]byte", "math.IsInf", "enc.addQuoted", "[]byte", "math.IsInf", "enc.addQuoted", "[]byte", "strconv.FormatFloat", "enc.add", "[]byte"], ["\"NaN\"", "1", "\"Infinity\"", "1", "\"-Infinity\"", "'g'", "1"]),
       ("fieldSep", ["enc.add", "[]byte"], ["\",\""]),
       ("openObject", ["enc.add", "[]byte"], ["\"{\""]),
       ("closeObject", ["enc.add", "[]byte"], ["\"}\""]),
       ("openArray", ["enc.add", "[]byte"], ["\"[\""]),
       ("closeArray", ["enc.add", "[]byte"], ["\"]\""])] := by
  decide

theorem C08_src_extractor_ok : codecExtractorOk = true := by decide

end SourceFacts

end J5V.Props.C08
