import J5V.Json.EscapeProofs
import J5V.Codec.ScalarProofs
import J5V.Codec.Encode
import J5V.Generated.CodecFacts
/-!
# C08 — the encoder emits well-formed JSON in the documented wire format

Property theorems only. `Wire` (`J5V/Codec/Wire.lean`) is the declarative transcription of the
README "Scalar Types" table and never mentions the encoder.
-/
namespace J5V.Props.C08
open J5V.Go J5V.Json J5V.Codec

/-- **C08_escape_valid**: every string the encoder writes (`appendString`, copied from protojson)
is a JSON string literal — opening quote, a body the JSON string reader accepts up to the
closing quote — and the literal denotes exactly the input bytes. For every byte string on which
the escaper succeeds; any suffix may follow. -/
theorem C08_escape_valid (s lit : Bytes) (h : appendString s = .ok lit) (rest : Bytes) :
    ∃ body, lit = 0x22 :: (body ++ [0x22]) ∧
      readString (body.length + 1) (body ++ 0x22 :: rest) = some (s, body ++ [0x22], rest) := by
  obtain ⟨body, hl, hr⟩ := appendString_reads s lit h
  exact ⟨body, hl, hr rest _ (Nat.lt_succ_self _)⟩

/-- the escaper is total: it never panics, succeeds on every valid UTF-8 string and returns an
error (no output at all) on invalid UTF-8 — so no invalid string literal is ever written -/
theorem C08_escape_total (s : Bytes) :
    (∀ w, appendString s ≠ .panic w) ∧
    (isValidUtf8 s = true → ∃ lit, appendString s = .ok lit) ∧
    (isValidUtf8 s = false → ∃ e, appendString s = .err e) :=
  appendString_total s

/-- 32-bit integers are bare JSON numbers; 64-bit integers are quoted (README table) -/
theorem C08_integer_forms (O : Oracle) (i : Int) (n : Nat) :
    encodeScalar O .int32 (.int i) = .ok (.bare (fmtInt i)) ∧
    encodeScalar O .uint32 (.uint n) = .ok (.bare (fmtNat n)) ∧
    encodeScalar O .int64 (.int i) = .ok (.quoted (fmtInt i)) ∧
    encodeScalar O .uint64 (.uint n) = .ok (.quoted (fmtNat n)) ∧
    Wire.isJsonNumber (fmtInt i) = true ∧ Wire.isJsonNumber (fmtNat n) = true :=
  ⟨rfl, rfl, rfl, rfl, isJsonNumber_fmtInt i, isJsonNumber_fmtNat n⟩

/-- non-finite floats are written as the quoted strings `"NaN"`, `"Infinity"`, `"-Infinity"`
(repair 22e9ce8; they used to be bare, i.e. invalid JSON); finite ones as bare literals -/
theorem C08_float_forms (O : Oracle) (b : Nat) :
    (finite64 b = true → encodeScalar O .float64 (.f64 b) = .ok (.bare (O.fmtF64 b))) ∧
    (finite64 b = false → ∃ s, encodeScalar O .float64 (.f64 b) = .ok (.quoted s) ∧
      (s = ascii "NaN" ∨ s = ascii "Infinity" ∨ s = ascii "-Infinity")) := by
  constructor
  · intro h
    simp only [encodeScalar, finite64_exp b h, nonFinite_finite]
  · intro h
    have hexp : decide (b / 2 ^ 52 % 2048 = 2047) = true := by
      simp only [finite64, bne_eq_false_iff_eq] at h
      simp [h]
    simp only [encodeScalar, nonFinite, hexp, if_true]
    split
    · split
      · exact ⟨_, rfl, Or.inr (Or.inr rfl)⟩
      · exact ⟨_, rfl, Or.inr (Or.inl rfl)⟩
    · exact ⟨_, rfl, Or.inl rfl⟩

/-! ## Non-vacuity -/

example : appendString (ascii "a\"b\\c\n") = .ok (ascii "\"a\\\"b\\\\c\\n\"") := by decide
/-- non-BMP text is copied, control characters become `\u00XX` -/
example : appendString [0xF0, 0x9F, 0x98, 0x80, 0x01] =
    .ok ([0x22, 0xF0, 0x9F, 0x98, 0x80] ++ ascii "\\u0001\"") := by decide
example : appendString [0xFF] = .err "invalid UTF-8" := by decide
example : finite64 0x7ff8000000000001 = false := by decide

/-! ## source facts
Obligations over `J5V.Generated.Codec` (regenerated from /repo's current source by extract/codec.go at
every check run). Maintained by codec-go; they tie the model's case analysis to the switches in
the Go source. -/
section SourceFacts
open J5V.Generated.Codec

/-- the constants of the wire format which the model hard-codes -/
theorem C08_src_formats :
    dateStringFormat = "%04d-%02d-%02d" ∧ timestampEncodeLayout = "time.RFC3339Nano" := by decide

/-- `encodeValue` has an arm for every kind of field and `encodeScalarField` for every Go type
`scalarGoFromReflect` can produce; the fall-through arms return errors. -/
theorem C08_src_encode_switch_coverage :
    encodeValueCases = ["AnyField", "ArrayField", "EnumField", "MapField", "ObjectField", "OneofField", "ScalarField"] ∧
    encodeScalarGoTypes = ["*date_j5t.Date", "*decimal_j5t.Decimal", "[]byte", "bool", "float32", "float64",
      "int32", "int64", "string", "time.Time", "uint32", "uint64"] ∧
    encodeValueDefaultIsError = true ∧ encodeScalarDefaultIsError = true := by decide

theorem C08_src_extractor_ok : codecExtractorOk = true := by decide

end SourceFacts

end J5V.Props.C08
