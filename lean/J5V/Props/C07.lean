import J5V.Compile.NoPanicPkg
import J5V.Compile.AstValueProofs
import J5V.Compile.UsesAll
import J5V.Compile.ValidPkg
import J5V.Generated.SetextFacts
import J5V.Generated.ImportsFacts
/-!
# C07 — the j5s compiler is total and accepts the documented language

Proved here (about the models `J5V.Compile.Convert` / `AstValue`, which follow the repaired code):
* the schema-level conversion (`buildFieldNode`, `buildField`, `buildProperty`, the property loop)
  reaches no panic arm for **any** property list at any nesting depth, under any resolver that
  returns well-formed file names (before `fix: 9a528a0` date / decimal rules panicked;
  before `fix: 089cff6` a required map field did);
* literal → scalar conversion is exact on the whole range of the attribute's integer format
  (before `fix: 6beb7c7` INT64 attributes were read with 32 bits), rejects everything outside,
  and never panics.

Not modelled: the BCL walker (`internal/bcl/internal/walker`) and protocompile's linker; their
totality is explored by the `compile.total` stream only.
-/
namespace J5V.Props.C07
open J5V.Go J5V.Compile

/-! ## conversion never panics -/

/-- **No panic**: for every well-formed context and every property list (any length, any nesting
of inline objects / oneofs / enums, arrays and maps, any rules), the conversion reaches no panic
arm. -/
theorem C07_convert_no_panic (c : Ctx) (hc : WfCtx c) (np : List Str) (io : Bool) (n : Nat)
    (ps : List Property) : (bProps c np io n ps).eff.panic = false :=
  bProps_no_panic c hc np io n ps

/-- the same for a single field, including the inline types visited before an (erroneous)
array-of-array is rejected -/
theorem C07_field_no_panic (c : Ctx) (hc : WfCtx c) (np : List Str) (d : Str) (f : Field) :
    (bField c np d f).eff.panic = false ∧ (bField c np d f).walk.panic = false :=
  bField_no_panic c hc np d f

/-- **`ConvertJ5File` never panics** on a well-formed file (every oneof named, every method with
a request — what j5parse guarantees), for any resolver that returns well-formed file names. -/
theorem C07_convertFile_no_panic (res : Resolver) (path : Str) (imports : List Import)
    (elems : List Elem) (hres : ∀ im, WfCtx { resolve := resolveTypeNoImport im res })
    (h : WfElems elems = true) : ∀ w, convertFile res path imports elems ≠ .panic w := by
  intro w hw
  have := convertFile_no_panic res path imports elems hres h
  rw [hw] at this
  cases this

/-- **`CompilePackage` never panics**: for every bundle of well-formed files (any number of
packages, files, declarations; entities, services, topics; any dependency graph, cyclic or not)
and every package name, loading, converting and linking return `ok` or `err`. -/
theorem C07_compile_no_panic (b : Bundle) (hb : WfBundle b) (name : Str) :
    ∀ w, compileLinked b name ≠ .panic w := by
  intro w hw
  have := compileLinked_no_panic b hb name
  rw [hw] at this
  cases this

/-! ## acceptance of the supported language -/

/-- **The converter accepts the supported language** (`C07_accepts`, converter half). For every
bundle that is valid — a decidable predicate on the sources alone (`ValidBundle`: package
declarations match paths; imports well formed; every declaration, entities expanded, within the
language `okItem`: references resolve to the right kind against the export tables computed from
the sources, enum `in` / `notIn` / default-filter values name options, no array / map directly in
an array / map, integer `exclusive*` rules come with their bound, no float rules [recorded
finding], nothing both required and explicitly optional, services named with verbs and path
parameters that exist, topic messages named; every dependency local or built in; acyclic package
graph) — `CompilePackage` up to the link step succeeds for every package: parsing of imports,
summaries, dependency loading and `ConvertJ5File` of every file report no error, whatever else the
files contain. Any number of packages, files, declarations, any nesting depth. -/
theorem C07_accepts_partial (b : Bundle) (r : Str → Nat) (hv : ValidBundle b r) (p : Pkg)
    (hp : p ∈ b.pkgs) : ∃ fs, compilePkg b p.name = .ok fs :=
  compilePkg_accepts b r hv p hp

/-- the full statement: …and the result links -/
def AcceptsAndLinks : Prop :=
  ∀ (b : Bundle) (r : Str → Nat), ValidBundle b r → ∀ p ∈ b.pkgs, (compileLinked b p.name).isOk = true

/-- the recorded finding `c07-rejected:valid-capture-inline-name`: an inline type whose default
name equals the name of its top-level ancestor (`object Foo { field foo object { … } }`) -/
def capturePkg : Pkg :=
  { name := b!"foo.v1", files :=
      [ .j5s b!"foo/v1/a.j5s" []
          [.object (.mk b!"Foo" [.mk b!"foo" false false
            (.objectInl [] [.mk b!"x" false false (.string [] false)] false [])] [] none)]
          b!"foo.v1" ] }

def captureBundle : Bundle := { pkgs := [capturePkg] }

theorem captureBundle_valid : ValidBundle captureBundle (fun _ => 0) := by
  refine ⟨by decide, fun n => by simp [captureBundle], by unfold WfBundle; decide, ?_⟩
  intro p hp
  simp only [captureBundle, List.mem_singleton] at hp
  subst hp
  exact ⟨rfl, by decide⟩

/-- **the full statement fails on the model as on the code**: the capture witness is valid, is
accepted by the converter, and does not link (j5convert writes the RELATIVE name `Foo.Foo`, which
protobuf scoping resolves inside the nested `Foo.Foo`). What is missing for a `links` theorem is
exactly the link half: for capture-free bundles with per-scope unique names, relative names
resolve to the inline type and no symbol is declared twice — not proved (see notes). -/
theorem C07_accepts_counterexample : ¬ AcceptsAndLinks := by
  intro h
  have := h captureBundle (fun _ => 0) captureBundle_valid capturePkg (by simp [captureBundle])
  revert this
  decide

/-- non-vacuity of `C07_accepts_partial` beyond the capture witness: two packages, an import by
last-but-one segment, a cross-file reference, an enum with list-rule default filters, a service
with a path parameter, a topic, an entity — a valid bundle (rank: `bar.v1` above `foo.v1`) -/
def validPkgs : List Pkg :=
  [ { name := b!"foo.v1", files :=
      [ .j5s b!"foo/v1/a.j5s" [] [.object (.mk b!"A" [.mk b!"x" false false (.string [] false)] [] none)]
          b!"foo.v1" ] },
    { name := b!"bar.v1", files :=
      [ .j5s b!"bar/v1/b.j5s" [] [.enum { name := b!"E", pfx := [], opts := [b!"ONE"] }] b!"bar.v1",
        .j5s b!"bar/v1/c.j5s" [⟨b!"foo.v1", []⟩]
          [ .object (.mk b!"C" [ .mk b!"a" false false (.objectRef b!"foo" b!"A" false []),
                                 .mk b!"e" false false (.enumRef [] b!"E" [] (some [b!"ONE"])),
                                 .mk b!"m" true false (.map (.integer .int64 [⟨b!"minimum", .int 1⟩] false) []) ]
              [] none),
            .service { name := some b!"Svc", basePath := some b!"/bar", methods :=
              [ { name := b!"Get", verb := .get, path := b!"/c/:cId",
                  request := some [.mk b!"cId" true false (.key .uuid .nokey [] false)],
                  response := some [.mk b!"c" false false (.objectRef [] b!"C" false [])] } ] },
            .topic { name := b!"Pub", type := .publish [{ name := some b!"Ping", props := [] }] },
            .entity { name := b!"thing", baseUrl := [],
                      keys := [⟨.mk b!"thingId" false false (.key .uuid (.ek (.primary true) none) [] false), false⟩],
                      data := [.mk b!"title" false false (.string [] false)], statuses := [b!"ACTIVE"],
                      events := [.mk b!"Made" [] [] none], commands := [], summaries := [],
                      query := some { eventsInGet := false, filters := [b!"ACTIVE"] }, nested := [] } ]
          b!"bar.v1" ] } ]

def validBundle : Bundle := { pkgs := validPkgs }
def validRank (n : Str) : Nat := if n = b!"bar.v1" then 1 else 0

example : ValidBundle validBundle validRank := by
  refine ⟨by decide, fun n => by unfold validRank; split <;> decide, by unfold WfBundle; decide, ?_⟩
  intro p hp
  simp only [validBundle, validPkgs, List.mem_cons, List.mem_nil_iff, or_false] at hp
  rcases hp with rfl | rfl
  · exact ⟨rfl, by decide⟩
  · exact ⟨rfl, by decide⟩

/-- **A rule in isolation** (the import facts of E5 on the model): a file that holds nothing but
one object with one field — of any scalar type, with ANY rule list the language supports, required
or not, directly or as array items / map values — converts, and the generated file imports the
file of every extension set on it. (Before 2a8c264 / 9a528a0 the imports were missing or the
conversion panicked; the link step then failed for exactly such files.) -/
theorem C07_isolated_rule (res : Resolver)
    (hres : ∀ im, WfCtx { resolve := resolveTypeNoImport im res })
    (f : Field) (req : Bool)
    (hf : okProperty (fileCtx res b!"iso/v1/only.j5s" []) (.mk b!"f" req false f) = true) :
    ∃ fs, convertFile res b!"iso/v1/only.j5s" []
        [.object (.mk b!"Only" [.mk b!"f" req false f] [] none)] = .ok fs ∧
      ∀ file ∈ fs, ∀ u ∈ file.uses, u = file.name ∨ u ∈ file.deps := by
  obtain ⟨fs, hfs⟩ := convertFile_accepts res b!"iso/v1/only.j5s" []
    [.object (.mk b!"Only" [.mk b!"f" req false f] [] none)] hres (by decide)
    (by simp [okElems, itemsOfElem, WfItem, WfDecl, WfNested, okItem, okDecl, okNested, okProps, hf])
  refine ⟨fs, hfs, ?_⟩
  exact convertFile_uses_imported res _ _ _ fs hfs (by intro s hs; simp at hs)

/-- every rule list is within the language for string / bool / bytes / date / decimal /
timestamp / key fields; integer rules when `exclusive*` comes with its bound -/
theorem C07_isolated_rule_scalars (c : Ctx) (d : Str) (rules : Rules) (lr : Bool) (fmt : IntFmt)
    (kf : KeyFmt) (ek : EntKey) :
    okField c d (.string rules lr) = true ∧ okField c d (.bool rules lr) = true ∧
    okField c d (.bytes rules) = true ∧ okField c d (.date rules lr) = true ∧
    okField c d (.decimal rules lr) = true ∧ okField c d (.timestamp rules) = true ∧
    okField c d (.key kf ek rules lr) = true ∧
    (intRulesErr rules = false → okField c d (.integer fmt rules lr) = true) := by
  refine ⟨rfl, rfl, rfl, rfl, rfl, rfl, rfl, ?_⟩
  intro h
  simp [okField, h]

/-! ## every generated file imports what it uses (the link precondition of E5, as a theorem) -/

/-- **Imports of extensions.** In every file `ConvertJ5File` returns — main file, `.service` and
`.topic` sub-package files — each file whose extensions are set on some option message
(`buf/validate`, `j5/ext/v1`, `j5/list/v1`, `google/api`, `j5/messaging/v1`) is among the file's
dependencies: for every field type, every rule list, required or not, inline and nested types at
any depth, services, topics, entities. This is what `markExtensionImportsUsed` and the
descriptor's option interpretation need at link time; a missing `ensureImport` in one branch of
`buildField` (the defects repaired by 2a8c264 / 9a528a0) breaks it. Side condition: a plain
`service` declaration carries no service annotation (the parser never produces one). -/
theorem C07_uses_imported (res : Resolver) (path : Str) (imports : List Import)
    (elems : List Elem) (fs : List FileSkel) (h : convertFile res path imports elems = .ok fs)
    (hplain : ∀ s, Elem.service s ∈ elems → s.sopt = .none) :
    ∀ f ∈ fs, ∀ u ∈ f.uses, u = f.name ∨ u ∈ f.deps :=
  convertFile_uses_imported res path imports elems fs h hplain

/-- …for every generated file of a package that loads -/
theorem C07_uses_imported_pkg (b : Bundle) (name : Str) (p : Pkg) (l : Loaded) (fuel : Nat)
    (chain : List Str) (hf : b.find name = some p) (hl : loadPkg b (fuel + 1) chain name = .ok l)
    (hplain : ∀ path imports elems decl, SrcFile.j5s path imports elems decl ∈ p.files →
      ∀ s, Elem.service s ∈ elems → s.sopt = .none) :
    ∀ f ∈ l.files, ∀ u ∈ f.uses, u = f.name ∨ u ∈ f.deps := by
  obtain ⟨hfiles, hok⟩ := loadPkg_ok_inv b fuel chain name p l hf hl
  intro f hfm
  rw [hfiles] at hfm
  obtain ⟨src, hsrc, hfs⟩ := List.mem_flatMap.mp hfm
  cases src with
  | proto path msgs enums => simp [convOf] at hfs
  | j5s path imports elems decl =>
    obtain ⟨fs, hconv⟩ := hok _ hsrc
    simp only [convOf, hconv] at hfs
    exact convertFile_uses_imported l.resolver path imports elems fs hconv
      (hplain path imports elems decl hsrc) f hfs

def emptyCtx : Ctx := { resolve := fun _ _ => none }

theorem emptyCtx_wf : WfCtx emptyCtx := by intro _ _ _ h; cases h

/-! ## literal conversion -/

/-- **Literal conversion is exact**: a decimal literal in the range of the attribute's integer
format converts to exactly that number, for every format. -/
theorem C07_literal_exact (fmt : ScalarFmt) (n : Nat) (hr : inRange fmt n = true) :
    astToScalar fmt (intLit n) = .ok (intValue fmt n) := by
  cases fmt <;> simp only [inRange, Bool.false_eq_true, decide_eq_true_eq] at hr
  case int32 =>
    simp [astToScalar, asInt, intLit, astBits, parseInt_fmtNat, intValue, Outcome.map, hr]
  case int64 =>
    simp [astToScalar, asInt, intLit, astBits, parseInt_fmtNat, intValue, Outcome.map, hr]
  case uint32 =>
    simp [astToScalar, asUint, intLit, astBits, intValue, Outcome.map, parseUint_fmtNat n 32 hr]
  case uint64 =>
    simp [astToScalar, asUint, intLit, astBits, intValue, Outcome.map, parseUint_fmtNat n 64 hr]

/-- out-of-range literals are rejected (never wrapped or truncated) -/
theorem C07_literal_range_rejected (fmt : ScalarFmt) (n : Nat)
    (hf : fmt = .int32 ∨ fmt = .int64 ∨ fmt = .uint32 ∨ fmt = .uint64)
    (hr : inRange fmt n = false) : ∃ e, astToScalar fmt (intLit n) = .err e := by
  rcases hf with h | h | h | h <;> subst h <;>
    simp only [inRange, decide_eq_false_iff_not] at hr
  · have : ¬ n < 2 ^ (32 - 1) := by simpa using hr
    simp [astToScalar, asInt, intLit, astBits, parseInt_fmtNat, Outcome.map, this]
  · have : ¬ n < 2 ^ (64 - 1) := by simpa using hr
    simp [astToScalar, asInt, intLit, astBits, parseInt_fmtNat, Outcome.map, this]
  · simp [astToScalar, asUint, intLit, astBits, Outcome.map, parseUint_fmtNat_range n 32 hr]
  · simp [astToScalar, asUint, intLit, astBits, Outcome.map, parseUint_fmtNat_range n 64 hr]

/-- literal conversion never panics, whatever the token -/
theorem C07_literal_no_panic (fmt : ScalarFmt) (t : AstTok) :
    (astToScalar fmt t).isPanic = false := by
  have hmap : ∀ {α β : Type} (f : α → β) (o : Outcome α), (o.map f).isPanic = o.isPanic := by
    intro α β f o; cases o <;> rfl
  have hb : (asBool t).isPanic = false := by unfold asBool; split <;> rfl
  have hs : (asString t).isPanic = false := by unfold asString; split <;> rfl
  have hi : ∀ k, (asInt t k).isPanic = false := by
    intro k; unfold asInt; split
    · rfl
    · split <;> rfl
  have hu : ∀ k, (asUint t k).isPanic = false := by
    intro k; unfold asUint; split
    · rfl
    · split <;> rfl
  cases fmt <;> simp only [astToScalar, hmap, hb, hs, hi, hu] <;> rfl

/-! ## Non-vacuity -/

/-- the formerly panicking inputs convert without panic (date rules, required map) -/
example : (bProps emptyCtx [b!"Foo"] false 1
    [ .mk b!"a" false false (.date [⟨b!"minimum", .str b!"2020-01-01"⟩] false),
      .mk b!"m" true false (.map (.string [] false) []) ]).eff.panic = false := by decide

/-- a bundle satisfying the hypothesis of `C07_compile_no_panic`: an entity, a service, a oneof -/
def exBundle : Bundle :=
  { pkgs := [ { name := b!"foo.v1", files :=
      [ .j5s b!"foo/v1/a.j5s" []
          [ .oneof (.mk b!"Choice" [.mk b!"a" false false (.string [] false)] [] none),
            .service { name := some b!"Foo", basePath := some b!"/foo", methods :=
              [ { name := b!"GetFoo", verb := .get, path := b!":id",
                  request := some [.mk b!"id" true false (.key .uuid .nokey [] false)],
                  response := some [] } ] },
            .entity { name := b!"thing", baseUrl := [], keys := [], data := [], statuses := [b!"A"],
                      events := [.mk b!"Made" [] [] none], commands := [], summaries := [],
                      query := none, nested := [] } ] b!"foo.v1" ] } ] }

example : WfBundle exBundle := by unfold WfBundle; decide

/-- the hypotheses of `C07_uses_imported` on the witnesses of 2a8c264 / 9a528a0: a file holding one
object with a string field with rules and a date field with rules converts, and its file does set
extensions of two other files -/
def exRuleElems : List Elem :=
  [.object (.mk b!"Only"
    [ .mk b!"f" false false (.string [⟨b!"minLength", .int 1⟩] false),
      .mk b!"d" false false (.date [⟨b!"minimum", .str b!"2020-01-01"⟩] false) ] [] none)]

example : (match convertFile ⟨b!"iso.v1", [], []⟩ b!"iso/v1/only.j5s" [] exRuleElems with
    | .ok fs => fs.map (fun f => (f.deps, dedup f.uses)) =
        [([b!"buf/validate/validate.proto", b!"j5/ext/v1/annotations.proto", b!"j5/types/date/v1/date.proto"],
          [b!"buf/validate/validate.proto", b!"j5/ext/v1/annotations.proto"])]
    | _ => false) = true ∧ (∀ s, Elem.service s ∈ exRuleElems → s.sopt = .none) := by
  refine ⟨by decide, ?_⟩
  intro s hs
  simp [exRuleElems] at hs

example : inRange .int64 (2 ^ 31) = true := by decide
example : astToScalar .uint64 (intLit 18446744073709551615) = .ok (.uint 18446744073709551615) := by
  decide

end J5V.Props.C07

/-! ## Obligations over facts regenerated from the current source (`extract setext`, `imports`) -/
namespace J5V.Props.C07
open J5V.Generated.Setext J5V.Generated.Imports

/-- **E4**: every `proto.SetExtension` call of j5convert passes a value whose static Go type is the
extension's declared type (a mismatch is a run-time panic) -/
theorem C07_src_setext_types :
    ∀ row ∈ setExtensionCalls, row.2.2.1 = row.2.2.2 := by decide

theorem C07_src_setext_count : setExtensionCallCount = setExtensionCalls.length := by decide

/-- the import constant that must be in scope where an extension / well-known type is used -/
def requiredImport (what : String) : Option String :=
  if what = "ext:validate.E_Field" then some "bufValidateImport"
  else if what = "ext:list_j5pb.E_Field" then some "j5ListAnnotationsImport"
  else if what = "ext:messaging_j5pb.E_Service" then some "messagingAnnotationsImport"
  else if what = "ext:annotations.E_Http" then some "googleApiAnnotationsImport"
  else if what = "type:.j5.types.date.v1.Date" then some "j5DateImport"
  else if what = "type:.j5.types.decimal.v1.Decimal" then some "j5DecimalImport"
  else if what = "type:.j5.types.any.v1.Any" then some "j5AnyImport"
  else if what = "type:.google.protobuf.Timestamp" then some "pbTimestamp"
  else if what = "type:googleProtoEmptyType" then some "googleProtoEmptyImport"
  else none

/-- **E5**: every branch imports the file of what it uses. (Extensions of `j5/ext/v1` need no
per-branch import: a field, method or service always sits in a file that holds a message, and
`visitObjectNode` / `visitOneofNode` import it — last two conjuncts.) -/
theorem C07_src_branch_imports :
    (∀ row ∈ uses, ∀ imp, requiredImport row.2.2.1 = some imp → imp ∈ row.2.2.2) ∧
    ("conversionVisitor.visitObjectNode", "", "ext:ext_j5pb.E_Message", ["j5ExtImport"]) ∈ uses ∧
    ("conversionVisitor.visitOneofNode", "", "ext:ext_j5pb.E_Message", ["j5ExtImport"]) ∈ uses := by
  decide

end J5V.Props.C07
