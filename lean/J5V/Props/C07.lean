import J5V.Compile.NoPanicPkg
import J5V.Compile.AstValueProofs
import J5V.Compile.UsesAll
import J5V.Compile.ValidPkg
import J5V.Compile.LinkImports
import J5V.Compile.LinkAssemble
import J5V.Compile.LinkRelative
import J5V.Compile.LinkSites
import J5V.Generated.SetextFacts
import J5V.Generated.ImportsFacts
/-!
# C07 — the j5s compiler is total and accepts the documented language

Proved here (about the models `J5V.Compile.Convert` / `AstValue`, which follow the repaired code):
* the schema-level conversion (`buildFieldNode`, `buildField`, `buildProperty`, the property loop)
  reaches no panic arm for **any** property list at any nesting depth, under any resolver that
  returns well-formed file names (before `fix: 9a528a0` date / decimal rules panicked;
  before `fix: 089cff6` a required map field did);
* literal → scalar conversion is exact on the whole range of the attribute's integer format
  (before `fix: 6beb7c7` INT64 attributes were read with 32 bits), rejects everything outside,
  and never panics.

Not modelled: the BCL walker (`internal/bcl/internal/walker`) and protocompile's linker; their
totality is explored by the `compile.total` stream only.
-/
namespace J5V.Props.C07
open J5V.Go J5V.Compile

/-! ## conversion never panics -/

/-- **No panic**: for every well-formed context and every property list (any length, any nesting
of inline objects / oneofs / enums, arrays and maps, any rules), the conversion reaches no panic
arm. -/
theorem C07_convert_no_panic (c : Ctx) (hc : WfCtx c) (np : List Str) (io : Bool) (n : Nat)
    (ps : List Property) : (bProps c np io n ps).eff.panic = false :=
  bProps_no_panic c hc np io n ps

/-- the same for a single field, including the inline types visited before an (erroneous)
array-of-array is rejected -/
theorem C07_field_no_panic (c : Ctx) (hc : WfCtx c) (np : List Str) (d : Str) (f : Field) :
    (bField c np d f).eff.panic = false ∧ (bField c np d f).walk.panic = false :=
  bField_no_panic c hc np d f

/-- **`ConvertJ5File` never panics** on a well-formed file (every oneof named, every method with
a request — what j5parse guarantees), for any resolver that returns well-formed file names. -/
theorem C07_convertFile_no_panic (res : Resolver) (path : Str) (imports : List Import)
    (elems : List Elem) (hres : ∀ im, WfCtx { resolve := resolveTypeNoImport im res })
    (h : WfElems elems = true) : ∀ w, convertFile res path imports elems ≠ .panic w := by
  intro w hw
  have := convertFile_no_panic res path imports elems hres h
  rw [hw] at this
  cases this

/-- **`CompilePackage` never panics**: for every bundle of well-formed files (any number of
packages, files, declarations; entities, services, topics; any dependency graph, cyclic or not)
and every package name, loading, converting and linking return `ok` or `err`.
`WfBundle` = for every file: every oneof named, every method with a request (what j5parse
guarantees) AND the file path contains a `/` (`containsByte 47 path`). The last condition excludes a
root-level source file (`a.j5s`, package ""): referenced from another file its generated name
`a.j5s.proto` would reach the explicit `panic("invalid import path")` of `ensureImport` (the
`Eff.imp` panic arm). By reading, not proved: the file sources of protobuild list files per package
directory (`ListSourceFiles(pkg)`), so every path of a real bundle has a directory part; the
harness never offers a root-level file, so this exclusion is NOT exercised by the streams either.
"Never hangs": fuel exhaustion of `loadPkg` is an `err "fuel"` arm, not a panic arm, so this theorem
alone would not see a modelled hang — see `C07_load_fuel_independent` below (under `rankOk` the
result does not depend on the fuel; without `rankOk`, i.e. for cyclic package graphs, the chain check
`err "circular"` stops the recursion — that the fuel `pkgs.length + 1` is never exhausted in that
case is a comment in `Compile/Package.lean`, not a theorem). -/
theorem C07_compile_no_panic (b : Bundle) (hb : WfBundle b) (name : Str) :
    ∀ w, compileLinked b name ≠ .panic w := by
  intro w hw
  have := compileLinked_no_panic b hb name
  rw [hw] at this
  cases this

/-- a one-package bundle for the example of `C07_load_fuel_independent` -/
def capturePkgForFuel : Pkg :=
  { name := b!"foo.v1", files :=
      [ .j5s b!"foo/v1/a.j5s" [] [.object (.mk b!"A" [.mk b!"x" false false (.string [] false)] [] none)]
          b!"foo.v1" ] }

/-- **The loader's fuel is irrelevant for acyclic package graphs** ("never hangs" at package
level): with a rank that decreases along every package dependency (`rankOk`), loading any package
with ANY two fuels above its rank (in particular `pkgs.length + 1` and every larger value) and any
two admissible chains gives the same outcome — the `err "fuel"` arm is not what decides a result. -/
theorem C07_load_fuel_independent (b : Bundle) (r : Str → Nat) (hr : rankOk b r = true)
    (f f' : Nat) (n : Str) (hf : r n < f) (hf' : r n < f') :
    loadPkg b f [] n = loadPkg b f' [] n :=
  loadPkg_indep b r hr f f' [] [] n hf hf' (by intro c hc; cases hc) (by intro c hc; cases hc)

/-- non-vacuity: a bundle with such a rank -/
example : rankOk { pkgs := [capturePkgForFuel] } (fun _ => 0) = true := by decide

/-! ## acceptance of the supported language -/

/-- **The converter accepts the supported language** (`C07_accepts`, converter half). For every
bundle that is valid — a decidable predicate on the sources alone (`ValidBundle`: package
declarations match paths; imports well formed; every declaration, entities expanded, within the
language `okItem`: references resolve to the right kind against the export tables computed from
the sources, enum `in` / `notIn` / default-filter values name options, no array / map directly in
an array / map, integer `exclusive*` rules come with their bound, no float rules [recorded
finding], nothing both required and explicitly optional, services named with verbs and path
parameters that exist, topic messages named; every dependency local or built in; acyclic package
graph) — `CompilePackage` up to the link step succeeds for every package: parsing of imports,
summaries, dependency loading and `ConvertJ5File` of every file report no error, whatever else the
files contain. Any number of packages, files, declarations, any nesting depth. -/
theorem C07_accepts_partial (b : Bundle) (r : Str → Nat) (hv : ValidBundle b r) (p : Pkg)
    (hp : p ∈ b.pkgs) : ∃ fs, compilePkg b p.name = .ok fs :=
  compilePkg_accepts b r hv p hp

/-- the full statement: …and the result links -/
def AcceptsAndLinks : Prop :=
  ∀ (b : Bundle) (r : Str → Nat), ValidBundle b r → ∀ p ∈ b.pkgs, (compileLinked b p.name).isOk = true

/-- the recorded finding `c07-rejected:valid-capture-inline-name`: an inline type whose default
name equals the name of its top-level ancestor (`object Foo { field foo object { … } }`) -/
def capturePkg : Pkg :=
  { name := b!"foo.v1", files :=
      [ .j5s b!"foo/v1/a.j5s" []
          [.object (.mk b!"Foo" [.mk b!"foo" false false
            (.objectInl [] [.mk b!"x" false false (.string [] false)] false [])] [] none)]
          b!"foo.v1" ] }

def captureBundle : Bundle := { pkgs := [capturePkg] }

theorem captureBundle_valid : ValidBundle captureBundle (fun _ => 0) := by
  refine ⟨by decide, fun n => by simp [captureBundle], by unfold WfBundle; decide, ?_⟩
  intro p hp
  simp only [captureBundle, List.mem_singleton] at hp
  subst hp
  exact ⟨rfl, by decide⟩

/-- **the full statement fails on the model as on the code**: the capture witness is valid, is
accepted by the converter, and does not link (j5convert writes the RELATIVE name `Foo.Foo`, which
protobuf scoping resolves inside the nested `Foo.Foo`). What is missing for a `links` theorem is
exactly the link half: for capture-free bundles with per-scope unique names, relative names
resolve to the inline type and no symbol is declared twice — not proved (see notes). -/
theorem C07_accepts_counterexample : ¬ AcceptsAndLinks := by
  intro h
  have := h captureBundle (fun _ => 0) captureBundle_valid capturePkg (by simp [captureBundle])
  revert this
  decide

/-- non-vacuity of `C07_accepts_partial` beyond the capture witness: two packages, an import by
last-but-one segment, a cross-file reference, an enum with list-rule default filters, a service
with a path parameter, a topic, an entity — a valid bundle (rank: `bar.v1` above `foo.v1`) -/
def validPkgs : List Pkg :=
  [ { name := b!"foo.v1", files :=
      [ .j5s b!"foo/v1/a.j5s" [] [.object (.mk b!"A" [.mk b!"x" false false (.string [] false)] [] none)]
          b!"foo.v1" ] },
    { name := b!"bar.v1", files :=
      [ .j5s b!"bar/v1/b.j5s" [] [.enum { name := b!"E", pfx := [], opts := [b!"ONE"] }] b!"bar.v1",
        .j5s b!"bar/v1/c.j5s" [⟨b!"foo.v1", []⟩]
          [ .object (.mk b!"C" [ .mk b!"a" false false (.objectRef b!"foo" b!"A" false []),
                                 .mk b!"e" false false (.enumRef [] b!"E" [] (some [b!"ONE"])),
                                 .mk b!"m" true false (.map (.integer .int64 [⟨b!"minimum", .int 1⟩] false) []) ]
              [] none),
            .service { name := some b!"Svc", basePath := some b!"/bar", methods :=
              [ { name := b!"Get", verb := .get, path := b!"/c/:cId",
                  request := some [.mk b!"cId" true false (.key .uuid .nokey [] false)],
                  response := some [.mk b!"c" false false (.objectRef [] b!"C" false [])] } ] },
            .topic { name := b!"Pub", type := .publish [{ name := some b!"Ping", props := [] }] },
            .entity { name := b!"thing", baseUrl := [],
                      keys := [⟨.mk b!"thingId" false false (.key .uuid (.ek (.primary true) none) [] false), false⟩],
                      data := [.mk b!"title" false false (.string [] false)], statuses := [b!"ACTIVE"],
                      events := [.mk b!"Made" [] [] none], commands := [], summaries := [],
                      query := some { eventsInGet := false, filters := [b!"ACTIVE"] }, nested := [] } ]
          b!"bar.v1" ] } ]

def validBundle : Bundle := { pkgs := validPkgs }
def validRank (n : Str) : Nat := if n = b!"bar.v1" then 1 else 0

example : ValidBundle validBundle validRank := by
  refine ⟨by decide, fun n => by unfold validRank; split <;> decide, by unfold WfBundle; decide, ?_⟩
  intro p hp
  simp only [validBundle, validPkgs, List.mem_cons, List.mem_nil_iff, or_false] at hp
  rcases hp with rfl | rfl
  · exact ⟨rfl, by decide⟩
  · exact ⟨rfl, by decide⟩

/-- **A rule in isolation** (the import facts of E5 on the model): a file that holds nothing but
one object with one field — of any scalar type, with ANY rule list the language supports, required
or not, directly or as array items / map values — converts, and the generated file imports the
file of every extension set on it. (Before 2a8c264 / 9a528a0 the imports were missing or the
conversion panicked; the link step then failed for exactly such files.) -/
theorem C07_isolated_rule (res : Resolver)
    (hres : ∀ im, WfCtx { resolve := resolveTypeNoImport im res })
    (f : Field) (req : Bool)
    (hf : okProperty (fileCtx res b!"iso/v1/only.j5s" []) (.mk b!"f" req false f) = true) :
    ∃ fs, convertFile res b!"iso/v1/only.j5s" []
        [.object (.mk b!"Only" [.mk b!"f" req false f] [] none)] = .ok fs ∧
      ∀ file ∈ fs, ∀ u ∈ file.uses, u = file.name ∨ u ∈ file.deps := by
  obtain ⟨fs, hfs⟩ := convertFile_accepts res b!"iso/v1/only.j5s" []
    [.object (.mk b!"Only" [.mk b!"f" req false f] [] none)] hres (by decide)
    (by simp [okElems, itemsOfElem, WfItem, WfDecl, WfNested, okItem, okDecl, okNested, okProps, hf])
  refine ⟨fs, hfs, ?_⟩
  exact convertFile_uses_imported res _ _ _ fs hfs (by intro s hs; simp at hs)

/-- every rule list is within the language for string / bool / bytes / date / decimal /
timestamp / key fields; integer rules when `exclusive*` comes with its bound -/
theorem C07_isolated_rule_scalars (c : Ctx) (d : Str) (rules : Rules) (lr : Bool) (fmt : IntFmt)
    (kf : KeyFmt) (ek : EntKey) :
    okField c d (.string rules lr) = true ∧ okField c d (.bool rules lr) = true ∧
    okField c d (.bytes rules) = true ∧ okField c d (.date rules lr) = true ∧
    okField c d (.decimal rules lr) = true ∧ okField c d (.timestamp rules) = true ∧
    okField c d (.key kf ek rules lr) = true ∧
    (intRulesErr rules = false → okField c d (.integer fmt rules lr) = true) := by
  refine ⟨rfl, rfl, rfl, rfl, rfl, rfl, rfl, ?_⟩
  intro h
  simp [okField, h]

/-! ## every generated file imports what it uses (the link precondition of E5, as a theorem) -/

/-- **Imports of extensions.** In every file `ConvertJ5File` returns — main file, `.service` and
`.topic` sub-package files — each file whose extensions are set on some option message
(`buf/validate`, `j5/ext/v1`, `j5/list/v1`, `google/api`, `j5/messaging/v1`) is among the file's
dependencies: for every field type, every rule list, required or not, inline and nested types at
any depth, services, topics, entities. This is what `markExtensionImportsUsed` and the
descriptor's option interpretation need at link time; a missing `ensureImport` in one branch of
`buildField` (the defects repaired by 2a8c264 / 9a528a0) breaks it. Side condition: a plain
`service` declaration carries no service annotation (the parser never produces one). -/
theorem C07_uses_imported (res : Resolver) (path : Str) (imports : List Import)
    (elems : List Elem) (fs : List FileSkel) (h : convertFile res path imports elems = .ok fs)
    (hplain : ∀ s, Elem.service s ∈ elems → s.sopt = .none) :
    ∀ f ∈ fs, ∀ u ∈ f.uses, u = f.name ∨ u ∈ f.deps :=
  convertFile_uses_imported res path imports elems fs h hplain

/-- …for every generated file of a package that loads -/
theorem C07_uses_imported_pkg (b : Bundle) (name : Str) (p : Pkg) (l : Loaded) (fuel : Nat)
    (chain : List Str) (hf : b.find name = some p) (hl : loadPkg b (fuel + 1) chain name = .ok l)
    (hplain : ∀ path imports elems decl, SrcFile.j5s path imports elems decl ∈ p.files →
      ∀ s, Elem.service s ∈ elems → s.sopt = .none) :
    ∀ f ∈ l.files, ∀ u ∈ f.uses, u = f.name ∨ u ∈ f.deps := by
  obtain ⟨hfiles, hok⟩ := loadPkg_ok_inv b fuel chain name p l hf hl
  intro f hfm
  rw [hfiles] at hfm
  obtain ⟨src, hsrc, hfs⟩ := List.mem_flatMap.mp hfm
  cases src with
  | proto path msgs enums => simp [convOf] at hfs
  | j5s path imports elems decl =>
    obtain ⟨fs, hconv⟩ := hok _ hsrc
    simp only [convOf, hconv] at hfs
    exact convertFile_uses_imported l.resolver path imports elems fs hconv
      (hplain path imports elems decl hsrc) f hfs

/-! ## the link half, bridge by bridge (`C07_link_*`)

`linkFiles` (`Compile/Link.lean`, the spec-level linker) fails in five ways: an import cycle, a
duplicate symbol, and per file an import that is not found, a used extension file that is not
imported, a type name that does not resolve. The bridges from the SOURCES to "this arm is not
taken" are proved one at a time. -/

/-- **Bridge: where imports come from.** Every dependency of every file `ConvertJ5File` returns —
main file and `.service` / `.topic` sub-package files, for every declaration kind, field kind,
rule list, nesting depth, services, topics, entities — is one of the eleven import constants of
`j5convert/imports.go` or the file of a type that a reference OCCURRING IN THE SOURCE FILE
(`fileRefs`: what `SourceSummary` collects — fields at any depth, request / response / topic
messages, entity parts) resolves to in the file's own context (`resolveTypeNoImport`: implicit
import, own package export, export of a direct dependency).
Nothing else is ever handed to `ensureImport`. No hypothesis beyond "the conversion succeeded". -/
theorem C07_link_deps_from (res : Resolver) (path : Str) (imports : List Import) (elems : List Elem)
    (fs : List FileSkel) (h : convertFile res path imports elems = .ok fs) :
    ∃ im, j5Imports (packageFromFilename (path ++ b!".proto")) imports = .ok im ∧
      ∀ f ∈ fs, ∀ d ∈ f.deps, d ∈ constImports ∨
        ∃ pkg schema t, (pkg, schema) ∈ fileRefs (packageFromFilename (path ++ b!".proto")) elems ∧
          resolveTypeNoImport im res pkg schema = some t ∧ t.file = d :=
  convertFile_deps_from res path imports elems fs h

/-- **Bridge: imports found.** For every local package that loads (any bundle, any dependency
graph, any fuel / chain), every dependency of every generated file names a file of the universe
`CompilePackage` links against: the package's own generated files, the generated files and
hand-written protos of the loaded dependency packages, or a built-in file — so the import lookup
of `linkFile` (`f.deps.mapM (univ.find? ·)`) succeeds for every file handed to the linker. -/
theorem C07_link_imports_found (b : Bundle) (fuel : Nat) (chain : List Str) (name : Str) (p : Pkg)
    (l : Loaded) (hf : b.find name = some p) (hl : loadPkg b (fuel + 1) chain name = .ok l) :
    ∀ f ∈ sortFiles l.files,
      (∀ d ∈ f.deps, ∃ g ∈ (sortFiles l.files).map (·.lfile) ++
          (l.depFiles.map (·.lfile) ++ l.protos.map protoLFile) ++ builtinFiles, g.name = d) ∧
      (f.deps.mapM fun d =>
        ((sortFiles l.files).map (·.lfile) ++ (l.depFiles.map (·.lfile) ++ l.protos.map protoLFile)
          ++ builtinFiles).find? (·.name = d)).isSome = true := by
  intro f hfm
  exact ⟨loadPkg_imports_found b fuel chain name p l hf hl f
      ((sortFiles_perm_self l.files).mem_iff.mp hfm),
    loadPkg_imports_lookup b fuel chain name p l hf hl f hfm⟩

/-- **Bridge: uses ⊆ deps**, in `linkFile`'s own terms: the extension-import check
(`markExtensionImportsUsed`) passes for every file handed to the linker. -/
theorem C07_link_uses (b : Bundle) (name : Str) (p : Pkg) (l : Loaded) (fuel : Nat)
    (chain : List Str) (hf : b.find name = some p) (hl : loadPkg b (fuel + 1) chain name = .ok l)
    (hplain : ∀ path imports elems decl, SrcFile.j5s path imports elems decl ∈ p.files →
      ∀ s, Elem.service s ∈ elems → s.sopt = .none) :
    ∀ f ∈ sortFiles l.files, (f.uses.all fun u => u = f.name || f.deps.contains u) = true := by
  intro f hfm
  have hfm' : f ∈ l.files := (sortFiles_perm_self l.files).mem_iff.mp hfm
  have h := C07_uses_imported_pkg b name p l fuel chain hf hl hplain f hfm'
  simp only [List.all_eq_true, Bool.or_eq_true, decide_eq_true_eq, List.contains_iff_mem]
  exact h

/-- **Bridge: no import cycle.** For every package of a valid bundle that has a file rank
(`fileRankOk b rk`, a `Bool` computed from the SOURCES: import constants have rank 0; every main
file `<path>.proto` has a positive rank below its `service` / `topic` sub-package files; every
reference occurring in a j5s file resolves — through the file's import map and the export tables
computed from the sources — into the file's own main file or into a file of smaller rank), no file
handed to the linker reaches itself through imports, whatever the search depth: the cycle check of
`linkFiles` (`CircularDependencyError` of `searchLinker`) passes. The files of the transitive
dependency packages are covered too (each is a generated file of the bundle, `load_genBy`).
Package-level acyclicity alone (`rankOk` in `ValidBundle`) does not give this: two files of one
package that use each other's types import each other. -/
theorem C07_link_acyclic (b : Bundle) (r : Str → Nat) (hv : ValidBundle b r) (rk : Str → Nat)
    (hrk : fileRankOk b rk = true) (p : Pkg) (hp : p ∈ b.pkgs) :
    ∃ l, loadPkg b (b.pkgs.length + 1) [] p.name = .ok l ∧
      ∀ n, (sortFiles l.files).any (fun f => reachesSelf (linkUniv l) f.name n f.name) = false :=
  link_acyclic b r hv rk hrk p hp

/-- **Acceptance including the link step — three of the five link arms from the sources**
(`C07_accepts`, link half, PARTIAL). For every package of a bundle that is valid (`ValidBundle`),
has a file rank (`fileRankOk`) and whose hand-written `service` declarations carry no entity
annotation (the parser never produces one): `CompilePackage` up to the link step succeeds with the
sorted generated files `out`, and the spec-level linker `linkFiles` accepts them — i.e.
`compileLinked = ok` — PROVIDED the two remaining arms are not taken on `out`:
`NoDupSyms` (no fully-qualified symbol twice over the linked set) and `NamesResolve` (every type
name of every field and rpc resolves by protobuf scoping). Proved from the sources: no import
cycle (`C07_link_acyclic`), every import found in the universe (`C07_link_imports_found`), every
used extension file imported (`C07_link_uses`). MISSING for the full partial statement
`ValidBundle' b → ∃ out, compilePkg = ok out ∧ link out = ok`: the source-level bridges to
`NoDupSyms` (per-scope uniqueness of declared, inline, map-entry, field, synthetic-oneof and enum
value names, also against the dependency files) and to `NamesResolve` (relative names: no ancestor
has a child named like the first segment — the recorded capture class fails exactly this arm, see
the example below; absolute names: no earlier visible file shadows the symbol). -/
theorem C07_accepts_links_partial (b : Bundle) (r : Str → Nat) (hv : ValidBundle b r)
    (rk : Str → Nat) (hrk : fileRankOk b rk = true) (p : Pkg) (hp : p ∈ b.pkgs)
    (hplain : ∀ path imports elems decl, SrcFile.j5s path imports elems decl ∈ p.files →
      ∀ s, Elem.service s ∈ elems → s.sopt = .none) :
    ∃ l out, loadPkg b (b.pkgs.length + 1) [] p.name = .ok l ∧ compilePkg b p.name = .ok out ∧
      out = sortFiles l.files ∧
      (NoDupSyms (linkUniv l) out → (∀ f ∈ out, NamesResolve (linkUniv l) f) →
        ∃ linked, compileLinked b p.name = .ok linked) := by
  obtain ⟨l, hl, hc, h⟩ := compileLinked_ok_of_bridges b r hv rk hrk p hp hplain
  exact ⟨l, _, hl, hc, rfl, h⟩

/-- **…and the two remaining arms are exactly what is left**: under the same source-level
hypotheses the package links IF AND ONLY IF no symbol is declared twice over the linked set and
every type name resolves — no other arm of `linkFiles` remains for a valid bundle with a file rank.
(So a full `links` theorem ABOUT THE LINK MODEL needs precisely the two missing bridges.)
Scope: `linkFiles` is a SPEC of the link step of `CompilePackage` (protocompile: imports, cycles,
symbols, name scoping, extension imports), validated against the real `CompilePackage` only by the
differential streams. It has no arm for descriptor well-formedness rules that protocompile's link
does not enforce either: an entity with 0 events or a `oneof Empty {}` (both pass `ValidBundle`)
compile AND link in the code as in the model, and are rejected only later by `protodesc.NewFiles`
("oneof must contain at least one field") — the recorded open findings
`c17-client-api:entity-without-events` (compile.json) and `empty-oneof` (print.json). The iff says
nothing about that later stage. -/
theorem C07_links_iff (b : Bundle) (r : Str → Nat) (hv : ValidBundle b r)
    (rk : Str → Nat) (hrk : fileRankOk b rk = true) (p : Pkg) (hp : p ∈ b.pkgs)
    (hplain : ∀ path imports elems decl, SrcFile.j5s path imports elems decl ∈ p.files →
      ∀ s, Elem.service s ∈ elems → s.sopt = .none) :
    ∃ l, loadPkg b (b.pkgs.length + 1) [] p.name = .ok l ∧
      ((∃ out, compileLinked b p.name = .ok out) ↔
        (NoDupSyms (linkUniv l) (sortFiles l.files) ∧
          ∀ f ∈ sortFiles l.files, NamesResolve (linkUniv l) f)) :=
  compileLinked_ok_iff b r hv rk hrk p hp hplain

/-- **Bridge (link-model half): relative names resolve.** j5convert writes inline types, map
entries and rpc messages as RELATIVE names. In the link model, for any file `self`, any imports and
any stack `scopes` of enclosing messages: a relative name `name` (not starting with a dot) whose
full form `<pkg>.<name>` is a message / enum symbol of the file, whose first segment is a message
of the package (or is the whole name), resolves by protobuf scoping to exactly `.<pkg>.<name>` of
the wanted kind — provided NO enclosing message scope has a child or namespace named like the first
segment (`hnocap`: the capture condition; the recorded finding `valid-capture-inline-name` is a
violation of it, example below). Still open: deriving `hsym` / `hfirst` / `hnocap` for every
reference of every generated file from the sources (`C02_declared_types_link` gives the symbols of
declared types; the scopes of a field are the `NestPath` prefixes). -/
theorem C07_link_relative_resolves (self : LFile) (deps : List LFile) (scopes : List Str) (name : Str)
    (k k1 : SymKind) (hk : k = .msg ∨ k = .enum)
    (hrel : ∀ rest, name ≠ 46 :: rest) (hpkg : self.pkg ≠ [])
    (hsym : self.syms.lookup (qual self.pkg name) = some k)
    (hfirst : self.syms.lookup (qual self.pkg (firstPart name)) = some k1)
    (hagg : k1 = .msg ∨ firstPart name = name)
    (hnocap : ∀ m ∈ scopes, self.find (qual m (firstPart name)) = none) :
    resolveType self (self :: deps) scopes k name = some (b!"." ++ qual self.pkg name) :=
  resolveType_relative self deps scopes name k k1 hk hrel hpkg hsym hfirst hagg hnocap

/-- **Bridge (link-model half): absolute names resolve.** References to declared types and the
well-known types are written absolutely (`.pkg.Name`, `TypeRef.protoTypeName`). In the link model
such a name resolves to itself, with the wanted kind, as soon as some visible file `g` declares it
and every file visible BEFORE `g` (the file itself first, then its imports in sorted order) neither
declares the name nor has a package namespace matching it (`f.find abs = none`), from any scope.
With `C02_declared_types_link` (the declaring file has the symbol), `C02_refs_resolve_pkg` (the
declaring file is the file itself or one of its deps) and `C07_link_imports_found` (the dep is in
the universe) what is still open for references is the shadowing condition `hbefore` from the
sources. -/
theorem C07_link_absolute_resolves (self : LFile) (before after : List LFile) (g : LFile)
    (scopes : List Str) (abs : Str) (k : SymKind)
    (hbefore : ∀ f ∈ before, f.find abs = none)
    (hsym : g.syms.lookup abs = some k) :
    resolveType self (before ++ g :: after) scopes k (46 :: abs) = some (b!"." ++ abs) :=
  resolveType_absolute self before after g scopes abs k hbefore hsym

/-- **`NamesResolve`, site by site.** The resolution arm of a generated file is a statement about
each field *site* — every field of every (nested) message together with the stack of enclosing
message names `resolveMsg` resolves it in (`msgsSites`) — and about each rpc's input and output:
the arm is not taken iff the type name at every site and of every rpc resolves. The two lemmas
above discharge one site each; what is open is to supply their hypotheses for every site from the
sources. -/
theorem C07_link_names_sites (univ : List LFile) (f : FileSkel) :
    NamesResolve univ f ↔
      (∀ s ∈ msgsSites [] f.pkg f.msgs, (resolveField f.lfile (visOf univ f) s.1 s.2).isSome = true) ∧
      (∀ svc ∈ f.svcs, ∀ m ∈ svc.methods,
        (resolveType f.lfile (visOf univ f) [] .msg m.input).isSome = true ∧
        (resolveType f.lfile (visOf univ f) [] .msg m.output).isSome = true) :=
  namesResolve_iff univ f

/-- non-vacuity of the link bridges: a two-file package `bar.v1` (`c.j5s` refers to the enum `E` of
`b.j5s` — cross-file — and to `foo.v1`'s `A` through an import — cross-package — and holds a map
field with rules) next to `foo.v1` -/
def linkPkgs : List Pkg :=
  [ { name := b!"foo.v1", files :=
      [ .j5s b!"foo/v1/a.j5s" [] [.object (.mk b!"A" [.mk b!"x" false false (.string [] false)] [] none)]
          b!"foo.v1" ] },
    { name := b!"bar.v1", files :=
      [ .j5s b!"bar/v1/b.j5s" [] [.enum { name := b!"E", pfx := [], opts := [b!"ONE"] }] b!"bar.v1",
        .j5s b!"bar/v1/c.j5s" [⟨b!"foo.v1", []⟩]
          [ .object (.mk b!"C" [ .mk b!"a" false false (.objectRef b!"foo" b!"A" false []),
                                 .mk b!"e" false false (.enumRef [] b!"E" [] (some [b!"ONE"])),
                                 .mk b!"m" true false (.map (.integer .int64 [⟨b!"minimum", .int 1⟩] false) []),
                                 .mk b!"in" false false
                                   (.objectInl [] [.mk b!"y" false false (.string [] false)] false []) ]
              [] none) ]
          b!"bar.v1" ] } ]

def linkBundle : Bundle := { pkgs := linkPkgs }

/-- a file rank for `linkBundle`: `a` and `b` below `c`, sub-package files above their main file -/
def linkFileRank (n : Str) : Nat :=
  if n = b!"bar/v1/c.j5s.proto" then 3
  else if n = b!"bar/v1/service/c.p.j5s.proto" ∨ n = b!"bar/v1/topic/c.p.j5s.proto" then 4
  else if n = b!"foo/v1/a.j5s.proto" ∨ n = b!"bar/v1/b.j5s.proto" then 1
  else if n = b!"foo/v1/service/a.p.j5s.proto" ∨ n = b!"foo/v1/topic/a.p.j5s.proto" ∨
      n = b!"bar/v1/service/b.p.j5s.proto" ∨ n = b!"bar/v1/topic/b.p.j5s.proto" then 2
  else 0

theorem linkBundle_valid : ValidBundle linkBundle validRank := by
  refine ⟨by decide, fun n => by unfold validRank; split <;> decide, by unfold WfBundle; decide, ?_⟩
  intro p hp
  simp only [linkBundle, linkPkgs, List.mem_cons, List.mem_nil_iff, or_false] at hp
  rcases hp with rfl | rfl
  · exact ⟨rfl, by decide⟩
  · exact ⟨rfl, by decide⟩

example : fileRankOk linkBundle linkFileRank = true := by decide +kernel

def linkLoaded : Loaded := match loadPkg linkBundle 3 [] b!"bar.v1" with | .ok l => l | _ => default

/-- the two remaining arms hold on the generated files of `bar.v1` (so `C07_accepts_links_partial`
yields `compileLinked = ok` there), the files do carry a cross-file and a cross-package import, a
constant import, and the link result is `ok` -/
example : NoDupSyms (linkUniv linkLoaded) (sortFiles linkLoaded.files) ∧
    (sortFiles linkLoaded.files).all (namesResolve (linkUniv linkLoaded)) = true ∧
    (sortFiles linkLoaded.files).map (·.deps) =
      [[], [b!"bar/v1/b.j5s.proto", b!"buf/validate/validate.proto", b!"foo/v1/a.j5s.proto",
            b!"j5/ext/v1/annotations.proto", b!"j5/list/v1/annotations.proto"]] ∧
    (compileLinked linkBundle b!"bar.v1").isOk = true := by
  unfold NoDupSyms
  refine ⟨?_, ?_, ?_, ?_⟩ <;> decide +kernel

/-- a two-file cycle inside one package (`a.j5s` uses `B`, `b.j5s` uses `A`) is a valid bundle that
does NOT link: no file rank exists for it — the `fileRankOk` hypothesis is not redundant -/
def cyclePkg : Pkg :=
  { name := b!"foo.v1", files :=
      [ .j5s b!"foo/v1/a.j5s" []
          [.object (.mk b!"A" [.mk b!"b" false false (.objectRef [] b!"B" false [])] [] none)] b!"foo.v1",
        .j5s b!"foo/v1/b.j5s" []
          [.object (.mk b!"B" [.mk b!"a" false false (.objectRef [] b!"A" false [])] [] none)] b!"foo.v1" ] }

example : okPkg { pkgs := [cyclePkg] } cyclePkg = true ∧
    (compilePkg { pkgs := [cyclePkg] } b!"foo.v1").isOk = true ∧
    (compileLinked { pkgs := [cyclePkg] } b!"foo.v1").isOk = false := by
  refine ⟨?_, ?_, ?_⟩ <;> decide +kernel

/-- the recorded capture class fails exactly the `NamesResolve` arm: every other arm passes on the
capture witness (a rank exists, imports are found, no duplicate symbol) -/
def captureLoaded : Loaded := match loadPkg captureBundle 2 [] b!"foo.v1" with | .ok l => l | _ => default

example : fileRankOk captureBundle (fun n => if n = b!"foo/v1/a.j5s.proto" then 1
      else if n = b!"foo/v1/service/a.p.j5s.proto" ∨ n = b!"foo/v1/topic/a.p.j5s.proto" then 2 else 0) = true ∧
    NoDupSyms (linkUniv captureLoaded) (sortFiles captureLoaded.files) ∧
    (sortFiles captureLoaded.files).all (namesResolve (linkUniv captureLoaded)) = false := by
  unfold NoDupSyms
  refine ⟨?_, ?_, ?_⟩ <;> decide +kernel

/-- hypotheses of `C07_link_relative_resolves` on the generated file of `c.j5s`: the inline object of
field `in` is referred to as `C.In` from inside `bar.v1.C`; on the capture witness the name `Foo.Foo`
is captured: the scope `foo.v1.Foo` has a child `Foo` -/
example :
    (match (sortFiles linkLoaded.files)[1]? with
     | some f =>
       decide (f.lfile.syms.lookup (qual f.lfile.pkg b!"C.In") = some SymKind.msg) &&
       decide (f.lfile.syms.lookup (qual f.lfile.pkg (firstPart b!"C.In")) = some SymKind.msg) &&
       decide (f.lfile.find (qual b!"bar.v1.C" (firstPart b!"C.In")) = none) &&
       decide (f.lfile.pkg ≠ [])
     | none => false) = true ∧
    (match (sortFiles captureLoaded.files)[0]? with
     | some f => decide (f.lfile.find (qual b!"foo.v1.Foo" (firstPart b!"Foo.Foo")) ≠ none)
     | none => false) = true := by
  refine ⟨?_, ?_⟩ <;> decide +kernel

/-- hypotheses of `C07_link_absolute_resolves` on the generated file of `c.j5s`: `.foo.v1.A` is declared
by the third visible file (`foo/v1/a.j5s.proto`); the file itself, `bar/v1/b.j5s.proto` and
`buf/validate/validate.proto`, visible before it, do not know the name -/
example :
    (match (sortFiles linkLoaded.files)[1]? with
     | some f =>
       match visOf (linkUniv linkLoaded) f with
       | v0 :: v1 :: v2 :: g :: _ =>
         decide (g.name = b!"foo/v1/a.j5s.proto") &&
         decide (g.syms.lookup b!"foo.v1.A" = some SymKind.msg) &&
         [v0, v1, v2].all (fun v => decide (v.find b!"foo.v1.A" = none))
       | _ => false
     | none => false) = true := by decide +kernel

/-- the sites of the generated file of `c.j5s`: 7 fields in 3 messages (`C`, its map entry, the
inline `C.In`), the innermost with a scope stack of length 2 -/
example :
    (match (sortFiles linkLoaded.files)[1]? with
     | some f => decide ((msgsSites [] f.pkg f.msgs).length = 7) &&
         (msgsSites [] f.pkg f.msgs).any (fun s => decide (s.1 = [b!"bar.v1.C", b!"bar.v1.C.In"]))
     | none => false) = true := by decide +kernel

def emptyCtx : Ctx := { resolve := fun _ _ => none }

theorem emptyCtx_wf : WfCtx emptyCtx := by intro _ _ _ h; cases h

/-! ## literal conversion -/

/-- **Literal conversion is exact**: a decimal literal in the range of the attribute's integer
format converts to exactly that number, for every format. -/
theorem C07_literal_exact (fmt : ScalarFmt) (n : Nat) (hr : inRange fmt n = true) :
    astToScalar fmt (intLit n) = .ok (intValue fmt n) := by
  cases fmt <;> simp only [inRange, Bool.false_eq_true, decide_eq_true_eq] at hr
  case int32 =>
    simp [astToScalar, asInt, intLit, astBits, parseInt_fmtNat, intValue, Outcome.map, hr]
  case int64 =>
    simp [astToScalar, asInt, intLit, astBits, parseInt_fmtNat, intValue, Outcome.map, hr]
  case uint32 =>
    simp [astToScalar, asUint, intLit, astBits, intValue, Outcome.map, parseUint_fmtNat n 32 hr]
  case uint64 =>
    simp [astToScalar, asUint, intLit, astBits, intValue, Outcome.map, parseUint_fmtNat n 64 hr]

/-- out-of-range literals are rejected (never wrapped or truncated) -/
theorem C07_literal_range_rejected (fmt : ScalarFmt) (n : Nat)
    (hf : fmt = .int32 ∨ fmt = .int64 ∨ fmt = .uint32 ∨ fmt = .uint64)
    (hr : inRange fmt n = false) : ∃ e, astToScalar fmt (intLit n) = .err e := by
  rcases hf with h | h | h | h <;> subst h <;>
    simp only [inRange, decide_eq_false_iff_not] at hr
  · have : ¬ n < 2 ^ (32 - 1) := by simpa using hr
    simp [astToScalar, asInt, intLit, astBits, parseInt_fmtNat, Outcome.map, this]
  · have : ¬ n < 2 ^ (64 - 1) := by simpa using hr
    simp [astToScalar, asInt, intLit, astBits, parseInt_fmtNat, Outcome.map, this]
  · simp [astToScalar, asUint, intLit, astBits, Outcome.map, parseUint_fmtNat_range n 32 hr]
  · simp [astToScalar, asUint, intLit, astBits, Outcome.map, parseUint_fmtNat_range n 64 hr]

/-- literal conversion never panics, whatever the token -/
theorem C07_literal_no_panic (fmt : ScalarFmt) (t : AstTok) :
    (astToScalar fmt t).isPanic = false := by
  have hmap : ∀ {α β : Type} (f : α → β) (o : Outcome α), (o.map f).isPanic = o.isPanic := by
    intro α β f o; cases o <;> rfl
  have hb : (asBool t).isPanic = false := by unfold asBool; split <;> rfl
  have hs : (asString t).isPanic = false := by unfold asString; split <;> rfl
  have hi : ∀ k, (asInt t k).isPanic = false := by
    intro k; unfold asInt; split
    · rfl
    · split <;> rfl
  have hu : ∀ k, (asUint t k).isPanic = false := by
    intro k; unfold asUint; split
    · rfl
    · split <;> rfl
  cases fmt <;> simp only [astToScalar, hmap, hb, hs, hi, hu] <;> rfl

/-! ## Non-vacuity -/

/-- the formerly panicking inputs convert without panic (date rules, required map) -/
example : (bProps emptyCtx [b!"Foo"] false 1
    [ .mk b!"a" false false (.date [⟨b!"minimum", .str b!"2020-01-01"⟩] false),
      .mk b!"m" true false (.map (.string [] false) []) ]).eff.panic = false := by decide

/-- a bundle satisfying the hypothesis of `C07_compile_no_panic`: an entity, a service, a oneof -/
def exBundle : Bundle :=
  { pkgs := [ { name := b!"foo.v1", files :=
      [ .j5s b!"foo/v1/a.j5s" []
          [ .oneof (.mk b!"Choice" [.mk b!"a" false false (.string [] false)] [] none),
            .service { name := some b!"Foo", basePath := some b!"/foo", methods :=
              [ { name := b!"GetFoo", verb := .get, path := b!":id",
                  request := some [.mk b!"id" true false (.key .uuid .nokey [] false)],
                  response := some [] } ] },
            .entity { name := b!"thing", baseUrl := [], keys := [], data := [], statuses := [b!"A"],
                      events := [.mk b!"Made" [] [] none], commands := [], summaries := [],
                      query := none, nested := [] } ] b!"foo.v1" ] } ] }

example : WfBundle exBundle := by unfold WfBundle; decide

/-- the hypotheses of `C07_uses_imported` on the witnesses of 2a8c264 / 9a528a0: a file holding one
object with a string field with rules and a date field with rules converts, and its file does set
extensions of two other files -/
def exRuleElems : List Elem :=
  [.object (.mk b!"Only"
    [ .mk b!"f" false false (.string [⟨b!"minLength", .int 1⟩] false),
      .mk b!"d" false false (.date [⟨b!"minimum", .str b!"2020-01-01"⟩] false) ] [] none)]

example : (match convertFile ⟨b!"iso.v1", [], []⟩ b!"iso/v1/only.j5s" [] exRuleElems with
    | .ok fs => fs.map (fun f => (f.deps, dedup f.uses)) =
        [([b!"buf/validate/validate.proto", b!"j5/ext/v1/annotations.proto", b!"j5/types/date/v1/date.proto"],
          [b!"buf/validate/validate.proto", b!"j5/ext/v1/annotations.proto"])]
    | _ => false) = true ∧ (∀ s, Elem.service s ∈ exRuleElems → s.sopt = .none) := by
  refine ⟨by decide, ?_⟩
  intro s hs
  simp [exRuleElems] at hs

example : inRange .int64 (2 ^ 31) = true := by decide
example : astToScalar .uint64 (intLit 18446744073709551615) = .ok (.uint 18446744073709551615) := by
  decide

end J5V.Props.C07

/-! ## Obligations over facts regenerated from the current source (`extract setext`, `imports`) -/
namespace J5V.Props.C07
open J5V.Generated.Setext J5V.Generated.Imports

/-- **E4**: every `proto.SetExtension` call of j5convert passes a value whose static Go type is the
extension's declared type (a mismatch is a run-time panic) -/
theorem C07_src_setext_types :
    ∀ row ∈ setExtensionCalls, row.2.2.1 = row.2.2.2 := by decide

theorem C07_src_setext_count : setExtensionCallCount = setExtensionCalls.length := by decide

/-- the import constant that must be in scope where an extension / well-known type is used -/
def requiredImport (what : String) : Option String :=
  if what = "ext:validate.E_Field" then some "bufValidateImport"
  else if what = "ext:list_j5pb.E_Field" then some "j5ListAnnotationsImport"
  else if what = "ext:messaging_j5pb.E_Service" then some "messagingAnnotationsImport"
  else if what = "ext:annotations.E_Http" then some "googleApiAnnotationsImport"
  else if what = "type:.j5.types.date.v1.Date" then some "j5DateImport"
  else if what = "type:.j5.types.decimal.v1.Decimal" then some "j5DecimalImport"
  else if what = "type:.j5.types.any.v1.Any" then some "j5AnyImport"
  else if what = "type:.google.protobuf.Timestamp" then some "pbTimestamp"
  else if what = "type:googleProtoEmptyType" then some "googleProtoEmptyImport"
  else none

/-- **E5**: every branch imports the file of what it uses. (Extensions of `j5/ext/v1` need no
per-branch import: a field, method or service always sits in a file that holds a message, and
`visitObjectNode` / `visitOneofNode` import it — last two conjuncts.) -/
theorem C07_src_branch_imports :
    (∀ row ∈ uses, ∀ imp, requiredImport row.2.2.1 = some imp → imp ∈ row.2.2.2) ∧
    ("conversionVisitor.visitObjectNode", "", "ext:ext_j5pb.E_Message", ["j5ExtImport"]) ∈ uses ∧
    ("conversionVisitor.visitOneofNode", "", "ext:ext_j5pb.E_Message", ["j5ExtImport"]) ∈ uses := by
  decide

end J5V.Props.C07
