import J5V.Bcl.FmtDiffProofs
import J5V.Bcl.TrailingBytes
import J5V.Generated.BclunicodeFacts
import J5V.Generated.BcltokensFacts
/-!
# C19 — editor format edits are well-formed and equal the formatter

Only property theorems (+ non-vacuity examples, + obligations over regenerated source facts).
Models: `J5V.Bcl.Diff` (`fmtDiffs` = merge pass + edit loop, `rangeLines`, `gapNeeded`, `applyEdits`),
`J5V.Bcl.FmtDiffs` (`fmtDiffsSrc`, `fmtSrc`, `fragEdits`); lemmas: `DiffProofs`, `FmtDiffProofs`
(which rests on the parser position invariants of C11 and on `[]rune(string)` keeping line structure).
All statements hold for every classifier and every byte string; no bound.
-/
namespace J5V.Props.C19
open J5V.Go J5V.Bcl

/-- `FragRangesWF`: the fragments the formatter collects for `bytes` have line ranges with
`from < to ≤ lineCount`, each starting no earlier than the last line of the previous one. -/
def FragRangesWF (cls : Cls) (bytes : List Nat) : Prop :=
  ∀ frags, collectFragments cls (decodeRunes bytes) = .ok frags →
    RawWF (splitLines bytes).length 0 (fragEdits cls frags)

/-- The fragment ranges are well-formed for **every** source: consequence of the parser's position
invariants (every fragment has `start ≤ end` inside the file, fragments are in source order). -/
theorem C19_frag_ranges_wf (cls : Cls) (bytes : List Nat) : FragRangesWF cls bytes :=
  fun frags h => fragEdits_rawWF cls bytes frags h

/-- `FmtDiffs` never panics, on any input (no `lines[from:to]` out of range, no `lines[lastEnd]` out
of range, no lexer / walker panic). -/
theorem C19_never_panics (cls : Cls) (bytes : List Nat) (s : String) :
    fmtDiffsSrc cls bytes ≠ .panic s := by
  unfold fmtDiffsSrc
  have hc := collectFragments_spec (fun _ => True) cls (decodeRunes bytes) (fun _ _ => trivial)
  cases h : collectFragments cls (decodeRunes bytes) with
  | panic w => rw [h] at hc; exact hc.elim
  | err => simp
  | ok frags =>
    obtain ⟨es, he, _⟩ := fmtDiffs_spec (splitLines bytes) (fragEdits cls frags)
      (C19_frag_ranges_wf cls bytes frags h)
    simp [he]

/-- For every source the formatter accepts, the list of line edits is computed without failure. -/
theorem C19_no_panic (cls : Cls) (bytes : List Nat) (hfmt : ∃ out, fmtSrc cls bytes = .ok out) :
    ∃ es, fmtDiffsSrc cls bytes = .ok es := by
  unfold fmtDiffsSrc
  unfold fmtSrc fmt at hfmt
  cases hc : collectFragments cls (decodeRunes bytes) with
  | panic s => rw [hc] at hfmt; obtain ⟨_, h⟩ := hfmt; cases h
  | err => rw [hc] at hfmt; obtain ⟨_, h⟩ := hfmt; cases h
  | ok frags =>
    obtain ⟨es, he, _⟩ := fmtDiffs_spec (splitLines bytes) (fragEdits cls frags)
      (C19_frag_ranges_wf cls bytes frags hc)
    simp only [he]
    exact ⟨es, rfl⟩

/-- The edits are in ascending order, do not overlap, and satisfy `start ≤ end ≤ number of lines`
(`EditsWF n 0 es`: each edit starts at or after the end of the previous one, `from ≤ to ≤ n`). -/
theorem C19_wellformed (cls : Cls) (bytes : List Nat) (es : List Edit)
    (h : fmtDiffsSrc cls bytes = .ok es) : EditsWF (splitLines bytes).length 0 es := by
  unfold fmtDiffsSrc at h
  cases hc : collectFragments cls (decodeRunes bytes) with
  | panic s => rw [hc] at h; cases h
  | err => rw [hc] at h; cases h
  | ok frags =>
    rw [hc] at h
    obtain ⟨es', he, hw⟩ := fmtDiffs_spec (splitLines bytes) (fragEdits cls frags)
      (C19_frag_ranges_wf cls bytes frags hc)
    simp only [he] at h
    cases h
    exact hw

/-- The same two facts for `fmtDiffs` itself over **arbitrary** source lines and fragments (not only
those the formatter produces). -/
theorem C19_fmtDiffs_wellformed (lines : List (List Nat)) (frags : List Edit)
    (h : RawWF lines.length 0 frags) :
    ∃ es, fmtDiffs lines frags = .ok es ∧ EditsWF lines.length 0 es :=
  fmtDiffs_spec lines frags h

/-! ## Applying the edits equals the formatter -/

/-- After the last fragment only white space is left: every line of the source from the last
fragment's end on is empty or whitespace-only. (Lexer: every rune that is not white space lies in a
token that is not an EOL; walker: every such token ends on or before the last line of some fragment —
a statement's trailing comment and EOL are on its last line.) -/
theorem C19_trailing_blank (cls : Cls) (hcls : ClsNL cls) (bytes : List Nat) :
    TrailingBlank cls bytes :=
  trailingBlank_all cls hcls bytes

/-- **Applying the edits to the document produces the formatter's output up to trailing blank lines**
(`EqT`: equal line lists after dropping trailing empty / whitespace-only lines and a final newline).
`applyEdits` is the LSP application: every edit replaces the byte range between the starts of its
lines; all edits refer to the original document (`C19_apply_document`). For every byte string and every
classifier for which `\n` is neither a letter nor a digit (`ClsNL`; Go's tables satisfy it:
`C19_src_newline_class`). -/
theorem C19_apply_eq_fmt (cls : Cls) (hcls : ClsNL cls) (bytes out : List Nat)
    (hfmt : fmtSrc cls bytes = .ok out) :
    ∃ es, fmtDiffsSrc cls bytes = .ok es ∧
      EqT (blankLine cls) (applyEdits (splitLines bytes) es) out :=
  fmtDiffs_apply_eq_fmt cls bytes (trailingBlank_all cls hcls bytes) out hfmt

/-- the same with `TrailingBlank` as an explicit hypothesis instead of `ClsNL` (any classifier) -/
theorem C19_apply_eq_fmt_partial (cls : Cls) (bytes : List Nat) (ht : TrailingBlank cls bytes)
    (out : List Nat) (hfmt : fmtSrc cls bytes = .ok out) :
    ∃ es, fmtDiffsSrc cls bytes = .ok es ∧
      EqT (blankLine cls) (applyEdits (splitLines bytes) es) out :=
  fmtDiffs_apply_eq_fmt cls bytes ht out hfmt

/-- The same for `fmtDiffs` over **arbitrary** lines and fragments: well-formed ranges, fragment texts
ending in a newline, blank lines after the last fragment. Covers the merge pass (several statements on
one line), multi-line fragments, leading / trailing blank lines, single and multiple gap lines. -/
theorem C19_fmtDiffs_apply (blank : List Nat → Bool) (hb : blank [] = true) (L : List (List Nat))
    (hL : L ≠ []) (hnl : ∀ l ∈ L, cNL ∉ l) (all : List Edit) (h : RawWF L.length 0 all)
    (hends : ∀ d ∈ all, ∃ x, d.newText = x ++ [cNL])
    (htrail : ∀ l ∈ L.drop (lastTo all 0), blank l = true) :
    ∃ es, fmtDiffs L all = .ok es ∧ EqT blank (applyEdits L es) (joinFrags all none) :=
  apply_eqT blank hb L hL hnl all h hends htrail

/-- the document `applyEdits` works on is the source itself -/
theorem C19_apply_document (bytes : List Nat) : joinWith [cNL] (splitLines bytes) = bytes :=
  joinWith_splitLines bytes

/-! ## Non-vacuity: a realistic source (leading blank lines, double gap, block, trailing comment,
header with trailing comment below line 1, whitespace-only gap line, two statements on one line,
trailing blank lines) is accepted by the formatter, satisfies `TrailingBlank` and produces edits -/

def sample : List Nat :=
  ofAscii "\n\na  =  1\n\n\n  b {\nc = \"x\" // k\nd e // t\n \nf = 2\n} g = 2\n  \n\n"

example : (match fmtSrc asciiCls sample with | .ok _ => true | _ => false) = true := by
  decide +kernel
example : (match fmtDiffsSrc asciiCls sample with | .ok es => decide (es.length ≥ 4) | _ => false)
    = true := by decide +kernel

/-- Boolean form of `TrailingBlank` for evaluation -/
def trailingBlankB (cls : Cls) (bytes : List Nat) : Bool :=
  match collectFragments cls (decodeRunes bytes) with
  | .ok frags => ((splitLines bytes).drop (lastTo (fragEdits cls frags) 0)).all (blankLine cls)
  | _ => true

theorem trailingBlankB_sound (cls : Cls) (bytes : List Nat) (h : trailingBlankB cls bytes = true) :
    TrailingBlank cls bytes := by
  intro frags hc l hl
  unfold trailingBlankB at h
  rw [hc] at h
  exact List.all_eq_true.mp h l hl

example : TrailingBlank asciiCls sample := trailingBlankB_sound _ _ (by decide +kernel)
example : ClsNL asciiCls := ⟨by decide, by decide⟩

end J5V.Props.C19

/-! ## Obligations over facts regenerated from the current source (`extract bcltokens`) -/
namespace J5V.Props.C19
open J5V.Generated.Bcltokens

/-- the conditions of `FmtDiffs` (merge test, leading edit, gap rule, changed test) are the modelled ones -/
theorem C19_src_fmtDiffs_conds : fmtDiffsConds =
    ["err != nil",
     "last := len(merged) - 1; last >= 0 && diff.FromLine < merged[last].ToLine",
     "idx == 0", "diff.FromLine > 0",
     "diff.FromLine > lastEnd+1 || (diff.FromLine == lastEnd+1 && lines.lines[lastEnd] != \"\")",
     "existing != diff.NewText"] := by decide
/-- in Go's tables `\n` is white space only — neither a digit (bit 2) nor a letter (bit 4) -/
theorem C19_src_newline_class : J5V.Generated.Bclunicode.asciiClass.getD 10 0 = 1 := by decide
theorem C19_src_rangeLines : rangeLinesBody = "{ return strings.Join(ls.lines[from:to], \"\\n\") + \"\\n\" }" := by
  decide

end J5V.Props.C19
