import J5V.Bcl.FmtDiffs
import J5V.Bcl.DiffProofs
/-!
# C19 — editor format edits are well-formed and equal the formatter

Only property theorems, full statements, counterexample witnesses and non-vacuity examples.
Models: `J5V.Bcl.Diff` (`fmtDiffs`, `rangeLines`, `applyEdits`), `J5V.Bcl.FmtDiffs`
(`fmtDiffsSrc`, `fmtSrc`, `fragEdits`); lemmas: `J5V.Bcl.DiffProofs`.
-/
namespace J5V.Props.C19
open J5V.Go J5V.Bcl

/-- `FragRangesWF`: the fragments the formatter collects for `bytes` have ascending,
non-overlapping line ranges with `from < to ≤ lineCount`. Decidable. -/
def FragRangesWF (cls : Cls) (bytes : List Nat) : Prop :=
  match collectFragments cls (decodeRunes bytes) with
  | .ok frags => FragsWF (splitLines bytes).length 0 (fragEdits cls frags)
  | _ => True

instance (cls : Cls) (bytes : List Nat) : Decidable (FragRangesWF cls bytes) := by
  unfold FragRangesWF; split <;> exact inferInstance

/-! ## The property as stated (full strength) -/

/-- "for every source the formatter accepts, the list of line edits is computed without failure" -/
def C19_no_panic_full : Prop :=
  ∀ (cls : Cls) (bytes : List Nat), (∃ out, fmtSrc cls bytes = .ok out) →
    ∃ es, fmtDiffsSrc cls bytes = .ok es

/-- "the edits are ascending, do not overlap, and satisfy start ≤ end ≤ number of lines" -/
def C19_wellformed_full : Prop :=
  ∀ (cls : Cls) (bytes : List Nat) (es : List Edit), fmtDiffsSrc cls bytes = .ok es →
    EditsWF (splitLines bytes).length 0 es

/-! ## The current code violates both (recorded findings; same witnesses replay on the Go side) -/

/-- a block header followed by a trailing comment below line 1: `walkStatement` never sets
`hdr.End` on the COMMENT path, so the fragment's `ToLine` is 1 and `lines[2:1]` panics. -/
theorem C19_no_panic_counterexample : ¬ C19_no_panic_full := by
  intro h
  have := h asciiCls (ofAscii "x\ny\nb // c") ⟨_, rfl⟩
  revert this
  decide

/-- `} foo = 1`: two fragments on the same line give two edits for the same line range. -/
theorem C19_wellformed_counterexample : ¬ C19_wellformed_full := by
  intro h
  have := h asciiCls (ofAscii "a {\n} foo = 1") _ rfl
  revert this
  decide

/-! ## What is proved: for every source whose fragment ranges are well-formed -/

/-- no panic (and no error) in `FmtDiffs` whenever the formatter accepts the source and the fragment
ranges are well-formed. -/
theorem C19_no_panic_partial (cls : Cls) (bytes : List Nat) (hwf : FragRangesWF cls bytes)
    (hfmt : ∃ out, fmtSrc cls bytes = .ok out) : ∃ es, fmtDiffsSrc cls bytes = .ok es := by
  unfold FragRangesWF at hwf
  unfold fmtDiffsSrc
  unfold fmtSrc fmt at hfmt
  cases hc : collectFragments cls (decodeRunes bytes) with
  | panic s => rw [hc] at hfmt; obtain ⟨_, h⟩ := hfmt; cases h
  | err => rw [hc] at hfmt; obtain ⟨_, h⟩ := hfmt; cases h
  | ok frags =>
    rw [hc] at hwf
    obtain ⟨es, he, _⟩ := fmtDiffs_spec (splitLines bytes) (fragEdits cls frags) hwf
    simp only [he]
    exact ⟨es, rfl⟩

/-- the edits are ascending, non-overlapping and within `0 ≤ from ≤ to ≤ lineCount`. -/
theorem C19_wellformed_partial (cls : Cls) (bytes : List Nat) (hwf : FragRangesWF cls bytes)
    (es : List Edit) (h : fmtDiffsSrc cls bytes = .ok es) :
    EditsWF (splitLines bytes).length 0 es := by
  unfold FragRangesWF at hwf
  unfold fmtDiffsSrc at h
  cases hc : collectFragments cls (decodeRunes bytes) with
  | panic s => rw [hc] at h; cases h
  | err => rw [hc] at h; cases h
  | ok frags =>
    rw [hc] at hwf h
    obtain ⟨es', he, hw⟩ := fmtDiffs_spec (splitLines bytes) (fragEdits cls frags) hwf
    simp only [he] at h
    cases h
    exact hw

/-- The same two facts for `fmtDiffs` itself over **arbitrary** source lines and fragments (not only
those the formatter produces). -/
theorem C19_fmtDiffs_wellformed (lines : List (List Nat)) (frags : List Edit)
    (h : FragsWF lines.length 0 frags) :
    ∃ es, fmtDiffs lines frags = .ok es ∧ EditsWF lines.length 0 es :=
  fmtDiffs_spec lines frags h

/-! ## Non-vacuity: realistic sources meet the hypotheses and produce edits -/

example : FragRangesWF asciiCls (ofAscii "\n\na  =  1\n\n\n  b {\nc = \"x\" // k\n}\n") := by decide
example : ∃ out, fmtSrc asciiCls (ofAscii "\n\na  =  1\n\n\n  b {\nc = \"x\" // k\n}\n") = .ok out :=
  ⟨_, rfl⟩
example : ∃ e1 e2 e3 es, fmtDiffsSrc asciiCls (ofAscii "\n\na  =  1\n\n\n  b {\nc = \"x\" // k\n}\n")
    = .ok (e1 :: e2 :: e3 :: es) := ⟨_, _, _, _, rfl⟩

end J5V.Props.C19
