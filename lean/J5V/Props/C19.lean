import J5V.Bcl.FmtDiffs
import J5V.Bcl.DiffProofs
/-!
# C19 — editor format edits are well-formed and equal the formatter

Only property theorems, full statements and non-vacuity examples.
Models: `J5V.Bcl.Diff` (`fmtDiffs`, `mergeFrags`, `rangeLines`, `applyEdits`), `J5V.Bcl.FmtDiffs`
(`fmtDiffsSrc`, `fmtSrc`, `fragEdits`); lemmas: `J5V.Bcl.DiffProofs`.
-/
namespace J5V.Props.C19
open J5V.Go J5V.Bcl

/-- `FragRangesWF`: the fragments the formatter collects for `bytes` have line ranges with
`from < to ≤ lineCount`, each starting no earlier than the last line of the previous one
(`RawWF`).  A decidable predicate of the source. -/
def FragRangesWF (cls : Cls) (bytes : List Nat) : Prop :=
  ∀ frags, collectFragments cls (decodeRunes bytes) = .ok frags →
    RawWF (splitLines bytes).length 0 (fragEdits cls frags)

/-- no panic (and no error) in `FmtDiffs` whenever the formatter accepts the source (given
well-formed fragment ranges). -/
theorem C19_no_panic_partial (cls : Cls) (bytes : List Nat) (hwf : FragRangesWF cls bytes)
    (hfmt : ∃ out, fmtSrc cls bytes = .ok out) : ∃ es, fmtDiffsSrc cls bytes = .ok es := by
  unfold fmtDiffsSrc
  unfold fmtSrc fmt at hfmt
  cases hc : collectFragments cls (decodeRunes bytes) with
  | panic s => rw [hc] at hfmt; obtain ⟨_, h⟩ := hfmt; cases h
  | err => rw [hc] at hfmt; obtain ⟨_, h⟩ := hfmt; cases h
  | ok frags =>
    obtain ⟨es, he, _⟩ := fmtDiffs_spec (splitLines bytes) (fragEdits cls frags) (hwf frags hc)
    simp only [he]
    exact ⟨es, rfl⟩

/-- the edits are ascending, non-overlapping and within `0 ≤ from ≤ to ≤ lineCount`
(`EditsWF n 0 es`: each edit starts at or after the end of the previous one, `from ≤ to ≤ n`). -/
theorem C19_wellformed_partial (cls : Cls) (bytes : List Nat) (hwf : FragRangesWF cls bytes)
    (es : List Edit) (h : fmtDiffsSrc cls bytes = .ok es) :
    EditsWF (splitLines bytes).length 0 es := by
  unfold fmtDiffsSrc at h
  cases hc : collectFragments cls (decodeRunes bytes) with
  | panic s => rw [hc] at h; cases h
  | err => rw [hc] at h; cases h
  | ok frags =>
    rw [hc] at h
    obtain ⟨es', he, hw⟩ := fmtDiffs_spec (splitLines bytes) (fragEdits cls frags) (hwf frags hc)
    simp only [he] at h
    cases h
    exact hw

/-- The same two facts for `fmtDiffs` itself over **arbitrary** source lines and fragments (not only
those the formatter produces). -/
theorem C19_fmtDiffs_wellformed (lines : List (List Nat)) (frags : List Edit)
    (h : RawWF lines.length 0 frags) :
    ∃ es, fmtDiffs lines frags = .ok es ∧ EditsWF lines.length 0 es :=
  fmtDiffs_spec lines frags h

/-! ## Non-vacuity: a realistic source (leading blank lines, double gap, block, trailing comment,
two statements on one line) meets the hypothesis, is accepted by the formatter and produces edits -/

def sample : List Nat := ofAscii "\n\na  =  1\n\n\n  b {\nc = \"x\" // k\n} d = 2\n"

/-- Boolean form of `FragRangesWF` for evaluation -/
def fragRangesOK (cls : Cls) (bytes : List Nat) : Bool :=
  match collectFragments cls (decodeRunes bytes) with
  | .ok frags => decide (RawWF (splitLines bytes).length 0 (fragEdits cls frags))
  | _ => true

theorem fragRangesOK_sound (cls : Cls) (bytes : List Nat) (h : fragRangesOK cls bytes = true) :
    FragRangesWF cls bytes := by
  intro frags hc
  unfold fragRangesOK at h
  rw [hc] at h
  exact of_decide_eq_true h

example : FragRangesWF asciiCls sample := fragRangesOK_sound _ _ (by decide +kernel)
example : (match fmtSrc asciiCls sample with | .ok _ => true | _ => false) = true := by
  decide +kernel
example : (match fmtDiffsSrc asciiCls sample with | .ok es => decide (es.length ≥ 3) | _ => false)
    = true := by decide +kernel

end J5V.Props.C19
