import J5V.Schema.ExportSet
import J5V.Schema.ImportTotal
import J5V.Generated.SchemaFacts
/-!
# C15 — schema sets survive export to the source-API form and re-import

Only the property theorems (and their non-vacuity examples) live here. All statements are about
`J5V.Schema.Export` (the model of `ToJ5Root / ToJ5Field` and of `schema_from_desc.go`), for
**every** field schema, root schema and schema set; no bound on sizes or nesting.

Hypotheses. Field / root level: `wfField / wfRoot` — an integer / float scalar carries one of the
formats the importer knows (`intKinds`, `floatKinds`); that the reader never builds another one is
`C18_reader_formats_importable`. Set level (`C15_fixpoint_set`, `C15_refs_link`): additionally
`SetWF s` (package names and schema keys unique) and `Closed s` (every reference held by a schema
of the set names a schema of the set). **These two are hypotheses, not derived**: there is no
theorem from C18's reader output (`Reg`) to `SetWF ∧ Closed` of the corresponding `SSet` (the
ingredients would be `C18_names_unique` / `C18_refs_linked`); on the Go side they are exercised by
the `schema.loop` stream only (the set dumped by the real reader is the model's input, and the
oracle `unlinked-ref` / `import-error` fires if a reference does not resolve).
-/
namespace J5V.Props.C15
open J5V.Go J5V.Schema

/-- export ∘ import ∘ export = export, for every field schema: the import of an exported field
succeeds and the result exports to exactly the same descriptor. -/
theorem C15_fixpoint_field (pkg : String) (f : SField) (h : wfField f = true) :
    ∃ f', fieldFromDesc pkg (toJ5Field f) = .ok f' ∧ toJ5Field f' = toJ5Field f :=
  ⟨normField f, fieldFromDesc_toJ5Field pkg f h, toJ5Field_norm f⟩

/-- export ∘ import ∘ export = export, for every root schema (object, oneof, enum), whatever
package it is imported into. -/
theorem C15_fixpoint (pkg : String) (r : SRoot) (h : wfRoot r = true) :
    ∃ r', rootFromDesc pkg (toJ5Root r) = .ok r' ∧ toJ5Root r' = toJ5Root r :=
  ⟨normRoot pkg r, rootFromDesc_toJ5Root pkg r h, toJ5Root_norm pkg r⟩

/-- The round trip never reaches an error arm of the importer. -/
theorem C15_import_total (pkg : String) (r : SRoot) (h : wfRoot r = true) :
    (rootFromDesc pkg (toJ5Root r)).isOk = true := by
  rw [rootFromDesc_toJ5Root pkg r h]; rfl

/-- **`PackageSetFromSourceAPI` never panics — on any source API**, export image or not. (Until the
nil check in `schemaFromDesc` an absent `ArrayField.items`, `MapField.item_schema` or
`ObjectProperty.schema` was a nil dereference; the `import` ops of `schema.loop` push exactly such
APIs through the real code.) -/
theorem C15_importer_never_panics (api : Api) : ∀ w, packageSetFromSourceAPI api ≠ .panic w :=
  packageSetFromSourceAPI_np api

/-- an API with an array without items: an error -/
example : packageSetFromSourceAPI
    [("p.v1", [("A", .object (.mk "A" "" "~" [] [.mk "xs" false false "" [1] (some (.array none "~" "~"))]))])] =
    .err "missing field schema" := by decide

/-! ### nothing is lost

What the round trip may change is spelled out by `normField / normProp / normRoot`: `Kind` and
`WellKnownTypeName` of a scalar (recomputed; not part of the export form), pointer registration,
`ReadOnly` / `WriteOnly` (never exported, never set by the reader) and the owning package. The
theorems below name every component the property lists and state that it is returned unchanged. -/

/-- rules, list rules, ext, flatten, any-types, the whole scalar type (with its rules and list
rules) and the referenced name of a field, as a comparable record -/
def fieldContent : SField → SField
  | .scalar tag fmt _ _ pay => .scalar tag fmt 0 "" pay
  | .any od types lr => .any od types lr
  | .enum ref rules lr ext => .enum ref.reg rules lr ext
  | .object ref fl rules ext => .object ref.reg fl rules ext
  | .oneof ref rules lr ext => .oneof ref.reg rules lr ext
  | .map item rules ext => .map (fieldContent item) rules ext
  | .array item rules ext => .array (fieldContent item) rules ext

/-- No rule, list rule, ext, flatten flag, any-type list or reference name of a field is lost or
altered by the round trip (at any nesting depth of arrays and maps). -/
theorem C15_nothing_lost_field (pkg : String) (f f' : SField)
    (h : fieldFromDesc pkg (toJ5Field f) = .ok f') : fieldContent f' = fieldContent f := by
  induction f generalizing f' with
  | scalar tag fmt k w pay =>
    simp only [toJ5Field, fieldFromDesc] at h
    cases tag <;> simp only [scalarFromDesc] at h
    all_goals first
      | (cases h; rfl)
      | (split at h <;> first | (cases h; rfl) | cases h)
  | any od types lr => simp only [toJ5Field, fieldFromDesc] at h; cases h; rfl
  | enum ref rules lr ext =>
    simp only [toJ5Field, fieldFromDesc] at h; cases h; simp [fieldContent, SRef.reg, SRef.toRef]
  | object ref fl rules ext =>
    simp only [toJ5Field, fieldFromDesc] at h; cases h; simp [fieldContent, SRef.reg, SRef.toRef]
  | oneof ref rules lr ext =>
    simp only [toJ5Field, fieldFromDesc] at h; cases h; simp [fieldContent, SRef.reg, SRef.toRef]
  | map item rules ext ih =>
    simp only [toJ5Field, fieldFromDesc] at h
    split at h
    · rename_i g hg; cases h; simp [fieldContent, ih g hg]
    · cases h
    · cases h
  | array item rules ext ih =>
    simp only [toJ5Field, fieldFromDesc] at h
    split at h
    · rename_i g hg; cases h; simp [fieldContent, ih g hg]
    · cases h
    · cases h

/-- name, description, entity marker, any-membership, enum prefix, enum options **with their
info maps**, enum info-field declarations, and per property: JSON name, required,
explicitly-optional, description, proto path and field content -/
def propContent (p : SProp) : SProp :=
  { p with readOnly := false, writeOnly := false, schema := fieldContent p.schema }

def rootContent : SRoot → SRoot
  | .object _ name desc entity am props => .object "" name desc entity am (props.map propContent)
  | .oneof _ name desc props => .oneof "" name desc (props.map propContent)
  | .enum _ name desc pfx options info => .enum "" name desc pfx options info

theorem fieldContent_norm (f : SField) : fieldContent (normField f) = fieldContent f := by
  induction f with
  | scalar tag fmt k w pay => cases tag <;> rfl
  | any od types lr => rfl
  | enum ref rules lr ext => simp [normField, fieldContent, SRef.reg]
  | object ref fl rules ext => simp [normField, fieldContent, SRef.reg]
  | oneof ref rules lr ext => simp [normField, fieldContent, SRef.reg]
  | map item rules ext ih => simp [normField, fieldContent, ih]
  | array item rules ext ih => simp [normField, fieldContent, ih]

/-- No rule, enum option info, entity marker, any-membership or list rule (nor anything else the
export form carries) is lost in the round trip of a root schema. -/
theorem C15_nothing_lost (pkg : String) (r r' : SRoot) (hwf : wfRoot r = true)
    (h : rootFromDesc pkg (toJ5Root r) = .ok r') : rootContent r' = rootContent r := by
  rw [rootFromDesc_toJ5Root pkg r hwf] at h
  cases h
  cases r <;>
    simp [normRoot, rootContent, List.map_map, Function.comp_def, propContent, normProp,
      fieldContent_norm]

/-- In particular the enum option info survives (the defect repaired by 622a251: before it the
importer returned options without `info` and no info-field declarations). -/
theorem C15_enum_info_kept (pkg p name desc pfx : String) (options : List EnumOption)
    (info : List InfoField) :
    rootFromDesc pkg (toJ5Root (.enum p name desc pfx options info)) =
      .ok (.enum pkg name desc pfx options info) := rfl

/-- … and the list rules of any / oneof / enum fields (repaired by 729e9c2). -/
theorem C15_list_rules_kept (pkg : String) (od : Bool) (types : List String) (lr : Pay)
    (ref : SRef) (rules ext : Pay) :
    fieldFromDesc pkg (toJ5Field (.any od types lr)) = .ok (.any od types lr) ∧
    fieldFromDesc pkg (toJ5Field (.oneof ref rules lr ext)) = .ok (.oneof ref.reg rules lr ext) ∧
    fieldFromDesc pkg (toJ5Field (.enum ref rules lr ext)) = .ok (.enum ref.reg rules lr ext) :=
  ⟨rfl, rfl, rfl⟩

/-! ### whole schema sets

A schema set as Go holds it (`SSet`: packages by name, schemas by key). `SetWF` = map keys are
unique and scalars carry importable formats; `Closed` = every reference held by a schema of the
set names a schema of the set (expected of every set the reader returns — referenced messages and
enums are reflected with the referrer — but NOT proved from the reader model: see the file header). -/

/-- `export (import (export s)) = export s` for a whole set, **with every reference resolved**:
`PackageSetFromSourceAPI` (all packages, then `assertRefsLink` on each) accepts the export of the
set, and each schema of the result exports to exactly what it exported to before — including
cross-package references, recursive types, and enums referenced only from fields. -/
theorem C15_fixpoint_set (s : SSet) (hwf : SetWF s) (hc : Closed s) :
    ∃ env', packageSetFromSourceAPI (toApi s) = .ok env' ∧
      ∀ p k, exportLookup env' p k = (lookupSet s p k).map toJ5Root := by
  obtain ⟨env', h1, h2, _⟩ := packageSet_roundtrip s hwf hc
  exact ⟨env', h1, h2⟩

/-- every reference of the re-imported set is resolved: every registered name (including the
placeholders created for references) is linked to a schema -/
theorem C15_refs_link (s : SSet) (hwf : SetWF s) (hc : Closed s) (env' : Env)
    (h : packageSetFromSourceAPI (toApi s) = .ok env') :
    ∀ e ∈ env'.entries, (env'.linkedAt e.pkg e.key).isSome = true := by
  obtain ⟨env'', h1, _, h3⟩ := packageSet_roundtrip s hwf hc
  rw [h] at h1
  cases h1
  exact h3

/-- the walk of `assertRefsLink` itself cannot fail once every reference resolves (whatever the
shape of the reference graph: cycles, self references, shared targets) -/
theorem C15_assertRefsLink_ok (env : Env)
    (hroots : ∀ p k r, env.linkedAt p k = some r → ∀ ref ∈ r.refs, Resolves env ref)
    (hentries : ∀ e ∈ env.entries, (env.linkedAt e.pkg e.key).isSome = true) (p : String) :
    assertRefsLink env p = .ok () := by
  have := assertAll_ok env hroots hentries [p]
  simp only [assertAll] at this
  split at this <;> simp_all

/-- what the driver exports from a parsed set is the export of that set -/
theorem C15_exportEnv_is_toApi (env : Env) : exportEnv env = toApi (envSet env) := exportEnv_eq env

/-! ## Non-vacuity -/

/-- a schema with every feature the property lists: entity marker, any-membership, rules, list
rules, enum reference, a map of arrays of integers -/
def sampleObject : SRoot :=
  .object "vt.v1" "Foo" "a foo" (some "0a03466f6f1002") ["vt_any"]
    [ ⟨"id", true, false, false, false, "key", [1],
        .scalar .key 0 kindString "" "ba0200"⟩,
      ⟨"kind", false, false, false, false, "", [2],
        .enum ⟨"vt.v1", "Kind", true⟩ (some "0a0141") (some "5200") none⟩,
      ⟨"anything", false, true, false, false, "", [3],
        .any true ["vt.v1.Foo"] (some "5200")⟩,
      ⟨"grid", false, false, false, false, "", [4],
        .map (.array (.scalar .integer 2 kindInt64 "" "fa01020802") (some "0801") none) none none⟩ ]

/-- a closed two-package set: `Foo` refers to the enum `Kind` of its own package, to itself
(through `parent`) and to `other.v1.Bar`, which refers back to `Foo` -/
def sampleSet : SSet :=
  [ ("vt.v1",
      [ ("Foo", .object "vt.v1" "Foo" "" none []
          [ ⟨"kind", false, false, false, false, "", [1], .enum ⟨"vt.v1", "Kind", true⟩ none none none⟩,
            ⟨"parent", false, false, false, false, "", [2], .object ⟨"vt.v1", "Foo", true⟩ false none none⟩,
            ⟨"bars", false, false, false, false, "", [3],
              .array (.object ⟨"other.v1", "Bar", true⟩ false none none) none none⟩ ]),
        ("Kind", .enum "vt.v1" "Kind" "" "KIND_" [⟨"UNSPECIFIED", 0, "", []⟩, ⟨"A", 1, "", [("colour", "red")]⟩]
          [⟨"colour", "Colour", ""⟩]) ]),
    ("other.v1",
      [ ("Bar", .oneof "other.v1" "Bar" "" [⟨"foo", false, false, false, false, "", [1],
          .object ⟨"vt.v1", "Foo", true⟩ true none none⟩]) ]) ]

example : SetWF sampleSet := ⟨by decide, by decide, by decide⟩
example : Closed sampleSet := by unfold Closed; decide

example : wfRoot sampleObject = true := by decide
example : (rootFromDesc "other.v1" (toJ5Root sampleObject)).isOk = true := by decide
/-- the hypothesis excludes something: an integer scalar with format UNSPECIFIED is rejected -/
example : fieldFromDesc "p" (toJ5Field (.scalar .integer 0 0 "" "fa0100")) =
    .err "unsupported integer format" := by decide

/-! ## Obligations over facts regenerated from the current source (`extract -what schema`)

**E10 — field copy.** `exportLits` lists every `schema_j5pb` composite literal the exporters
build (with the text of each value), `importLits` every `j5schema` struct literal the importers
build. `pairing` is the hand-written statement of the round trip: descriptor field ↔ struct
field, with the value text(s) an importer literal must carry for that field. The obligations:
every descriptor field an exporter writes is paired (an exported field without a reader is
exactly a "lost" finding), and **every** importer literal of the struct sets the paired field from
the paired descriptor field (so dropping it in one arm, as the original code did for inline
enums, breaks the obligation). -/
section Src
open J5V.Generated.Schema

/-- D messages that only wrap (oneof members, the root / field envelopes) -/
def wrappers : List String :=
  ["RootSchema", "RootSchema_Enum", "RootSchema_Object", "RootSchema_Oneof", "Field", "Field_Any",
   "Field_Enum", "Field_Object", "Field_Oneof", "Field_Map", "Field_Array", "Field_String_",
   "EnumField_Ref", "ObjectField_Ref", "OneofField_Ref"]

/-- ((D message, D field), (S struct, S field), accepted value texts in an importer literal;
`[]` = the field is filled in after the literal, see `laterReads`) -/
def pairing : List ((String × String) × (String × String) × List String) := [
  (("Enum_Option", "Name"), ("EnumOption", "name"), ["src.Name"]),
  (("Enum_Option", "Number"), ("EnumOption", "number"), ["src.Number"]),
  (("Enum_Option", "Description"), ("EnumOption", "description"), ["src.Description"]),
  (("Enum_Option", "Info"), ("EnumOption", "Info"), ["src.Info"]),
  (("Enum", "Name"), ("rootSchema", "name"), ["sch.Name"]),
  (("Enum", "Description"), ("rootSchema", "description"), ["sch.Description"]),
  (("Enum", "Options"), ("EnumSchema", "Options"), ["opts"]),
  (("Enum", "Prefix"), ("EnumSchema", "NamePrefix"), ["sch.Prefix"]),
  (("Enum", "Info"), ("EnumSchema", "InfoFields"), ["sch.Info"]),
  (("Object", "Description"), ("rootSchema", "description"), ["sch.Description"]),
  (("Object", "Name"), ("rootSchema", "name"), ["sch.Name"]),
  (("Object", "Properties"), ("ObjectSchema", "Properties"), ["make([]*ObjectProperty,len(sch.Properties))"]),
  (("Object", "Entity"), ("ObjectSchema", "Entity"), ["sch.Entity"]),
  (("Object", "AnyMember"), ("ObjectSchema", "AnyMember"), ["sch.AnyMember"]),
  (("Oneof", "Description"), ("rootSchema", "description"), ["sch.Description"]),
  (("Oneof", "Name"), ("rootSchema", "name"), ["sch.Name"]),
  (("Oneof", "Properties"), ("OneofSchema", "Properties"), ["make([]*ObjectProperty,len(sch.Properties))"]),
  (("ObjectProperty", "Schema"), ("ObjectProperty", "Schema"), ["propSchema"]),
  (("ObjectProperty", "Name"), ("ObjectProperty", "JSONName"), ["prop.Name"]),
  (("ObjectProperty", "Required"), ("ObjectProperty", "Required"), ["prop.Required"]),
  (("ObjectProperty", "ExplicitlyOptional"), ("ObjectProperty", "ExplicitlyOptional"), ["prop.ExplicitlyOptional"]),
  (("ObjectProperty", "Description"), ("ObjectProperty", "Description"), ["prop.Description"]),
  (("ObjectProperty", "ProtoField"), ("ObjectProperty", "ProtoField"), ["protoField"]),
  (("AnyField", "OnlyDefined"), ("AnyField", "OnlyDefined"), ["st.Any.OnlyDefined"]),
  (("AnyField", "Types"), ("AnyField", "Types"), ["stringSliceConvert(st.Any.Types)"]),
  (("AnyField", "ListRules"), ("AnyField", "ListRules"), ["st.Any.ListRules"]),
  (("EnumField", "Schema"), ("EnumField", "Ref"), ["ref", "item.AsRef()"]),
  (("EnumField", "Rules"), ("EnumField", "Rules"), ["st.Enum.Rules"]),
  (("EnumField", "ListRules"), ("EnumField", "ListRules"), ["st.Enum.ListRules"]),
  (("EnumField", "Ext"), ("EnumField", "Ext"), ["st.Enum.Ext"]),
  (("ObjectField", "Schema"), ("ObjectField", "Ref"), ["ref", "item.AsRef()"]),
  (("ObjectField", "Flatten"), ("ObjectField", "Flatten"), ["st.Object.Flatten"]),
  (("ObjectField", "Rules"), ("ObjectField", "Rules"), ["st.Object.Rules"]),
  (("ObjectField", "Ext"), ("ObjectField", "Ext"), ["st.Object.Ext"]),
  (("OneofField", "Schema"), ("OneofField", "Ref"), ["ref", "item.AsRef()"]),
  (("OneofField", "Rules"), ("OneofField", "Rules"), ["st.Oneof.Rules"]),
  (("OneofField", "ListRules"), ("OneofField", "ListRules"), ["st.Oneof.ListRules"]),
  (("OneofField", "Ext"), ("OneofField", "Ext"), ["st.Oneof.Ext"]),
  (("MapField", "ItemSchema"), ("MapField", "Schema"), []),
  (("MapField", "Rules"), ("MapField", "Rules"), ["st.Map.Rules"]),
  (("MapField", "Ext"), ("MapField", "Ext"), ["st.Map.Ext"]),
  (("ArrayField", "Items"), ("ArrayField", "Schema"), []),
  (("ArrayField", "Rules"), ("ArrayField", "Rules"), ["st.Array.Rules"]),
  (("ArrayField", "Ext"), ("ArrayField", "Ext"), ["st.Array.Ext"]),
  (("Ref", "Package"), ("RefSchema", "Package"), []),
  (("Ref", "Schema"), ("RefSchema", "Schema"), []) ]

/-- exported constants no importer needs (`MapField.key_schema` is always `string`) -/
def constants : List (String × String) := [("MapField", "KeySchema")]

/-- reads that must appear in an importer function for the fields filled in outside a literal -/
def laterReads : List (String × String) := [
  ("Package.schemaFromDesc", "st.Array.Items"), ("Package.schemaFromDesc", "st.Map.ItemSchema"),
  ("Package.schemaFromDesc", "field.Schema"),
  ("Package.schemaFromDesc", "inner.Ref.Package"), ("Package.schemaFromDesc", "inner.Ref.Schema"),
  ("Package.enumSchemaFromDesc", "sch.Options"),
  ("Package.objectSchemaFromDesc", "sch.Properties"), ("Package.objectSchemaFromDesc", "object.Properties"),
  ("Package.oneofSchemaFromDesc", "sch.Properties"), ("Package.oneofSchemaFromDesc", "oneof.Properties"),
  ("Package.objectPropertyFromDesc", "prop.Schema"), ("Package.objectPropertyFromDesc", "prop.ProtoField") ]

def everyExportedFieldIsPaired : Bool :=
  exportLits.all fun (_, typ, keys) =>
    wrappers.contains typ ||
    keys.all fun (k, _) => constants.contains (typ, k) || pairing.any fun (d, _, _) => d == (typ, k)

def everyImporterLiteralCopiesThePairedField : Bool :=
  pairing.all fun (_, (st, sf), texts) =>
    texts.isEmpty ||
    importLits.all fun (_, typ, keys) =>
      typ != st || keys.any fun (k, v) => k == sf && texts.contains v

def everyPairedStructIsBuilt : Bool :=
  pairing.all fun (_, (st, _), texts) => texts.isEmpty || importLits.any fun (_, typ, _) => typ == st

def laterReadsPresent : Bool :=
  laterReads.all fun (fn, e) => importReads.any fun (f, rs) => f == fn && rs.contains e

/-- the model's export writes exactly these descriptor fields; a new one needs a reader -/
theorem C15_src_exported_fields_paired : everyExportedFieldIsPaired = true := by decide
/-- every importer literal (every arm) copies the paired descriptor field -/
theorem C15_src_importers_copy : everyImporterLiteralCopiesThePairedField = true := by decide
theorem C15_src_importers_exist : everyPairedStructIsBuilt = true := by decide
theorem C15_src_later_reads : laterReadsPresent = true := by decide

/-! **E6-schema — type-switch coverage.** The importer's switches cover every member of the oneofs
they switch over (an uncovered member would fall into `default` = error, breaking the fixpoint),
and `assertRefsLink` looks into every field schema that can hold a reference. -/

def casesOf (fn subject : String) : List (List String) :=
  typeSwitches.filterMap fun (f, s, cs) => if f == fn && s == subject then some cs else none

def membersOf (iface : String) : List String :=
  (oneofMembers.find? fun (i, _) => i == iface).map (·.2) |>.getD ["<unknown oneof>"]

def covers (fn subject iface : String) : Bool :=
  match casesOf fn subject with
  | [cs] => (membersOf iface).all fun m => cs.contains m
  | _ => false

theorem C15_src_switch_field : covers "Package.schemaFromDesc" "schema.Type" "isField_Type" = true := by
  decide
theorem C15_src_switch_root : covers "Package.buildRoot" "schema.Type" "isRootSchema_Type" = true := by
  decide
theorem C15_src_switch_inner :
    covers "Package.schemaFromDesc" "st.Object.Schema" "isObjectField_Schema" = true ∧
    covers "Package.schemaFromDesc" "st.Oneof.Schema" "isOneofField_Schema" = true ∧
    covers "Package.schemaFromDesc" "st.Enum.Schema" "isEnumField_Schema" = true := by decide

/-- the model's `SField` has one constructor per `FieldSchema` implementation, and the walk of
`assertRefsLink` has a case for each one that holds a reference or a nested field -/
theorem C15_src_field_impls :
    fieldSchemaImpls = ["AnyField", "ArrayField", "EnumField", "MapField", "ObjectField",
      "OneofField", "ScalarSchema"] ∧
    casesOf "Package.assertRefsLink" "root" =
      [["ObjectSchema", "OneofSchema", "EnumSchema", "default"],
       ["ObjectField", "OneofField", "EnumField", "MapField", "ArrayField"]] := by decide

end Src

end J5V.Props.C15
