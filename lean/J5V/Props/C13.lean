import J5V.Compile.ConvertProofs
import J5V.Compile.AppendDecl
import J5V.Compile.Congr
import J5V.Compile.AppendDeclPkg
import J5V.Compile.AppendFresh
import J5V.Compile.ExactProofs
import J5V.Compile.AppendEdit
import J5V.Compile.AppendEditSvc
/-!
# C13 — appending declarations never changes existing wire identities

Statements about `J5V.Compile`, for every context, property list and edit; no bound on sizes.
The first layer (this file so far) is per container: the message of an object / oneof / request /
response / topic message under `appendField`, the value list of an enum under `appendOption`.
-/
namespace J5V.Props.C13
open J5V.Go J5V.Compile

/-- **Append a field.** Appending properties to a declared (or virtual) object / oneof leaves
every previously emitted field (name, JSON name, number, type, label, optionality, type name, oneof
index) exactly in place: the old field list is a prefix of the new one. Holds for the same
conversion context; see `C13_append_field_ctx` for when the context itself is unchanged. -/
theorem C13_append_field (c : Ctx) (np : List Str) (isOneof : Bool) (virt : List Property)
    (name : Str) (props extra : List Property) (nested : List Nested) (psm : Option Psm) :
    (declMsg c np isOneof virt name props nested psm).fields <+:
      (declMsg c np isOneof virt name (props ++ extra) nested psm).fields := by
  simp only [declMsg, mkMsg, MsgSkel.fields, ← List.append_assoc, bProps_append_flds]
  exact List.prefix_append _ _

/-- **Append a field, changed resolver.** An edit also changes the package's export table (a new
inline type is a new export), hence the conversion context. The existing fields are still exactly
preserved whenever the new context resolves the references of the *existing* properties as before
(`AgreeOn` — true when the names added by the edit are fresh). -/
theorem C13_append_field_ctx (c c' : Ctx) (np : List Str) (isOneof : Bool) (virt : List Property)
    (name : Str) (props extra : List Property) (nested nested' : List Nested) (psm : Option Psm)
    (h : AgreeOn c c' (refsProps (virt ++ props))) :
    (declMsg c np isOneof virt name props nested psm).fields <+:
      (declMsg c' np isOneof virt name (props ++ extra) nested' psm).fields := by
  simp only [declMsg, mkMsg, MsgSkel.fields]
  rw [bProps_congr c c' (np ++ [name]) isOneof 1 (virt ++ props) h, ← List.append_assoc,
    bProps_append_flds c' _ _ _ (virt ++ props) extra]
  exact List.prefix_append _ _

/-- …and the types nested under the message that come from its properties (inline objects, oneofs
and map entries) keep their position: the old property-derived nested messages are a prefix of the new ones. -/
theorem C13_append_field_nested (c : Ctx) (np : List Str) (isOneof : Bool) (n : Nat)
    (props extra : List Property) :
    (bProps c np isOneof n props).eff.msgs <+: (bProps c np isOneof n (props ++ extra)).eff.msgs ∧
    (bProps c np isOneof n props).eff.enums <+: (bProps c np isOneof n (props ++ extra)).eff.enums ∧
    (bProps c np isOneof n props).entries <+: (bProps c np isOneof n (props ++ extra)).entries := by
  rw [bProps_append_eff, bProps_append_entries]
  exact ⟨List.prefix_append _ _, List.prefix_append _ _, List.prefix_append _ _⟩

/-- the numbers handed out by `mapProperties` to existing properties do not move -/
theorem C13_append_field_numbers (virt props extra : List Property) :
    mapProperties virt props <+: mapProperties virt (props ++ extra) := by
  rw [mapProperties_prefix]
  exact List.prefix_append _ _

/-- **Append an option.** For every enum (empty or not, with or without an explicit zero) and every
new option name, appending the option keeps every existing value — name and number — in place.
(Before `fix: 50e59b3` this failed for an empty enum and an option ending in `UNSPECIFIED`, which
replaced the implicit zero under a different name; witness kept in the corpus.) -/
theorem C13_append_option (e : EnumDecl) (o : Str) :
    (convEnum e).name = (convEnum { e with opts := e.opts ++ [o] }).name ∧
    (convEnum e).values <+: (convEnum { e with opts := e.opts ++ [o] }).values :=
  ⟨rfl, enumValues_prefix_all (enumPrefix e) e.opts o⟩

/-- value 0 of every enum is `<PREFIX>UNSPECIFIED`, before and after any edit -/
theorem C13_enum_zero_stable (e : EnumDecl) :
    ∃ tl, (convEnum e).values = (enumPrefix e ++ b!"UNSPECIFIED", 0) :: tl :=
  enumValues_head (enumPrefix e) e.opts

/-- sequences of appended options (induction over the edit sequence) -/
theorem C13_append_option_seq (e : EnumDecl) (os : List Str) :
    (convEnum e).values <+: (convEnum { e with opts := e.opts ++ os }).values := by
  induction os generalizing e with
  | nil => simp
  | cons o os ih =>
    have h1 := (C13_append_option e o).2
    have h2 := ih { e with opts := e.opts ++ [o] }
    simp only [List.append_assoc, List.singleton_append] at h2
    exact List.IsPrefix.trans h1 h2

/-- sequences of appended fields -/
theorem C13_append_field_seq (c : Ctx) (np : List Str) (isOneof : Bool) (virt : List Property)
    (name : Str) (props : List Property) (edits : List (List Property)) (nested : List Nested)
    (psm : Option Psm) :
    (declMsg c np isOneof virt name props nested psm).fields <+:
      (declMsg c np isOneof virt name (edits.foldl (· ++ ·) props) nested psm).fields := by
  induction edits generalizing props with
  | nil => simp
  | cons e es ih =>
    exact List.IsPrefix.trans (C13_append_field c np isOneof virt name props e nested psm)
      (ih (props ++ e))

/-- **Append a declaration.** When a j5s file converts before and after a new top-level
declaration (object, oneof, enum, service, topic or entity) is added at its end — against the same
type resolver — every file generated before is generated again under the same name and package,
and its messages, enums and services are a prefix of the new lists: everything the existing
declarations produced (including all nested content, field numbers, enum values, methods) is
unchanged and keeps its position. -/
theorem C13_append_decl (res : Resolver) (path : Str) (imports : List Import)
    (elems : List Elem) (e : Elem) (fs fs' : List FileSkel)
    (h : convertFile res path imports elems = .ok fs)
    (h' : convertFile res path imports (elems ++ [e]) = .ok fs') :
    ∀ f ∈ fs, ∃ f' ∈ fs', f'.name = f.name ∧ f'.pkg = f.pkg ∧
      f.msgs <+: f'.msgs ∧ f.enums <+: f'.enums ∧ f.svcs <+: f'.svcs :=
  convertFile_append_decl res path imports elems e fs fs' h h'

/-- **Append a declaration, package level.** `CompilePackage` of a package before and after a
declaration is appended to one of its files (the other files, the other packages, the dependency
graph arbitrary). The edit changes the package's export table; provided the references of the
existing declarations resolve as before (`AgreeFile` — true when the names the new declaration
introduces are fresh), every generated file of the old compile is generated again under the same
name and package with the old messages, enums and services as a prefix. -/
theorem C13_append_decl_pkg (b b' : Bundle) (name : Str) (p p' : Pkg) (l l' : Loaded)
    (fuel fuel' : Nat) (chain chain' : List Str)
    (hf : b.find name = some p) (hf' : b'.find name = some p')
    (hl : loadPkg b (fuel + 1) chain name = .ok l)
    (hl' : loadPkg b' (fuel' + 1) chain' name = .ok l')
    (pre post : List SrcFile) (path : Str) (imports : List Import) (elems : List Elem) (decl : Str)
    (e : Elem)
    (hp : p.files = pre ++ [.j5s path imports elems decl] ++ post)
    (hp' : p'.files = pre ++ [.j5s path imports (elems ++ [e]) decl] ++ post)
    (hagree : ∀ f ∈ p.files, AgreeFile l.resolver l'.resolver f) :
    ∀ f ∈ l.files, ∃ f' ∈ l'.files, f.Le f' :=
  append_decl_pkg b b' name p p' l l' fuel fuel' chain chain' hf hf' hl hl' pre post path imports
    elems decl e hp hp' hagree

/-- **Append a declaration with fresh names — the edit itself, package level.** Let `b'` be the
bundle after `appendDecl` (the protocol's edit: a new top-level object / oneof / enum / service /
topic / entity at the end of the `fi`-th file of package `pkg`), and let both versions compile up
to the link step. If the names the new declaration exports are not yet exported by the package
(decidable on the sources: `newExportNames`), then every file generated before is generated again
under the same name and package, and its messages, enums and services — with all nested content,
field numbers, enum values, methods — are a prefix of the new lists. No hypothesis on the
resolvers: that they agree on every existing reference is *derived* from freshness (local names
look up the same export entry; imported names the same dependency entry, and dependencies load
identically because they never read the edited package). Any number of files, packages,
dependency depth. -/
theorem C13_append_decl_fresh (b b' : Bundle) (pkg : Str) (fi : Nat) (el : Elem)
    (he : (Edit.appendDecl fi el).apply pkg b = some b')
    (fs fs' : List FileSkel) (h : compilePkg b pkg = .ok fs) (h' : compilePkg b' pkg = .ok fs')
    (hfresh : ∀ p path imports elems decl, b.find pkg = some p →
      p.files[fi]? = some (.j5s path imports elems decl) →
      ∀ n ∈ newExportNames path el, n ∉ (p.files.map sumOf).flatMap (fun s => s.exports.map (·.1))) :
    ∀ f ∈ fs, ∃ f' ∈ fs', f.Le f' := by
  obtain ⟨p, pre, post, path, imports, elems, decl, hf, hp, hlen, hf', hother, hl⟩ :=
    apply_appendDecl b pkg fi el b' he
  unfold compilePkg at h h'
  rw [hl] at h'
  cases hld : loadPkg b (b.pkgs.length + 1) [] pkg with
  | err t => simp [hld] at h
  | panic w => simp [hld] at h
  | ok l =>
    cases hld' : loadPkg b' (b.pkgs.length + 1) [] pkg with
    | err t => simp [hld'] at h'
    | panic w => simp [hld'] at h'
    | ok l' =>
      simp only [hld, Outcome.ok.injEq] at h
      simp only [hld', Outcome.ok.injEq] at h'
      subst h; subst h'
      obtain ⟨_, _, hex, _, _⟩ := loadPkg_ok_struct b _ [] pkg p l hf hld
      have hfr : ∀ n ∈ newExportNames path el, n ∉ l.exports.map (·.1) := by
        intro n hn hmem
        have hget : p.files[fi]? = some (.j5s path imports elems decl) := by
          rw [hp, ← hlen]; simp
        apply hfresh p path imports elems decl hf hget n hn
        rw [hex, List.map_flatMap] at hmem
        exact hmem
      have := append_decl_fresh b b' pkg p _ [] pre post path imports elems decl el hp hf hf' hother
        l l' hld hld' hfr
      intro f hfm
      obtain ⟨f', hf'm, hle⟩ := this f ((sortFiles_perm_self l.files).mem_iff.mp hfm)
      exact ⟨f', (sortFiles_perm_self l'.files).mem_iff.mpr hf'm, hle⟩

/-- **Append a field — the edit itself, package level.** Let `b'` be the bundle after
`appendField` at a top-level declaration (path `[el i]`: the protocol's edit adds the property at
the end of the `i`-th element of the `fi`-th file of package `pkg`, which the edit requires to be an
object or a oneof), and let both versions compile up to the link step. If the names the new property
exports (its inline types, `newFieldExportNames`) are not yet exported by the package, then every
generated file is generated again under the same name and package with the same services and enums,
and every message is found again with the same name, kind and entity annotation, its old fields
(name, JSON name, number, type, label, optionality, type name, oneof index) as a prefix of the new
ones and all its nested messages and enums kept (`FileSkel.LeEdit`) — what the harness looks up by
name. No hypothesis on resolvers: agreement on every existing reference of every file of the package
is derived from freshness, the dependencies load identically. Any number of files, packages,
dependency depth; the new property is arbitrary (inline types of any depth, references, maps). -/
theorem C13_append_field_pkg (b b' : Bundle) (pkg : Str) (fi i : Nat) (prop : Property)
    (he : (Edit.appendField fi [.el i] prop).apply pkg b = some b')
    (fs fs' : List FileSkel) (h : compilePkg b pkg = .ok fs) (h' : compilePkg b' pkg = .ok fs')
    (hfresh : ∀ p path imports E1 E2 io n ps ne psm decl, b.find pkg = some p →
      p.files[fi]? = some (.j5s path imports (E1 ++ [declElem io (.mk n ps ne psm)] ++ E2) decl) →
      E1.length = i →
      ∀ x ∈ newFieldExportNames n prop, x ∉ (p.files.map sumOf).flatMap (fun s => s.exports.map (·.1))) :
    ∀ f ∈ fs, ∃ f' ∈ fs', f.LeEdit f' := by
  obtain ⟨p, pre, post, g, g', hf, hp, hlen, happ, hf', hother, hl⟩ := apply_edit_struct _ b pkg b' he
  cases g with
  | proto pth msgs enums => simp [Edit.applyFile] at happ
  | j5s path imports elems decl =>
    simp only [Edit.applyFile] at happ
    cases hed : editElems (.field prop) [.el i] elems with
    | none => simp [hed] at happ
    | some elems' =>
      simp only [hed, Option.map_some, Option.some.injEq] at happ
      subst happ
      obtain ⟨E1, E2, io, n, ps, ne, psm, h1, h2, h3⟩ := editElems_field_top prop i elems elems' hed
      subst h1; subst h2
      have hget : p.files[fi]? = some (.j5s path imports (E1 ++ [declElem io (.mk n ps ne psm)] ++ E2) decl) := by
        rw [hp]
        simp only [Edit.file] at hlen
        rw [← hlen]; simp
      have hfr := hfresh p path imports E1 E2 io n ps ne psm decl hf hget h3
      exact replace_elems_compile b b' pkg p pre post path imports _ _ decl hp hf hf' hother hl fs fs' h h'
        (fun k => k ∉ newFieldExportNames n prop)
        (fun s s' hs hs' => summary_append_field_top path imports E1 E2 io n ps prop ne psm s s' hs hs')
        (fun f _ r _ hmem hx => hfr r.2 hx hmem)
        (fun res fs fs' hc hc' => convertFile_append_field_top res path imports E1 E2 io n ps prop ne psm fs fs' hc hc')

/-- **Append a field to a request or a response — the edit itself, package level.** Path
`[el i, method m, req]` (`rq = true`) or `[el i, method m, res]`: the `i`-th element of the file is a
service, its `m`-th method has a request (response) and gets the property at its end. Both versions
compiling, and the names the property exports under `<Method>Request` (`<Method>Response`) being new
to the package: every generated file — the `.service` sub-package file with the request / response
messages and the proto service among them — is generated again under the same name and package with
the SAME services (every rpc: name, input, output, verb, path pattern, body, annotations), and every
message is found again with its old fields as a prefix and its nested types kept. -/
theorem C13_append_field_method_pkg (b b' : Bundle) (pkg : Str) (fi i m : Nat) (rq : Bool)
    (prop : Property)
    (he : (Edit.appendField fi [.el i, .method m, reqStep rq] prop).apply pkg b = some b')
    (fs fs' : List FileSkel) (h : compilePkg b pkg = .ok fs) (h' : compilePkg b' pkg = .ok fs')
    (hfresh : ∀ p path imports E1 E2 sv M1 M2 mt decl, b.find pkg = some p →
      p.files[fi]? = some (.j5s path imports (E1 ++ [.service sv] ++ E2) decl) → E1.length = i →
      sv.methods = M1 ++ [mt] ++ M2 → M1.length = m →
      ∀ x ∈ newFieldExportNames (methodObjName rq mt) prop,
        x ∉ (p.files.map sumOf).flatMap (fun s => s.exports.map (·.1))) :
    ∀ f ∈ fs, ∃ f' ∈ fs', f.LeEdit f' := by
  obtain ⟨p, pre, post, g, g', hf, hp, hlen, happ, hf', hother, hl⟩ := apply_edit_struct _ b pkg b' he
  cases g with
  | proto pth msgs enums => simp [Edit.applyFile] at happ
  | j5s path imports elems decl =>
    simp only [Edit.applyFile] at happ
    obtain ⟨elems', hed, rfl⟩ := Option.map_eq_some_iff.mp happ
    obtain ⟨E1, E2, sv, M1, M2, mt, mt', r, h1, h2, h3, h4, h5, h6⟩ :=
      editElems_field_method prop i m rq elems elems' hed
    subst h1; subst h2
    have hget : p.files[fi]? = some (.j5s path imports (E1 ++ [.service sv] ++ E2) decl) := by
      rw [hp]
      simp only [Edit.file] at hlen
      rw [← hlen]; simp
    have hfr := hfresh p path imports E1 E2 sv M1 M2 mt decl hf hget h3 h4 h5
    obtain ⟨A0, C0, hA, hB, hrefs⟩ := serviceItem_exports sv M1 M2 mt mt' rq r prop h4 h6
    exact replace_elems_compile b b' pkg p pre post path imports _ _ decl hp hf hf' hother hl fs fs' h h'
      (fun k => k ∉ newFieldExportNames (methodObjName rq mt) prop)
      (fun s s' hs hs' => summary_single_item path imports E1 E2 (.service sv)
        (.service { sv with methods := M1 ++ [mt'] ++ M2 }) (.serviceFile [sv])
        (.serviceFile [{ sv with methods := M1 ++ [mt'] ++ M2 }]) rfl rfl A0 _ C0 hA hB hrefs
        s s' hs hs')
      (fun f _ r _ hmem hx => hfr r.2 hx hmem)
      (fun res fs fs' hc hc' => convertFile_single_item res path imports E1 E2 (.service sv)
        (.service { sv with methods := M1 ++ [mt'] ++ M2 }) (.serviceFile [sv])
        (.serviceFile [{ sv with methods := M1 ++ [mt'] ++ M2 }]) rfl rfl rfl
        (fun c => serviceItem_msgs c sv M1 M2 mt mt' rq r prop h4 h6)
        (fun c => by rw [itemEnums_serviceFile, itemEnums_serviceFile])
        (fun c => serviceItem_svcs c sv M1 M2 mt mt' rq r prop h4 h6) fs fs' hc hc')

/-- **Append a field to a topic message — the edit itself, package level.** Path `[el i, msg m]`
(`k = 0`: publish / upsert / event topics), `[el i, reqm m]` (`k = 1`) or `[el i, repm m]` (`k ≥ 2`,
request / reply topics): the `i`-th element of the file is a topic and one of its messages gets the
property at its end. Both versions compiling and the names the property exports under
`<Name>Message` being new to the package (asked for every message of the topic, `topicObjName`):
every generated file — the `.topic` sub-package file with the message types and the topic services —
is generated again with the SAME services and every message found again with its old fields
(including the implicit leading `request` / `upsert` metadata field) as a prefix. -/
theorem C13_append_field_topic_pkg (b b' : Bundle) (pkg : Str) (fi i k m : Nat) (prop : Property)
    (he : (Edit.appendField fi [.el i, topicStep k m] prop).apply pkg b = some b')
    (fs fs' : List FileSkel) (h : compilePkg b pkg = .ok fs) (h' : compilePkg b' pkg = .ok fs')
    (hfresh : ∀ p path imports E1 E2 t decl, b.find pkg = some p →
      p.files[fi]? = some (.j5s path imports (E1 ++ [.topic t] ++ E2) decl) → E1.length = i →
      ∀ tn ∈ topicNodes t, ∀ tm ∈ tn.msgs, ∀ x ∈ newFieldExportNames (topicObjName tn tm) prop,
        x ∉ (p.files.map sumOf).flatMap (fun s => s.exports.map (·.1))) :
    ∀ f ∈ fs, ∃ f' ∈ fs', f.LeEdit f' := by
  obtain ⟨p, pre, post, g, g', hf, hp, hlen, happ, hf', hother, hl⟩ := apply_edit_struct _ b pkg b' he
  cases g with
  | proto pth msgs enums => simp [Edit.applyFile] at happ
  | j5s path imports elems decl =>
    simp only [Edit.applyFile] at happ
    obtain ⟨elems', hed, rfl⟩ := Option.map_eq_some_iff.mp happ
    obtain ⟨E1, E2, t, t', h1, h2, h3, ht⟩ := editElems_field_topic prop i k m elems elems' hed
    subst h1; subst h2
    obtain ⟨N1, N2, tn, tn', T1, T2, tm, n1, n2, hx⟩ := editTopic_field prop k m t t' ht
    have hget : p.files[fi]? = some (.j5s path imports (E1 ++ [.topic t] ++ E2) decl) := by
      rw [hp]
      simp only [Edit.file] at hlen
      rw [← hlen]; simp
    have hfr := hfresh p path imports E1 E2 t decl hf hget h3 tn (by rw [n1]; simp) tm
      (by rw [hx.1]; simp)
    obtain ⟨A0, N, C0, hA, hB, hN, hrefs⟩ := topicItem_exports t t' N1 N2 tn tn' T1 T2 tm prop n1 n2 hx
    exact replace_elems_compile b b' pkg p pre post path imports _ _ decl hp hf hf' hother hl fs fs' h h'
      (fun k => k ∉ newFieldExportNames (topicObjName tn tm) prop)
      (fun s s' hs hs' => by
        have := summary_single_item path imports E1 E2 (.topic t) (.topic t') (.topicFile [t])
          (.topicFile [t']) rfl rfl A0 N C0 hA hB hrefs s s' hs hs'
        exact ⟨fun X Y k hk => this.1 X Y k (fun hm => hk (hN k hm)), this.2⟩)
      (fun f _ r _ hmem hx => hfr r.2 hx hmem)
      (fun res fs fs' hc hc' => convertFile_single_item res path imports E1 E2 (.topic t) (.topic t')
        (.topicFile [t]) (.topicFile [t']) rfl rfl rfl
        (fun c => topicItem_msgs c t t' N1 N2 tn tn' T1 T2 tm prop n1 n2 hx)
        (fun c => by rw [itemEnums_topicFile, itemEnums_topicFile])
        (fun c => topicItem_svcs c t t' N1 N2 tn tn' T1 T2 tm prop n1 n2 hx) fs fs' hc hc')

/-- **Append an option — the edit itself, package level.** Let `b'` be the bundle after
`appendOption` at a top-level enum (path `[el i]`; the edit requires the `i`-th element of the file
to be an enum), both versions compiling up to the link step. The export entry of the enum itself
changes (an `EnumRef` carries the value names, which `rules.in / notIn` and default filters of
referring fields are checked against), so the statement is for an enum that no field of the package
refers to by its name: then every generated file is generated again under the same name and package
with the same services and the same messages (up to `LeEdit`, here equality of every message), and
every enum is found again under its name with its old values — names and numbers — as a prefix. -/
theorem C13_append_option_pkg (b b' : Bundle) (pkg : Str) (fi i : Nat) (o : Str)
    (he : (Edit.appendOption fi [.el i] o).apply pkg b = some b')
    (fs fs' : List FileSkel) (h : compilePkg b pkg = .ok fs) (h' : compilePkg b' pkg = .ok fs')
    (hnoref : ∀ p path imports E1 E2 e decl, b.find pkg = some p →
      p.files[fi]? = some (.j5s path imports (E1 ++ [.enum e] ++ E2) decl) → E1.length = i →
      ∀ f ∈ p.files, ∀ r ∈ srcFileRefs f, r.2 ≠ e.name) :
    ∀ f ∈ fs, ∃ f' ∈ fs', f.LeEdit f' := by
  obtain ⟨p, pre, post, g, g', hf, hp, hlen, happ, hf', hother, hl⟩ := apply_edit_struct _ b pkg b' he
  cases g with
  | proto pth msgs enums => simp [Edit.applyFile] at happ
  | j5s path imports elems decl =>
    simp only [Edit.applyFile] at happ
    cases hed : editElems (.option o) [.el i] elems with
    | none => simp [hed] at happ
    | some elems' =>
      simp only [hed, Option.map_some, Option.some.injEq] at happ
      subst happ
      obtain ⟨E1, E2, e, h1, h2, h3⟩ := editElems_option_top o i elems elems' hed
      subst h1; subst h2
      have hget : p.files[fi]? = some (.j5s path imports (E1 ++ [.enum e] ++ E2) decl) := by
        rw [hp]
        simp only [Edit.file] at hlen
        rw [← hlen]; simp
      have hnr := hnoref p path imports E1 E2 e decl hf hget h3
      exact replace_elems_compile b b' pkg p pre post path imports _ _ decl hp hf hf' hother hl fs fs' h h'
        (fun k => k ≠ e.name)
        (fun s s' hs hs' => summary_append_option_top path imports E1 E2 e o s s' hs hs')
        (fun f hfm r hr _ => hnr f hfm r hr)
        (fun res fs fs' hc hc' => convertFile_append_option_top res path imports E1 E2 e o fs fs' hc hc')

/-- conversion depends on the resolver only at the references it contains: the bridge between the
per-container theorems and package-level edits -/
theorem C13_convert_congr (res res' : Resolver) (path : Str) (imports : List Import)
    (elems : List Elem)
    (h : ∀ im, AgreeOn { resolve := resolveTypeNoImport im res } { resolve := resolveTypeNoImport im res' }
      (fileRefs (packageFromFilename (path ++ b!".proto")) elems)) :
    convertFile res path imports elems = convertFile res' path imports elems :=
  convertFile_congr res res' path imports elems h

/-- messages, enums and services are only ever appended to a file under construction
(`addMessage` / `addEnum` / `addService`), whatever the step -/
theorem C13_addMessage_prefix (r : Root) (s : Step) : r.Le (r.apply s) := Root.le_apply r s

/-! ## Non-vacuity -/

/-- the formerly failing witness: empty enum, `X_UNSPECIFIED` appended — value 0 keeps its name -/
example :
    (convEnum { name := b!"Foo", pfx := [], opts := [] }).values = [(b!"FOO_UNSPECIFIED", 0)] ∧
    (convEnum { name := b!"Foo", pfx := [], opts := [b!"X_UNSPECIFIED"] }).values =
      [(b!"FOO_UNSPECIFIED", 0), (b!"FOO_X_UNSPECIFIED", 1)] := by decide

/-- both hypotheses of `C13_append_decl` hold for a concrete file and appended declaration -/
example :
    (convertFile ⟨b!"foo.v1", [], []⟩ b!"foo/v1/a.j5s" []
      [.object (.mk b!"A" [.mk b!"x" false false (.string [] false)] [] none)]).isOk = true ∧
    (convertFile ⟨b!"foo.v1", [], []⟩ b!"foo/v1/a.j5s" []
      ([.object (.mk b!"A" [.mk b!"x" false false (.string [] false)] [] none)] ++
       [.enum { name := b!"E", pfx := [], opts := [b!"ONE"] }])).isOk = true := by decide

example :
    (convEnum { name := b!"Foo", pfx := [], opts := [b!"A", b!"B"] }).values =
      (convEnum { name := b!"Foo", pfx := [], opts := [b!"A"] }).values ++ [(b!"FOO_B", 2)] := by
  decide

/-! a concrete instance of `C13_append_decl_pkg`: two files (the second refers to a type of the
first), an enum appended to the first file; both compiles succeed and the resolvers agree on the
existing references -/
def fileA (extra : List Elem) : SrcFile :=
  .j5s b!"foo/v1/a.j5s" [] ([.object (.mk b!"A" [.mk b!"x" false false (.string [] false)] [] none)] ++ extra)
    b!"foo.v1"
def fileB : SrcFile :=
  .j5s b!"foo/v1/b.j5s" [] [.object (.mk b!"B" [.mk b!"a" false false (.objectRef [] b!"A" false [])] [] none)]
    b!"foo.v1"
def bun (extra : List Elem) : Bundle := { pkgs := [ { name := b!"foo.v1", files := [fileA extra, fileB] } ] }
def newDecl : Elem := .enum { name := b!"E", pfx := [], opts := [b!"ONE"] }
def lOld : Loaded := match loadPkg (bun []) 2 [] b!"foo.v1" with | .ok l => l | _ => default
def lNew : Loaded := match loadPkg (bun [newDecl]) 2 [] b!"foo.v1" with | .ok l => l | _ => default

example : (loadPkg (bun []) 2 [] b!"foo.v1").isOk = true ∧
    (loadPkg (bun [newDecl]) 2 [] b!"foo.v1").isOk = true := by decide

/-- the hypotheses of `C13_append_decl_fresh` on the same instance: the edit applies, both
versions compile, and the new name `E` is not exported by the package -/
example : ((Edit.appendDecl 0 newDecl).apply b!"foo.v1" (bun [])).isSome = true ∧
    (compilePkg (bun []) b!"foo.v1").isOk = true ∧ (compilePkg (bun [newDecl]) b!"foo.v1").isOk = true ∧
    newExportNames b!"foo/v1/a.j5s" newDecl = [b!"E"] ∧
    ([fileA [], fileB].map sumOf).flatMap (fun s => s.exports.map (·.1)) = [b!"A", b!"B"] := by
  decide

example : ∀ f ∈ [fileA [], fileB], AgreeFile lOld.resolver lNew.resolver f := by
  intro f hf
  have hrefs : srcFileRefs (fileA []) = [] ∧ srcFileRefs fileB = [([], b!"A")] := by decide
  simp only [List.mem_cons, List.mem_nil_iff, or_false] at hf
  rcases hf with rfl | rfl
  · intro im _ r hr
    have : r ∈ srcFileRefs (fileA []) := hr
    rw [hrefs.1] at this; simp at this
  · intro im _ r hr
    have hr : r ∈ srcFileRefs fileB := hr
    rw [hrefs.2] at hr
    simp only [List.mem_singleton] at hr
    subst hr
    have h1 : lOld.resolver.pkgName = lNew.resolver.pkgName := by decide
    have h2 : mapGet lOld.resolver.exports b!"A" = mapGet lNew.resolver.exports b!"A" := by decide
    have h3 : lOld.resolver.deps = [] ∧ lNew.resolver.deps = [] := by decide
    simp only [resolveTypeNoImport, ImportMap.expand, Bool.true_or, decide_true, if_true,
      Resolver.resolveType, h1, h2, h3.1, h3.2]

/-- the hypotheses of `C13_append_field_pkg` on the same instance: a field with an inline object is
appended to object `A` (element 0 of file 0); the edit applies, both versions compile, the one new
export `A.Zz` is not exported by the package before -/
def newProp : Property :=
  .mk b!"zz" false false (.objectInl [] [.mk b!"y" false false (.string [] false)] false [])
def bunF : Bundle :=
  match (Edit.appendField 0 [.el 0] newProp).apply b!"foo.v1" (bun []) with | some b => b | none => { pkgs := [] }

example : ((Edit.appendField 0 [.el 0] newProp).apply b!"foo.v1" (bun [])).isSome = true ∧
    (compilePkg (bun []) b!"foo.v1").isOk = true ∧ (compilePkg bunF b!"foo.v1").isOk = true ∧
    newFieldExportNames b!"A" newProp = [b!"A.Zz"] ∧
    ([fileA [], fileB].map sumOf).flatMap (fun s => s.exports.map (·.1)) = [b!"A", b!"B"] := by
  decide

/-- …and of `C13_append_option_pkg`: an enum `E` next to the object, referenced by no field; the
option `TWO` is appended -/
def fileE : SrcFile :=
  .j5s b!"foo/v1/a.j5s" [] [.enum { name := b!"E", pfx := [], opts := [b!"ONE"] },
    .object (.mk b!"A" [.mk b!"x" false false (.string [] false)] [] none)] b!"foo.v1"
def bunE : Bundle := { pkgs := [ { name := b!"foo.v1", files := [fileE, fileB] } ] }
def bunE' : Bundle :=
  match (Edit.appendOption 0 [.el 0] b!"TWO").apply b!"foo.v1" bunE with | some b => b | none => { pkgs := [] }

example : ((Edit.appendOption 0 [.el 0] b!"TWO").apply b!"foo.v1" bunE).isSome = true ∧
    (compilePkg bunE b!"foo.v1").isOk = true ∧ (compilePkg bunE' b!"foo.v1").isOk = true ∧
    [fileE, fileB].flatMap srcFileRefs = [([], b!"A")] := by
  decide

/-- …and of `C13_append_field_method_pkg`: a service with one method; a field with an inline object is
appended to the request (`rq = true`) and a scalar to the response -/
def fileS : SrcFile :=
  .j5s b!"foo/v1/s.j5s" [] [.service { name := some b!"Foo", basePath := some b!"/foo", methods :=
    [{ name := b!"GetFoo", verb := .get, path := b!"/x",
       request := some [.mk b!"id" false false (.string [] false)],
       response := some [.mk b!"name" false false (.string [] false)] }] }] b!"foo.v1"
def bunS : Bundle := { pkgs := [ { name := b!"foo.v1", files := [fileS] } ] }
def bunS' (rq : Bool) (pr : Property) : Bundle :=
  match (Edit.appendField 0 [.el 0, .method 0, reqStep rq] pr).apply b!"foo.v1" bunS with
  | some b => b | none => { pkgs := [] }

example : ((Edit.appendField 0 [.el 0, .method 0, reqStep true] newProp).apply b!"foo.v1" bunS).isSome = true ∧
    (compilePkg bunS b!"foo.v1").isOk = true ∧ (compilePkg (bunS' true newProp) b!"foo.v1").isOk = true ∧
    (compilePkg (bunS' false (.mk b!"zz" false false (.bool [] false))) b!"foo.v1").isOk = true ∧
    newFieldExportNames b!"GetFooRequest" newProp = [b!"GetFooRequest.Zz"] ∧
    ([fileS].map sumOf).flatMap (fun s => s.exports.map (·.1)) = [b!"GetFooRequest", b!"GetFooResponse"] := by
  decide

/-- …and of `C13_append_field_topic_pkg`: a publish topic with a named message, and a request / reply
topic; a field with an inline object is appended to the message / to the reply -/
def fileT : SrcFile :=
  .j5s b!"foo/v1/t.j5s" []
    [.topic { name := b!"Foo", type := .publish [{ name := some b!"Created", props := [.mk b!"id" false false (.string [] false)] }] },
     .topic { name := b!"Bar", type := .reqres [{ name := some b!"Do", props := [] }] [{ name := some b!"Done", props := [] }] }]
    b!"foo.v1"
def bunT : Bundle := { pkgs := [ { name := b!"foo.v1", files := [fileT] } ] }
def bunT' (i k : Nat) : Bundle :=
  match (Edit.appendField 0 [.el i, topicStep k 0] newProp).apply b!"foo.v1" bunT with
  | some b => b | none => { pkgs := [] }

example : (compilePkg bunT b!"foo.v1").isOk = true ∧ (compilePkg (bunT' 0 0) b!"foo.v1").isOk = true ∧
    (compilePkg (bunT' 1 2) b!"foo.v1").isOk = true ∧ (bunT' 0 0).pkgs.length = 1 ∧ (bunT' 1 2).pkgs.length = 1 ∧
    ([fileT].map sumOf).flatMap (fun s => s.exports.map (·.1)) =
      [b!"CreatedMessage", b!"DoMessage", b!"DoneMessage"] := by
  decide

end J5V.Props.C13
