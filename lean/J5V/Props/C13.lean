import J5V.Compile.ConvertProofs
import J5V.Compile.AppendDecl
import J5V.Compile.Congr
import J5V.Compile.AppendDeclPkg
import J5V.Compile.AppendFresh
import J5V.Compile.ExactProofs
import J5V.Compile.AppendEdit
import J5V.Compile.AppendEditSvc
import J5V.Compile.EvolveAdm
import J5V.Compile.EvolveEnumPkg
import J5V.Compile.EvolveDeepSvc
import J5V.Compile.EvolveOptDeepPkg
import J5V.Compile.EvolveOptDeepSvc
import J5V.Generated.EvolveFacts
/-!
# C13 — appending declarations never changes existing wire identities

Statements about `J5V.Compile`, for every context, property list and edit; no bound on sizes.
The first layer (this file so far) is per container: the message of an object / oneof / request /
response / topic message under `appendField`, the value list of an enum under `appendOption`.
-/
namespace J5V.Props.C13
open J5V.Go J5V.Compile

/-- **Append a field.** Appending properties to a declared (or virtual) object / oneof leaves
every previously emitted field (name, JSON name, number, type, label, optionality, type name, oneof
index) exactly in place: the old field list is a prefix of the new one. Holds for the same
conversion context; see `C13_append_field_ctx` for when the context itself is unchanged. -/
theorem C13_append_field (c : Ctx) (np : List Str) (isOneof : Bool) (virt : List Property)
    (name : Str) (props extra : List Property) (nested : List Nested) (psm : Option Psm) :
    (declMsg c np isOneof virt name props nested psm).fields <+:
      (declMsg c np isOneof virt name (props ++ extra) nested psm).fields := by
  simp only [declMsg, mkMsg, MsgSkel.fields, ← List.append_assoc, bProps_append_flds]
  exact List.prefix_append _ _

/-- **Append a field, changed resolver.** An edit also changes the package's export table (a new
inline type is a new export), hence the conversion context. The existing fields are still exactly
preserved whenever the new context resolves the references of the *existing* properties as before
(`AgreeOn` — true when the names added by the edit are fresh). -/
theorem C13_append_field_ctx (c c' : Ctx) (np : List Str) (isOneof : Bool) (virt : List Property)
    (name : Str) (props extra : List Property) (nested nested' : List Nested) (psm : Option Psm)
    (h : AgreeOn c c' (refsProps (virt ++ props))) :
    (declMsg c np isOneof virt name props nested psm).fields <+:
      (declMsg c' np isOneof virt name (props ++ extra) nested' psm).fields := by
  simp only [declMsg, mkMsg, MsgSkel.fields]
  rw [bProps_congr c c' (np ++ [name]) isOneof 1 (virt ++ props) h, ← List.append_assoc,
    bProps_append_flds c' _ _ _ (virt ++ props) extra]
  exact List.prefix_append _ _

/-- …and the types nested under the message that come from its properties (inline objects, oneofs
and map entries) keep their position: the old property-derived nested messages are a prefix of the new ones. -/
theorem C13_append_field_nested (c : Ctx) (np : List Str) (isOneof : Bool) (n : Nat)
    (props extra : List Property) :
    (bProps c np isOneof n props).eff.msgs <+: (bProps c np isOneof n (props ++ extra)).eff.msgs ∧
    (bProps c np isOneof n props).eff.enums <+: (bProps c np isOneof n (props ++ extra)).eff.enums ∧
    (bProps c np isOneof n props).entries <+: (bProps c np isOneof n (props ++ extra)).entries := by
  rw [bProps_append_eff, bProps_append_entries]
  exact ⟨List.prefix_append _ _, List.prefix_append _ _, List.prefix_append _ _⟩

/-- the numbers handed out by `mapProperties` to existing properties do not move -/
theorem C13_append_field_numbers (virt props extra : List Property) :
    mapProperties virt props <+: mapProperties virt (props ++ extra) := by
  rw [mapProperties_prefix]
  exact List.prefix_append _ _

/-- **Append an option.** For every enum (empty or not, with or without an explicit zero) and every
new option name, appending the option keeps every existing value — name and number — in place.
(Before `fix: 50e59b3` this failed for an empty enum and an option ending in `UNSPECIFIED`, which
replaced the implicit zero under a different name; witness kept in the corpus.) -/
theorem C13_append_option (e : EnumDecl) (o : Str) :
    (convEnum e).name = (convEnum { e with opts := e.opts ++ [o] }).name ∧
    (convEnum e).values <+: (convEnum { e with opts := e.opts ++ [o] }).values :=
  ⟨rfl, enumValues_prefix_all (enumPrefix e) e.opts o⟩

/-- value 0 of every enum is `<PREFIX>UNSPECIFIED`, before and after any edit -/
theorem C13_enum_zero_stable (e : EnumDecl) :
    ∃ tl, (convEnum e).values = (enumPrefix e ++ b!"UNSPECIFIED", 0) :: tl :=
  enumValues_head (enumPrefix e) e.opts

/-- sequences of appended options (induction over the edit sequence) -/
theorem C13_append_option_seq (e : EnumDecl) (os : List Str) :
    (convEnum e).values <+: (convEnum { e with opts := e.opts ++ os }).values := by
  induction os generalizing e with
  | nil => simp
  | cons o os ih =>
    have h1 := (C13_append_option e o).2
    have h2 := ih { e with opts := e.opts ++ [o] }
    simp only [List.append_assoc, List.singleton_append] at h2
    exact List.IsPrefix.trans h1 h2

/-- sequences of appended fields -/
theorem C13_append_field_seq (c : Ctx) (np : List Str) (isOneof : Bool) (virt : List Property)
    (name : Str) (props : List Property) (edits : List (List Property)) (nested : List Nested)
    (psm : Option Psm) :
    (declMsg c np isOneof virt name props nested psm).fields <+:
      (declMsg c np isOneof virt name (edits.foldl (· ++ ·) props) nested psm).fields := by
  induction edits generalizing props with
  | nil => simp
  | cons e es ih =>
    exact List.IsPrefix.trans (C13_append_field c np isOneof virt name props e nested psm)
      (ih (props ++ e))

/-- **Append a declaration.** When a j5s file converts before and after a new top-level
declaration (object, oneof, enum, service, topic or entity) is added at its end — against the same
type resolver — every file generated before is generated again under the same name and package,
and its messages, enums and services are a prefix of the new lists: everything the existing
declarations produced (including all nested content, field numbers, enum values, methods) is
unchanged and keeps its position. -/
theorem C13_append_decl (res : Resolver) (path : Str) (imports : List Import)
    (elems : List Elem) (e : Elem) (fs fs' : List FileSkel)
    (h : convertFile res path imports elems = .ok fs)
    (h' : convertFile res path imports (elems ++ [e]) = .ok fs') :
    ∀ f ∈ fs, ∃ f' ∈ fs', f'.name = f.name ∧ f'.pkg = f.pkg ∧
      f.msgs <+: f'.msgs ∧ f.enums <+: f'.enums ∧ f.svcs <+: f'.svcs :=
  convertFile_append_decl res path imports elems e fs fs' h h'

/-- **Append a declaration, package level.** `CompilePackage` of a package before and after a
declaration is appended to one of its files (the other files, the other packages, the dependency
graph arbitrary). The edit changes the package's export table; provided the references of the
existing declarations resolve as before (`AgreeFile` — true when the names the new declaration
introduces are fresh), every generated file of the old compile is generated again under the same
name and package with the old messages, enums and services as a prefix. -/
theorem C13_append_decl_pkg (b b' : Bundle) (name : Str) (p p' : Pkg) (l l' : Loaded)
    (fuel fuel' : Nat) (chain chain' : List Str)
    (hf : b.find name = some p) (hf' : b'.find name = some p')
    (hl : loadPkg b (fuel + 1) chain name = .ok l)
    (hl' : loadPkg b' (fuel' + 1) chain' name = .ok l')
    (pre post : List SrcFile) (path : Str) (imports : List Import) (elems : List Elem) (decl : Str)
    (e : Elem)
    (hp : p.files = pre ++ [.j5s path imports elems decl] ++ post)
    (hp' : p'.files = pre ++ [.j5s path imports (elems ++ [e]) decl] ++ post)
    (hagree : ∀ f ∈ p.files, AgreeFile l.resolver l'.resolver f) :
    ∀ f ∈ l.files, ∃ f' ∈ l'.files, f.Le f' :=
  append_decl_pkg b b' name p p' l l' fuel fuel' chain chain' hf hf' hl hl' pre post path imports
    elems decl e hp hp' hagree

/-- **Append a declaration with fresh names — the edit itself, package level.** Let `b'` be the
bundle after `appendDecl` (the protocol's edit: a new top-level object / oneof / enum / service /
topic / entity at the end of the `fi`-th file of package `pkg`), and let both versions compile up
to the link step. If the names the new declaration exports are not yet exported by the package
(decidable on the sources: `newExportNames`), then every file generated before is generated again
under the same name and package, and its messages, enums and services — with all nested content,
field numbers, enum values, methods — are a prefix of the new lists. No hypothesis on the
resolvers: that they agree on every existing reference is *derived* from freshness (local names
look up the same export entry; imported names the same dependency entry, and dependencies load
identically because they never read the edited package). Any number of files, packages,
dependency depth. -/
theorem C13_append_decl_fresh (b b' : Bundle) (pkg : Str) (fi : Nat) (el : Elem)
    (he : (Edit.appendDecl fi el).apply pkg b = some b')
    (fs fs' : List FileSkel) (h : compilePkg b pkg = .ok fs) (h' : compilePkg b' pkg = .ok fs')
    (hfresh : ∀ p path imports elems decl, b.find pkg = some p →
      p.files[fi]? = some (.j5s path imports elems decl) →
      ∀ n ∈ newExportNames path el, n ∉ (p.files.map sumOf).flatMap (fun s => s.exports.map (·.1))) :
    ∀ f ∈ fs, ∃ f' ∈ fs', f.Le f' := by
  obtain ⟨p, pre, post, path, imports, elems, decl, hf, hp, hlen, hf', hother, hl⟩ :=
    apply_appendDecl b pkg fi el b' he
  unfold compilePkg at h h'
  rw [hl] at h'
  cases hld : loadPkg b (b.pkgs.length + 1) [] pkg with
  | err t => simp [hld] at h
  | panic w => simp [hld] at h
  | ok l =>
    cases hld' : loadPkg b' (b.pkgs.length + 1) [] pkg with
    | err t => simp [hld'] at h'
    | panic w => simp [hld'] at h'
    | ok l' =>
      simp only [hld, Outcome.ok.injEq] at h
      simp only [hld', Outcome.ok.injEq] at h'
      subst h; subst h'
      obtain ⟨_, _, hex, _, _⟩ := loadPkg_ok_struct b _ [] pkg p l hf hld
      have hfr : ∀ n ∈ newExportNames path el, n ∉ l.exports.map (·.1) := by
        intro n hn hmem
        have hget : p.files[fi]? = some (.j5s path imports elems decl) := by
          rw [hp, ← hlen]; simp
        apply hfresh p path imports elems decl hf hget n hn
        rw [hex, List.map_flatMap] at hmem
        exact hmem
      have := append_decl_fresh b b' pkg p _ [] pre post path imports elems decl el hp hf hf' hother
        l l' hld hld' hfr
      intro f hfm
      obtain ⟨f', hf'm, hle⟩ := this f ((sortFiles_perm_self l.files).mem_iff.mp hfm)
      exact ⟨f', (sortFiles_perm_self l'.files).mem_iff.mpr hf'm, hle⟩

/-- **Append a field — the edit itself, package level.** Let `b'` be the bundle after
`appendField` at a top-level declaration (path `[el i]`: the protocol's edit adds the property at
the end of the `i`-th element of the `fi`-th file of package `pkg`, which the edit requires to be an
object or a oneof), and let both versions compile up to the link step. If the names the new property
exports (its inline types, `newFieldExportNames`) are not yet exported by the package, then every
generated file is generated again under the same name and package with the same services and enums,
and every message is found again with the same name, kind and entity annotation, its old fields
(name, JSON name, number, type, label, optionality, type name, oneof index) as a prefix of the new
ones and all its nested messages and enums kept (`FileSkel.LeEdit`) — what the harness looks up by
name. No hypothesis on resolvers: agreement on every existing reference of every file of the package
is derived from freshness, the dependencies load identically. Any number of files, packages,
dependency depth; the new property is arbitrary (inline types of any depth, references, maps). -/
theorem C13_append_field_pkg (b b' : Bundle) (pkg : Str) (fi i : Nat) (prop : Property)
    (he : (Edit.appendField fi [.el i] prop).apply pkg b = some b')
    (fs fs' : List FileSkel) (h : compilePkg b pkg = .ok fs) (h' : compilePkg b' pkg = .ok fs')
    (hfresh : ∀ p path imports E1 E2 io n ps ne psm decl, b.find pkg = some p →
      p.files[fi]? = some (.j5s path imports (E1 ++ [declElem io (.mk n ps ne psm)] ++ E2) decl) →
      E1.length = i →
      ∀ x ∈ newFieldExportNames n prop, x ∉ (p.files.map sumOf).flatMap (fun s => s.exports.map (·.1))) :
    ∀ f ∈ fs, ∃ f' ∈ fs', f.LeEdit f' := by
  obtain ⟨p, pre, post, g, g', hf, hp, hlen, happ, hf', hother, hl⟩ := apply_edit_struct _ b pkg b' he
  cases g with
  | proto pth msgs enums => simp [Edit.applyFile] at happ
  | j5s path imports elems decl =>
    simp only [Edit.applyFile] at happ
    cases hed : editElems (.field prop) [.el i] elems with
    | none => simp [hed] at happ
    | some elems' =>
      simp only [hed, Option.map_some, Option.some.injEq] at happ
      subst happ
      obtain ⟨E1, E2, io, n, ps, ne, psm, h1, h2, h3⟩ := editElems_field_top prop i elems elems' hed
      subst h1; subst h2
      have hget : p.files[fi]? = some (.j5s path imports (E1 ++ [declElem io (.mk n ps ne psm)] ++ E2) decl) := by
        rw [hp]
        simp only [Edit.file] at hlen
        rw [← hlen]; simp
      have hfr := hfresh p path imports E1 E2 io n ps ne psm decl hf hget h3
      exact replace_elems_compile b b' pkg p pre post path imports _ _ decl hp hf hf' hother hl fs fs' h h'
        (fun k => k ∉ newFieldExportNames n prop)
        (fun s s' hs hs' => summary_append_field_top path imports E1 E2 io n ps prop ne psm s s' hs hs')
        (fun f _ r _ hmem hx => hfr r.2 hx hmem)
        (fun res fs fs' hc hc' => convertFile_append_field_top res path imports E1 E2 io n ps prop ne psm fs fs' hc hc')

/-- **Append a field to a request or a response — the edit itself, package level.** Path
`[el i, method m, req]` (`rq = true`) or `[el i, method m, res]`: the `i`-th element of the file is a
service, its `m`-th method has a request (response) and gets the property at its end. Both versions
compiling, and the names the property exports under `<Method>Request` (`<Method>Response`) being new
to the package: every generated file — the `.service` sub-package file with the request / response
messages and the proto service among them — is generated again under the same name and package with
the SAME services (every rpc: name, input, output, verb, path pattern, body, annotations), and every
message is found again with its old fields as a prefix and its nested types kept. -/
theorem C13_append_field_method_pkg (b b' : Bundle) (pkg : Str) (fi i m : Nat) (rq : Bool)
    (prop : Property)
    (he : (Edit.appendField fi [.el i, .method m, reqStep rq] prop).apply pkg b = some b')
    (fs fs' : List FileSkel) (h : compilePkg b pkg = .ok fs) (h' : compilePkg b' pkg = .ok fs')
    (hfresh : ∀ p path imports E1 E2 sv M1 M2 mt decl, b.find pkg = some p →
      p.files[fi]? = some (.j5s path imports (E1 ++ [.service sv] ++ E2) decl) → E1.length = i →
      sv.methods = M1 ++ [mt] ++ M2 → M1.length = m →
      ∀ x ∈ newFieldExportNames (methodObjName rq mt) prop,
        x ∉ (p.files.map sumOf).flatMap (fun s => s.exports.map (·.1))) :
    ∀ f ∈ fs, ∃ f' ∈ fs', f.LeEdit f' := by
  obtain ⟨p, pre, post, g, g', hf, hp, hlen, happ, hf', hother, hl⟩ := apply_edit_struct _ b pkg b' he
  cases g with
  | proto pth msgs enums => simp [Edit.applyFile] at happ
  | j5s path imports elems decl =>
    simp only [Edit.applyFile] at happ
    obtain ⟨elems', hed, rfl⟩ := Option.map_eq_some_iff.mp happ
    obtain ⟨E1, E2, sv, M1, M2, mt, mt', r, h1, h2, h3, h4, h5, h6⟩ :=
      editElems_field_method prop i m rq elems elems' hed
    subst h1; subst h2
    have hget : p.files[fi]? = some (.j5s path imports (E1 ++ [.service sv] ++ E2) decl) := by
      rw [hp]
      simp only [Edit.file] at hlen
      rw [← hlen]; simp
    have hfr := hfresh p path imports E1 E2 sv M1 M2 mt decl hf hget h3 h4 h5
    obtain ⟨A0, C0, hA, hB, hrefs⟩ := serviceItem_exports sv M1 M2 mt mt' rq r prop h4 h6
    exact replace_elems_compile b b' pkg p pre post path imports _ _ decl hp hf hf' hother hl fs fs' h h'
      (fun k => k ∉ newFieldExportNames (methodObjName rq mt) prop)
      (fun s s' hs hs' => summary_single_item path imports E1 E2 (.service sv)
        (.service { sv with methods := M1 ++ [mt'] ++ M2 }) (.serviceFile [sv])
        (.serviceFile [{ sv with methods := M1 ++ [mt'] ++ M2 }]) rfl rfl A0 _ C0 hA hB hrefs
        s s' hs hs')
      (fun f _ r _ hmem hx => hfr r.2 hx hmem)
      (fun res fs fs' hc hc' => convertFile_single_item res path imports E1 E2 (.service sv)
        (.service { sv with methods := M1 ++ [mt'] ++ M2 }) (.serviceFile [sv])
        (.serviceFile [{ sv with methods := M1 ++ [mt'] ++ M2 }]) rfl rfl rfl
        (fun c => serviceItem_msgs c sv M1 M2 mt mt' rq r prop h4 h6)
        (fun c => by rw [itemEnums_serviceFile, itemEnums_serviceFile])
        (fun c => serviceItem_svcs c sv M1 M2 mt mt' rq r prop h4 h6) fs fs' hc hc')

/-- **Append a field at any depth below a request or a response — package level.** Path
`el i :: method m :: (req | res) :: rest` with `rest` any path of `prop j` steps into inline objects /
oneofs of the request (response), through array and map items. Both versions compiling and the names
the property exports there (`methodDeepExportNames`) being new to the package: every generated file
is generated again with the SAME services (every rpc unchanged: it never reads the property list) and
every message found again with its old fields a prefix and, recursively, its nested messages found
again in the same way (`FileSkel.LeDeep`). `rest = []` is `C13_append_field_method_pkg`. -/
theorem C13_append_field_method_deep_pkg (b b' : Bundle) (pkg : Str) (fi i m : Nat) (rq : Bool)
    (rest : List PStep) (prop : Property)
    (he : (Edit.appendField fi (.el i :: .method m :: reqStep rq :: rest) prop).apply pkg b = some b')
    (fs fs' : List FileSkel) (h : compilePkg b pkg = .ok fs) (h' : compilePkg b' pkg = .ok fs')
    (hfresh : ∀ p path imports E1 E2 sv M1 M2 mt r decl, b.find pkg = some p →
      p.files[fi]? = some (.j5s path imports (E1 ++ [.service sv] ++ E2) decl) → E1.length = i →
      sv.methods = M1 ++ [mt] ++ M2 → M1.length = m →
      (if rq then mt.request else mt.response) = some r →
      ∀ x ∈ methodDeepExportNames rq mt rest r prop, x ∉ pkgExportNames p) :
    ∀ f ∈ fs, ∃ f' ∈ fs', f.LeDeep f' := by
  obtain ⟨p, pre, post, g, g', hf, hp, hlen, happ, hf', hother, hl⟩ := apply_edit_struct _ b pkg b' he
  cases g with
  | proto pth msgs enums => simp [Edit.applyFile] at happ
  | j5s path imports elems decl =>
    simp only [Edit.applyFile] at happ
    obtain ⟨elems', hed, rfl⟩ := Option.map_eq_some_iff.mp happ
    obtain ⟨E1, E2, sv, M1, M2, mt, mt', r, r', h1, h2, h3, h4, h5, h6, h7⟩ :=
      editElems_field_method_deep (.field prop) i m rq rest elems elems' hed
    subst h1; subst h2
    have hget : p.files[fi]? = some (.j5s path imports (E1 ++ [.service sv] ++ E2) decl) := by
      rw [hp]
      simp only [Edit.file] at hlen
      rw [← hlen]; simp
    have hr : (if rq then mt.request else mt.response) = some r := by
      cases rq
      · exact h6.1
      · exact h6.1
    have hfr := hfresh p path imports E1 E2 sv M1 M2 mt r decl hf hget h3 h4 h5 hr
    have hexp := editProps_exports prop rest r r' h7 [methodObjName rq mt]
    obtain ⟨A0, C0, hA, hB, hrefs⟩ := serviceItem_exports_deep sv M1 M2 mt mt' rq r r' _ h4 h6 hexp
    exact replace_elems_compile_R FileSkel.LeDeep FileSkel.LeDeep.refl b b' pkg p pre post path imports
      _ _ decl hp hf hf' hother hl fs fs' h h'
      (fun k => k ∉ methodDeepExportNames rq mt rest r prop)
      (fun s s' hs hs' => summary_single_item path imports E1 E2 (.service sv)
        (.service { sv with methods := M1 ++ [mt'] ++ M2 }) (.serviceFile [sv])
        (.serviceFile [{ sv with methods := M1 ++ [mt'] ++ M2 }]) rfl rfl A0 _ C0 hA hB hrefs
        s s' hs hs')
      (fun f _ r _ hmem hx => hfr r.2 hx hmem)
      (fun res fs fs' hc hc' => convertFile_single_item_deep res path imports E1 E2 (.service sv)
        (.service { sv with methods := M1 ++ [mt'] ++ M2 }) (.serviceFile [sv])
        (.serviceFile [{ sv with methods := M1 ++ [mt'] ++ M2 }]) rfl rfl rfl
        (fun c => serviceItem_msgs_deep c sv M1 M2 mt mt' rq r r' h4 h6
          (fun np io n => editProps_deep c prop rest r r' h7 np io n))
        (fun c => by rw [itemEnums_serviceFile, itemEnums_serviceFile])
        (fun c => serviceItem_svcs_deep c sv M1 M2 mt mt' rq r r' h4 h6) fs fs' hc hc')

/-- **Append a field to a topic message — the edit itself, package level.** Path `[el i, msg m]`
(`k = 0`: publish / upsert / event topics), `[el i, reqm m]` (`k = 1`) or `[el i, repm m]` (`k ≥ 2`,
request / reply topics): the `i`-th element of the file is a topic and one of its messages gets the
property at its end. Both versions compiling and the names the property exports under
`<Name>Message` being new to the package (asked for every message of the topic, `topicObjName`):
every generated file — the `.topic` sub-package file with the message types and the topic services —
is generated again with the SAME services and every message found again with its old fields
(including the implicit leading `request` / `upsert` metadata field) as a prefix. -/
theorem C13_append_field_topic_pkg (b b' : Bundle) (pkg : Str) (fi i k m : Nat) (prop : Property)
    (he : (Edit.appendField fi [.el i, topicStep k m] prop).apply pkg b = some b')
    (fs fs' : List FileSkel) (h : compilePkg b pkg = .ok fs) (h' : compilePkg b' pkg = .ok fs')
    (hfresh : ∀ p path imports E1 E2 t decl, b.find pkg = some p →
      p.files[fi]? = some (.j5s path imports (E1 ++ [.topic t] ++ E2) decl) → E1.length = i →
      ∀ tn ∈ topicNodes t, ∀ tm ∈ tn.msgs, ∀ x ∈ newFieldExportNames (topicObjName tn tm) prop,
        x ∉ (p.files.map sumOf).flatMap (fun s => s.exports.map (·.1))) :
    ∀ f ∈ fs, ∃ f' ∈ fs', f.LeEdit f' := by
  obtain ⟨p, pre, post, g, g', hf, hp, hlen, happ, hf', hother, hl⟩ := apply_edit_struct _ b pkg b' he
  cases g with
  | proto pth msgs enums => simp [Edit.applyFile] at happ
  | j5s path imports elems decl =>
    simp only [Edit.applyFile] at happ
    obtain ⟨elems', hed, rfl⟩ := Option.map_eq_some_iff.mp happ
    obtain ⟨E1, E2, t, t', h1, h2, h3, ht⟩ := editElems_field_topic prop i k m elems elems' hed
    subst h1; subst h2
    obtain ⟨N1, N2, tn, tn', T1, T2, tm, n1, n2, hx⟩ := editTopic_field prop k m t t' ht
    have hget : p.files[fi]? = some (.j5s path imports (E1 ++ [.topic t] ++ E2) decl) := by
      rw [hp]
      simp only [Edit.file] at hlen
      rw [← hlen]; simp
    have hfr := hfresh p path imports E1 E2 t decl hf hget h3 tn (by rw [n1]; simp) tm
      (by rw [hx.1]; simp)
    obtain ⟨A0, N, C0, hA, hB, hN, hrefs⟩ := topicItem_exports t t' N1 N2 tn tn' T1 T2 tm prop n1 n2 hx
    exact replace_elems_compile b b' pkg p pre post path imports _ _ decl hp hf hf' hother hl fs fs' h h'
      (fun k => k ∉ newFieldExportNames (topicObjName tn tm) prop)
      (fun s s' hs hs' => by
        have := summary_single_item path imports E1 E2 (.topic t) (.topic t') (.topicFile [t])
          (.topicFile [t']) rfl rfl A0 N C0 hA hB hrefs s s' hs hs'
        exact ⟨fun X Y k hk => this.1 X Y k (fun hm => hk (hN k hm)), this.2⟩)
      (fun f _ r _ hmem hx => hfr r.2 hx hmem)
      (fun res fs fs' hc hc' => convertFile_single_item res path imports E1 E2 (.topic t) (.topic t')
        (.topicFile [t]) (.topicFile [t']) rfl rfl rfl
        (fun c => topicItem_msgs c t t' N1 N2 tn tn' T1 T2 tm prop n1 n2 hx)
        (fun c => by rw [itemEnums_topicFile, itemEnums_topicFile])
        (fun c => topicItem_svcs c t t' N1 N2 tn tn' T1 T2 tm prop n1 n2 hx) fs fs' hc hc')

/-- **Append a field at any depth below a topic message — package level.** Path
`el i :: (msg m | reqm m | repm m) :: rest`, all four topic types, `rest` any path of `prop j` steps into
inline objects / oneofs of the message. Freshness of the names the property exports there
(`topicDeepExportNames`, asked for every message of the topic): the SAME topic services, every message
found again with its old fields (including the implicit metadata field) a prefix and its nested
messages found again recursively (`FileSkel.LeDeep`). `rest = []` is `C13_append_field_topic_pkg`. -/
theorem C13_append_field_topic_deep_pkg (b b' : Bundle) (pkg : Str) (fi i k m : Nat)
    (rest : List PStep) (prop : Property)
    (he : (Edit.appendField fi (.el i :: topicStep k m :: rest) prop).apply pkg b = some b')
    (fs fs' : List FileSkel) (h : compilePkg b pkg = .ok fs) (h' : compilePkg b' pkg = .ok fs')
    (hfresh : ∀ p path imports E1 E2 t decl, b.find pkg = some p →
      p.files[fi]? = some (.j5s path imports (E1 ++ [.topic t] ++ E2) decl) → E1.length = i →
      ∀ tn ∈ topicNodes t, ∀ tm ∈ tn.msgs, ∀ x ∈ topicDeepExportNames tn tm rest prop,
        x ∉ pkgExportNames p) :
    ∀ f ∈ fs, ∃ f' ∈ fs', f.LeDeep f' := by
  obtain ⟨p, pre, post, g, g', hf, hp, hlen, happ, hf', hother, hl⟩ := apply_edit_struct _ b pkg b' he
  cases g with
  | proto pth msgs enums => simp [Edit.applyFile] at happ
  | j5s path imports elems decl =>
    simp only [Edit.applyFile] at happ
    obtain ⟨elems', hed, rfl⟩ := Option.map_eq_some_iff.mp happ
    obtain ⟨E1, E2, t, t', h1, h2, h3, ht⟩ := editElems_field_topic_deep (.field prop) i k m rest elems elems' hed
    subst h1; subst h2
    obtain ⟨N1, N2, tn, tn', T1, T2, tm, ps', n1, n2, hx, hps⟩ := editTopic_field_deep (.field prop) k m rest t t' ht
    have hget : p.files[fi]? = some (.j5s path imports (E1 ++ [.topic t] ++ E2) decl) := by
      rw [hp]
      simp only [Edit.file] at hlen
      rw [← hlen]; simp
    have hfr := hfresh p path imports E1 E2 t decl hf hget h3 tn (by rw [n1]; simp) tm
      (by rw [hx.1]; simp)
    have hexp := editProps_exports prop rest tm.props ps' hps [topicObjName tn tm]
    obtain ⟨A0, N, C0, hA, hB, hN, hrefs⟩ := topicItem_exports_deep t t' N1 N2 tn tn' T1 T2 tm ps' _ n1 n2 hx hexp
    exact replace_elems_compile_R FileSkel.LeDeep FileSkel.LeDeep.refl b b' pkg p pre post path imports
      _ _ decl hp hf hf' hother hl fs fs' h h'
      (fun k => k ∉ topicDeepExportNames tn tm rest prop)
      (fun s s' hs hs' => by
        have := summary_single_item path imports E1 E2 (.topic t) (.topic t') (.topicFile [t])
          (.topicFile [t']) rfl rfl A0 N C0 hA hB hrefs s s' hs hs'
        exact ⟨fun X Y k hk => this.1 X Y k (fun hm => hk (hN k hm)), this.2⟩)
      (fun f _ r _ hmem hx => hfr r.2 hx hmem)
      (fun res fs fs' hc hc' => convertFile_single_item_deep res path imports E1 E2 (.topic t) (.topic t')
        (.topicFile [t]) (.topicFile [t']) rfl rfl rfl
        (fun c => topicItem_msgs_deep c t t' N1 N2 tn tn' T1 T2 tm ps' n1 n2 hx
          (fun np io n => editProps_deep c prop rest tm.props ps' hps np io n))
        (fun c => by rw [itemEnums_topicFile, itemEnums_topicFile])
        (fun c => topicItem_svcs_deep c t t' N1 N2 tn tn' T1 T2 tm ps' n1 n2 hx) fs fs' hc hc')

/-- **Append a field at any depth — the edit itself, package level.** Path `el i :: rest` where the
`i`-th element of the file is an object or a oneof (`hkind`) and `rest` is any path the edit accepts
below it: `nest k` steps into nested objects / oneofs (any depth), then `prop j` steps into inline
objects / oneofs (any depth, through array and map items); the property is appended at the end of the
container the path ends in. Both versions compiling, and the names the property exports under that
container's nest path (`deepFieldExportNames`: its inline types) being new to the package: every
generated file is generated again under the same name and package with the same services and enums,
and every message is found again — `FileSkel.LeDeep` — with the same name, kind and annotation, its
old fields (name, JSON name, number, type, label, optionality, type name, oneof index) a prefix of the
new ones and, recursively at every depth, each nested message found again in the same way, each
nested enum with its old values a prefix. On the path every field list is in fact unchanged
(`editProps_deep`); the container at the end of the path gets the new field last. -/
theorem C13_append_field_nested_pkg (b b' : Bundle) (pkg : Str) (fi i : Nat) (rest : List PStep)
    (prop : Property)
    (he : (Edit.appendField fi (.el i :: rest) prop).apply pkg b = some b')
    (fs fs' : List FileSkel) (h : compilePkg b pkg = .ok fs) (h' : compilePkg b' pkg = .ok fs')
    (hkind : ∀ p path imports elems decl, b.find pkg = some p →
      p.files[fi]? = some (.j5s path imports elems decl) → ∃ io o, elems[i]? = some (declElem io o))
    (hfresh : ∀ p path imports E1 E2 io o decl, b.find pkg = some p →
      p.files[fi]? = some (.j5s path imports (E1 ++ [declElem io o] ++ E2) decl) → E1.length = i →
      ∀ x ∈ deepFieldExportNames rest o prop, x ∉ pkgExportNames p) :
    ∀ f ∈ fs, ∃ f' ∈ fs', f.LeDeep f' := by
  obtain ⟨p, pre, post, g, g', hf, hp, hlen, happ, hf', hother, hl⟩ := apply_edit_struct _ b pkg b' he
  cases g with
  | proto pth msgs enums => simp [Edit.applyFile] at happ
  | j5s path imports elems decl =>
    simp only [Edit.applyFile] at happ
    obtain ⟨elems', hed, rfl⟩ := Option.map_eq_some_iff.mp happ
    have hget0 : p.files[fi]? = some (.j5s path imports elems decl) := by
      rw [hp]
      simp only [Edit.file] at hlen
      rw [← hlen]; simp
    obtain ⟨io, o, hk⟩ := hkind p path imports elems decl hf hget0
    obtain ⟨E1, E2, o', h1, h2, h3, hdecl⟩ := editElems_field_decl prop i rest elems elems' io o hk hed
    subst h1; subst h2
    have hfr := hfresh p path imports E1 E2 io o decl hf hget0 h3
    exact replace_elems_compile_R FileSkel.LeDeep FileSkel.LeDeep.refl b b' pkg p pre post path imports
      _ _ decl hp hf hf' hother hl fs fs' h h'
      (fun k => k ∉ deepFieldExportNames rest o prop)
      (fun s s' hs hs' => summary_append_field_deep path imports E1 E2 io o o' rest prop hdecl s s' hs hs')
      (fun f _ r _ hmem hx => hfr r.2 hx hmem)
      (fun res fs fs' hc hc' => convertFile_append_field_deep res path imports E1 E2 io o o' rest prop hdecl
        fs fs' hc hc')

/-- **Append an option — the edit itself, package level.** Let `b'` be the bundle after
`appendOption` at a top-level enum (path `[el i]`; the edit requires the `i`-th element of the file
to be an enum), both versions compiling up to the link step. No further hypothesis: the enum may be
referred to by any number of fields of the package, with `in` / `notIn` rules and default filters
naming its values. The export entry of the enum itself changes (an `EnumRef` carries the value
names, which those rules are checked against); every lookup in the new export table gives the old
result or the same enum with more value names (`UpOrEq`), and a conversion that succeeded is
invariant under more value names of referenced enums (`convertFile_up`: every `mapValues` check that
passed still passes, nothing else reads the names). Then every generated file is generated again
under the same name and package with the same services and the same messages (up to `LeEdit`, here
equality of every message), and every enum is found again under its name with its old values —
names and numbers — as a prefix. (Until round 4 this needed "no field of the package refers to the
enum by name".) -/
theorem C13_append_option_pkg (b b' : Bundle) (pkg : Str) (fi i : Nat) (o : Str)
    (he : (Edit.appendOption fi [.el i] o).apply pkg b = some b')
    (fs fs' : List FileSkel) (h : compilePkg b pkg = .ok fs) (h' : compilePkg b' pkg = .ok fs') :
    ∀ f ∈ fs, ∃ f' ∈ fs', f.LeEdit f' := by
  obtain ⟨p, pre, post, g, g', hf, hp, hlen, happ, hf', hother, hl⟩ := apply_edit_struct _ b pkg b' he
  cases g with
  | proto pth msgs enums => simp [Edit.applyFile] at happ
  | j5s path imports elems decl =>
    simp only [Edit.applyFile] at happ
    obtain ⟨elems', hed, rfl⟩ := Option.map_eq_some_iff.mp happ
    obtain ⟨E1, E2, e, h1, h2, h3⟩ := editElems_option_top o i elems elems' hed
    subst h1; subst h2
    exact replace_elems_compile_up FileSkel.LeEdit FileSkel.LeEdit.refl b b' pkg p pre post path imports
      _ _ decl hp hf hf' hother hl fs fs' h h'
      (fun s s' hs hs' => summary_append_option_up path imports E1 E2 e o s s' hs hs')
      (fun res fs fs' hc hc' => convertFile_append_option_top res path imports E1 E2 e o fs fs' hc hc')

/-- **Append an option to a nested or inline enum at any depth — package level.** Path `el i :: rest`
where the `i`-th element is an object or a oneof (`hkind`) and `rest` is any path the edit accepts:
`nest k` steps through nested objects / oneofs ending at a nested enum, or further `prop j` steps
through inline objects / oneofs ending at a property that holds an inline enum (directly or as array /
map item). Both versions compiling — no other hypothesis: the enum may be referred to by name from
anywhere in the package, its own field may carry `in` / `notIn` rules and default filters. Every
generated file is generated again with the same services, every message found again with the SAME
fields and, recursively, its nested messages found again and every nested enum found again with its
old values — names and numbers — a prefix (`FileSkel.LeDeep`). Uses that the old conversion recorded
no error (`convertFile_ok_inv`): every value check that passed still passes with one more name
(`editDecl_opt_deep`), the export table changes in one entry only (`editDecl_opt_exports`), and
conversion is invariant under more value names of referenced enums (`convertFile_up`). -/
theorem C13_append_option_nested_pkg (b b' : Bundle) (pkg : Str) (fi i : Nat) (rest : List PStep)
    (o : Str)
    (he : (Edit.appendOption fi (.el i :: rest) o).apply pkg b = some b')
    (fs fs' : List FileSkel) (h : compilePkg b pkg = .ok fs) (h' : compilePkg b' pkg = .ok fs')
    (hkind : ∀ p path imports elems decl, b.find pkg = some p →
      p.files[fi]? = some (.j5s path imports elems decl) → ∃ io d, elems[i]? = some (declElem io d)) :
    ∀ f ∈ fs, ∃ f' ∈ fs', f.LeDeep f' := by
  obtain ⟨p, pre, post, g, g', hf, hp, hlen, happ, hf', hother, hl⟩ := apply_edit_struct _ b pkg b' he
  cases g with
  | proto pth msgs enums => simp [Edit.applyFile] at happ
  | j5s path imports elems decl =>
    simp only [Edit.applyFile] at happ
    obtain ⟨elems', hed, rfl⟩ := Option.map_eq_some_iff.mp happ
    have hget0 : p.files[fi]? = some (.j5s path imports elems decl) := by
      rw [hp]
      simp only [Edit.file] at hlen
      rw [← hlen]; simp
    obtain ⟨io, d, hk⟩ := hkind p path imports elems decl hf hget0
    obtain ⟨E1, E2, d', h1, h2, h3, hdecl⟩ := editElems_option_decl o i rest elems elems' io d hk hed
    subst h1; subst h2
    exact replace_elems_compile_up FileSkel.LeDeep FileSkel.LeDeep.refl b b' pkg p pre post path imports
      _ _ decl hp hf hf' hother hl fs fs' h h'
      (fun s s' hs hs' => summary_append_option_deep path imports E1 E2 io d d' rest o hdecl s s' hs hs')
      (fun res fs fs' hc hc' => convertFile_append_option_deep res path imports E1 E2 io d d' rest o hdecl
        fs fs' hc hc')

/-- **Append an option to an inline enum below a request / response — package level.** Path
`el i :: method m :: (req | res) :: rest`, `rest` a `prop j` path ending at a property holding an inline
enum. Both versions compiling, nothing else: same services, every message found again with the same
fields, the enum found again (nested in `<Method>Request…`) with its values a prefix. -/
theorem C13_append_option_method_deep_pkg (b b' : Bundle) (pkg : Str) (fi i m : Nat) (rq : Bool)
    (rest : List PStep) (o : Str)
    (he : (Edit.appendOption fi (.el i :: .method m :: reqStep rq :: rest) o).apply pkg b = some b')
    (fs fs' : List FileSkel) (h : compilePkg b pkg = .ok fs) (h' : compilePkg b' pkg = .ok fs') :
    ∀ f ∈ fs, ∃ f' ∈ fs', f.LeDeep f' := by
  obtain ⟨p, pre, post, g, g', hf, hp, hlen, happ, hf', hother, hl⟩ := apply_edit_struct _ b pkg b' he
  cases g with
  | proto pth msgs enums => simp [Edit.applyFile] at happ
  | j5s path imports elems decl =>
    simp only [Edit.applyFile] at happ
    obtain ⟨elems', hed, rfl⟩ := Option.map_eq_some_iff.mp happ
    obtain ⟨E1, E2, sv, M1, M2, mt, mt', r, r', h1, h2, h3, h4, h5, h6, h7⟩ :=
      editElems_field_method_deep (.option o) i m rq rest elems elems' hed
    subst h1; subst h2
    obtain ⟨hexp, hrefs⟩ := editProps_opt_exports o rest r r' h7 [methodObjName rq mt]
    obtain ⟨hE, hR⟩ := serviceItem_exports_up sv M1 M2 mt mt' rq r r' h4 h6 hexp hrefs
    exact replace_elems_compile_up FileSkel.LeDeep FileSkel.LeDeep.refl b b' pkg p pre post path imports
      _ _ decl hp hf hf' hother hl fs fs' h h'
      (fun s s' hs hs' => summary_single_item_up path imports E1 E2 (.service sv)
        (.service { sv with methods := M1 ++ [mt'] ++ M2 }) (.serviceFile [sv])
        (.serviceFile [{ sv with methods := M1 ++ [mt'] ++ M2 }]) rfl rfl hE hR s s' hs hs')
      (fun res fs fs' hc hc' => convertFile_single_item_c res path imports E1 E2 (.service sv)
        (.service { sv with methods := M1 ++ [mt'] ++ M2 }) (.serviceFile [sv])
        (.serviceFile [{ sv with methods := M1 ++ [mt'] ++ M2 }]) rfl rfl rfl
        (fun c hit => serviceItem_msgs_deepE c sv M1 M2 mt mt' rq r r' h4 h6 hit
          (fun np io n hn => editProps_opt_deep c o rest r r' h7 np io n hn))
        (fun c => by rw [itemEnums_serviceFile, itemEnums_serviceFile])
        (fun c => serviceItem_svcs_deep c sv M1 M2 mt mt' rq r r' h4 h6) fs fs' hc hc')

/-- **…and below a topic message** (`el i :: (msg | reqm | repm) m :: rest`, all four topic types). -/
theorem C13_append_option_topic_deep_pkg (b b' : Bundle) (pkg : Str) (fi i k m : Nat)
    (rest : List PStep) (o : Str)
    (he : (Edit.appendOption fi (.el i :: topicStep k m :: rest) o).apply pkg b = some b')
    (fs fs' : List FileSkel) (h : compilePkg b pkg = .ok fs) (h' : compilePkg b' pkg = .ok fs') :
    ∀ f ∈ fs, ∃ f' ∈ fs', f.LeDeep f' := by
  obtain ⟨p, pre, post, g, g', hf, hp, hlen, happ, hf', hother, hl⟩ := apply_edit_struct _ b pkg b' he
  cases g with
  | proto pth msgs enums => simp [Edit.applyFile] at happ
  | j5s path imports elems decl =>
    simp only [Edit.applyFile] at happ
    obtain ⟨elems', hed, rfl⟩ := Option.map_eq_some_iff.mp happ
    obtain ⟨E1, E2, t, t', h1, h2, h3, ht⟩ := editElems_field_topic_deep (.option o) i k m rest elems elems' hed
    subst h1; subst h2
    obtain ⟨N1, N2, tn, tn', T1, T2, tm, ps', n1, n2, hx, hps⟩ := editTopic_field_deep (.option o) k m rest t t' ht
    obtain ⟨hexp, hrefs⟩ := editProps_opt_exports o rest tm.props ps' hps [topicObjName tn tm]
    obtain ⟨hE, hR⟩ := topicItem_exports_up t t' N1 N2 tn tn' T1 T2 tm ps' n1 n2 hx hexp hrefs
    exact replace_elems_compile_up FileSkel.LeDeep FileSkel.LeDeep.refl b b' pkg p pre post path imports
      _ _ decl hp hf hf' hother hl fs fs' h h'
      (fun s s' hs hs' => by
        rcases hE with hE | hE
        · exact summary_single_item_same path imports E1 E2 (.topic t) (.topic t') (.topicFile [t])
            (.topicFile [t']) rfl rfl hE hR s s' hs hs'
        · exact summary_single_item_up path imports E1 E2 (.topic t) (.topic t') (.topicFile [t])
            (.topicFile [t']) rfl rfl hE hR s s' hs hs')
      (fun res fs fs' hc hc' => convertFile_single_item_c res path imports E1 E2 (.topic t) (.topic t')
        (.topicFile [t]) (.topicFile [t']) rfl rfl rfl
        (fun c hit => topicItem_msgs_deepE c t t' N1 N2 tn tn' T1 T2 tm ps' n1 n2 hx hit
          (fun np io n hn => editProps_opt_deep c o rest tm.props ps' hps np io n hn))
        (fun c => by rw [itemEnums_topicFile, itemEnums_topicFile])
        (fun c => topicItem_svcs_deep c t t' N1 N2 tn tn' T1 T2 tm ps' n1 n2 hx) fs fs' hc hc')

/-- the congruence behind it, on its own: a file that converts keeps converting to the SAME files when
the resolver changes only by giving referenced enums more value names -/
theorem C13_convert_up (res res' : Resolver) (path : Str) (imports : List Import)
    (elems : List Elem) (fs : List FileSkel) (h : convertFile res path imports elems = .ok fs)
    (hag : ∀ im, j5Imports (packageFromFilename (path ++ b!".proto")) imports = .ok im →
      AgreeUp { resolve := resolveTypeNoImport im res } { resolve := resolveTypeNoImport im res' }
        (fileRefs (packageFromFilename (path ++ b!".proto")) elems)) :
    convertFile res' path imports elems = .ok fs :=
  convertFile_up res res' path imports elems fs h hag

/-- conversion depends on the resolver only at the references it contains: the bridge between the
per-container theorems and package-level edits -/
theorem C13_convert_congr (res res' : Resolver) (path : Str) (imports : List Import)
    (elems : List Elem)
    (h : ∀ im, AgreeOn { resolve := resolveTypeNoImport im res } { resolve := resolveTypeNoImport im res' }
      (fileRefs (packageFromFilename (path ++ b!".proto")) elems)) :
    convertFile res path imports elems = convertFile res' path imports elems :=
  convertFile_congr res res' path imports elems h

/-- messages, enums and services are only ever appended to a file under construction
(`addMessage` / `addEnum` / `addService`), whatever the step -/
theorem C13_addMessage_prefix (r : Root) (s : Step) : r.Le (r.apply s) := Root.le_apply r s

/-! ## Sequences of edits

`FileSkel.LeAny` (Compile/EvolveSeq.lean) is the common relation of all append edits: same file name
and package, the old services a prefix of the new ones, every message found again under its name
with its old fields a prefix and — recursively, at any depth — every nested message found again
grown at most (`MsgSkel.LeDeep`), every enum found again with its old values a prefix. -/

/-- `LeAny` is a preorder and contains both single-edit relations (`Le`: declaration appends,
`LeEdit`: field / option appends) -/
theorem C13_le_preorder :
    (∀ f : FileSkel, f.LeAny f) ∧ (∀ a b c : FileSkel, a.LeAny b → b.LeAny c → a.LeAny c) ∧
    (∀ f f' : FileSkel, f.Le f' → f.LeAny f') ∧ (∀ f f' : FileSkel, f.LeEdit f' → f.LeAny f') :=
  ⟨FileSkel.LeAny.refl, fun _ _ _ h1 h2 => h1.trans h2, fun _ _ h => h.any, fun _ _ h => h.any⟩

/-- **Any admissible single edit, package level.** `Admissible pkg b e` (Compile/EvolveAdm.lean) lists
the eleven edit shapes proved above with their decidable side conditions: for field and declaration
appends the newly exported names are new to the package (plus, for the `nested` / `optionDeep` shapes,
"element `i` is an object or oneof"); option appends have NO side condition. One statement for all of
them, in the common relation. -/
theorem C13_append_any_pkg (b b' : Bundle) (pkg : Str) (e : Edit) (hadm : Admissible pkg b e)
    (he : e.apply pkg b = some b')
    (fs fs' : List FileSkel) (h : compilePkg b pkg = .ok fs) (h' : compilePkg b' pkg = .ok fs') :
    ∀ f ∈ fs, ∃ f' ∈ fs', f.LeAny f' := by
  intro f hf
  cases hadm with
  | decl fi el hfr =>
    exact (C13_append_decl_fresh b b' pkg fi el he fs fs' h h' hfr f hf).imp fun _ hx => ⟨hx.1, hx.2.any⟩
  | field fi i prop hfr =>
    exact (C13_append_field_pkg b b' pkg fi i prop he fs fs' h h' hfr f hf).imp fun _ hx => ⟨hx.1, hx.2.any⟩
  | nested fi i rest prop hk hfr =>
    exact (C13_append_field_nested_pkg b b' pkg fi i rest prop he fs fs' h h' hk hfr f hf).imp
      fun _ hx => ⟨hx.1, hx.2.any⟩
  | method fi i m rq prop hfr =>
    exact (C13_append_field_method_pkg b b' pkg fi i m rq prop he fs fs' h h' hfr f hf).imp
      fun _ hx => ⟨hx.1, hx.2.any⟩
  | methodDeep fi i m rq rest prop hfr =>
    exact (C13_append_field_method_deep_pkg b b' pkg fi i m rq rest prop he fs fs' h h' hfr f hf).imp
      fun _ hx => ⟨hx.1, hx.2.any⟩
  | topic fi i k m prop hfr =>
    exact (C13_append_field_topic_pkg b b' pkg fi i k m prop he fs fs' h h' hfr f hf).imp
      fun _ hx => ⟨hx.1, hx.2.any⟩
  | topicDeep fi i k m rest prop hfr =>
    exact (C13_append_field_topic_deep_pkg b b' pkg fi i k m rest prop he fs fs' h h' hfr f hf).imp
      fun _ hx => ⟨hx.1, hx.2.any⟩
  | optionDeep fi i rest o hk =>
    exact (C13_append_option_nested_pkg b b' pkg fi i rest o he fs fs' h h' hk f hf).imp
      fun _ hx => ⟨hx.1, hx.2.any⟩
  | optionMethodDeep fi i m rq rest o =>
    exact (C13_append_option_method_deep_pkg b b' pkg fi i m rq rest o he fs fs' h h' f hf).imp
      fun _ hx => ⟨hx.1, hx.2.any⟩
  | optionTopicDeep fi i k m rest o =>
    exact (C13_append_option_topic_deep_pkg b b' pkg fi i k m rest o he fs fs' h h' f hf).imp
      fun _ hx => ⟨hx.1, hx.2.any⟩
  | option fi i o =>
    exact (C13_append_option_pkg b b' pkg fi i o he fs fs' h h' f hf).imp fun _ hx => ⟨hx.1, hx.2.any⟩

/-- **Sequences of edits, package level.** Any list of edits applied left to right (`applyEdits`),
each admissible for the version it is applied to and every intermediate version compiling
(`SeqOk`): every file generated from the first version is generated again from the last one, with
every message, field (name, JSON name, number, type, label, optionality, type name, oneof index),
enum value (name, number), service and method found again unchanged. Induction over the edit list
with transitivity of `LeAny`; no bound on the length. -/
theorem C13_append_seq_pkg (pkg : Str) (es : List Edit) (b b' : Bundle) (fs fs' : List FileSkel)
    (hok : SeqOk (Admissible pkg) pkg es b) (happ : applyEdits pkg es b = some b')
    (h : compilePkg b pkg = .ok fs) (h' : compilePkg b' pkg = .ok fs') :
    ∀ f ∈ fs, ∃ f' ∈ fs', f.LeAny f' :=
  seq_rel FilesLeAny FilesLeAny.refl (fun _ _ _ h1 h2 => h1.trans h2) (Admissible pkg) pkg
    (fun b e b' fs fs' hadm he h h' => C13_append_any_pkg b b' pkg e hadm he fs fs' h h')
    es b b' fs fs' hok happ h h'

/-! ## Non-vacuity -/

/-- the formerly failing witness: empty enum, `X_UNSPECIFIED` appended — value 0 keeps its name -/
example :
    (convEnum { name := b!"Foo", pfx := [], opts := [] }).values = [(b!"FOO_UNSPECIFIED", 0)] ∧
    (convEnum { name := b!"Foo", pfx := [], opts := [b!"X_UNSPECIFIED"] }).values =
      [(b!"FOO_UNSPECIFIED", 0), (b!"FOO_X_UNSPECIFIED", 1)] := by decide

/-- both hypotheses of `C13_append_decl` hold for a concrete file and appended declaration -/
example :
    (convertFile ⟨b!"foo.v1", [], []⟩ b!"foo/v1/a.j5s" []
      [.object (.mk b!"A" [.mk b!"x" false false (.string [] false)] [] none)]).isOk = true ∧
    (convertFile ⟨b!"foo.v1", [], []⟩ b!"foo/v1/a.j5s" []
      ([.object (.mk b!"A" [.mk b!"x" false false (.string [] false)] [] none)] ++
       [.enum { name := b!"E", pfx := [], opts := [b!"ONE"] }])).isOk = true := by decide

example :
    (convEnum { name := b!"Foo", pfx := [], opts := [b!"A", b!"B"] }).values =
      (convEnum { name := b!"Foo", pfx := [], opts := [b!"A"] }).values ++ [(b!"FOO_B", 2)] := by
  decide

/-! a concrete instance of `C13_append_decl_pkg`: two files (the second refers to a type of the
first), an enum appended to the first file; both compiles succeed and the resolvers agree on the
existing references -/
def fileA (extra : List Elem) : SrcFile :=
  .j5s b!"foo/v1/a.j5s" [] ([.object (.mk b!"A" [.mk b!"x" false false (.string [] false)] [] none)] ++ extra)
    b!"foo.v1"
def fileB : SrcFile :=
  .j5s b!"foo/v1/b.j5s" [] [.object (.mk b!"B" [.mk b!"a" false false (.objectRef [] b!"A" false [])] [] none)]
    b!"foo.v1"
def bun (extra : List Elem) : Bundle := { pkgs := [ { name := b!"foo.v1", files := [fileA extra, fileB] } ] }
def newDecl : Elem := .enum { name := b!"E", pfx := [], opts := [b!"ONE"] }
def lOld : Loaded := match loadPkg (bun []) 2 [] b!"foo.v1" with | .ok l => l | _ => default
def lNew : Loaded := match loadPkg (bun [newDecl]) 2 [] b!"foo.v1" with | .ok l => l | _ => default

example : (loadPkg (bun []) 2 [] b!"foo.v1").isOk = true ∧
    (loadPkg (bun [newDecl]) 2 [] b!"foo.v1").isOk = true := by decide

/-- the hypotheses of `C13_append_decl_fresh` on the same instance: the edit applies, both
versions compile, and the new name `E` is not exported by the package -/
example : ((Edit.appendDecl 0 newDecl).apply b!"foo.v1" (bun [])).isSome = true ∧
    (compilePkg (bun []) b!"foo.v1").isOk = true ∧ (compilePkg (bun [newDecl]) b!"foo.v1").isOk = true ∧
    newExportNames b!"foo/v1/a.j5s" newDecl = [b!"E"] ∧
    ([fileA [], fileB].map sumOf).flatMap (fun s => s.exports.map (·.1)) = [b!"A", b!"B"] := by
  decide

example : ∀ f ∈ [fileA [], fileB], AgreeFile lOld.resolver lNew.resolver f := by
  intro f hf
  have hrefs : srcFileRefs (fileA []) = [] ∧ srcFileRefs fileB = [([], b!"A")] := by decide
  simp only [List.mem_cons, List.mem_nil_iff, or_false] at hf
  rcases hf with rfl | rfl
  · intro im _ r hr
    have : r ∈ srcFileRefs (fileA []) := hr
    rw [hrefs.1] at this; simp at this
  · intro im _ r hr
    have hr : r ∈ srcFileRefs fileB := hr
    rw [hrefs.2] at hr
    simp only [List.mem_singleton] at hr
    subst hr
    have h1 : lOld.resolver.pkgName = lNew.resolver.pkgName := by decide
    have h2 : mapGet lOld.resolver.exports b!"A" = mapGet lNew.resolver.exports b!"A" := by decide
    have h3 : lOld.resolver.deps = [] ∧ lNew.resolver.deps = [] := by decide
    simp only [resolveTypeNoImport, ImportMap.expand, Bool.true_or, decide_true, if_true,
      Resolver.resolveType, h1, h2, h3.1, h3.2]

/-- the hypotheses of `C13_append_field_pkg` on the same instance: a field with an inline object is
appended to object `A` (element 0 of file 0); the edit applies, both versions compile, the one new
export `A.Zz` is not exported by the package before -/
def newProp : Property :=
  .mk b!"zz" false false (.objectInl [] [.mk b!"y" false false (.string [] false)] false [])
def bunF : Bundle :=
  match (Edit.appendField 0 [.el 0] newProp).apply b!"foo.v1" (bun []) with | some b => b | none => { pkgs := [] }

example : ((Edit.appendField 0 [.el 0] newProp).apply b!"foo.v1" (bun [])).isSome = true ∧
    (compilePkg (bun []) b!"foo.v1").isOk = true ∧ (compilePkg bunF b!"foo.v1").isOk = true ∧
    newFieldExportNames b!"A" newProp = [b!"A.Zz"] ∧
    ([fileA [], fileB].map sumOf).flatMap (fun s => s.exports.map (·.1)) = [b!"A", b!"B"] := by
  decide

/-- …and of `C13_append_option_pkg`: an enum `E` next to the object (here referenced by no field); the
option `TWO` is appended -/
def fileE : SrcFile :=
  .j5s b!"foo/v1/a.j5s" [] [.enum { name := b!"E", pfx := [], opts := [b!"ONE"] },
    .object (.mk b!"A" [.mk b!"x" false false (.string [] false)] [] none)] b!"foo.v1"
def bunE : Bundle := { pkgs := [ { name := b!"foo.v1", files := [fileE, fileB] } ] }
def bunE' : Bundle :=
  match (Edit.appendOption 0 [.el 0] b!"TWO").apply b!"foo.v1" bunE with | some b => b | none => { pkgs := [] }

example : ((Edit.appendOption 0 [.el 0] b!"TWO").apply b!"foo.v1" bunE).isSome = true ∧
    (compilePkg bunE b!"foo.v1").isOk = true ∧ (compilePkg bunE' b!"foo.v1").isOk = true ∧
    [fileE, fileB].flatMap srcFileRefs = [([], b!"A")] := by
  decide

/-- a publish topic whose message holds an inline object; the property is appended inside it (path
`msg 0, prop 1`), and inside the inline object of a reply (path `repm 0, prop 0`): the hypotheses of
`C13_append_field_topic_deep_pkg` -/
def fileTD : SrcFile :=
  .j5s b!"foo/v1/t.j5s" []
    [.topic { name := b!"Foo", type := .publish [{ name := some b!"Created", props :=
        [.mk b!"id" false false (.string [] false),
         .mk b!"detail" false false (.objectInl [] [.mk b!"a" false false (.string [] false)] false [])] }] },
     .topic { name := b!"Bar", type := (.reqres [{ name := some b!"Do", props := [] }]
        [{ name := some b!"Done", props := [.mk b!"out" false false
          (.objectInl [] [.mk b!"b" false false (.bool [] false)] false [])] }]) }]
    b!"foo.v1"
def bunTD : Bundle := { pkgs := [ { name := b!"foo.v1", files := [fileTD] } ] }
def bunTD' (i k : Nat) (rest : List PStep) : Bundle :=
  match (Edit.appendField 0 (.el i :: topicStep k 0 :: rest) newProp).apply b!"foo.v1" bunTD with
  | some b => b | none => { pkgs := [] }

example : (compilePkg bunTD b!"foo.v1").isOk = true ∧
    (compilePkg (bunTD' 0 0 [.prop 1]) b!"foo.v1").isOk = true ∧
    (compilePkg (bunTD' 1 2 [.prop 0]) b!"foo.v1").isOk = true ∧
    (bunTD' 0 0 [.prop 1]).pkgs.length = 1 ∧ (bunTD' 1 2 [.prop 0]).pkgs.length = 1 ∧
    pkgExportNames { name := b!"foo.v1", files := [fileTD] } =
      [b!"CreatedMessage", b!"CreatedMessage.Detail", b!"DoMessage", b!"DoneMessage", b!"DoneMessage.Out"] := by
  decide
/-- …and for an enum that IS referred to, by a field with an `in` rule naming one of its values: the
option is appended, both versions compile -/
def fileER : SrcFile :=
  .j5s b!"foo/v1/a.j5s" [] [.enum { name := b!"E", pfx := [], opts := [b!"ONE"] },
    .object (.mk b!"A" [.mk b!"kind" false false (.enumRef [] b!"E" [⟨b!"in", .strs [b!"ONE"]⟩] none)] [] none)] b!"foo.v1"
def bunER : Bundle := { pkgs := [ { name := b!"foo.v1", files := [fileER, fileB] } ] }
def bunER' : Bundle :=
  match (Edit.appendOption 0 [.el 0] b!"TWO").apply b!"foo.v1" bunER with | some b => b | none => { pkgs := [] }

example : ((Edit.appendOption 0 [.el 0] b!"TWO").apply b!"foo.v1" bunER).isSome = true ∧
    (compilePkg bunER b!"foo.v1").isOk = true ∧ (compilePkg bunER' b!"foo.v1").isOk = true ∧
    [fileER, fileB].flatMap srcFileRefs = [([], b!"E"), ([], b!"A")] := by
  decide
/-- object `G` with an inline enum field `kind` (with an `in` rule naming one of its values), an array of
inline enums, and an inline object holding an inline enum; another object refers to `G.Kind` by name.
An option is appended to each of the three inline enums (paths `prop 0`, `prop 1`, `prop 2, prop 0`):
the hypotheses of `C13_append_option_nested_pkg` -/
def fileG : SrcFile :=
  .j5s b!"foo/v1/g.j5s" []
    [.object (.mk b!"G"
      [.mk b!"kind" false false (.enumInl { name := [], pfx := [], opts := [b!"ONE"] } [⟨b!"in", .strs [b!"ONE"]⟩] none),
       .mk b!"tags" false false (.array (.enumInl { name := b!"Tag", pfx := [], opts := [b!"A"] } [] none) []),
       .mk b!"sub" false false (.objectInl [] [.mk b!"mode" false false
          (.enumInl { name := [], pfx := [], opts := [b!"X"] } [] none)] false [])] [] none),
     .object (.mk b!"H" [.mk b!"k" false false (.enumRef [] b!"G.Kind" [⟨b!"in", .strs [b!"ONE"]⟩] none)] [] none)]
    b!"foo.v1"
def bunG : Bundle := { pkgs := [ { name := b!"foo.v1", files := [fileG] } ] }
def bunG' (rest : List PStep) : Bundle :=
  match (Edit.appendOption 0 (.el 0 :: rest) b!"TWO").apply b!"foo.v1" bunG with
  | some b => b | none => { pkgs := [] }

example : (compilePkg bunG b!"foo.v1").isOk = true ∧
    (compilePkg (bunG' [.prop 0]) b!"foo.v1").isOk = true ∧
    (compilePkg (bunG' [.prop 1]) b!"foo.v1").isOk = true ∧
    (compilePkg (bunG' [.prop 2, .prop 0]) b!"foo.v1").isOk = true ∧
    (bunG' [.prop 0]).pkgs.length = 1 ∧ (bunG' [.prop 1]).pkgs.length = 1 ∧
    (bunG' [.prop 2, .prop 0]).pkgs.length = 1 := by
  decide
/-- a request with an inline enum (with an `in` rule) and a topic message with an inline enum inside an
inline object: an option is appended to each (`C13_append_option_method_deep_pkg`,
`C13_append_option_topic_deep_pkg`) -/
def fileSO : SrcFile :=
  .j5s b!"foo/v1/s.j5s" []
    [.service { name := some b!"Foo", basePath := some b!"/foo", methods :=
      [{ name := b!"DoFoo", verb := .post, path := b!"/x",
         request := some [.mk b!"mode" false false
           (.enumInl { name := [], pfx := [], opts := [b!"FAST"] } [⟨b!"in", .strs [b!"FAST"]⟩] none)],
         response := some [] }] },
     .topic { name := b!"Foo", type := .publish [{ name := some b!"Created", props :=
        [.mk b!"detail" false false (.objectInl [] [.mk b!"level" false false
          (.enumInl { name := [], pfx := [], opts := [b!"LOW"] } [] none)] false [])] }] }]
    b!"foo.v1"
def bunSO : Bundle := { pkgs := [ { name := b!"foo.v1", files := [fileSO] } ] }
def bunSO' (path : List PStep) : Bundle :=
  match (Edit.appendOption 0 path b!"NEXT").apply b!"foo.v1" bunSO with
  | some b => b | none => { pkgs := [] }

example : (compilePkg bunSO b!"foo.v1").isOk = true ∧
    (compilePkg (bunSO' [.el 0, .method 0, .req, .prop 0]) b!"foo.v1").isOk = true ∧
    (compilePkg (bunSO' [.el 1, .msg 0, .prop 0, .prop 0]) b!"foo.v1").isOk = true ∧
    (bunSO' [.el 0, .method 0, .req, .prop 0]).pkgs.length = 1 ∧
    (bunSO' [.el 1, .msg 0, .prop 0, .prop 0]).pkgs.length = 1 := by
  decide
/-- …and of `C13_append_field_method_pkg`: a service with one method; a field with an inline object is
appended to the request (`rq = true`) and a scalar to the response -/
def fileS : SrcFile :=
  .j5s b!"foo/v1/s.j5s" [] [.service { name := some b!"Foo", basePath := some b!"/foo", methods :=
    [{ name := b!"GetFoo", verb := .get, path := b!"/x",
       request := some [.mk b!"id" false false (.string [] false)],
       response := some [.mk b!"name" false false (.string [] false)] }] }] b!"foo.v1"
def bunS : Bundle := { pkgs := [ { name := b!"foo.v1", files := [fileS] } ] }
def bunS' (rq : Bool) (pr : Property) : Bundle :=
  match (Edit.appendField 0 [.el 0, .method 0, reqStep rq] pr).apply b!"foo.v1" bunS with
  | some b => b | none => { pkgs := [] }

example : ((Edit.appendField 0 [.el 0, .method 0, reqStep true] newProp).apply b!"foo.v1" bunS).isSome = true ∧
    (compilePkg bunS b!"foo.v1").isOk = true ∧ (compilePkg (bunS' true newProp) b!"foo.v1").isOk = true ∧
    (compilePkg (bunS' false (.mk b!"zz" false false (.bool [] false))) b!"foo.v1").isOk = true ∧
    newFieldExportNames b!"GetFooRequest" newProp = [b!"GetFooRequest.Zz"] ∧
    ([fileS].map sumOf).flatMap (fun s => s.exports.map (·.1)) = [b!"GetFooRequest", b!"GetFooResponse"] := by
  decide

/-- a service whose request holds an inline object with an inline object: the property is appended to
`DoFooRequest.Filter.Range` (path `req, prop 1, prop 0`): the hypotheses of
`C13_append_field_method_deep_pkg` -/
def fileSD : SrcFile :=
  .j5s b!"foo/v1/s.j5s" [] [.service { name := some b!"Foo", basePath := some b!"/foo", methods :=
    [{ name := b!"DoFoo", verb := .post, path := b!"/x",
       request := some [.mk b!"id" false false (.string [] false),
         .mk b!"filter" false false (.objectInl [] [.mk b!"range" false false
           (.objectInl [] [.mk b!"lo" false false (.string [] false)] false [])] false [])],
       response := some [.mk b!"name" false false (.string [] false)] }] }] b!"foo.v1"
def bunSD : Bundle := { pkgs := [ { name := b!"foo.v1", files := [fileSD] } ] }
def bunSD' : Bundle :=
  match (Edit.appendField 0 [.el 0, .method 0, .req, .prop 1, .prop 0] newProp).apply b!"foo.v1" bunSD with
  | some b => b | none => { pkgs := [] }

example : (compilePkg bunSD b!"foo.v1").isOk = true ∧ (compilePkg bunSD' b!"foo.v1").isOk = true ∧
    bunSD'.pkgs.length = 1 ∧
    pkgExportNames { name := b!"foo.v1", files := [fileSD] } =
      [b!"DoFooRequest", b!"DoFooRequest.Filter", b!"DoFooRequest.Filter.Range", b!"DoFooResponse"] := by
  decide
/-- …and of `C13_append_field_topic_pkg`: a publish topic with a named message, and a request / reply
topic; a field with an inline object is appended to the message / to the reply -/
def fileT : SrcFile :=
  .j5s b!"foo/v1/t.j5s" []
    [.topic { name := b!"Foo", type := .publish [{ name := some b!"Created", props := [.mk b!"id" false false (.string [] false)] }] },
     .topic { name := b!"Bar", type := .reqres [{ name := some b!"Do", props := [] }] [{ name := some b!"Done", props := [] }] }]
    b!"foo.v1"
def bunT : Bundle := { pkgs := [ { name := b!"foo.v1", files := [fileT] } ] }
def bunT' (i k : Nat) : Bundle :=
  match (Edit.appendField 0 [.el i, topicStep k 0] newProp).apply b!"foo.v1" bunT with
  | some b => b | none => { pkgs := [] }

example : (compilePkg bunT b!"foo.v1").isOk = true ∧ (compilePkg (bunT' 0 0) b!"foo.v1").isOk = true ∧
    (compilePkg (bunT' 1 2) b!"foo.v1").isOk = true ∧ (bunT' 0 0).pkgs.length = 1 ∧ (bunT' 1 2).pkgs.length = 1 ∧
    ([fileT].map sumOf).flatMap (fun s => s.exports.map (·.1)) =
      [b!"CreatedMessage", b!"DoMessage", b!"DoneMessage"] := by
  decide

/-- …and of `C13_append_field_nested_pkg`: object `D` with a nested object `N` (which has a nested
oneof `W`) and a field `inner` holding an array of inline objects with an inline object `deep`; the
property with the inline object `Zz` is appended to `D.N.W` (path `nest 0, nest 0`) and to
`D.Inner.Deep` (path `prop 1, prop 0`); both edits apply, both versions compile, the new names are
`D.N.W.Zz` / `D.Inner.Deep.Zz` and are not exported before -/
def fileD : SrcFile :=
  .j5s b!"foo/v1/d.j5s" []
    [.object (.mk b!"D"
      [.mk b!"x" false false (.string [] false),
       .mk b!"inner" false false (.array (.objectInl [] [.mk b!"deep" false false
          (.objectInl [] [.mk b!"y" false false (.string [] false)] false [])] false []) [])]
      [.object (.mk b!"N" [.mk b!"a" false false (.bool [] false)]
        [.oneof (.mk b!"W" [.mk b!"o1" false false (.string [] false)] [] none)] none)] none)]
    b!"foo.v1"
def bunD : Bundle := { pkgs := [ { name := b!"foo.v1", files := [fileD] } ] }
def bunD' (rest : List PStep) : Bundle :=
  match (Edit.appendField 0 (.el 0 :: rest) newProp).apply b!"foo.v1" bunD with
  | some b => b | none => { pkgs := [] }
def objD : ObjDecl := match fileD with
  | .j5s _ _ [.object o] _ => o | _ => .mk [] [] [] none

example : (compilePkg bunD b!"foo.v1").isOk = true ∧
    (compilePkg (bunD' [.nest 0, .nest 0]) b!"foo.v1").isOk = true ∧
    (compilePkg (bunD' [.prop 1, .prop 0]) b!"foo.v1").isOk = true ∧
    (bunD' [.nest 0, .nest 0]).pkgs.length = 1 ∧ (bunD' [.prop 1, .prop 0]).pkgs.length = 1 ∧
    deepFieldExportNames [.nest 0, .nest 0] objD newProp = [b!"D.N.W.Zz"] ∧
    deepFieldExportNames [.prop 1, .prop 0] objD newProp = [b!"D.Inner.Deep.Zz"] ∧
    pkgExportNames { name := b!"foo.v1", files := [fileD] } =
      [b!"D", b!"D.Inner", b!"D.Inner.Deep", b!"D.N", b!"D.N.W"] := by
  decide

/-- the hypotheses of `C13_append_seq_pkg` on a concrete sequence of three edits of three kinds
(declaration, field with an inline object, option of the enum just declared): all apply, all four
versions compile; the side condition of the first edit is proved as an `Admissible` instance -/
def seqEdits : List Edit := [.appendDecl 0 newDecl, .appendField 0 [.el 0] newProp, .appendOption 0 [.el 1] b!"TWO"]
def bunSeq (k : Nat) : Bundle :=
  match applyEdits b!"foo.v1" (seqEdits.take k) (bun []) with | some b => b | none => { pkgs := [] }

example : (applyEdits b!"foo.v1" seqEdits (bun [])).isSome = true ∧
    (compilePkg (bunSeq 0) b!"foo.v1").isOk = true ∧ (compilePkg (bunSeq 1) b!"foo.v1").isOk = true ∧
    (compilePkg (bunSeq 2) b!"foo.v1").isOk = true ∧ (compilePkg (bunSeq 3) b!"foo.v1").isOk = true ∧
    (bunSeq 3).pkgs.length = 1 := by decide

/-- the first edit of `seqEdits` is admissible for the first version -/
theorem adm_seq1 : Admissible b!"foo.v1" (bun []) (.appendDecl 0 newDecl) := by
  apply Admissible.decl
  intro p path imports elems decl hf hget n hn
  have hp : p = { name := b!"foo.v1", files := [fileA [], fileB] } := by
    have h0 : (bun []).find b!"foo.v1" = some { name := b!"foo.v1", files := [fileA [], fileB] } := rfl
    rw [h0] at hf; exact (Option.some.inj hf).symm
  subst hp
  have hpath : path = b!"foo/v1/a.j5s" := by
    simp only [fileA, List.getElem?_cons_zero, Option.some.injEq, SrcFile.j5s.injEq] at hget
    exact hget.1.symm
  subst hpath
  have h1 : newExportNames b!"foo/v1/a.j5s" newDecl = [b!"E"] := by decide
  have h2 : pkgExportNames { name := b!"foo.v1", files := [fileA [], fileB] } = [b!"A", b!"B"] := by decide
  rw [h1] at hn
  rw [h2]
  simp only [List.mem_singleton] at hn
  subst hn
  decide

/-- the second edit is admissible for the second version (the one new name `A.Zz` is fresh) -/
theorem adm_seq2 : Admissible b!"foo.v1" (bun [newDecl]) (.appendField 0 [.el 0] newProp) := by
  apply Admissible.field
  intro p path imports E1 E2 io n ps ne psm decl hf hget hlen x hx
  have hp : p = { name := b!"foo.v1", files := [fileA [newDecl], fileB] } := by
    have h0 : (bun [newDecl]).find b!"foo.v1" = some { name := b!"foo.v1", files := [fileA [newDecl], fileB] } := rfl
    rw [h0] at hf; exact (Option.some.inj hf).symm
  subst hp
  have hE1 : E1 = [] := List.length_eq_zero_iff.mp hlen
  subst hE1
  have hn : n = b!"A" := by
    simp only [fileA, List.getElem?_cons_zero, Option.some.injEq, SrcFile.j5s.injEq, List.nil_append,
      List.cons_append, List.cons.injEq] at hget
    have h1 := hget.2.2.1.1
    cases io
    · simp only [declElem, Elem.object.injEq, ObjDecl.mk.injEq] at h1
      exact h1.1.symm
    · simp [declElem] at h1
  subst hn
  have h1 : newFieldExportNames b!"A" newProp = [b!"A.Zz"] := by decide
  have h2 : pkgExportNames { name := b!"foo.v1", files := [fileA [newDecl], fileB] } = [b!"A", b!"E", b!"B"] := by decide
  rw [h1] at hx
  rw [h2]
  simp only [List.mem_singleton] at hx
  subst hx
  decide

/-- the bundle after the first two edits of `seqEdits` -/
def bunSeq2 : Bundle :=
  { pkgs := [ { name := b!"foo.v1", files :=
      [.j5s b!"foo/v1/a.j5s" []
        [.object (.mk b!"A" [.mk b!"x" false false (.string [] false), newProp] [] none), newDecl] b!"foo.v1",
       fileB] } ] }

/-- **`SeqOk` for the whole sequence** — the full hypothesis of `C13_append_seq_pkg` on three edits of
three kinds (declaration, field with an inline object, option of the enum just declared): every edit
is `Admissible` for the version it is applied to and every intermediate version compiles -/
theorem C13_seq_example : SeqOk (Admissible b!"foo.v1") b!"foo.v1" seqEdits (bun []) := by
  have a1 : (Edit.appendDecl 0 newDecl).apply b!"foo.v1" (bun []) = some (bun [newDecl]) := rfl
  have a2 : (Edit.appendField 0 [.el 0] newProp).apply b!"foo.v1" (bun [newDecl]) = some bunSeq2 := rfl
  refine ⟨adm_seq1, ?_⟩
  intro b1 h1
  rw [a1] at h1
  obtain rfl := Option.some.inj h1
  refine ⟨fun _ => by decide, adm_seq2, ?_⟩
  intro b2 h2
  rw [a2] at h2
  obtain rfl := Option.some.inj h2
  refine ⟨fun _ => by decide, Admissible.option 0 1 b!"TWO", ?_⟩
  intro b3 _
  exact ⟨fun h => absurd rfl h, trivial⟩

/-! ## Source-fact obligations (regenerated by `extract/evolve.go` from the current source)

The three mechanisms the property's anchors name, as go/ast facts: every mention of the counter /
name / slice in question, in source order, with its enclosing control structure. A change of any of
these functions changes a fact and breaks the `decide`; a function that is no longer found is
emitted as `("unknown", "unknown")`. -/
section Src
open J5V.Generated.Evolve

/-- mechanism 1 (schema.go `mapProperties`): the counter starts at 0, is written exactly once per iteration of each of the two loops (`++`, before the use) and its only use is the property's `number`: numbers are a function of the position — the model's `numberFrom` / `mapProperties` -/
theorem C13_src_mapPropertiesCounter :
    mapPropertiesCounter = [
      ("top", "fieldNumber := int32(0)"),
      ("for _, prop := range virtualPrepend", "fieldNumber++"),
      ("for _, prop := range virtualPrepend", "number: fieldNumber"),
      ("for idx, prop := range properties", "fieldNumber++"),
      ("for idx, prop := range properties", "number: fieldNumber")] := by decide

/-- …the result is built by `append` at the end only, once per iteration, virtual prepends first — the model's `numberFrom 0 virt ++ numberFrom virt.length props` -/
theorem C13_src_mapPropertiesOut :
    mapPropertiesOut = [
      ("top", "out := make([]*propertyNode, 0, len(properties))"),
      ("for _, prop := range virtualPrepend", "out = append(out, property)"),
      ("for _, prop := range virtualPrepend", "append#0"),
      ("if len(properties) == 0", "return out"),
      ("for idx, prop := range properties", "out = append(out, property)"),
      ("for idx, prop := range properties", "append#0"),
      ("top", "return out")] := by decide

/-- …both loops range over slices (declaration order), not maps -/
theorem C13_src_mapPropertiesParams :
    mapPropertiesParams = [
      ("source", "SourceNode"),
      ("sourcePath", "[]string"),
      ("parent", "parentNode"),
      ("properties", "[]*schema_j5pb.ObjectProperty"),
      ("virtualPrepend", "[]*schema_j5pb.ObjectProperty")] := by decide

/-- mechanism 1 for enums (conversion.go `visitEnumNode`): the only numbered calls are `addValue(0, first)` for an explicit zero and `addValue(idx+1, value)` with the range index — the model's `enumValues` -/
theorem C13_src_enumAddValue :
    enumAddValue = [
      ("if len(optionsToSet) > 0 && isExplicitUnspecified(prefix, optionsToSet[0])", "eb.addValue(0, optionsToSet[0])"),
      ("for idx, value := range optionsToSet", "eb.addValue(int32(idx+1), value)")] := by decide

/-- …the ranged list is the declared option list, shortened only by dropping the explicit zero at its head -/
theorem C13_src_enumOptionsToSet :
    enumOptionsToSet = [
      ("top", "optionsToSet := node.Schema.Options"),
      ("top", "len#0"),
      ("top", "cond len(optionsToSet) > 0 && isExplicitUnspecified(prefix, optionsToSet[0])"),
      ("if len(optionsToSet) > 0 && isExplicitUnspecified(prefix, optionsToSet[0])", "eb.addValue(0, optionsToSet[0])"),
      ("if len(optionsToSet) > 0 && isExplicitUnspecified(prefix, optionsToSet[0])", "optionsToSet = optionsToSet[1:]"),
      ("for idx, value := range optionsToSet", "ranged optionsToSet")] := by decide

/-- …`addValue` stores the number it is given (no renumbering); 0 overwrites slot 0, anything else is appended -/
theorem C13_src_addValueNumber :
    addValueNumber = [
      ("top", "gl.Ptr#0"),
      ("top", "cond number == 0"),
      ("if schema.Description != \"\"", "e.comment([]int32{2, number}, schema.Description)")] := by decide

/-- …`addValue` appends at the end (or overwrites the implicit zero), never inserts -/
theorem C13_src_addValueMutations :
    addValueMutations = [
      ("if !strings.HasPrefix(name, e.prefix)", "name = e.prefix + name"),
      ("if len(schema.Info) > 0", "value.Options = &descriptorpb.EnumValueOptions{}"),
      ("if number == 0", "e.desc.Value[0] = value"),
      ("else of number == 0", "e.desc.Value = append(e.desc.Value, value)")] := by decide

/-- mechanism 2 (property.go): the default nesting name is `strcase.ToCamel(<property name>)` and is only handed to `buildFieldNode` — the model's `defName := toCamel name` in `bProperty` -/
theorem C13_src_acceptDefaultName :
    acceptDefaultName = [
      ("top", "defaultNestingName := strcase.ToCamel(pn.schema.Name)"),
      ("top", "buildFieldNode#2")] := by decide

/-- …`buildFieldNode` passes it on unchanged (through array / map items) to the three `replaceNested*` functions — the model's `bField c np defName` -/
theorem C13_src_buildFieldNodeDefaultName :
    buildFieldNodeDefaultName = [
      ("case *schema_j5pb.Field_Array", "buildFieldNode#2"),
      ("case *schema_j5pb.Field_Map", "buildFieldNode#2"),
      ("case *schema_j5pb.Field_Object", "replaceNestedObject#2"),
      ("case *schema_j5pb.Field_Oneof", "replaceNestedOneof#2"),
      ("case *schema_j5pb.Field_Enum", "replaceNestedEnum#2")] := by decide

/-- …and the parent node likewise: the nest path of an inline type is the owner's, whatever the depth of array / map wrappers -/
theorem C13_src_buildFieldNodeParent :
    buildFieldNodeParent = [
      ("case *schema_j5pb.Field_Array", "buildFieldNode#1"),
      ("case *schema_j5pb.Field_Map", "buildFieldNode#1"),
      ("case *schema_j5pb.Field_Object", "replaceNestedObject#1"),
      ("case *schema_j5pb.Field_Oneof", "replaceNestedOneof#1"),
      ("case *schema_j5pb.Field_Enum", "replaceNestedEnum#1")] := by decide

/-- …`replaceNested*` use the default only to fill an empty name — `nm := if name = [] then defName else name` -/
theorem C13_src_replaceNestedDefaultName :
    replaceNestedDefaultName = [
      ("replaceNestedObject", "case *schema_j5pb.ObjectField_Object / if st.Object.Name == \"\"", "st.Object.Name = defaultName"),
      ("replaceNestedOneof", "case *schema_j5pb.OneofField_Oneof / if st.Oneof.Name == \"\"", "st.Oneof.Name = defaultName"),
      ("replaceNestedEnum", "case *schema_j5pb.EnumField_Enum / if st.Enum.Name == \"\"", "st.Enum.Name = defaultName")] := by decide

/-- …and build the inline node from (parent, schema) only: no index, counter or sibling enters the name -/
theorem C13_src_replaceNestedParent :
    replaceNestedParent = [
      ("replaceNestedObject", "case *schema_j5pb.ObjectField_Object", "newObjectSchemaNode#1"),
      ("replaceNestedOneof", "case *schema_j5pb.OneofField_Oneof", "newOneofSchemaNode#1"),
      ("replaceNestedEnum", "case *schema_j5pb.EnumField_Enum", "newEnumNode#1")] := by decide

/-- …`NestPath` = parent's nest path ++ [name], `NameInPackage` = the same joined by dots — the model's `np ++ [nm]` / `relName np nm` -/
theorem C13_src_rootReturns :
    rootReturns = [
      ("newRoot", "top", "return rootType{ Source: source, name: name, nestPath: nestPath, }"),
      ("rootType.NestPath", "if len(on.nestPath) == 0", "return []string{on.name}"),
      ("rootType.NestPath", "top", "return append(slices.Clone(on.nestPath), on.name)"),
      ("rootType.NameInPackage", "if on.nestPath == nil", "return on.name"),
      ("rootType.NameInPackage", "top", "return fmt.Sprintf(\"%s.%s\", strings.Join(on.nestPath, \".\"), on.name)")] := by decide

/-- …`nestPath` is set from `parent.NestPath()` only -/
theorem C13_src_rootNestPath :
    rootNestPath = [
      ("newRoot", "top", "other var nestPath []string"),
      ("newRoot", "if parent != nil", "nestPath = parent.NestPath()"),
      ("newRoot", "top", "nestPath: nestPath"),
      ("rootType.NestPath", "top", "cond len(on.nestPath) == 0"),
      ("rootType.NestPath", "top", "return append(slices.Clone(on.nestPath), on.name)"),
      ("rootType.NameInPackage", "top", "cond on.nestPath == nil"),
      ("rootType.NameInPackage", "top", "return fmt.Sprintf(\"%s.%s\", strings.Join(on.nestPath, \".\"), on.name)")] := by decide

/-- mechanism 3 (builders.go): each of `addMessage` / `addEnum` / `addService` (file and message level) has exactly one mutation, an `append` at the end of the target slice — the model's `Root.apply` / `FileB.apply` / `Eff.add` (lists only ever grow at the end: `C13_addMessage_prefix`) -/
theorem C13_src_builderMutations :
    builderMutations = [
      ("fileContext.addMessage", "top", "fb.fdp.MessageType = append(fb.fdp.MessageType, message.descriptor)"),
      ("fileContext.addEnum", "top", "fb.fdp.EnumType = append(fb.fdp.EnumType, enum.desc)"),
      ("fileContext.addService", "top", "fb.fdp.Service = append(fb.fdp.Service, service.desc)"),
      ("MessageBuilder.addMessage", "top", "msg.descriptor.NestedType = append(msg.descriptor.NestedType, message.descriptor)"),
      ("MessageBuilder.addEnum", "top", "msg.descriptor.EnumType = append(msg.descriptor.EnumType, enum.desc)")] := by decide

end Src

end J5V.Props.C13
