import J5V.Conc.SchedProofs
import J5V.Conc.SchedFlat
import J5V.Conc.SchedSerial
import J5V.Conc.SchedLocal
import J5V.Conc.SchedHB
import J5V.Conc.SchedHBDec
import J5V.Conc.SchedRW
import J5V.Conc.SchedRWSerial
import J5V.Conc.CacheProofs
import J5V.Conc.ClashProofs
import J5V.Conc.CacheSched
import J5V.Generated.LocksFacts
/-!
# C10 — shared codecs and schema caches are safe for concurrent use

Only the property theorems (and their non-vacuity examples) live here.

* `Sched` part: for **any** number of threads, **any** thread programs and **any** schedule.
  Locks are reader/writer locks with Go's writer preference (`Conc/Sched.lean`).
  - Race freedom in the happens-before sense (`RaceHB`: two conflicting accesses not ordered by
    program order + the synchronisation edges of `sync.Mutex`/`sync.RWMutex`):
    `C10_hb_publication` — writes under the write lock, reads of unpublished locations under at
    least the read lock, reads of *published* locations anywhere provided the execution obeys the
    publication rule (`PubOrdered`: the reader acquired the lock between the write and its read) —
    with the lockset theorems `C10_guarded_hb_race_free` (mutex) and
    `C10_rw_guarded_hb_race_free` (reader/writer) as the special case "nothing published".
  - The same disciplines exclude co-enabled conflicting accesses (`C10_guarded_race_free`,
    `C10_rw_guarded_race_free`).
  - Flat locking (no acquisition, in either mode, while a lock is held) excludes deadlock, also
    with waiting writers blocking new readers (`C10_no_deadlock`, `C10_can_finish`).
  - When every operation is one critical section of a mutex every schedule produces exactly the
    state (memory, every thread's observations) of a sequential execution of the operations in
    some order (`C10_serialisable`); with read sections, write sections run in isolation and read
    sections see one snapshot (`C10_rw_write_sections_isolated`).
* `Cache` part: for **any** descriptor graph (shared sub-schemas, self / mutual recursion, failing
  members) and **any** cache reachable by earlier requests, a request returns what it returns on
  an empty cache (`C10_cache_transparent`); a failed request leaves no trace; what has been
  returned is never modified again.
* Code part: the tables regenerated from the Go source by `extract/locks.go` satisfy the
  disciplines (`decide` over the whole tables).

Scope ("partial"): the theorems are about the lock discipline the extractor can see and about
the cache algorithm; the Go memory model (the synchronisation edges above; data-race-free programs
are sequentially consistent), the Go runtime and thread-safety inside protobuf-go are trusted.
-/
namespace J5V.Props.C10
open J5V.Conc.Sched J5V.Conc.Cache

/-! ## Any N, any schedule: race freedom -/

/-- **Publication.** Static discipline: every write under the write lock of `l`, every read of a
location outside `X` under the read or write lock, `l` flat. Rule of the execution: a location of
`X` is read by another thread only after that thread acquired `l` (in either mode) after the
write. Then no two conflicting accesses are unordered by happens-before.
**Given `PubOrdered`**: the rule of the execution is a hypothesis (`hpub`), it is not derived here for
any program — for the real code its static half is the extractor's table (`C10_code_published_dominated`:
every published read is dominated by a call through the lock), its dynamic half lives on the cache model
(`C10_no_unlinked_visible`, `C10_published_frozen`); the two halves are not connected by a theorem.
A program + schedule for which `PubOrdered` is *proved* (and one for which it fails and a race
follows) is `pubProg` / `pubGood` / `pubBad` below. -/
theorem C10_hb_publication (wv : WriteFn) (l : Nat) (X : Nat → Bool) (p : Prog) (h : PubGuardedBy l X p)
    (sched : List Nat) (hpub : PubOrdered l X (trace wv p sched)) : ¬ RaceHB (trace wv p sched) :=
  hb_race_free wv l X p h sched hpub

/-- Reader/writer lock discipline ⇒ no happens-before race (nothing published). -/
theorem C10_rw_guarded_hb_race_free (wv : WriteFn) (l : Nat) (p : Prog) (h : RWGuardedBy l p) :
    ∀ sched : List Nat, ¬ RaceHB (trace wv p sched) :=
  fun sched => hb_race_free wv l _ p h sched (pubOrdered_empty l _)

/-- Mutex discipline ⇒ no happens-before race: the lockset theorem as a corollary. -/
theorem C10_guarded_hb_race_free (wv : WriteFn) (l : Nat) (p : Prog) (h : AllGuardedBy l p) :
    ∀ sched : List Nat, ¬ RaceHB (trace wv p sched) :=
  C10_rw_guarded_hb_race_free wv l p (allGuarded_pubGuarded l _ p h)

/-- Happens-before races are decidable: the detector `raceHBb` (reachability through increasing
positions of the trace) says yes exactly when there is one. -/
theorem C10_race_detector (tr : List Ev) : RaceHB tr ↔ raceHBb tr = true := raceHB_iff tr

/-- The trace is the trace of `run`: the traced machine goes through the same states. -/
theorem C10_trace_of_run (wv : WriteFn) (p : Prog) (sched : List Nat) : (trun wv p sched).st = run wv p sched :=
  trun_st wv p sched

/-- Writes under the write lock and reads under at least the read lock ⇒ no two conflicting
accesses are ever enabled together, in every state reachable under every schedule. -/
theorem C10_rw_guarded_race_free (wv : WriteFn) (l : Nat) (p : Prog) (h : RWGuardedBy l p) :
    ∀ sched : List Nat, ¬ Race (run wv p sched) :=
  fun sched => gi_no_race l _ (gi_runFrom wv l _ sched _ (gi_init l _ p h))

/-- Lock discipline (mutex) ⇒ no data race, in every state reachable under every schedule. -/
theorem C10_guarded_race_free (wv : WriteFn) (l : Nat) (p : Prog) (h : AllGuardedBy l p) :
    ∀ sched : List Nat, ¬ Race (run wv p sched) :=
  C10_rw_guarded_race_free wv l p (allGuarded_pubGuarded l _ p h)

/-! ## Any N, any schedule: deadlock freedom, serialisability -/

/-- No nested acquisition (any number of reader/writer locks, waiting writers block new readers)
⇒ as long as some thread is unfinished, some thread can take a step, in every state reachable
under every schedule. -/
theorem C10_no_deadlock (wv : WriteFn) (p : Prog) (h : NoNesting p) (sched : List Nat)
    (hnd : ¬ AllDone (run wv p sched)) : ∃ i, Enabled (run wv p sched) i :=
  finv_enabled _ (finv_runFrom wv sched _ (finv_init p h)) hnd

/-- An enabled thread really moves: its next action is consumed. -/
theorem C10_enabled_progress (wv : WriteFn) (s : State) (i : Nat) (h : Enabled s i) :
    ∃ a r, s.rem[i]? = some (a :: r) ∧ (step wv s i).rem = s.rem.set i r :=
  enabled_step_rem wv s i h

/-- … until all are done: whatever has been scheduled so far, the run can be completed (every
thread finishes all its calls; nobody is blocked for ever). -/
theorem C10_can_finish (wv : WriteFn) (p : Prog) (h : NoNesting p) (sched : List Nat) :
    ∃ more : List Nat, AllDone (run wv p (sched ++ more)) := by
  obtain ⟨more, hm⟩ := finv_can_finish wv _ (run wv p sched) (finv_runFrom wv sched _ (finv_init p h)) rfl
  exact ⟨more, by simpa [run, runFrom, List.foldl_append] using hm⟩

/-- Every operation one critical section ⇒ every reachable state is a sequential state plus a
proper prefix of one operation of one thread. -/
theorem C10_serialisable_prefix (wv : WriteFn) (l : Nat) (p : Prog) (h : OpsProg l p) (sched : List Nat) :
    (∃ order, run wv p sched = runSeq wv p order) ∨
    (∃ order i k, run wv p sched = stepN wv (runSeq wv p order) i k ∧
        0 < k ∧ k < opLen ((runSeq wv p order).rem.getD i [])) := by
  rcases good_run wv l p h sched with ⟨_, order, ho⟩ | ⟨i, s0, order, k, _, hs0, hs', hk, hlen, hpos, _⟩
  · exact Or.inl ⟨order, ho⟩
  · refine Or.inr ⟨order, i, k, ?_, hk, ?_⟩
    · rw [hs', hs0]; rfl
    · have : s0 = runSeq wv p order := hs0
      rw [← this]; omega

/-- … and a completed run is exactly a sequential execution of the operations in some order:
same memory, same observations of every thread. -/
theorem C10_serialisable (wv : WriteFn) (l : Nat) (p : Prog) (h : OpsProg l p) (sched : List Nat)
    (hdone : AllDone (run wv p sched)) : ∃ order, run wv p sched = runSeq wv p order := by
  rcases good_run wv l p h sched with ⟨_, order, ho⟩ | ⟨i, _, _, _, _, _, _, _, _, _, _, _, _, ⟨ti, hti, hshi⟩, _⟩
  · exact ⟨order, ho⟩
  · have := hdone i ti hti
    subst this
    simp [opsShape] at hshi

/-- The same when threads also take local steps between their operations (the work a goroutine does
with what a call returned): the results — shared memory and everything each thread has read — of a
completed run are those of a sequential execution of the operations in some order. -/
theorem C10_serialisable_local (wv : WriteFn) (l : Nat) (p : Prog) (h : OpsProgT l p) (sched : List Nat)
    (hdone : AllDone (run wv p sched)) :
    ∃ order, (run wv p sched).mem = (runSeq wv (stripProg p) order).mem ∧
      (run wv p sched).logs = (runSeq wv (stripProg p) order).logs := by
  obtain ⟨sched', hrel⟩ := rel_runFrom wv l sched (init p) (init (stripProg p)) (rel_init l p) (tinv_init l p h)
  have hdone' := rel_allDone l _ _ hrel hdone
  obtain ⟨order, ho⟩ := C10_serialisable wv l (stripProg p) (opsProg_strip l p h) sched' hdone'
  obtain ⟨_, _, _, hm, hlg, _, _⟩ := hrel
  refine ⟨order, ?_, ?_⟩
  · rw [← ho]; exact hm.symm
  · rw [← ho]; exact hlg.symm

/-- Reader/writer operations (write sections `lock … unlock`, read-only read sections
`rlock … runlock`): write sections are serialised with everything — while a thread is inside one,
no step of any other thread changes the memory or anybody's observations — and nothing is written
while a read lock is held (a read section sees one snapshot). -/
theorem C10_rw_write_sections_isolated (wv : WriteFn) (l : Nat) (p : Prog) (h : RWOpsProg l p) (sched : List Nat) :
    (∀ i j, (run wv p sched).owner l = some i → j ≠ i →
      (step wv (run wv p sched) j).mem = (run wv p sched).mem ∧
      (step wv (run wv p sched) j).logs = (run wv p sched).logs) ∧
    ((run wv p sched).readers l ≠ [] → ∀ j, (step wv (run wv p sched) j).mem = (run wv p sched).mem) := by
  have hg : GIx l (rwOpsShape l) (run wv p sched) :=
    gix_runFrom wv l _ (disc_rwOps l) sched _ (gix_init l _ p h)
  exact ⟨fun i j hi hij => rw_write_isolated wv l _ hg i j hi hij, fun hr j => rw_read_snapshot wv l _ hg j hr⟩

/-- … and a completed run of reader/writer operations (read sections may overlap) is exactly a
sequential execution of whole operations, in the order in which they completed: same memory, same
observations of every thread. So a lookup under the read lock sees the cache as some sequence of
whole builds left it. -/
theorem C10_rw_serialisable (wv : WriteFn) (l : Nat) (p : Prog) (h : RWOpsProg l p) (sched : List Nat)
    (hdone : AllDone (run wv p sched)) :
    ∃ order, (run wv p sched).mem = (runSeqRW wv p order).mem ∧
      (run wv p sched).logs = (runSeqRW wv p order).logs ∧
      (run wv p sched).rem = (runSeqRW wv p order).rem :=
  rw_serialisable wv l p h sched hdone

/-! ## The cache -/

/-- A request returns what it returns alone, whatever was cached before: same verdict, and on
success the same linked schema for every schema reachable from the root. -/
theorem C10_cache_transparent (G : Graph) (c : Cache) (hc : Reachable G c) (d : Nat) :
    (schemaOf G c d).2 = (schemaOf G emptyCache d).2 ∧
    ((schemaOf G c d).2 = .ok → ∀ m, Reach G d m →
      find (schemaOf G c d).1 m = some (some (shallow G m)) ∧
      find (schemaOf G emptyCache d).1 m = some (some (shallow G m))) := by
  obtain ⟨i1, v1, d1, _, _⟩ := schemaOf_spec G c (reachable_inv G c hc) d
  obtain ⟨i2, v2, d2, _, _⟩ := schemaOf_spec G emptyCache (inv_empty G) d
  have hverdict : (schemaOf G c d).2 = (schemaOf G emptyCache d).2 := by
    cases h1 : (schemaOf G c d).2 with
    | ok => exact (v2.mpr (v1.mp h1)).symm
    | err =>
      cases h2 : (schemaOf G emptyCache d).2 with
      | ok => rw [v1.mpr (v2.mp h2)] at h1; cases h1
      | err => rfl
  refine ⟨hverdict, fun hok m hm => ?_⟩
  have linkedIn : ∀ c', Inv G c' → Dom c' d → find c' m = some (some (shallow G m)) := by
    intro c' hi hd
    have := inv_reach_dom G c' hi d m hm hd
    unfold Dom at this
    cases hf : find c' m with
    | none => simp [hf] at this
    | some e => rw [(hi m e hf).1]
  exact ⟨linkedIn _ i1 (d1 hok), linkedIn _ i2 (d2 (hverdict ▸ hok))⟩

/-- Consequence for any sequence of requests (= any sequential order of the calls of any number
of goroutines, by `C10_serialisable`): the k-th call answers as it would alone. -/
theorem C10_calls_as_alone (G : Graph) (ds : List Nat) (d : Nat) :
    (schemaOf G (runReqs G emptyCache ds) d).2 = (schemaOf G emptyCache d).2 :=
  (C10_cache_transparent G _ (reachable_runReqs G _ Reachable.empty ds) d).1

/-- No caller can observe a placeholder: between calls every registered ref is linked. -/
theorem C10_no_unlinked_visible (G : Graph) (c : Cache) (hc : Reachable G c) (m : Nat) (e : Entry)
    (h : find c m = some e) : e = some (shallow G m) :=
  (reachable_inv G c hc m e h).1

/-- A failed request leaves the cache as it found it. -/
theorem C10_failed_build_leaves_no_trace (G : Graph) (c : Cache) (hc : Reachable G c) (d : Nat)
    (h : (schemaOf G c d).2 = .err) : ∀ m, find (schemaOf G c d).1 m = find c m :=
  (schemaOf_spec G c (reachable_inv G c hc) d).2.2.2.2 h

/-- Published schemas are frozen: an entry, once visible, is never changed by later requests
(so reads outside the lock of what `Schema` returned never conflict with a later write). -/
theorem C10_published_frozen (G : Graph) (c : Cache) (hc : Reachable G c) (ds : List Nat) (m : Nat)
    (e : Entry) (h : find c m = some e) : find (runReqs G c ds) m = some e := by
  induction ds generalizing c with
  | nil => exact h
  | cons d ds ih =>
    exact ih _ (Reachable.step c d hc) ((schemaOf_spec G c (reachable_inv G c hc) d).2.2.2.1 m e h)

/-- For a request whose closure builds (`GoodFrom G n`: every schema it reaches is well formed) the
recursion bound of the model is not the reason for a failure: the build with fuel `G.length + 1`
succeeds. (For a closure that does not build the answer is `.err` whatever the fuel, by
`schemaOf_spec`: `.ok ↔ GoodFrom`; the theorem says nothing more about that case.) -/
theorem C10_fuel_never_exhausted (G : Graph) (c : Cache) (n : Nat) (hg : GoodFrom G n) :
    (buildNode G (G.length + 1) c n).2 = true :=
  buildNode_fuel_enough G _ c n (Nat.lt_succ_of_le (unreg_le G c)) hg

/-! ## The code: obligations over the tables regenerated from the Go source (E7) -/

open J5V.Generated.Locks

/-- the mutex of `SchemaCache` (whatever the field is called; there must be exactly one) -/
def cacheLock : String :=
  match cacheLocks with
  | [l] => l
  | _ => "?"

def muId : Nat := lockNames.findIdx (· == cacheLock)

/-- held as the writer: `mu.Lock()` -/
def isW (g : Option Nat) : Bool := g == some muId && decide (muId < lockNames.length)

/-- held at least as a reader: `mu.Lock()`, `mu.RLock()`, or a helper only reached under one of them -/
def isRW (g : Option Nat) : Bool :=
  match g with
  | some k =>
    match lockNames[k]? with
    | some n => n == cacheLock || n == cacheLock ++ ".R" || n == cacheLock ++ "+" ++ cacheLock ++ ".R"
    | none => false
  | none => false

/-- accesses that the discipline requires to be under the lock: every write to a location that is
mutated after construction, and every access to a map or to a field of the struct that owns the
mutex (the cache index) or to a package-level variable -/
def mustGuard (a : Access) : Bool := a.write || a.isMap || a.lockOwner

/-- reader/writer discipline with one lock: writes hold it as the writer, the other protected
accesses at least as a reader -/
def codeGuarded : Bool := accesses.all (fun a => !mustGuard a || (if a.write then isW a.guard else isRW a.guard))

def isCacheSite (s : LockSite) : Bool :=
  match lockNames[s.lock]? with
  | some n => n == cacheLock || n == cacheLock ++ ".R"
  | none => false

def codeLockSites : Bool :=
  lockSites.all (fun s => !s.nested && (if isCacheSite s then s.deferredUnlock else s.leaf)) &&
  lockSites.any (fun s => s.lock == muId)

/-- The extractor found the three `Codec` entry points and the `Reflector` ones, the one lock of
the cache and guarded map writes. -/
theorem C10_code_extracted :
    rootsFound = 3 ∧ extraRoots.length ≥ 2 ∧ cacheLocks.length = 1 ∧ lockNames[muId]? = some cacheLock ∧
    accesses.any (fun a => a.write && a.isMap && isW a.guard) = true := by decide

/-- Every access that must be guarded is dominated by `mu.Lock()` + deferred `Unlock` (a read also
by `mu.RLock()` + deferred `RUnlock`) or lies in a helper only called with the lock held: one and
the same lock for every protected location. This is what breaks when a `Lock` is stripped, a map
access moves outside the lock, or the lock is split in two. -/
theorem C10_code_guarded : codeGuarded = true := by decide

/-- Every acquisition of the cache lock (in either mode) releases by `defer`, no acquisition is
reachable from a position where a lock is already held (no nesting, in either mode), other locks
are leaf locks: the premise of `C10_no_deadlock`; every `Schema` call is one critical section: the
premise of `C10_serialisable` / `C10_rw_write_sections_isolated`, hence lookups only ever see the
cache between whole builds (the premise `Reachable` of `C10_no_unlinked_visible`). -/
theorem C10_code_locksites : codeLockSites = true := by decide

/-- Nothing the extractor could not classify. -/
theorem C10_code_no_unknown : unknownLocations = 0 ∧ opaqueShared = [] := by decide

/-- **Published reads.** Every read outside the lock of a location that is written under it (the
fields of the schemas a `Schema` call returned: `RefSchema.To`, `ObjectSchema.Properties`, …) can
only be executed by a goroutine that has been through an obtainer — `SchemaCache.Schema`, or a
function that unconditionally calls one (`Reflector.NewRoot`, …) — since it entered the codec:
the static half of the publication rule (`PubOrdered`: the reader acquired the lock between the
write and its read). And these are all the unguarded rows of the table. -/
theorem C10_code_published_dominated :
    publishedReads.all (·.dominated) = true ∧ publishedReads.length > 10 ∧
    obtainers.contains "j5schema.SchemaCache.Schema" = true ∧
    (accesses.filter (fun a => !isRW a.guard)).length = publishedReads.length ∧
    (accesses.filter (fun a => !isRW a.guard)).all (fun a => !a.write && !mustGuard a) = true := by decide

/-- **Shared state beyond the cache index.** Of every package-level variable and every field of a
type reachable from the package-level variables (the default codecs among them), `Codec` and
`Reflector`: what is written by a function on the path is written under the write lock of the
cache (or inside a `sync.Once`); everything else is immutable after construction. -/
theorem C10_code_no_unguarded_shared_write :
    sharedState.all (fun r => !r.writtenOnPath || r.guarded) = true ∧
    sharedState.any (fun r => r.name == "Package.Schemas" && r.writtenOnPath && r.guarded) = true ∧
    sharedState.any (fun r => r.name == "var codec.Global" && !r.writtenOnPath) = true ∧
    sharedState.any (fun r => r.name == "var j5codec.Global" && !r.writtenOnPath) = true ∧
    sharedState.any (fun r => r.name == "Codec.refl" && !r.writtenOnPath) = true ∧
    sharedState.any (fun r => r.name == "Reflector.schemaSet" && !r.writtenOnPath) = true := by decide

/-! ### instantiation of the race theorems on the extracted sites -/

def act (a : Access) (x : Nat) : Action := if a.write then .write x else .read x

/-- The trace of one extracted access site on the concrete location `x`: inside a write section of
lock 0 when the table says the cache lock guards it as the writer, inside a read section when it
says "at least as a reader", bare otherwise (one section per access: finer than the code, hence
more interleavings). -/
def siteTrace (s : Access × Nat) : Thread :=
  if isW s.1.guard then [.lock 0, act s.1 s.2, .unlock 0]
  else if isRW s.1.guard then [.rlock 0, act s.1 s.2, .runlock 0]
  else [act s.1 s.2]

def codeThread (sites : List (Access × Nat)) : Thread := sites.flatMap siteTrace

theorem C10_code_write_rows_hold_write_lock (a : Access) (ha : a ∈ accesses) (hw : a.write = true) : isW a.guard = true := by
  have hall := C10_code_guarded
  unfold codeGuarded at hall
  rw [List.all_eq_true] at hall
  have := hall a ha
  simpa [mustGuard, hw] using this

theorem C10_code_writer_is_reader (g : Option Nat) (h : isW g = true) : isRW g = true := by
  simp only [isW, Bool.and_eq_true, beq_iff_eq, decide_eq_true_eq] at h
  obtain ⟨rfl, _⟩ := h
  have := C10_code_extracted.2.2.2.1
  simp [isRW, this]

theorem C10_code_thread_disciplined (X : Nat → Bool) (sites : List (Access × Nat))
    (h : ∀ s ∈ sites, s.1 ∈ accesses ∧ (isRW s.1.guard = false → X s.2 = true)) :
    pubGuardedFrom 0 X .N (codeThread sites) = true := by
  induction sites with
  | nil => rfl
  | cons s sites ih =>
    obtain ⟨hs, hX⟩ := h s (List.mem_cons_self ..)
    have hrest := ih (fun b hb => h b (List.mem_cons_of_mem s hb))
    simp only [codeThread, List.flatMap_cons] at hrest ⊢
    by_cases hW : isW s.1.guard = true
    · have hst : siteTrace s = [.lock 0, act s.1 s.2, .unlock 0] := by simp [siteTrace, hW]
      rw [hst]
      cases hw : s.1.write <;> simp [act, hw, pubGuardedFrom, hrest]
    · have hnw : s.1.write = false := by
        cases hw : s.1.write with
        | false => rfl
        | true => exact absurd (C10_code_write_rows_hold_write_lock s.1 hs hw) hW
      by_cases hR : isRW s.1.guard = true
      · have hst : siteTrace s = [.rlock 0, act s.1 s.2, .runlock 0] := by simp [siteTrace, hW, hR]
        rw [hst]
        simp [act, hnw, pubGuardedFrom, hrest]
      · have hRf : isRW s.1.guard = false := by simpa using hR
        have hst : siteTrace s = [act s.1 s.2] := by simp [siteTrace, hW, hRf]
        rw [hst]
        simp [act, hnw, pubGuardedFrom, hrest, hX hRf]

/-- Any number of goroutines, each performing any sequence of the extracted access sites on any
concrete locations, where the sites the table lists outside the lock (the published reads) touch
only locations of `X`: under any schedule whose execution obeys the publication rule for `X`, no
happens-before race. **Conditional on `PubOrdered`** (hypothesis `hpub`, as in `C10_hb_publication`:
assumed, not derived from the code; the code side of it is the trusted extractor's boolean
`publishedReads.all (·.dominated)`), so this is the partial form of "the code is HB-race free"; the
unconditional instantiation is `C10_code_race_free` (protected sites only). -/
theorem C10_code_hb_race_free (wv : WriteFn) (X : Nat → Bool) (gs : List (List (Access × Nat)))
    (h : ∀ g ∈ gs, ∀ s ∈ g, s.1 ∈ accesses ∧ (isRW s.1.guard = false → X s.2 = true)) (sched : List Nat)
    (hpub : PubOrdered 0 X (trace wv (gs.map codeThread) sched)) :
    ¬ RaceHB (trace wv (gs.map codeThread) sched) := by
  apply C10_hb_publication wv 0 X _ _ sched hpub
  intro t ht
  obtain ⟨g, hg, rfl⟩ := List.mem_map.mp ht
  exact C10_code_thread_disciplined X g (h g hg)

def protectedAccesses : List Access := accesses.filter mustGuard

/-- … and the sites that must be guarded, alone, in any number and order on any locations: no race
at all (co-enabled or happens-before), under any schedule, without any rule for the execution. -/
theorem C10_code_race_free (wv : WriteFn) (gs : List (List (Access × Nat)))
    (h : ∀ g ∈ gs, ∀ s ∈ g, s.1 ∈ protectedAccesses) (sched : List Nat) :
    ¬ Race (run wv (gs.map codeThread) sched) ∧ ¬ RaceHB (trace wv (gs.map codeThread) sched) := by
  have hg : RWGuardedBy 0 (gs.map codeThread) := by
    intro t ht
    obtain ⟨g, hg, rfl⟩ := List.mem_map.mp ht
    refine C10_code_thread_disciplined _ g (fun s hs => ?_)
    have hm := List.mem_filter.mp (h g hg s hs)
    refine ⟨hm.1, fun hR => ?_⟩
    have hall := C10_code_guarded
    unfold codeGuarded at hall
    rw [List.all_eq_true] at hall
    have hrow := hall s.1 hm.1
    rw [hm.2] at hrow
    have : isRW s.1.guard = true := by
      cases hw : s.1.write with
      | true => rw [hw] at hrow; exact C10_code_writer_is_reader _ (by simpa using hrow)
      | false => rw [hw] at hrow; simpa using hrow
    rw [this] at hR; cases hR
  exact ⟨C10_rw_guarded_race_free wv 0 _ hg sched, C10_rw_guarded_hb_race_free wv 0 _ hg sched⟩

/-! ## Non-vacuity -/

abbrev one : WriteFn := fun _ _ _ => 1

/-- a real race: two threads, unguarded write and read of the same location -/
example : Race (run one [[.write 7], [.read 7]] []) :=
  ⟨0, 1, by decide, .write 7, .read 7, [], [], 7, true, false, rfl, rfl, rfl, rfl, Or.inl rfl⟩

/-- … and the same two accesses, run one after the other, are a happens-before race -/
example : RaceHB (trace one [[.write 7], [.read 7]] [0, 1]) :=
  ⟨0, 1, ⟨0, .write 7⟩, ⟨1, .read 7⟩, 7, true, false, by decide, by decide, by decide, by decide, rfl, rfl,
    Or.inl rfl, not_hb_of_closed _ (fun _ _ => false) (by decide) 0 1 rfl⟩

/-- … the same accesses under a lock satisfy the hypothesis of `C10_guarded_race_free` -/
example : AllGuardedBy 0 [[.lock 0, .write 7, .unlock 0], [.tau, .lock 0, .read 7, .unlock 0, .lock 3, .unlock 3]] := by decide
example : ¬ AllGuardedBy 0 [[.lock 0, .write 7, .unlock 0], [.read 7]] := by decide

/-- reader/writer discipline: a writer and two readers; a write under the read lock is rejected -/
example : RWGuardedBy 0 [[.lock 0, .read 7, .write 7, .unlock 0], [.rlock 0, .read 7, .runlock 0, .tau],
    [.rlock 0, .read 7, .runlock 0, .lock 0, .write 7, .unlock 0]] := by decide
example : ¬ RWGuardedBy 0 [[.rlock 0, .write 7, .runlock 0]] := by decide
/-- the mutex discipline does not accept `l` used as a read lock, the reader/writer one does -/
example : ¬ AllGuardedBy 0 [[.rlock 0, .read 7, .runlock 0]] ∧ RWGuardedBy 0 [[.rlock 0, .read 7, .runlock 0]] := by decide

/-- why writes need the write lock: two read sections are not ordered by happens-before even when
they run one after the other (`RUnlock` → `RLock` is no synchronisation edge), so two "writers"
under the read lock race -/
example : RaceHB (trace one [[.rlock 0, .write 7, .runlock 0], [.rlock 0, .write 7, .runlock 0]] [0, 0, 0, 1, 1, 1]) :=
  ⟨1, 4, ⟨0, .write 7⟩, ⟨1, .write 7⟩, 7, true, true, by decide, by decide, by decide, by decide, rfl, rfl,
    Or.inl rfl, not_hb_of_closed _ (fun a b => decide (b < 3) || decide (3 ≤ a)) (by decide) 1 4 rfl⟩

/-! ### publication -/

/-- location 5 is the payload that is read outside the lock, location 1 the index (the flag) -/
def pubX : Nat → Bool := fun x => x == 5

/-- a builder (writes payload and index in its critical section, reads the payload after it), a
reader through the mutex and a reader through the read lock (both read the payload after their
section) -/
def pubProg : Prog := [
  [.lock 0, .write 5, .write 1, .unlock 0, .read 5],
  [.lock 0, .read 1, .unlock 0, .read 5],
  [.rlock 0, .read 1, .runlock 0, .read 5]]

example : PubGuardedBy 0 pubX pubProg := by decide
/-- not covered by the lockset disciplines: the payload is read outside the lock -/
example : ¬ RWGuardedBy 0 pubProg := by decide

/-- the builder first, the readers' sections interleaved after it: the publication rule holds,
hence no happens-before race -/
def pubGood : List Nat := [0, 0, 0, 0, 2, 1, 2, 2, 1, 1, 2, 0, 1]

example : PubOrdered 0 pubX (trace one pubProg pubGood) := pubOrdered_of_check _ _ _ (by decide)
example : ¬ RaceHB (trace one pubProg pubGood) :=
  C10_hb_publication one 0 pubX pubProg (by decide) pubGood (pubOrdered_of_check _ _ _ (by decide))

/-- the rule violated: thread 1 went through the lock *before* the builder published and reads the
payload afterwards without going through the lock again — a happens-before race on location 5
between the builder's write (position 4) and that read (position 7) -/
def pubBad : List Nat := [1, 1, 1, 0, 0, 0, 0, 1]

theorem C10_publication_violated_races : RaceHB (trace one pubProg pubBad) :=
  ⟨4, 7, ⟨0, .write 5⟩, ⟨1, .read 5⟩, 5, true, false, by decide, by decide, by decide, by decide, rfl, rfl,
    Or.inl rfl, not_hb_of_closed _ (fun a b => !(decide (3 ≤ a) && b == 7)) (by decide) 4 7 rfl⟩

example : ¬ PubOrdered 0 pubX (trace one pubProg pubBad) :=
  fun h => C10_hb_publication one 0 pubX pubProg (by decide) pubBad h C10_publication_violated_races

/-- the same two facts by evaluation of the detector (an independent check of the theorem on this instance) -/
example : ¬ RaceHB (trace one pubProg pubGood) ∧ RaceHB (trace one pubProg pubBad) := by decide

/-- all schedules of `n` threads of the given length -/
def allScheds (n : Nat) : Nat → List (List Nat)
  | 0 => [[]]
  | len + 1 => (allScheds n len).flatMap fun σ => (List.range n).map (· :: σ)

/-- A builder and a reader that goes through the lock once and then reads the payload: over **all**
64 schedules of length 6, whenever the execution obeys the publication rule the detector finds no
race (what `C10_hb_publication` says), some schedules obey it and complete, and some do race (the
reader's section came first) — the hypothesis is what separates them. -/
def pubTiny : Prog := [[.lock 0, .write 5, .unlock 0], [.lock 0, .unlock 0, .read 5]]

example :
    (allScheds 2 6).all (fun σ => !pubOrderedB 0 pubX (trace one pubTiny σ) || !raceHBb (trace one pubTiny σ)) = true ∧
    (allScheds 2 6).any (fun σ => pubOrderedB 0 pubX (trace one pubTiny σ) && (run one pubTiny σ).rem.all List.isEmpty) = true ∧
    (allScheds 2 6).any (fun σ => raceHBb (trace one pubTiny σ)) = true := by decide

/-! ### deadlock -/

/-- flat locking with two locks, in both modes; nesting is rejected -/
example : NoNesting [[.lock 0, .write 7, .unlock 0, .rlock 1, .tau, .runlock 1], [.lock 1, .unlock 1, .rlock 0, .read 7, .runlock 0]] := by decide
example : ¬ NoNesting [[.lock 0, .lock 1, .unlock 1, .unlock 0]] := by decide
example : ¬ NoNesting [[.rlock 0, .rlock 0, .runlock 0, .runlock 0]] := by decide

/-- the classic deadlock is a nested program and really is stuck: both threads unfinished, none enabled -/
example : let s := run one [[.lock 0, .lock 1, .unlock 1, .unlock 0], [.lock 1, .lock 0, .unlock 0, .unlock 1]] [0, 1]
    (¬ AllDone s) ∧ ∀ i, ¬ Enabled s i := stuck_of_check _ (by decide)

/-- The seeded change C10-m3 in the model: a reader that takes the read lock twice (`cached` →
`SchemaByName`) and a writer (first use of a type). After the reader's first `RLock` the writer
announces itself; from then on the reader's second `RLock` waits for the writer and the writer for
the reader: stuck for ever. Without the writer the recursive read lock goes through. -/
def m3Prog : Prog := [[.rlock 0, .rlock 0, .read 7, .runlock 0, .runlock 0], [.lock 0, .write 7, .unlock 0]]

example : ¬ NoNesting m3Prog := by decide
example : let s := run one m3Prog [0, 1]
    (¬ AllDone s) ∧ ∀ i, ¬ Enabled s i := stuck_of_check _ (by decide)
example : AllDone (run one m3Prog [0, 0, 0, 0, 0, 1, 1, 1]) := allDone_of_check _ (by decide)

/-- reader/writer operations: two readers whose sections overlap in the schedule below, a writer,
local steps in between; a write inside a read section is not an operation -/
def rwProg : Prog := [
  [.rlock 0, .read 1, .runlock 0, .tau, .lock 0, .read 1, .write 2, .unlock 0],
  [.rlock 0, .read 1, .tau, .read 2, .runlock 0],
  [.tau, .lock 0, .write 1, .unlock 0]]

example : RWOpsProg 0 rwProg := by decide
example : ¬ RWOpsProg 0 [[.rlock 0, .write 1, .runlock 0]] := by decide
/-- the hypotheses of `C10_rw_serialisable` for a schedule in which the two read sections overlap
and the writer announces itself while they are inside -/
example : AllDone (run one rwProg [0, 1, 2, 2, 0, 1, 1, 0, 1, 1, 2, 2, 2, 0, 0, 0, 0, 0]) :=
  allDone_of_check _ (by decide)

/-- operations as critical sections -/
example : OpsProg 0 [[.lock 0, .read 1, .write 1, .unlock 0, .lock 0, .write 2, .unlock 0], [.lock 0, .read 1, .write 1, .unlock 0]] := by decide

example : OpsProgT 0 [[.tau, .lock 0, .read 1, .write 1, .unlock 0, .tau, .tau, .lock 0, .write 2, .unlock 0, .tau], [.lock 0, .read 1, .unlock 0]] := by decide

/-- the table has protected accesses, and a thread built from them is a genuine locked program -/
example : protectedAccesses.length > 10 := by decide
example : protectedAccesses.any (fun a => a.write && a.isMap && (siteTrace (a, 0)).length == 3) = true := by decide
/-- the published reads are sites outside every section -/
example : accesses.any (fun a => !isRW a.guard && (siteTrace (a, 0)).length == 1) = true := by decide

/-- if a `Lock` is stripped, the instantiation fails: an unguarded protected write violates the discipline -/
example : pubGuardedFrom 0 (fun _ => true) .N (siteTrace (⟨15, true, true, true, none, "SchemaCache.referencePackage", "x"⟩, 3)) = false := by decide

/-- A ↔ B mutually recursive, B → C shared with D, E fails (bad field), F → E. -/
def demo : Graph := [
  ⟨.obj, true, [⟨1, "", .ref 1⟩]⟩,                      -- 0 A
  ⟨.obj, true, [⟨1, "", .ref 0⟩, ⟨2, "a", .ref 2⟩]⟩,     -- 1 B
  ⟨.enm, true, []⟩,                                      -- 2 C
  ⟨.oneof, true, [⟨1, "", .ref 2⟩, ⟨2, "", .ref 3⟩]⟩,    -- 3 D (self recursive)
  ⟨.obj, true, [⟨1, "", .bad⟩]⟩,                         -- 4 E
  ⟨.obj, true, [⟨1, "m", .ref 0⟩, ⟨2, "", .ref 4⟩]⟩]     -- 5 F

example : (schemaOf demo emptyCache 0).2 = .ok := by decide
example : (schemaOf demo emptyCache 5).2 = .err ∧ (schemaOf demo emptyCache 5).1 = [] := by decide
/-- warm cache containing part of the closure (C via D), then A: same answer as alone -/
example : (schemaOf demo (runReqs demo emptyCache [3, 5]) 0).2 = .ok ∧
    [0, 1, 2].all (fun m => decide (find (schemaOf demo (runReqs demo emptyCache [3, 5]) 0).1 m = find (schemaOf demo emptyCache 0).1 m)) = true ∧
    find (runReqs demo emptyCache [3, 5]) 2 = some (some (shallow demo 2)) ∧ find (runReqs demo emptyCache [3, 5]) 4 = none := by decide
example : Reachable demo (runReqs demo emptyCache [3, 5]) := reachable_runReqs demo _ Reachable.empty _
/-- The algorithm as it was before `ccb2fec` (no roll-back of a failed build) is *not* transparent:
X → Y, Y fails, Z → Y. After the failed request X the placeholder of Y stays registered, so Z
"succeeds" with an unlinked reference although Z alone is rejected. (The witness of the fixed defect.) -/
def schemaOfNoRollback (G : Graph) (c : Cache) (d : Nat) : Cache × Res :=
  match find c d with
  | some (some _) => (c, .ok)
  | some none => (c, .err)
  | none =>
    let r := buildNode G (G.length + 1) (insert c d none) d
    if r.2 then (setTo r.1 d (shallow G d), .ok) else (r.1, .err)

def xyz : Graph := [⟨.obj, true, [⟨1, "", .ref 1⟩]⟩, ⟨.obj, true, [⟨1, "", .bad⟩]⟩, ⟨.obj, true, [⟨1, "", .ref 1⟩]⟩]

example : (schemaOfNoRollback xyz emptyCache 2).2 = .err ∧
    (schemaOfNoRollback xyz (schemaOfNoRollback xyz emptyCache 0).1 2).2 = .ok ∧
    find (schemaOfNoRollback xyz (schemaOfNoRollback xyz emptyCache 0).1 2).1 1 = some none := by decide
/-- … and with the roll-back the same history answers as alone -/
example : (schemaOf xyz (schemaOf xyz emptyCache 0).1 2).2 = .err ∧ (schemaOf xyz (schemaOf xyz emptyCache 0).1 2).1 = [] := by decide

example : GoodFrom demo 2 := by
  intro m hm
  cases hm with
  | refl => exact ⟨_, rfl, rfl, by simp⟩
  | head _ t _ ht _ => simp [refs, demo] at ht

/-! ### the table meets the hypotheses of the instantiation -/

/-- every write site of the table on location 3, every published-read site on location 7 (which
is in `X`): the hypothesis `h` of `C10_code_hb_race_free` holds, with sites inside and outside the
lock. This instance has no conflicting accesses (writes and reads are on different locations), so it
only shows that `h` is satisfiable by the table; the witness with a real write / read conflict on a
published location, `PubOrdered` proved and violated, is `pubProg` with `pubGood` / `pubBad` above
(`C10_publication_violated_races`). -/
example :
    let gs : List (List (Access × Nat)) :=
      [(accesses.filter (·.write)).map (·, 3), (accesses.filter (fun a => !isRW a.guard)).map (·, 7)]
    (∀ g ∈ gs, ∀ s ∈ g, s.1 ∈ accesses ∧ (isRW s.1.guard = false → (fun x => x == 7) s.2 = true)) ∧
    gs.all (fun g => g.length > 10) = true := by decide

/-! ### the seeded change C10-m2 in the model: a lock split

`buildMu` (lock 0) still serialises builds, but the index is guarded by a separate `mapMu`
(lock 1) held only per map operation, and `Schema` first looks the type up under `mapMu.RLock`
alone. Location 10 = the index (`Package.Schemas`), location 11 = `RefSchema.To`. -/

def m2Prog : Prog := [
  [.lock 0, .lock 1, .write 10, .unlock 1, .write 11, .unlock 0],   -- a build: register the placeholder, …, link
  [.rlock 1, .read 10, .read 11, .runlock 1]]                        -- the lookup fast path

/-- no discipline of this file accepts it: nested acquisition; neither lock guards all accesses;
the operations are not critical sections of one lock -/
example : ¬ NoNesting m2Prog ∧ ¬ RWGuardedBy 0 m2Prog ∧ ¬ RWGuardedBy 1 m2Prog ∧
    ¬ OpsProg 0 m2Prog ∧ ¬ RWOpsProg 0 m2Prog ∧ ¬ RWOpsProg 1 m2Prog := by decide

/-- lookups are not serialised with builds: the whole lookup runs while the builder is inside its
build (it still owns `buildMu`), and it observes the index entry (1) with `To` still unset (0) —
the placeholder of a build in progress -/
example : let s := run one m2Prog [0, 0, 0, 0, 1, 1, 1, 1]
    s.owner 0 = some 0 ∧ s.rem[1]? = some [] ∧ s.logs 1 = [1, 0] := by decide

/-- … and the link that follows is a happens-before race with that lookup's read of `To` -/
example : RaceHB (trace one m2Prog [0, 0, 0, 0, 1, 1, 1, 1, 0, 0]) :=
  ⟨6, 8, ⟨1, .read 11⟩, ⟨0, .write 11⟩, 11, false, true, by decide, by decide, by decide, by decide, rfl, rfl,
    Or.inr rfl, not_hb_of_closed _ (fun a b => !(decide (4 ≤ a) && decide (a ≤ 7) && decide (8 ≤ b))) (by decide) 6 8 rfl⟩

/-- In the cache model the state such a lookup sees is the cache right after the builder registered
the placeholder, `insert c d none`. It is not a state between whole requests — the premise
`Reachable` of `C10_no_unlinked_visible` fails — and `Schema` on it answers "unlinked ref". -/
theorem C10_m2_mid_build_state (G : Graph) (c : Cache) (d : Nat) :
    ¬ Reachable G (insert c d none) ∧ (schemaOf G (insert c d none) d).2 = .err := by
  refine ⟨fun hr => ?_, by simp [schemaOf, find, J5V.Conc.Cache.insert]⟩
  have := C10_no_unlinked_visible G _ hr d none (by simp [find, J5V.Conc.Cache.insert])
  cases this

/-- the request that fails in the middle of somebody else's build succeeds alone -/
example : (schemaOf demo emptyCache 0).2 = .ok ∧ (schemaOf demo (insert emptyCache 0 none) 0).2 = .err := by decide

/-! ## Schema-name collisions: a recorded finding (`cache-history:schema-name-clash`)

`J5V.Conc.Cache` identifies a schema with its descriptor, so `C10_cache_transparent` is the
theorem for descriptor sets with distinct schema names. `splitDescriptorName` is not injective;
on the collision family (`Conc/Clash.lean`) the full statement fails and the partial one holds. -/

open J5V.Conc.Clash in
/-- the full statement on the collision family: every request answers as it does alone -/
def ClashTransparent : Prop := ∀ (rs : List Nat) (r : Nat), r < 6 → (req (run rs) r).2 = (req J5V.Conc.Clash.init r).2

open J5V.Conc.Clash in
/-- alone, every request of the family succeeds -/
theorem C10_name_clash_alone_ok : ∀ r, r < 6 → (req J5V.Conc.Clash.init r).2 = true := by decide

open J5V.Conc.Clash in
/-- `Foo_Bar` after `Foo.Bar` is a schema error, alone it is fine (the witness op `clash m 1,2,4`) -/
theorem C10_name_clash_counterexample : ¬ ClashTransparent := by
  intro h
  have := h [1] 2 (by decide)
  revert this
  decide

open J5V.Conc.Clash in
/-- … and exactly that class is the exception: as long as the requests made so far and the request
itself do not need the colliding name for *both* descriptors, the request answers as alone. -/
theorem C10_name_clash_partial (rs : List Nat) (r : Nat) (hr : r < 6)
    (h : ((r :: rs).any touchesN && (r :: rs).any touchesT) = false) :
    (req (J5V.Conc.Clash.run rs) r).2 = (req J5V.Conc.Clash.init r).2 := by
  rw [C10_name_clash_alone_ok r hr]
  simp only [List.any_cons, Bool.and_eq_false_iff, Bool.or_eq_false_iff, List.any_eq_false] at h
  rcases h with ⟨hN, hNs⟩ | ⟨hT, hTs⟩
  · have ho := J5V.Conc.Clash.clash_owner_not_N rs J5V.Conc.Clash.init (by decide) (fun x hx => by simpa using hNs x hx)
    exact (J5V.Conc.Clash.clash_step_not_N _ r ho hN).2 hr
  · have ho := J5V.Conc.Clash.clash_owner_not_T rs J5V.Conc.Clash.init (by decide) (fun x hx => by simpa using hTs x hx)
    exact (J5V.Conc.Clash.clash_step_not_T _ r ho hT).2 hr

/-- the exception is real and the hypothesis of the partial theorem is satisfiable on both sides -/
example : (J5V.Conc.Clash.req (J5V.Conc.Clash.run [0, 1, 4]) 1).2 = true ∧ (J5V.Conc.Clash.req (J5V.Conc.Clash.run [3, 5, 2]) 3).2 = true ∧
    (J5V.Conc.Clash.req (J5V.Conc.Clash.run [3]) 0).2 = false := by decide

/-! ## Any schedule of N goroutines through the cache: every call answers as it does alone

`J5V.Conc.CacheSched`: goroutine `i` makes the calls `progs i` in order on one shared cache; a
schedule is any list of goroutine numbers; the mutex is explicit (a goroutine scheduled while
another one is inside `Schema` is blocked), and so is the mid-build state of the shared maps
(`midBuild`) between the moment a call takes the mutex and the moment it finishes. -/

open J5V.Conc.CacheSched in
/-- **Concurrent = sequential = alone, on the coarse machine.** Scope: in `CacheSched.cstep` a call is two
atomic steps (take the mutex; apply `schemaOf` and release) and a goroutine that does not own the
mutex cannot touch the maps — mutual exclusion and the atomicity of the critical section are *built
into this machine*, so that the interleaving is equivalent to a sequential order holds by
construction; what the theorem adds is the composition with the cache algorithm (`schemaOf_spec`,
i.e. `C10_cache_transparent`): whatever that order is, every answer is the answer alone. No theorem
connects the traces of the fine-grained `Sched` model, or the E7 tables of the code, to `schemaOf`:
that the real `Schema` behaves like one `cstep` pair is argued from `C10_code_guarded` /
`C10_code_locksites` (E7, `decide`) and `C10_serialisable` (Sched), in prose. "Every schedule" below
means every schedule *of the coarse machine*. Statement: for every descriptor graph (recursive types, failing
builds), every reachable start cache (fresh or warm), every number of goroutines with any request
lists, every schedule (overlapping first use of one type included: the second caller blocks).
With `s` the state after the schedule:
(1) the answers in order of completion are the answers of ONE goroutine making the same requests in
    that order (`seqRes`), and the maps as of the last completed call are those of that sequential run;
(2) every goroutine's own log is its part of that history, and its requests so far + the ones left
    are its program (nothing lost, duplicated or reordered);
(3) every answer, of every goroutine, is the answer the same request gets alone on a fresh cache. -/
theorem C10_concurrent_results_eq_sequential (G : Graph) (c0 : Cache) (hc : Reachable G c0)
    (progs : Nat → List Nat) (sched : List Nat) :
    let s := crun G (init c0 progs) sched
    (s.hist.map (·.res) = seqRes G c0 (s.hist.map (·.req)) ∧ s.base = runReqs G c0 (s.hist.map (·.req))) ∧
    (∀ i, s.log i = (s.hist.filter (fun h => h.thread = i)).map (fun h => (h.req, h.res)) ∧
          (s.log i).map (·.1) ++ s.rem i = progs i) ∧
    (∀ i d r, (d, r) ∈ s.log i → r = (schemaOf G emptyCache d).2) := by
  intro s
  have hinv : J5V.Conc.CacheSched.Inv G c0 progs s := inv_run G c0 progs sched _ (inv_init G c0 progs)
  refine ⟨⟨hinv.res_eq, hinv.base_eq⟩, fun i => ⟨hinv.log_eq i, hinv.prog i⟩, ?_⟩
  intro i d r hm
  rw [hinv.log_eq i] at hm
  obtain ⟨e, he, heq⟩ := List.mem_map.mp hm
  have := hist_alone G c0 hc progs s hinv e (List.mem_filter.mp he).1
  simp only [Prod.mk.injEq] at heq
  rw [← heq.1, ← heq.2]
  exact this

open J5V.Conc.CacheSched in
/-- Between calls (mutex free) the shared maps are a between-requests state (`Reachable`): what a
goroutine reads from a schema it was handed is linked (`C10_no_unlinked_visible` applies) and a
lookup at that moment answers as alone. -/
theorem C10_concurrent_quiescent_reachable (G : Graph) (c0 : Cache) (hc : Reachable G c0)
    (progs : Nat → List Nat) (sched : List Nat)
    (hq : (crun G (init c0 progs) sched).holder = none) :
    Reachable G (crun G (init c0 progs) sched).cache ∧
    ∀ d, peek G (crun G (init c0 progs) sched) d = (schemaOf G emptyCache d).2 := by
  have hinv : J5V.Conc.CacheSched.Inv G c0 progs _ := inv_run G c0 progs sched _ (inv_init G c0 progs)
  have hb := hinv.base_eq
  simp only [CState.base, hq] at hb
  have hr : Reachable G (crun G (init c0 progs) sched).cache := by
    rw [hb]; exact reachable_runReqs G c0 hc _
  exact ⟨hr, fun d => alone_of_reachable G _ hr d⟩

/-- three goroutines on the demo graph, fresh cache: 0 and 1 both start with `A` (mutually recursive
with `B`), 1 is scheduled while 0 is inside the build (blocked), 2 asks for the failing `F` twice
and for `E`; goroutine 0 then asks for `F` after 2's failed build was rolled back. -/
def demoProgs : Nat → List Nat
  | 0 => [0, 5]
  | 1 => [0, 3]
  | 2 => [5, 4, 5]
  | _ => []

def demoSched : List Nat := [0, 1, 2, 1, 0, 1, 2, 2, 1, 0, 2, 1, 1, 0, 0, 2, 2, 2, 2, 1, 1, 2, 2]

open J5V.Conc.CacheSched in
example : let s := crun demo (init emptyCache demoProgs) demoSched
    s.log 0 = [(0, .ok), (5, .err)] ∧ s.log 1 = [(0, .ok), (3, .ok)] ∧
    s.log 2 = [(5, .err), (4, .err), (5, .err)] ∧ s.holder = none ∧
    s.hist.map (·.thread) = [0, 1, 0, 2, 2, 1, 2] ∧ (∀ i, i < 3 → s.rem i = []) := by decide

open J5V.Conc.CacheSched in
/-- The mutex is what makes it true: a lookup that reads the maps without it, while goroutine 0 is
building `A`, answers "unlinked ref" where the same request alone succeeds (seeded change C10-m2). -/
theorem C10_unlocked_lookup_differs :
    peek demo (crun demo (init emptyCache demoProgs) [0]) 0 = .err ∧ (schemaOf demo emptyCache 0).2 = .ok := by
  decide

open J5V.Conc.CacheSched in
/-- **No deadlock, no lost call** in the same coarse machine (one mutex, released by the step that
finishes the call: such a machine cannot deadlock by design — the theorem records that, plus "the
owner always has work" and "quiescent ⇒ everything answered"; deadlock freedom of the lock *usage*
in the fine-grained model is `C10_no_deadlock`, of the code `C10_code_locksites`), in every state any
schedule of the coarse machine reaches:
(1) while some goroutine has a request left, some goroutine can move (the owner of the mutex, else
    any goroutine with a request), and a goroutine that can move makes progress: its step starts or
    finishes a call (`progress` = 2 × finished calls + 1 for a call in progress grows by one);
(2) a goroutine that cannot move (blocked on the mutex, or done) changes nothing by being scheduled;
(3) the owner of the mutex always has the call it is serving on its list, so the mutex is never
    held by a goroutine that is done;
(4) when nobody can move, the mutex is free and every goroutine has an answer for every request
    of its program, in order. -/
theorem C10_concurrent_no_deadlock (G : Graph) (c0 : Cache) (progs : Nat → List Nat) (sched : List Nat) :
    let s := crun G (init c0 progs) sched
    ((∃ i, s.rem i ≠ []) → ∃ j, enabled s j = true) ∧
    (∀ j, enabled s j = true → (cstep G s j).progress = s.progress + 1) ∧
    (∀ j, enabled s j = false → cstep G s j = s) ∧
    (∀ j d b, s.holder = some (j, d, b) → s.rem j ≠ []) ∧
    ((∀ j, enabled s j = false) → s.holder = none ∧ ∀ i, (s.log i).map (·.1) = progs i) := by
  intro s
  have hinv : J5V.Conc.CacheSched.Inv G c0 progs s := inv_run G c0 progs sched _ (inv_init G c0 progs)
  refine ⟨fun ⟨i, hi⟩ => work_left_enabled s i hi, fun j hj => cstep_enabled G s j hj,
    fun j hj => cstep_blocked G s j hj, fun j d b hh => holder_has_work G c0 progs s hinv j d b hh, ?_⟩
  intro hnone
  have hfree : s.holder = none := by
    cases hh : s.holder with
    | none => rfl
    | some hd =>
      obtain ⟨j, d, b⟩ := hd
      have := hnone j
      simp [enabled, hh] at this
  refine ⟨hfree, fun i => ?_⟩
  have hrem : s.rem i = [] := by
    have := hnone i
    simpa [enabled, hfree] using this
  have := hinv.prog i
  rw [hrem] at this
  simpa using this

open J5V.Conc.CacheSched in
/-- on the demo schedule: nobody can move at the end, 7 calls finished, progress 14 -/
example : let s := crun demo (init emptyCache demoProgs) demoSched
    (∀ j, j < 4 → enabled s j = false) ∧ s.progress = 14 ∧
    enabled (crun demo (init emptyCache demoProgs) [0, 1]) 1 = false ∧
    enabled (crun demo (init emptyCache demoProgs) [0, 1]) 0 = true := by decide

end J5V.Props.C10
