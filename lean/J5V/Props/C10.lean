import J5V.Conc.SchedProofs
import J5V.Conc.SchedLocal
import J5V.Conc.CacheProofs
import J5V.Generated.LocksFacts
/-!
# C10 — shared codecs and schema caches are safe for concurrent use

Only the property theorems (and their non-vacuity examples) live here.

* `Sched` part: for **any** number of threads, **any** thread programs and **any** schedule —
  a lock discipline excludes data races (`C10_guarded_race_free`), flat locking excludes deadlock
  (`C10_no_deadlock`), and when every operation is one critical section every schedule produces
  exactly the state (memory, every thread's observations) of a sequential execution of the
  operations in some order (`C10_serialisable`).
* `Cache` part: for **any** descriptor graph (shared sub-schemas, self / mutual recursion, failing
  members) and **any** cache reachable by earlier requests, a request returns what it returns on
  an empty cache (`C10_cache_transparent`); a failed request leaves no trace; what has been
  returned is never modified again.
* Code part: the table regenerated from the Go source by `extract/locks.go` satisfies the
  discipline (`C10_code_guarded`, `C10_code_locksites`, `C10_code_no_unknown`: `decide` over the
  whole table), hence programs made of the extracted access sites are race free
  (`C10_code_race_free`).

Scope ("partial"): the theorems are about the lock discipline the extractor can see and about
the cache algorithm; the Go memory model (a mutex release happens-before the next acquire), the
Go runtime and thread-safety inside protobuf-go are trusted. Reads of schema fields after
`Schema` has returned are outside the lock by design; they are covered by
`C10_published_frozen` (write-once before publication) plus the trusted happens-before edge.
-/
namespace J5V.Props.C10
open J5V.Conc.Sched J5V.Conc.Cache

/-! ## Any N, any schedule -/

/-- Lock discipline ⇒ no data race, in every state reachable under every schedule. -/
theorem C10_guarded_race_free (wv : WriteFn) (l : Nat) (p : Prog) (h : AllGuardedBy l p) :
    ∀ sched : List Nat, ¬ Race (run wv p sched) :=
  fun sched => ginv_no_race l _ (ginv_runFrom wv l sched _ (ginv_init l p h))

/-- No nested acquisition (any number of locks) ⇒ as long as some thread is unfinished, some
thread can take a step, in every state reachable under every schedule. -/
theorem C10_no_deadlock (wv : WriteFn) (p : Prog) (h : NoNesting p) (sched : List Nat)
    (hnd : ¬ AllDone (run wv p sched)) : ∃ i, Enabled (run wv p sched) i :=
  finv_enabled _ (finv_runFrom wv sched _ (finv_init p h)) hnd

/-- An enabled thread really moves: its next action is consumed. -/
theorem C10_enabled_progress (wv : WriteFn) (s : State) (i : Nat) (h : Enabled s i) :
    ∃ a r, s.rem[i]? = some (a :: r) ∧ (step wv s i).rem = s.rem.set i r :=
  enabled_step_rem wv s i h

/-- … until all are done: whatever has been scheduled so far, the run can be completed (every
thread finishes all its calls; nobody is blocked for ever). -/
theorem C10_can_finish (wv : WriteFn) (p : Prog) (h : NoNesting p) (sched : List Nat) :
    ∃ more : List Nat, AllDone (run wv p (sched ++ more)) := by
  obtain ⟨more, hm⟩ := finv_can_finish wv _ (run wv p sched) (finv_runFrom wv sched _ (finv_init p h)) rfl
  exact ⟨more, by simpa [run, runFrom, List.foldl_append] using hm⟩

/-- Every operation one critical section ⇒ every reachable state is a sequential state plus a
proper prefix of one operation of one thread. -/
theorem C10_serialisable_prefix (wv : WriteFn) (l : Nat) (p : Prog) (h : OpsProg l p) (sched : List Nat) :
    (∃ order, run wv p sched = runSeq wv p order) ∨
    (∃ order i k, run wv p sched = stepN wv (runSeq wv p order) i k ∧
        0 < k ∧ k < opLen ((runSeq wv p order).rem.getD i [])) := by
  rcases good_run wv l p h sched with ⟨_, order, ho⟩ | ⟨i, s0, order, k, _, hs0, hs', hk, hlen, hpos, _⟩
  · exact Or.inl ⟨order, ho⟩
  · refine Or.inr ⟨order, i, k, ?_, hk, ?_⟩
    · rw [hs', hs0]; rfl
    · have : s0 = runSeq wv p order := hs0
      rw [← this]; omega

/-- … and a completed run is exactly a sequential execution of the operations in some order:
same memory, same observations of every thread. -/
theorem C10_serialisable (wv : WriteFn) (l : Nat) (p : Prog) (h : OpsProg l p) (sched : List Nat)
    (hdone : AllDone (run wv p sched)) : ∃ order, run wv p sched = runSeq wv p order := by
  rcases good_run wv l p h sched with ⟨_, order, ho⟩ | ⟨i, _, _, _, _, _, _, _, _, _, _, ⟨ti, hti, hshi⟩, _⟩
  · exact ⟨order, ho⟩
  · have := hdone i ti hti
    subst this
    simp [opsShape] at hshi

/-- The same when threads also take local steps between their operations (the work a goroutine does
with what a call returned): the results — shared memory and everything each thread has read — of a
completed run are those of a sequential execution of the operations in some order. -/
theorem C10_serialisable_local (wv : WriteFn) (l : Nat) (p : Prog) (h : OpsProgT l p) (sched : List Nat)
    (hdone : AllDone (run wv p sched)) :
    ∃ order, (run wv p sched).mem = (runSeq wv (stripProg p) order).mem ∧
      (run wv p sched).logs = (runSeq wv (stripProg p) order).logs := by
  obtain ⟨sched', hrel⟩ := rel_runFrom wv l sched (init p) (init (stripProg p)) (rel_init l p) (tinv_init l p h)
  have hdone' := rel_allDone l _ _ hrel hdone
  obtain ⟨order, ho⟩ := C10_serialisable wv l (stripProg p) (opsProg_strip l p h) sched' hdone'
  obtain ⟨_, hm, hlg, _, _⟩ := hrel
  refine ⟨order, ?_, ?_⟩
  · rw [← ho]; exact hm.symm
  · rw [← ho]; exact hlg.symm

/-! ## The cache -/

/-- A request returns what it returns alone, whatever was cached before: same verdict, and on
success the same linked schema for every schema reachable from the root. -/
theorem C10_cache_transparent (G : Graph) (c : Cache) (hc : Reachable G c) (d : Nat) :
    (schemaOf G c d).2 = (schemaOf G emptyCache d).2 ∧
    ((schemaOf G c d).2 = .ok → ∀ m, Reach G d m →
      find (schemaOf G c d).1 m = some (some (shallow G m)) ∧
      find (schemaOf G emptyCache d).1 m = some (some (shallow G m))) := by
  obtain ⟨i1, v1, d1, _, _⟩ := schemaOf_spec G c (reachable_inv G c hc) d
  obtain ⟨i2, v2, d2, _, _⟩ := schemaOf_spec G emptyCache (inv_empty G) d
  have hverdict : (schemaOf G c d).2 = (schemaOf G emptyCache d).2 := by
    cases h1 : (schemaOf G c d).2 with
    | ok => exact (v2.mpr (v1.mp h1)).symm
    | err =>
      cases h2 : (schemaOf G emptyCache d).2 with
      | ok => rw [v1.mpr (v2.mp h2)] at h1; cases h1
      | err => rfl
  refine ⟨hverdict, fun hok m hm => ?_⟩
  have linkedIn : ∀ c', Inv G c' → Dom c' d → find c' m = some (some (shallow G m)) := by
    intro c' hi hd
    have := inv_reach_dom G c' hi d m hm hd
    unfold Dom at this
    cases hf : find c' m with
    | none => simp [hf] at this
    | some e => rw [(hi m e hf).1]
  exact ⟨linkedIn _ i1 (d1 hok), linkedIn _ i2 (d2 (hverdict ▸ hok))⟩

/-- Consequence for any sequence of requests (= any sequential order of the calls of any number
of goroutines, by `C10_serialisable`): the k-th call answers as it would alone. -/
theorem C10_calls_as_alone (G : Graph) (ds : List Nat) (d : Nat) :
    (schemaOf G (runReqs G emptyCache ds) d).2 = (schemaOf G emptyCache d).2 :=
  (C10_cache_transparent G _ (reachable_runReqs G _ Reachable.empty ds) d).1

/-- No caller can observe a placeholder: between calls every registered ref is linked. -/
theorem C10_no_unlinked_visible (G : Graph) (c : Cache) (hc : Reachable G c) (m : Nat) (e : Entry)
    (h : find c m = some e) : e = some (shallow G m) :=
  (reachable_inv G c hc m e h).1

/-- A failed request leaves the cache as it found it. -/
theorem C10_failed_build_leaves_no_trace (G : Graph) (c : Cache) (hc : Reachable G c) (d : Nat)
    (h : (schemaOf G c d).2 = .err) : ∀ m, find (schemaOf G c d).1 m = find c m :=
  (schemaOf_spec G c (reachable_inv G c hc) d).2.2.2.2 h

/-- Published schemas are frozen: an entry, once visible, is never changed by later requests
(so reads outside the lock of what `Schema` returned never conflict with a later write). -/
theorem C10_published_frozen (G : Graph) (c : Cache) (hc : Reachable G c) (ds : List Nat) (m : Nat)
    (e : Entry) (h : find c m = some e) : find (runReqs G c ds) m = some e := by
  induction ds generalizing c with
  | nil => exact h
  | cons d ds ih =>
    exact ih _ (Reachable.step c d hc) ((schemaOf_spec G c (reachable_inv G c hc) d).2.2.2.1 m e h)

/-- The recursion bound of the model is never the reason for a failure. -/
theorem C10_fuel_never_exhausted (G : Graph) (c : Cache) (n : Nat) (hg : GoodFrom G n) :
    (buildNode G (G.length + 1) c n).2 = true :=
  buildNode_fuel_enough G _ c n (Nat.lt_succ_of_le (unreg_le G c)) hg

/-! ## The code: obligations over the table regenerated from the Go source (E7) -/

open J5V.Generated.Locks

def muId : Nat := lockNames.findIdx (· == "mu")

/-- accesses that the discipline requires to be under the lock: every write to a location that is
mutated after construction, and every access to a map or to a field of the struct that owns the
mutex (the cache index) -/
def mustGuard (a : Access) : Bool := a.write || a.isMap || a.lockOwner

def codeGuarded : Bool := accesses.all (fun a => !mustGuard a || a.guard == some muId)

def codeLockSites : Bool :=
  lockSites.all (fun s => !s.nested && (if s.lock == muId then s.deferredUnlock else s.leaf)) &&
  lockSites.any (fun s => s.lock == muId)

/-- The extractor found the three `Codec` entry points, the lock and guarded map writes. -/
theorem C10_code_extracted :
    rootsFound = 3 ∧ lockNames[muId]? = some "mu" ∧
    accesses.any (fun a => a.write && a.isMap && a.guard == some muId) = true := by decide

/-- Every access that must be guarded is dominated by `mu.Lock()` + deferred `Unlock` or lies in a
helper only called with `mu` held. This is what breaks when a `Lock` is stripped or a map write
moves outside the lock. -/
theorem C10_code_guarded : codeGuarded = true := by decide

/-- Every acquisition of `mu` releases by `defer`, no acquisition is reachable from a position
where a lock is already held (no nesting), other locks are leaf locks. -/
theorem C10_code_locksites : codeLockSites = true := by decide

/-- Nothing the extractor could not classify. -/
theorem C10_code_no_unknown : unknownLocations = 0 := by decide

def protectedAccesses : List Access := accesses.filter mustGuard

def act (a : Access) : Action := if a.write then .write a.loc else .read a.loc

/-- the trace of one extracted access site: inside a critical section of lock 0 iff the table says
`mu` guards it (one section per access: finer than the code, hence more interleavings) -/
def eventTrace (a : Access) : Thread :=
  if a.guard == some muId then [.lock 0, act a, .unlock 0] else [act a]

def codeThread (sites : List Access) : Thread := sites.flatMap eventTrace

theorem codeThread_guarded (sites : List Access) (h : ∀ a ∈ sites, a ∈ protectedAccesses) :
    guardedFrom 0 false (codeThread sites) = true := by
  induction sites with
  | nil => rfl
  | cons a sites ih =>
    have ha := h a (List.mem_cons_self ..)
    have hg : (a.guard == some muId) = true := by
      have hall := C10_code_guarded
      unfold codeGuarded at hall
      rw [List.all_eq_true] at hall
      have hm := List.mem_filter.mp ha
      have := hall a hm.1
      simpa [hm.2] using this
    have hrest := ih (fun b hb => h b (List.mem_cons_of_mem a hb))
    simp only [codeThread, List.flatMap_cons, eventTrace, hg, if_true] at hrest ⊢
    unfold act
    cases a.write <;> simpa [guardedFrom, codeThread] using hrest

/-- Any number of goroutines, each performing any sequence of the extracted protected access
sites, under any schedule: no data race. -/
theorem C10_code_race_free (wv : WriteFn) (gs : List (List Access))
    (h : ∀ g ∈ gs, ∀ a ∈ g, a ∈ protectedAccesses) :
    ∀ sched : List Nat, ¬ Race (run wv (gs.map codeThread) sched) := by
  apply C10_guarded_race_free wv 0
  intro t ht
  obtain ⟨g, hg, rfl⟩ := List.mem_map.mp ht
  exact codeThread_guarded g (h g hg)

/-- The literal form: the thread that performs every protected access site of the table once is
guarded by lock 0 (= `mu`). -/
theorem C10_code_allGuardedBy : AllGuardedBy 0 [codeThread protectedAccesses] := by
  intro t ht
  simp only [List.mem_singleton] at ht
  subst ht
  exact codeThread_guarded protectedAccesses (fun _ h => h)

/-! ## Non-vacuity -/

/-- a real race: two threads, unguarded write and read of the same location -/
example : Race (run (fun _ _ _ => 1) [[.write 7], [.read 7]] []) :=
  ⟨0, 1, by decide, .write 7, .read 7, [], [], 7, true, false, rfl, rfl, rfl, rfl, Or.inl rfl⟩

/-- … the same accesses under a lock satisfy the hypothesis of `C10_guarded_race_free` -/
example : AllGuardedBy 0 [[.lock 0, .write 7, .unlock 0], [.tau, .lock 0, .read 7, .unlock 0, .lock 3, .unlock 3]] := by decide
example : ¬ AllGuardedBy 0 [[.lock 0, .write 7, .unlock 0], [.read 7]] := by decide

/-- flat locking with two locks; nesting is rejected -/
example : NoNesting [[.lock 0, .write 7, .unlock 0, .lock 1, .tau, .unlock 1], [.lock 1, .unlock 1, .lock 0, .read 7, .unlock 0]] := by decide
example : ¬ NoNesting [[.lock 0, .lock 1, .unlock 1, .unlock 0]] := by decide

/-- the classic deadlock is a nested program and really is stuck: both threads unfinished, none enabled -/
example : let s := run (fun _ _ _ => 0) [[.lock 0, .lock 1, .unlock 1, .unlock 0], [.lock 1, .lock 0, .unlock 0, .unlock 1]] [0, 1]
    (¬ AllDone s) ∧ ∀ i, ¬ Enabled s i := by
  refine ⟨fun h => by have := h 0 _ rfl; simp at this, ?_⟩
  intro i ⟨a, r, hr, hen⟩
  match i with
  | 0 => simp [run, runFrom, step, init, upd] at hr; obtain ⟨rfl, _⟩ := hr; simp [run, runFrom, step, init, upd] at hen
  | 1 => simp [run, runFrom, step, init, upd] at hr; obtain ⟨rfl, _⟩ := hr; simp [run, runFrom, step, init, upd] at hen
  | n + 2 => simp [run, runFrom, step, init, upd] at hr

/-- operations as critical sections -/
example : OpsProg 0 [[.lock 0, .read 1, .write 1, .unlock 0, .lock 0, .write 2, .unlock 0], [.lock 0, .read 1, .write 1, .unlock 0]] := by decide

example : OpsProgT 0 [[.tau, .lock 0, .read 1, .write 1, .unlock 0, .tau, .tau, .lock 0, .write 2, .unlock 0, .tau], [.lock 0, .read 1, .unlock 0]] := by decide

/-- the table has protected accesses, and a thread built from them is a genuine locked program -/
example : protectedAccesses.length > 10 := by decide
example : protectedAccesses.any (fun a => a.write && a.isMap && (eventTrace a).length == 3) = true := by decide

/-- if a `Lock` is stripped, the instantiation fails: an unguarded protected write violates the discipline -/
example : guardedFrom 0 false (eventTrace ⟨15, true, true, true, none, "SchemaCache.referencePackage", "x"⟩) = false := by decide

/-- A ↔ B mutually recursive, B → C shared with D, E fails (bad field), F → E. -/
def demo : Graph := [
  ⟨.obj, true, [⟨1, "", .ref 1⟩]⟩,                      -- 0 A
  ⟨.obj, true, [⟨1, "", .ref 0⟩, ⟨2, "a", .ref 2⟩]⟩,     -- 1 B
  ⟨.enm, true, []⟩,                                      -- 2 C
  ⟨.oneof, true, [⟨1, "", .ref 2⟩, ⟨2, "", .ref 3⟩]⟩,    -- 3 D (self recursive)
  ⟨.obj, true, [⟨1, "", .bad⟩]⟩,                         -- 4 E
  ⟨.obj, true, [⟨1, "m", .ref 0⟩, ⟨2, "", .ref 4⟩]⟩]     -- 5 F

example : (schemaOf demo emptyCache 0).2 = .ok := by decide
example : (schemaOf demo emptyCache 5).2 = .err ∧ (schemaOf demo emptyCache 5).1 = [] := by decide
/-- warm cache containing part of the closure (C via D), then A: same answer as alone -/
example : (schemaOf demo (runReqs demo emptyCache [3, 5]) 0).2 = .ok ∧
    [0, 1, 2].all (fun m => decide (find (schemaOf demo (runReqs demo emptyCache [3, 5]) 0).1 m = find (schemaOf demo emptyCache 0).1 m)) = true ∧
    find (runReqs demo emptyCache [3, 5]) 2 = some (some (shallow demo 2)) ∧ find (runReqs demo emptyCache [3, 5]) 4 = none := by decide
example : Reachable demo (runReqs demo emptyCache [3, 5]) := reachable_runReqs demo _ Reachable.empty _
/-- The algorithm as it was before `ccb2fec` (no roll-back of a failed build) is *not* transparent:
X → Y, Y fails, Z → Y. After the failed request X the placeholder of Y stays registered, so Z
"succeeds" with an unlinked reference although Z alone is rejected. (The witness of the fixed defect.) -/
def schemaOfNoRollback (G : Graph) (c : Cache) (d : Nat) : Cache × Res :=
  match find c d with
  | some (some _) => (c, .ok)
  | some none => (c, .err)
  | none =>
    let r := buildNode G (G.length + 1) (insert c d none) d
    if r.2 then (setTo r.1 d (shallow G d), .ok) else (r.1, .err)

def xyz : Graph := [⟨.obj, true, [⟨1, "", .ref 1⟩]⟩, ⟨.obj, true, [⟨1, "", .bad⟩]⟩, ⟨.obj, true, [⟨1, "", .ref 1⟩]⟩]

example : (schemaOfNoRollback xyz emptyCache 2).2 = .err ∧
    (schemaOfNoRollback xyz (schemaOfNoRollback xyz emptyCache 0).1 2).2 = .ok ∧
    find (schemaOfNoRollback xyz (schemaOfNoRollback xyz emptyCache 0).1 2).1 1 = some none := by decide
/-- … and with the roll-back the same history answers as alone -/
example : (schemaOf xyz (schemaOf xyz emptyCache 0).1 2).2 = .err ∧ (schemaOf xyz (schemaOf xyz emptyCache 0).1 2).1 = [] := by decide

example : GoodFrom demo 2 := by
  intro m hm
  cases hm with
  | refl => exact ⟨_, rfl, rfl, by simp⟩
  | head _ t _ ht _ => simp [refs, demo] at ht

end J5V.Props.C10
